# -*- coding: utf-8 -*-
"""
C15 (gap round) — more of the real code behind "liquid-liquid and solid-liquid splits meet their equilibrium and labelling
rules" under contract: histories on one remembered solver that the first rounds did not look at, alternative entry points
(enthalpy-specified sle calls, `update=False` lle calls, the .lle / .sle accessors of single-phase streams and of
multi-phase streams that lack a phase, proxies, copies, pressure given) and callee requirements of the assumed models.

Every top-level ensures clause is a sentence of C15 (helpers of contracts/C15_lle_sle.py are reused, not changed):
  * SLE moves only the named solute, never dissolves more than the solubility it computed (or was given) allows nor more
    than is present, a pure solute is all liquid above its melting point and all solid below; "the solubility it computed"
    is the eutectic solubility evaluated with the melting point, heat of fusion, heat capacities and activity coefficient
    OF THE NAMED SOLUTE in the present liquid (anchor SLE._solve_x), whatever was called before on the same stream;
  * LLE: the top chemical has its larger mass fraction in 'L', flows are proportional to the feed, remembered coefficients
    are reused only for the chemicals, temperature and composition they were stored for (a call never returns the equilibrium
    of an earlier temperature or composition) - stated for every form of call (writing, describe-only) and entry point; the
    state a describe-only call leaves behind is the entry state of the modular reuse proof C15/lle_reuse_step.
Clauses named "requires of ..." are caller obligations towards an ASSUMED callee contract (A-models): the real caller must
hand the activity-coefficient model a composition vector for exactly the chemicals the model was built for.
"""
import numpy as np
import thermosteam as tmo
from thermosteam import equilibrium as eq
from engine.api import group
from engine.sx import tmo_world as W
from contracts import C15_lle_sle as B

Env, flows_now, rep_ok, plant, dist_of, w_total, decide = B.Env, B.flows_now, B.rep_ok, B.plant, B.dist_of, B.w_total, B.decide
lle_mod, sle_mod = B.lle_mod, B.sle_mod
NOT_NORMAL = B.NOT_NORMAL
SOLUTE, SOLUTE2 = B.SOLUTE, B.SOLUTE2            # Tetradecanol (Tm 312.65 K), Hexadecanol (Tm 322.65 K)
PKGS = B.PKGS

PKGS['TWH'] = ('Tetradecanol', 'Water', 'Hexadecanol')          # solutes first / last, solvent in the middle
PKGS['WMTH'] = ('Water', 'Methanol', 'Tetradecanol', 'Hexadecanol')
W.preload([PKGS['TWH'], PKGS['WMTH']])


# =========================================================================== 1. SLE: whose solubility is computed (mode S)

class RecGamma(eq.ActivityCoefficients):
    """
    A-models: activity coefficients are arbitrary positive numbers, one per chemical the model was built for.
    requires (checked as a caller obligation): the composition vector has one entry per chemical the model was built for,
    entry i is the mole fraction of chemical i in the present liquid, and every chemical in the liquid is one of them.
    """
    __slots__ = ('env', 'IDs')
    env_now = None

    def __init__(self, chemicals):
        self._chemicals = tuple(chemicals)
        self.IDs = [c.ID for c in chemicals]
        self.env = RecGamma.env_now

    def __call__(self, x, T):
        env = self.env
        w = env.w
        rec = env.rec
        x = list(x)
        now = flows_now(rec['stream'])
        allIDs = rec['stream'].chemicals.IDs
        F = w_total([now['l', ID] for ID in allIDs])
        ok = [len(x) == len(self.IDs)]
        ok += [ID in self.IDs for ID in allIDs if not (now['l', ID].__class__ is float and now['l', ID] == 0.)]
        if all(ok):
            ok += [w.eq(x[i] * F, now['l', ID]) for i, ID in enumerate(self.IDs)]
        rec['gamma_requires'].append(w.And(*ok))
        out = [env.pos(f'gamma.{ID}') for ID in self.IDs]
        rec['gamma_last'] = dict(zip(self.IDs, out))
        rec['gamma_T'] = T
        return env.arr(out)

    f = None
    args = ()


class OwnedCn:
    """A-models: heat capacities are arbitrary positive numbers; the values handed out per chemical and phase are remembered."""

    def __init__(self, env, ID):
        self.env, self.ID = env, ID

    def _v(self, ph):
        v = self.env.pos(f'Cn.{ph}.{self.ID}')
        self.env.rec['Cn_last'].setdefault((self.ID, ph), []).append(v)
        return v

    def l(self, T, *a): return self._v('l')
    def s(self, T, *a): return self._v('s')
    def g(self, T, *a): return self._v('g')
    def __call__(self, phase, T, *a): return self._v(phase)


def install_recording_sle_stubs(env, IDs, stream_getter=None):
    """
    A-models / A-iter as in C15/sle, with the ARGUMENTS of the eutectic formula and of the activity-coefficient model recorded:
    every evaluation of solubility_eutectic must be for the melting point, heat of fusion and heat capacities of the solute
    named in this call at the temperature asked for, and for an activity coefficient that is 1 (first guess / ideal liquid) or the
    NAMED solute's coefficient from the latest evaluation of the model.
    """
    w = env.w
    env.rec = rec = {'stream': None, 'gamma_requires': [], 'eutectic_args': [], 'gamma_last': None, 'gamma_T': None, 'Cn_last': {},
                     'solute': None, 'computed': []}

    class StubFlx:
        @staticmethod
        def aitken(f, x, xtol=None, args=(), maxiter=50, **kw):
            env.count('aitken')
            r = env.leaf('aitken_x')
            for _ in range(env.k):
                r = env.leaf('aitken_x')
                f(r, *args)
            return r

        def __getattr__(self, name):
            raise AssertionError(f'unexpected flexsolve call in sle.py: {name}')

    def solubility_eutectic(T, Tm, Hm, Cpl=0., Cps=0., gamma=1.):
        chem = W.chemical(rec['solute'])
        ok = [float(Tm) == float(chem.Tm), float(Hm) == float(chem.Hfus)]
        for ph, v in (('l', Cpl), ('s', Cps)):
            mine = rec['Cn_last'].get((rec['solute'], ph), [])       # any value this call obtained from the solute's own model
            ok.append(w.Or(*[w.eq(v, m_) for m_ in mine]))
        if gamma.__class__ is float and gamma == 1.:
            pass
        else:
            mine = (rec['gamma_last'] or {}).get(rec['solute'])
            ok.append(mine is not None and w.And(w.eq(gamma, mine), w.eq(rec['gamma_T'], T)))
        rec['eutectic_args'].append(w.And(*ok))
        return env.leaf('x_eutectic')

    env.patch(sle_mod, 'flx', StubFlx())
    env.patch(sle_mod, 'solubility_eutectic', solubility_eutectic)
    for ID in IDs:
        env.patch(W.chemical(ID), '_Cn', OwnedCn(env, ID))
    RecGamma.env_now = env
    real_solve_x = sle_mod.SLE._solve_x

    def _solve_x(self, T):
        x = real_solve_x(self, T)
        rec['computed'].append(x)
        return x

    env.patch(sle_mod.SLE, '_solve_x', _solve_x)
    return rec


def ensure_sle_sentences(w, tag, IDs, solute, Tm, pre, now, x, T, s, P0, others_present):
    """The sentences of the property for one sle call (as in C15/sle_history)."""
    total = pre['l', solute] + pre['s', solute]
    for (ph, ID), v in sorted(now.items()):
        if ID != solute or ph not in 'ls':
            w.ensure(f'{tag}frame: only the named solute moves (between l and s), flow[{ph},{ID}] unchanged', w.eq(v, pre[ph, ID]))
    w.ensure(f'{tag}solute conserved over l+s', w.eq(now['l', solute] + now['s', solute], total))
    w.ensure(f'{tag}no more dissolved than present, nothing negative',
             w.And(w.ge(now['l', solute], 0.), w.le(now['l', solute], total), w.ge(now['s', solute], 0.)))
    w.ensure(f'{tag}frame: P unchanged', w.eq(s.P, P0))
    w.ensure(f'{tag}rep_ok (no stored zero)', rep_ok(w, s))
    if x is not None:
        other_liquid = w_total([now['l', ID] for ID in IDs if ID != solute])
        dissolved = now['l', solute]
        w.ensure(f'{tag}no more dissolved than the solubility allows (mole fraction of the solute in the liquid <= x)',
                 w.Or(w.And(w.lt(x, 0.), w.eq(dissolved, 0.)),
                      w.And(w.ge(x, 0.), w.lt(x, 1.), w.le(dissolved * (1. - x), x * other_liquid)),
                      w.ge(x, 1.)))
    if not others_present:
        w.ensure(f'{tag}pure solute: all liquid above ITS melting point, all solid below',
                 w.And(w.Implies(w.gt(T, Tm), w.And(w.eq(now['l', solute], total), w.eq(now['s', solute], 0.))),
                       w.Implies(w.lt(T, Tm), w.And(w.eq(now['s', solute], total), w.eq(now['l', solute], 0.)))))
    else:
        w.ensure(f'{tag}solute in a solvent: split by a solubility computed or given in this call', w.And(x is not None))


_SH = {'Water': 'W', 'Methanol': 'M', SOLUTE: 'T', SOLUTE2: 'H'}


def sle_args_configs(tier):
    """
    Histories on ONE stream (one remembered SLE solver); step = (refill or None, solute, call, k): call 'T' solubility computed,
    'Tx' given; k = evaluations of the fixed-point callback in that call (A-iter).  In every history the SET of chemicals
    present stays the same between some calls while the solute, or the form of the call, changes.
    """
    both = {'Water': '+0', SOLUTE: '+0', SOLUTE2: '0+'}
    mixT = {'Water': '+0', SOLUTE: '++'}
    fam = [
        # two solutes present, named in turn: the coefficient of the solute named NOW enters the solubility
        ('WTH', 'both:T>H', [(both, SOLUTE, 'T', 0), (None, SOLUTE2, 'T', 1)]),
        ('TWH', 'both:H>T', [(both, SOLUTE2, 'T', 0), (None, SOLUTE, 'T', 1)]),
        # a chemical of the package is absent; given solubility between two computed ones
        ('WMT', 'mixT:T>Tx>T', [(mixT, SOLUTE, 'T', 0), (None, SOLUTE, 'Tx', 0), (None, SOLUTE, 'T', 1)]),
        ('TWH', 'mixT:Tx>T', [(mixT, SOLUTE, 'Tx', 0), (None, SOLUTE, 'T', 1)]),
        ('WMTH', 'both:T>Tx(H)>T', [(both, SOLUTE, 'T', 0), (None, SOLUTE2, 'Tx', 0), (None, SOLUTE, 'T', 1)]),
    ]
    if tier == 'thorough':
        fam += [
            ('WTH', 'both:T>H>T', [(both, SOLUTE, 'T', 1), (None, SOLUTE2, 'T', 1), (None, SOLUTE, 'T', 1)]),
            ('WMTH', 'both:H>Tx(T)>H>T', [(both, SOLUTE2, 'T', 0), (None, SOLUTE, 'Tx', 0), (None, SOLUTE2, 'T', 1), (None, SOLUTE, 'T', 1)]),
            ('WMT', 'mixT:T>Tx>Tx>T', [(mixT, SOLUTE, 'T', 1), (None, SOLUTE, 'Tx', 0), (None, SOLUTE, 'Tx', 0), (None, SOLUTE, 'T', 2)]),
            ('TWH', 'mixT>both:T>T(H)', [(mixT, SOLUTE, 'T', 1), (both, SOLUTE2, 'T', 1)]),
            ('WMTH', 'maybe:T>H', [({'Water': '+0', 'Methanol': '?0', SOLUTE: '+?', SOLUTE2: '?+'}, SOLUTE, 'T', 1), (None, SOLUTE2, 'T', 1)]),
        ]
    return [{'name': f'{pkg}/{nm}/k=' + ''.join(str(st[3]) for st in steps), 'pkg': pkg,
             'steps': [{'fill': f, 'solute': sol, 'call': c, 'k': k} for f, sol, c, k in steps]} for pkg, nm, steps in fam]


SLE_FUNCS = ['thermosteam.equilibrium.sle:SLE.__call__', 'thermosteam.equilibrium.sle:SLE._setup',
             'thermosteam.equilibrium.sle:SLE._update_solubility', 'thermosteam.equilibrium.sle:SLE._solve_x',
             'thermosteam.equilibrium.sle:SLE._x_iter']
A_SLE = ['A-models: solubility_eutectic, Cn, activity coefficients return arbitrary values',
         'A-iter: flx.aitken only evaluates its callback (k times, arbitrary arguments)']


@group('C15/gap_sle_solubility_args', configs=sle_args_configs, functions=SLE_FUNCS, assumptions=A_SLE)
def sle_solubility_args(w, cfg):
    """
    "Never dissolves more than the solubility it computed allows": the solubility computed in a call is the eutectic
    solubility of the solute named in THAT call (its Tm, Hfus, Cn and its activity coefficient in the present liquid), also
    when an earlier call on the same stream named another solute or was given a solubility.
    """
    W.reset_caches()
    env = Env(w, cfg)
    IDs = PKGS[cfg['pkg']]
    try:
        rec = install_recording_sle_stubs(env, IDs)
        chems = W.thermo(IDs).chemicals
        th = tmo.Thermo(chems, Gamma=RecGamma)
        s = tmo.MultiStream(None, phases=('l', 's'), thermo=th)
        rec['stream'] = s
        sle_obj = s.sle
        P0 = s.P
        now = pre = solute = None
        for n, step in enumerate(cfg['steps']):
            tag = f'call {n}: '
            if step['fill'] is not None:
                plant(w, s, f'f{n}', dist_of(cfg['pkg'], 'ls', step['fill']))
            solute = rec['solute'] = step['solute']
            env.k = step['k']
            i_sol = chems.index(solute)
            T = w.real(f'T{n}', lo=250., hi=450.)
            kw = {'T': T}
            if step['call'] == 'Tx':
                kw['solubility'] = w.real(f'x{n}')
            pre = flows_now(s)
            others_present = any(i != i_sol for ph, sv in W.rows_of(s) for i in sv.dct)
            del rec['computed'][:], rec['gamma_requires'][:], rec['eutectic_args'][:]
            rec['gamma_last'] = None
            rec['Cn_last'].clear()
            try:
                sle_obj(solute, **kw)
            except NOT_NORMAL as e:
                w.note(outcome=type(e).__name__, at_call=n)
                return
            now = flows_now(s)
            x = kw.get('solubility', rec['computed'][-1] if rec['computed'] else None)
            w.ensure(f'{tag}T is the requested temperature', w.eq(s.T, T))
            ensure_sle_sentences(w, tag, IDs, solute, float(chems[solute].Tm), pre, now, x, T, s, P0, others_present)
            if step['call'] == 'T' and others_present:
                w.ensure(f'{tag}the solubility is computed for the NAMED solute (its Tm, Hfus, Cn and its activity coefficient at this temperature)',
                         w.And(len(rec['eutectic_args']) > 0, *rec['eutectic_args']))
                w.ensure(f'{tag}requires of the activity-coefficient model: one mole fraction of the present liquid per chemical it was built for',
                         w.And(*rec['gamma_requires']))
                if step['k']:
                    w.ensure(f'{tag}the activity coefficients are evaluated', w.And(len(rec['gamma_requires']) >= step['k']))
        w.canary('canary: the solid solute is what it was + 1', w.eq(now['s', solute], pre['s', solute] + 1))
        w.note(calls=dict(env.calls), flows=now)
    finally:
        env.restore()
        RecGamma.env_now = None


# =========================================================================== 2. SLE: enthalpy-specified calls (mode S)

def stub_sle_thermo(w, IDs, gamma):
    """A-models for the enthalpy (W.stub_thermo: pure-component H uninterpreted functions of T, A-root for the temperature solvers)."""
    th0 = W.stub_thermo(w, IDs)
    return tmo.Thermo(th0.chemicals, mixture=th0.mixture, Gamma=RecGamma if gamma == 'stub' else eq.IdealActivityCoefficients)


def sle_H_configs(tier):
    """
    start: 'ls' MultiStream(l, s) / 'gl' MultiStream without a solid / 'l' single-phase Stream (the .sle accessor casts it); steps (refill or None, call, k): call 'H'
    enthalpy given, solubility computed; 'Hx' enthalpy and solubility given; 'T' / 'Tx' as in C15/sle.
    """
    pure = {SOLUTE: '+?'}
    mix = {'Water': '+0', SOLUTE: '++'}
    fam = [
        ('WT', 'ls', 'pure:H', [(pure, 'H', 0)], 'ideal'),
        ('WT', 'ls', 'mix:Hx', [(mix, 'Hx', 0)], 'ideal'),
        ('WT', 'ls', 'mix:H', [(mix, 'H', 1)], 'ideal'),
        ('WT', 'l', 'stream-mix:Hx', [({'Water': '+', SOLUTE: '+'}, 'Hx', 0)], 'ideal'),
        # a multi-phase stream that lacks the solid: the accessor adds it (new flow table, new solver); the gas is frame
        ('WT', 'gl', 'gl-mix:Tx', [({'Water': {'g': '+', 'l': '+'}, SOLUTE: {'l': '+'}}, 'Tx', 0)], 'ideal'),
        ('WT', 'ls', 'mix:T>+solid>Hx', [(mix, 'T', 0), ('add-solid', 'Hx', 0)], 'ideal'),      # the stream is edited between the calls
        ('WT', 'ls', 'pure:H>mix:T', [({SOLUTE: '+0'}, 'H', 0), (mix, 'T', 1)], 'stub'),
    ]
    if tier == 'thorough':
        fam += [
            ('WMT', 'ls', 'mix3:H', [({'Water': '+0', 'Methanol': '?0', SOLUTE: '+?'}, 'H', 1)], 'stub'),
            ('WT', 'ls', 'pure:T>H>H', [(pure, 'T', 0), (None, 'H', 0), (None, 'H', 0)], 'ideal'),
            ('WT', 'l', 'stream-pure:H', [({SOLUTE: '+'}, 'H', 0)], 'ideal'),
            ('WT', 'ls', 'mix:H>Hx', [(mix, 'H', 1), (None, 'Hx', 0)], 'ideal'),
            ('WT', 'ls', 'mix:T>Hx', [(mix, 'T', 0), (None, 'Hx', 0)], 'ideal'),
            ('WT', 'ls', 'mix:Hx>+solid>Hx', [(mix, 'Hx', 0), ('add-solid', 'Hx', 0)], 'ideal'),
        ]
    return [{'name': f'{pkg}/{start}/{nm}/gamma={gamma}/k=' + ''.join(str(st[2]) for st in steps), 'pkg': pkg, 'start': start, 'gamma': gamma,
             'steps': [{'fill': f, 'call': c, 'k': k} for f, c, k in steps]} for pkg, start, nm, steps, gamma in fam]


@group('C15/gap_sle_enthalpy', configs=sle_H_configs,
       functions=SLE_FUNCS + ['thermosteam._stream:Stream.sle', 'thermosteam._multi_stream:MultiStream.sle'],
       assumptions=A_SLE + ['A-models: pure-component enthalpies are uninterpreted functions of T (W.stub_thermo); A-root: the temperature solver '
                            'returns T* with H(T*) = H (its start value if that already satisfies the equation)',
                            'A-monotone (pure-solute clause only, ground instance at T* and Tm): the enthalpy of the returned phase split '
                            'increases strictly with temperature'])
def sle_enthalpy(w, cfg):
    """
    The enthalpy-specified entry of the same calculation: sle(solute, H=...) and sle(solute, H=..., solubility=x).  Only the
    named solute moves, no more of it dissolves than the solubility computed (in the last evaluation) or given allows nor than
    is present, and a pure solute is all liquid if it ends above its melting point and all solid if it ends below.
    """
    W.reset_caches()
    env = Env(w, cfg)
    IDs = PKGS[cfg['pkg']]
    try:
        rec = install_recording_sle_stubs(env, IDs)
        th = stub_sle_thermo(w, IDs, cfg['gamma'])
        chems = th.chemicals
        start = cfg['start']
        if len(start) > 1:
            s = tmo.MultiStream(None, phases=tuple(start), thermo=th)
        else:
            s = tmo.Stream(None, phase=start, thermo=th)
        rec['stream'] = s
        solute = rec['solute'] = SOLUTE
        i_sol = chems.index(solute)
        Tm = float(chems[solute].Tm)
        P0 = s.P
        now = pre = None
        for n, step in enumerate(cfg['steps']):
            tag = f'call {n}: '
            if step['fill'] == 'add-solid':
                # the user adds solid solute between two calls: the next call must work with what is present NOW
                row = dict(W.rows_of(s))['s']
                row.dct[i_sol] = row.dct.get(i_sol, 0.) + w.real(f'added{n}', lo=0., lo_strict=True)
            elif step['fill'] is not None:
                if any(isinstance(c, dict) for c in step['fill'].values()):
                    plant(w, s, f'f{n}', step['fill'])
                elif len(W.rows_of(s)) == 1:
                    plant(w, s, f'f{n}', {ID: {start: c} for ID, c in step['fill'].items()})
                else:
                    plant(w, s, f'f{n}', dist_of(cfg['pkg'], 'ls', step['fill']))
            env.k = step['k']
            call = step['call']
            kw = {}
            if call[0] == 'T':
                kw['T'] = w.real(f'T{n}', lo=250., hi=450.)
            else:
                kw['H'] = w.real(f'H{n}')
            if call.endswith('x'):
                kw['solubility'] = w.real(f'x{n}')
            pre0 = flows_now(s)
            others_present = any(i != i_sol for ph, sv in W.rows_of(s) for i in sv.dct)
            del rec['computed'][:], rec['gamma_requires'][:], rec['eutectic_args'][:]
            rec['gamma_last'] = None
            rec['Cn_last'].clear()
            try:
                s.sle(solute, **kw)
            except NOT_NORMAL as e:
                w.note(outcome=type(e).__name__, at_call=n)
                return
            now = flows_now(s)
            # a single-phase stream was cast to (l, s) by the accessor: its material counts as the liquid it was declared to be
            pre = {(ph, ID): pre0.get((ph, ID), 0.) for ph, ID in now}
            x = kw.get('solubility', rec['computed'][-1] if rec['computed'] else None)
            Tf = s.T
            if 'T' in kw:
                w.ensure(f'{tag}T is the requested temperature', w.eq(Tf, kw['T']))
            elif not others_present:
                # A-monotone, ground instance: the enthalpy of the returned split at its temperature and at the melting point
                phase_data = tuple(s._imol)
                HTm = s.mixture.xH(phase_data, Tm, s.P)
                HTf = s.mixture.xH(phase_data, Tf, s.P)
                w.assume(w.Or(w.And(w.gt(Tf, Tm), w.gt(HTf, HTm)), w.And(w.lt(Tf, Tm), w.lt(HTf, HTm)), w.eq(Tf, Tm)))
            ensure_sle_sentences(w, tag, IDs, solute, Tm, pre, now, x, Tf, s, P0, others_present)
            if rec['eutectic_args']:
                w.ensure(f'{tag}the solubility is computed for the NAMED solute (its Tm, Hfus, Cn and its activity coefficient at this temperature)',
                         w.And(*rec['eutectic_args']))
            if rec['gamma_requires']:
                w.ensure(f'{tag}requires of the activity-coefficient model: one mole fraction of the present liquid per chemical it was built for',
                         w.And(*rec['gamma_requires']))
        w.canary('canary: the solid solute is what it was + 1', w.eq(now['s', solute], pre['s', solute] + 1))
        w.note(calls=dict(env.calls), flows=now, T=s.T)
    finally:
        env.restore()
        RecGamma.env_now = None


# =========================================================================== 3. SLE: histories with the REAL models (mode B)

SLE_B_FILLS = {
    'W.TH': {'Water': 100., SOLUTE: 30., SOLUTE2: 30.},
    'WM.TH': {'Water': 10., 'Methanol': 10., SOLUTE: 30., SOLUTE2: 30.},
    'M.Th': {'Methanol': 20., SOLUTE: 30., SOLUTE2: 5.},
    'W.T': {'Water': 100., SOLUTE: 30.},
    'M.H': {'Methanol': 20., SOLUTE2: 30.},
    'WM.H': {'Water': 20., 'Methanol': 5., SOLUTE2: 30.},
    'T': {SOLUTE: 30.},
    'H': {SOLUTE2: 12.},
}


def sle_real_history_configs(tier):
    """step = (refill name or None, solute, call 'T' / 'Tx', dT relative to the temperature of the configuration, given solubility)"""
    T_, H_ = SOLUTE, SOLUTE2
    hist = {
        'other-solute': [('W.TH', T_, 'T', 0., None), (None, H_, 'T', 0., None)],
        'other-solute-back': [('WM.TH', H_, 'T', 0., None), (None, T_, 'T', -10., None), (None, H_, 'T', 0., None)],
        'given-between': [('M.H', H_, 'T', 0., None), (None, H_, 'Tx', 0., 0.01), (None, H_, 'T', 0., None)],
        'given-between-3': [('WM.H', H_, 'T', 0., None), (None, H_, 'Tx', 0., 0.01), (None, H_, 'T', 0., None), (None, H_, 'T', -10., None)],
        'given-first': [('M.H', H_, 'Tx', 0., 0.05), (None, H_, 'T', 0., None), (None, H_, 'T', +15., None)],
        'pure-then-mix': [('T', T_, 'T', 0., None), ('W.T', T_, 'T', 0., None), ('T', T_, 'T', +40., None)],
        'refill-other': [('M.H', H_, 'T', 0., None), ('W.T', T_, 'T', 0., None), ('WM.H', H_, 'T', -5., None), ('M.Th', T_, 'T', 0., None)],
    }
    if tier == 'thorough':
        hist.update({
            'given-between-W': [('W.T', T_, 'T', 0., None), (None, T_, 'Tx', 0., 0.01), (None, T_, 'T', 0., None)],
            'given-other-solute': [('W.TH', T_, 'T', 0., None), (None, H_, 'Tx', 0., 0.02), (None, T_, 'T', 0., None), (None, H_, 'T', 0., None)],
            'pure-pure': [('T', T_, 'T', -20., None), ('H', H_, 'T', +30., None), ('T', T_, 'T', +30., None), ('H', H_, 'T', -20., None)],
            'three-solvents': [('WM.TH', T_, 'T', 0., None), (None, H_, 'T', +5., None), ('WM.H', H_, 'T', 0., None), (None, H_, 'Tx', 0., 0.3)],
        })
    out = []
    Ts = [295.] if tier == 'quick' else [260., 280., 295., 305., 318., 340., 400.]
    for pkg in (('WMTH', 'HTMW') if tier == 'quick' else ('WMTH', 'HTMW', 'MWTH')):
        for T in Ts:
            for nm, steps in hist.items():
                out.append({'name': f'{pkg}/T={T:g}/hist={nm}', 'pkg': pkg, 'T': T,
                            'steps': [{'fill': f, 'solute': sol, 'call': c, 'dT': dT, 'x': x} for f, sol, c, dT, x in steps]})
    return out


PKGS['HTMW'] = ('Hexadecanol', 'Tetradecanol', 'Methanol', 'Water')
PKGS['MWTH'] = ('Methanol', 'Water', 'Tetradecanol', 'Hexadecanol')
W.preload([PKGS['HTMW'], PKGS['MWTH']])


def b_fill_ls(s, flows, phase='l'):
    for ph, sv in W.rows_of(s):
        sv.dct.clear()
    IDs = s.chemicals.IDs
    row = dict(W.rows_of(s))[phase]
    for ID, v in flows.items():
        row.dct[IDs.index(ID)] = float(v)


def b_raw(s):
    n = len(s.chemicals.IDs)
    return {ph: np.array([float(sv.dct.get(i, 0.)) for i in range(n)]) for ph, sv in W.rows_of(s)}


@group('C15/gap_sle_real_history', configs=sle_real_history_configs, mode='B', functions=SLE_FUNCS + ['thermosteam.utils.cache:Cache.retrieve'],
       notes='real Dortmund activity coefficients, real flexsolve; package Water/Methanol/Tetradecanol/Hexadecanol in two (thorough: three) orders; histories of 2-4 '
             'sle calls on one stream in which the solute named, the form of the call (computed / given solubility) or the contents change; '
             'every call is compared with the same call on a NEW stream of identical contents; quick: T = 295 K; thorough: 260..400 K; '
             'same split = every flow within 1e-6 of the solute present')
def sle_real_history(w, cfg):
    """
    Whatever was called before on the stream, a call dissolves no more than the solubility computed for the solute it names in the
    liquid present now: the split is the one a new stream with the same contents gets.
    """
    W.reset_caches()
    IDs = PKGS[cfg['pkg']]
    th = W.thermo(IDs)
    s = tmo.MultiStream(None, phases=('l', 's'), thermo=th)
    worst = 0.
    for n, step in enumerate(cfg['steps']):
        tag = f'call {n}: '
        if step['fill'] is not None:
            b_fill_ls(s, SLE_B_FILLS[step['fill']])
        solute = step['solute']
        i = IDs.index(solute)
        T = cfg['T'] + step['dT']
        kw = {'T': T}
        if step['call'] == 'Tx':
            kw['solubility'] = step['x']
        pre = b_raw(s)
        fresh = tmo.MultiStream(None, phases=('l', 's'), thermo=th)
        rows = dict(W.rows_of(fresh))
        for ph, a in pre.items():
            for j, v in enumerate(a):
                if v: rows[ph].dct[j] = float(v)
        try:
            fresh.sle(solute, **kw)
        except NOT_NORMAL as e:
            w.note(**{f'outcome_new_{n}': type(e).__name__})
            return
        try:
            s.sle(solute, **kw)
        except NOT_NORMAL as e:
            w.ensure(f'{tag}returns as on a new stream with the same contents', False, outcome=type(e).__name__)
            return
        now, ref = b_raw(s), b_raw(fresh)
        total = pre['l'][i] + pre['s'][i]
        others = [j for j in range(len(IDs)) if j != i]
        w.ensure(f'{tag}only the named solute moves', all(now[ph][j] == pre[ph][j] for ph in 'ls' for j in others))
        w.ensure(f'{tag}solute conserved, no more dissolved than present',
                 abs(now['l'][i] + now['s'][i] - total) <= 1e-9 * total and -1e-12 <= now['l'][i] <= total * (1 + 1e-12) and now['s'][i] >= -1e-12)
        d = max(abs(now[ph][j] - ref[ph][j]) for ph in 'ls' for j in range(len(IDs)))
        worst = max(worst, d / total)
        w.ensure(f'{tag}after the history: no more dissolved than a new stream with the same contents dissolves (same split)', d <= 1e-6 * total,
                 solute=solute, T=T, dissolved=float(now['l'][i]), new_stream=float(ref['l'][i]))
        if step['call'] == 'Tx':
            liq = now['l'].sum()
            w.ensure(f'{tag}no more dissolved than the given solubility allows', now['l'][i] <= step['x'] * liq * (1 + 1e-9) + 1e-12)
        if not any(pre[ph][j] for ph in 'ls' for j in others):
            Tm = float(th.chemicals[solute].Tm)
            w.ensure(f'{tag}pure solute: all liquid above its melting point, all solid below',
                     (now['l'][i] == total and now['s'][i] == 0.) if T > Tm else (now['s'][i] == total and now['l'][i] == 0.) if T < Tm else True)
    w.canary('canary: the stream is empty after the calls', float(sum(a.sum() for a in b_raw(s).values())) == 0.)
    w.note(worst_relative_difference=worst, flows={ph: [round(float(v), 6) for v in a] for ph, a in b_raw(s).items()})


# =========================================================================== 4. LLE: entry points and representation changes (mode S)

WO, WOE = B.WO, B.WOE
A_OPT = B.A_OPT


def install_recording_solver(env, mode):
    """A-opt stub of C15_lle_sle (deterministic function of chemicals, normalised composition, T) + a record of every consultation."""
    stub = B.install_solver(env, 'interior' if mode == 'interior5' else mode)
    inner = lle_mod.LLE.solve_lle_liquid_mol
    log = []
    w = env.w

    def solve_lle_liquid_mol(self, mol, T, lle_chemicals, single_loop):
        if getattr(env, 'earlier', False):
            # an earlier call of a history: a fixed interior answer for its fixed feed (the answer of A-opt at that feed and temperature)
            out = env.arr([float(m) * (0.2 + 0.6 * (i % 2)) for i, m in enumerate(mol)])
        else:
            out = inner(self, mol, T, lle_chemicals, single_loop)
            if mode == 'interior5':
                # 'interior5': both liquids hold at least 5 % of every chemical (a narrower requires than 'interior': its
                # counter-models are far from the 1e-16 clamp of the stored coefficients and replay faithfully with floats)
                for v, m_ in zip(out, mol):
                    w.assume(w.And(w.ge(v, 0.05 * m_), w.le(v, 0.95 * m_)))
        log.append({'IDs': [c.ID for c in lle_chemicals], 'z': list(mol), 'T': T, 'molL': list(out), 'solver_of': self})
        return out

    env.patch(lle_mod.LLE, 'solve_lle_liquid_mol', solve_lle_liquid_mol)
    return stub, log


def lle_entry_configs(tier):
    W_, O_ = 'Water', 'Octanol'
    liq = lambda ph: {W_: {ph: '+'}, O_: {ph: '+'}}
    lL = {W_: {'l': '+'}, O_: {'L': '+'}}
    fam = [
        # single-phase streams: the accessor casts them to the two liquids (everything they hold is the liquid feed)
        ('WO', ('Stream', 'l'), liq('l'), [('lle', O_, {})]),
        ('WO', ('Stream', 'g'), liq('g'), [('lle', W_, {'P': True})]),
        # a multi-phase stream that lacks a liquid: the accessor adds it (new flow table, new solver); gas / solid are frame
        ('WO', ('Multi', 'gl'), {W_: {'l': '+', 'g': '+'}, O_: {'l': '+'}}, [('lle', O_, {})]),
        ('WO', ('Multi', 'ls'), {W_: {'l': '+'}, O_: {'l': '+', 's': '+'}}, [('lle', None, {})]),
        # the representation changes between two calls at different temperatures: nothing of the earlier call may be handed out
        # (the stream is refilled between the calls: another composition as well)
        ('WO', ('Multi', 'lL'), {}, [('earlier', O_), ('phases', 'glL'), ('refill', {W_: {'l': '+', 'g': '+'}, O_: {'L': '+'}}), ('lle', O_, {})]),
        ('WO', ('Stream', 'l'), {}, [('earlier', W_), ('phase', 'l'), ('refill', liq('l')), ('lle', W_, {})]),
        ('WO', ('Multi', 'lL'), {}, [('earlier', None), ('refill', lL), ('lle', O_, {'via': 'proxy'})]),
        ('WO', ('Multi', 'lL'), {}, [('earlier', O_), ('refill', lL), ('lle', O_, {'via': 'copy'})]),
    ]
    if tier == 'thorough':
        fam += [
            ('WOE', ('Stream', 'L'), {W_: {'L': '+'}, O_: {'L': '+'}, 'Ethanol': {'L': '+'}}, [('lle', 'Ethanol', {})]),
            ('WOE', ('Multi', 'gl'), {W_: {'l': '+'}, O_: {'l': '+', 'g': '?'}, 'Ethanol': {'g': '+'}},
             [('earlier', O_), ('reset',), ('refill', {W_: {'l': '+'}, O_: {'L': '+'}, 'Ethanol': {'g': '+', 'l': '?'}}), ('lle', O_, {})]),
            ('WOE', ('Multi', 'lL'), {}, [('earlier', None), ('earlier', O_), ('phases', 'lLs'), ('earlier', W_), ('refill', {W_: {'l': '+'}, O_: {'L': '+', 's': '+'}, 'Ethanol': {'l': '+'}}), ('lle', 'Ethanol', {})]),
            ('WO', ('Multi', 'glL'), {W_: {'l': '+', 'g': '?'}, O_: {'L': '+'}},
             [('earlier', None), ('phases', 'lL'), ('earlier', O_), ('phases', 'lLs'), ('refill', {W_: {'L': '+'}, O_: {'l': '+', 's': '+'}}), ('lle', W_, {})]),
            ('WO', ('Stream', 's'), liq('s'), [('earlier', O_), ('refill', lL), ('lle', O_, {'via': 'proxy', 'P': True})]),
            ('WO', ('Multi', 'lL'), lL, [('earlier', O_), ('earlier', W_), ('refill', lL), ('lle', O_, {'via': 'copy'})]),
            ('WO', ('Multi', 'lL'), lL, [('lle', O_, {}), ('refill', lL), ('lle', None, {})]),            # both calls symbolic in full
        ]
    out = []
    for pkg, start, dist, ops in fam:
        nm = f"{pkg}/{start[0]}-{start[1]}/" + '>'.join(o[0] + (f":{o[1]}" if len(o) > 1 and o[0] in ('phases', 'phase', 'earlier') else '') +
                                                          (f"[top={o[1]}{',P' if o[2].get('P') else ''}{',' + o[2]['via'] if o[2].get('via') else ''}]" if o[0] == 'lle' else '')
                                                          for o in ops)
        out.append({'name': nm, 'pkg': pkg, 'start': list(start), 'dist': dist, 'ops': [list(o) for o in ops]})
    return out


@group('C15/gap_lle_entry_points', configs=lle_entry_configs,
       functions=['thermosteam._stream:Stream.lle', 'thermosteam._multi_stream:MultiStream.lle', 'thermosteam._stream:Stream.phases',
                  'thermosteam._multi_stream:MultiStream.phases', 'thermosteam._multi_stream:MultiStream.phase',
                  'thermosteam._multi_stream:MultiStream.reset_cache', 'thermosteam._stream:Stream.proxy', 'thermosteam._stream:Stream.copy',
                  'thermosteam.utils.cache:Cache.retrieve', 'thermosteam.equilibrium.equilibrium:Equilibrium.__init__',
                  'thermosteam.equilibrium.lle:LLE.__init__', 'thermosteam.equilibrium.lle:LLE.__call__',
                  'thermosteam.equilibrium.lle:LLE.get_liquid_mol_data'],
       assumptions=[A_OPT, 'requires: successive calls on one stream are at temperatures at least 1 K apart (the quantifier: earlier calls at OTHER temperatures)'])
def lle_entry_points(w, cfg):
    """
    The calculation as users reach it: the .lle accessor of a single-phase stream, of a multi-phase stream that lacks a liquid, of a
    proxy, of a copy; with phase-representation changes between calls.  Every call hands out the split of THIS feed at THIS
    temperature (the solver's answer x total liquid flow, or its mirror image, labelled by the top-chemical rule): never the
    split of the earlier call, never on a flow table the stream no longer uses.
    """
    W.reset_caches()
    env = Env(w, cfg)
    try:
        stub, log = install_recording_solver(env, 'interior')
        pkg = cfg['pkg']
        kind, phases = cfg['start']
        th = W.thermo(PKGS[pkg])
        s = tmo.Stream(None, phase=phases, thermo=th) if kind == 'Stream' else tmo.MultiStream(None, phases=tuple(phases), thermo=th)
        plant(w, s, 'f', cfg['dist'])
        IDs = s.chemicals.IDs
        Ts = []
        now = None
        # observation channel: a view of the liquid 'l' the user took BEFORE any call (multi-phase streams that have that phase)
        view = s['l'] if kind == 'Multi' and 'l' in phases else None
        for n, op in enumerate(cfg['ops']):
            tag = f'op {n}: '
            if op[0] == 'phases':
                s.phases = tuple(op[1])
                continue
            if op[0] == 'phase':
                s.phase = op[1]
                continue
            if op[0] == 'reset':
                s.reset_cache()
                continue
            if op[0] == 'refill':
                plant(w, s, f'f{n}', op[1])
                continue
            if op[0] == 'earlier':
                # an earlier call on the stream: fixed flows (all in its first liquid-capable row), symbolic temperature and solver answer;
                # the sentences are stated for the calls after it (a single call is C15/lle_call)
                plant(w, s, f'f{n}', {})
                row = next((sv for ph, sv in W.rows_of(s) if ph in 'lL'), W.rows_of(s)[0][1])
                for j in range(len(IDs)):
                    row.dct[j] = float(2 + (j + n) % 3)
                T = w.real(f'T{n}', lo=285., hi=355.)
                if Ts:
                    w.assume(w.ge(T, Ts[-1] + 1.))
                Ts.append(T)
                env.earlier = True
                try:
                    s.lle(T, top_chemical=op[1])
                finally:
                    env.earlier = False
                continue
            top, opt = op[1], op[2]
            T = w.real(f'T{n}', lo=285., hi=355.)
            if Ts:
                w.assume(w.ge(T, Ts[-1] + 1.))
            Ts.append(T)
            via = opt.get('via')
            target = s.copy() if via == 'copy' else s.proxy() if via == 'proxy' else s
            observed = target if via == 'copy' else s           # a proxy shares the flows: observed through the stream itself
            pre = flows_now(observed)
            pre_s = flows_now(s)
            single = len(W.rows_of(observed)) == 1
            kw = {'top_chemical': top}
            if opt.get('P'):
                kw['P'] = w.real(f'P{n}', lo=1e4, hi=1e6)
            P_before = observed.P
            n_log = len(log)
            target.lle(T, **kw)
            now = flows_now(observed)
            feed = {ID: w_total([v for (ph, i), v in pre.items() if i == ID and (single or ph in 'lL')]) for ID in IDs}
            for (ph, ID), v in sorted(now.items()):
                if ph not in 'lL':
                    w.ensure(f'{tag}frame: flow[{ph},{ID}] untouched', w.eq(v, 0. if single else pre.get((ph, ID), 0.)))
            for ID in IDs:
                w.ensure(f'{tag}total[{ID}] over l+L unchanged, nothing negative',
                         w.And(w.eq(now['l', ID] + now['L', ID], feed[ID]), w.ge(now['l', ID], 0.), w.ge(now['L', ID], 0.)))
            w.ensure(f'{tag}rep_ok (no stored zero)', rep_ok(w, observed))
            if view is not None and observed is s and type(s) is tmo.MultiStream:
                seen_l = flows_now(view)
                w.ensure(f"{tag}the liquid 'l' read through a view taken before the calls is the 'l' of this split",
                         w.And(*[w.eq(seen_l['l', ID], now['l', ID]) for ID in IDs]))
            w.ensure(f'{tag}T is the requested temperature', w.eq(observed.T, T))
            w.ensure(f'{tag}P is the requested pressure / unchanged when not given', w.eq(observed.P, kw.get('P', P_before)))
            if via == 'copy':
                after_s = flows_now(s)
                w.ensure(f'{tag}frame: the stream the copy was taken from is untouched', w.And(*[w.eq(after_s[k], pre_s[k]) for k in sorted(pre_s)]))
            asked = log[n_log:]
            w.ensure(f'{tag}at another temperature the split is solved anew for this feed (nothing of an earlier call is handed out)',
                     w.And(len(asked) == 1))
            if len(asked) == 1:
                a = asked[0]
                sIDs, z, molL = a['IDs'], a['z'], a['molL']
                F = w_total([feed[ID] for ID in sIDs])
                in_feed = [ID for ID in IDs if not (feed[ID].__class__ is float and feed[ID] == 0.)]
                w.ensure(f'{tag}the solver is asked about this feed at this temperature',
                         w.And(sIDs == in_feed, w.eq(a['T'], T), *[w.eq(z[i] * F, feed[ID]) for i, ID in enumerate(sIDs)]))
                if top is not None:
                    w.ensure(f'{tag}split = solver result x total flow (or its mirror image); top chemical {top}: mass fraction in L >= in l',
                             B.top_rule_per_unit_feed(w, observed, now, top, list(sIDs), z, molL, F))
                else:
                    straight = w.And(*[w.And(w.eq(now['L', ID], molL[i] * F), w.eq(now['l', ID], (z[i] - molL[i]) * F)) for i, ID in enumerate(sIDs)])
                    mirror = w.And(*[w.And(w.eq(now['l', ID], molL[i] * F), w.eq(now['L', ID], (z[i] - molL[i]) * F)) for i, ID in enumerate(sIDs)])
                    w.ensure(f'{tag}split = solver result x total flow (or its mirror image)', w.Or(straight, mirror))
        w.canary('canary: L stays empty', w.eq(w_total([now['L', ID] for ID in IDs]), 0.))
        w.note(solver_calls=stub.calls, flows=now, phases=[p for p, _ in W.rows_of(s)])
        B.native_guard(w)
    finally:
        env.restore()


# =========================================================================== 5. LLE: describe-only calls (update=False) (mode S)

def lle_describe_configs(tier):
    fam = [
        # pkg, pattern over 'lL', top, solver mode, what follows the describe-only call
        ('WO', {'Water': '+0', 'Octanol': '0+'}, None, 'interior', None),
        ('WO', {'Water': '+0', 'Octanol': '0+'}, 'Octanol', 'interior', None),
        ('WO', {'Water': '+0', 'Octanol': '0+'}, 'Water', 'interior5', None),
        ('WO', {'Water': '+0'}, 'Water', 'box', None),                               # fewer than two chemicals: nothing to split
        # after an earlier call on the same stream (fixed feed, other temperature): the description is that of THIS feed and temperature
        ('WO', {'Water': '+0', 'Octanol': '0+'}, 'Octanol', 'interior', 'after-full'),
        ('WO', {'Water': '+0', 'Octanol': '0+'}, None, 'interior', 'after-describe'),
    ]
    if tier == 'thorough':
        fam += [
            ('WO', {'Water': '++', 'Octanol': '+0'}, 'Water', 'interior', 'scaled'),
            ('WO', {'Water': '+0', 'Octanol': '++'}, 'Water', 'interior5', 'after-describe'),
            ('WO', {'Water': '+0', 'Octanol': '0+'}, 'Octanol', 'box', None),
            ('WO', {'Water': '+?', 'Octanol': '?+'}, 'Octanol', 'box', 'scaled'),
        ]
    return [{'name': f"{pkg}/" + ','.join(f'{k[0]}{v}' for k, v in pat.items()) + f"/top={top}/solver={mode}/then={then}",
             'pkg': pkg, 'pattern': pat, 'top': top, 'solver': mode, 'then': then} for pkg, pat, top, mode, then in fam]


def mass_rule(w, aL, al, k, MWs):
    """B.mass_fraction_rule; natively the comparison is relative to the two mass fractions themselves (1e-9), not to the largest
    leaf of the run (a temperature of 300 K would hide a wrong label whose mass fractions differ by less than 3e-5)."""
    if w.symbolic:
        return B.mass_fraction_rule(w, aL, al, k, MWs)
    mL = [float(a) * m for a, m in zip(aL, MWs)]
    ml = [float(a) * m for a, m in zip(al, MWs)]
    ML, Ml = sum(mL), sum(ml)
    if ML > 0. and Ml > 0.:
        return mL[k] / ML >= ml[k] / Ml * (1. - 1e-9) - 1e-300
    return True


def described_split(w, K, phi, L, l, n):
    """(K, phi) describe the split L / l (amounts per unit feed): phi = fraction of the feed in 'L', K_i = x_L,i / x_l,i (unclamped fractions)."""
    FL, Fl = w_total(L), w_total(l)
    if not decide(w, w.And(B.gt_exact(w, FL, 0.), B.gt_exact(w, Fl, 0.))):
        return w.Or(w.And(w.eq(FL, 0.), w.eq(phi, 0.)), w.And(w.eq(Fl, 0.), w.eq(phi, 1.)))
    cs = [w.eq(phi * (FL + Fl), FL)]
    for i in range(n):
        x_l = l[i] / Fl
        if decide(w, B.ge_exact(w, x_l, 1e-16)):
            cs.append(w.eq(K[i] * x_l * FL, L[i]))
    return w.And(*cs)


@group('C15/gap_lle_describe', configs=lle_describe_configs, functions=B.LLE_FUNCS, assumptions=[A_OPT])
def lle_describe(w, cfg):
    """
    lle(T, update=False) returns (chemicals, partition coefficients K, fraction phi of the feed in 'L') instead of writing the two
    liquids: the description is the solver's split or its mirror image, labelled by the same top-chemical rule (the phase described
    as 'L' has the larger mass fraction of the top chemical), and it is the same for k * feed (flows proportional to the feed).
    """
    W.reset_caches()
    env = Env(w, cfg)
    try:
        stub, log = install_recording_solver(env, cfg['solver'])
        pkg, top = cfg['pkg'], cfg['top']
        s, leaves = B.lle_stream(w, 'f', pkg, 'lL', dist_of(pkg, 'lL', cfg['pattern']))
        IDs = s.chemicals.IDs
        if cfg['solver'] == 'interior5':
            # narrower requires of the 'interior5' configurations: flows within two decades (replayable counter-models)
            for v in leaves.values():
                if v.__class__ is not float:
                    w.assume(w.And(w.ge(v, 0.1), w.le(v, 10.)))
        T = w.real('T', lo=285., hi=355.)
        then = cfg['then'] or ''
        if then.startswith('after-'):
            # an earlier call (fixed feed and interior answer, symbolic temperature at least 1 K below) leaves its coefficients behind
            saved = {ph: dict(sv.dct) for ph, sv in W.rows_of(s)}
            for ph, sv in W.rows_of(s):
                sv.dct.clear()
            for j in range(len(IDs)):
                dict(W.rows_of(s))['l'].dct[j] = float(2 + j % 3)
            T_e = w.real('T_earlier', lo=285., hi=355.)
            w.assume(w.ge(T, T_e + 1.))
            env.earlier = True
            try:
                s.lle(T_e, top_chemical=top, update=(then == 'after-full'))
            finally:
                env.earlier = False
            for ph, sv in W.rows_of(s):
                sv.dct.clear()
                sv.dct.update(saved[ph])
        del log[:]
        before = flows_now(s)
        T_before, P_before = s.T, s.P
        out = s.lle(T, top_chemical=top, update=False)
        now = flows_now(s)
        for ID in IDs:
            w.ensure(f'total[{ID}] over l+L unchanged, nothing negative',
                     w.And(w.eq(now['l', ID] + now['L', ID], before['l', ID] + before['L', ID]), w.ge(now['l', ID], 0.), w.ge(now['L', ID], 0.)))
        w.ensure('rep_ok (no stored zero)', rep_ok(w, s))
        w.ensure('describe-only: temperature and pressure of the stream are not set', w.And(w.eq(s.T, T_before), w.eq(s.P, P_before)))
        w.ensure('a description is returned', w.And(out is not None and len(out) == 3))
        chems, K, phi = out
        log0, log = log, list(log)
        w.ensure('at another temperature than the earlier call the split is solved anew', w.And(len(log) == (1 if len([i for i in IDs if i in cfg['pattern']]) > 1 else 0)))
        if log:
            a = log[0]
            sIDs, z, molL = a['IDs'], a['z'], a['molL']
            n = len(sIDs)
            F = w_total([before['l', ID] + before['L', ID] for ID in sIDs])
            w.ensure('the solver is asked about this feed at this temperature',
                     w.And([c.ID for c in chems] == sIDs, w.eq(a['T'], T), *[w.eq(z[i] * F, before['l', ID] + before['L', ID]) for i, ID in enumerate(sIDs)]))
            A_ = list(molL)
            B_ = [z[i] - molL[i] for i in range(n)]
            MWs = [B.MW_of(s)[ID] for ID in sIDs]
            if top is not None and top in sIDs:
                k = sIDs.index(top)
                w.ensure(f'the description is the solver split (or its mirror image); top chemical {top}: mass fraction in the phase described as L >= in l',
                         w.Or(w.And(described_split(w, K, phi, A_, B_, n), mass_rule(w, A_, B_, k, MWs)),
                              w.And(described_split(w, K, phi, B_, A_, n), mass_rule(w, B_, A_, k, MWs))))
            else:
                w.ensure('the description is the solver split (or its mirror image)',
                         w.Or(described_split(w, K, phi, A_, B_, n), described_split(w, K, phi, B_, A_, n)))
            w.canary('canary: everything is described as L', w.eq(phi, 1.))
        else:
            w.ensure('fewer than two chemicals: described as one liquid', w.Or(w.eq(phi, 0.), w.eq(phi, 1.)))
            w.canary('canary: nothing is described as L', w.eq(phi, 0.))
        if cfg['then'] == 'scaled' and log:
            # the same feed scaled by k on another stream: the same description
            k_ = w.real('k', lo=1e-3, hi=1e3)
            b = tmo.MultiStream(None, phases=('l', 'L'), thermo=s.thermo)
            rows_b = dict(W.rows_of(b))
            for (ph, ID), v in leaves.items():
                if isinstance(v, float) and v == 0.:
                    continue
                if decide(w, w.ne(v, 0.) if w.symbolic else v != 0.):
                    rows_b[ph].dct[IDs.index(ID)] = k_ * v
            n_log = len(log0)
            chems_b, K_b, phi_b = b.lle(T, top_chemical=top, update=False)
            if w.symbolic:
                same_desc = w.And(w.eq(phi_b, phi), *[w.eq(p_, q_) for p_, q_ in zip(K_b, K)])
            else:
                # floats: a coefficient of a chemical that is (nearly) absent from 'l' is a quotient by the 1e-16 clamp and is decided by
                # rounding; the sentence is evaluated on what the coefficients describe: the amounts in 'l' per unit of feed
                def in_l(K_, phi_, z_):
                    return [float(zi) * (1. - float(phi_)) / (1. + float(phi_) * (float(Ki) - 1.)) for Ki, zi in zip(K_, z_)]
                z_b = log0[n_log]['z'] if len(log0) > n_log else z
                same_desc = abs(float(phi_b) - float(phi)) <= 1e-9 and all(abs(p_ - q_) <= 1e-9 for p_, q_ in zip(in_l(K_b, phi_b, z_b), in_l(K, phi, z)))
            w.ensure('k * feed: the same description (flows proportional to the feed)',
                     w.And([c.ID for c in chems_b] == [c.ID for c in chems], same_desc))
        w.note(solver_calls=stub.calls, K=[str(i)[:60] for i in K], phi=str(phi)[:60])
        B.native_guard(w)
    finally:
        env.restore()


# =========================================================================== 6. LLE: the reuse decision after describe-only / degenerate calls (mode S)

def lle_decision_forms_configs(tier):
    """
    calls: (chemicals present, form); form 'full' = lle(T), 'describe' = lle(T, update=False), the last call is always a full call
    whose reuse decision is observed.  A call with fewer than two chemicals has nothing to split and stores nothing.
    """
    WO_, W1, WE_ = ['Water', 'Octanol'], ['Water'], ['Water', 'Ethanol']
    fam = [
        ('WO', [(WO_, 'describe'), (WO_, 'full')], None),
        ('WO', [(WO_, 'full'), (WO_, 'describe'), (WO_, 'full')], None),          # the coefficients are those of the describe-only call
        ('WO', [(WO_, 'full'), (W1, 'full'), (WO_, 'full')], None),               # nothing stored in between: those of the first call
        ('WOE', [(WO_, 'describe'), (WE_, 'describe'), (WO_, 'full')], 'Octanol'),
    ]
    if tier == 'thorough':
        fam += [
            ('WO', [(WO_, 'describe'), (WO_, 'describe'), (WO_, 'full')], 'Octanol'),
            ('WO', [(WO_, 'full'), (W1, 'describe'), (WO_, 'full')], 'Water'),
            ('WO', [(WO_, 'describe'), ([], 'full'), (WO_, 'full')], None),
            ('WOE', [(WE_, 'full'), (WO_, 'describe'), (W1, 'full'), (WO_, 'full')], None),
        ]
    return [{'name': f"{pkg}/calls=" + '>'.join('+'.join(i[0] for i in c) + ('' if f == 'full' else '.' + f) for c, f in calls) + f"/top={top}",
             'pkg': pkg, 'calls': [[c, f] for c, f in calls], 'top': top} for pkg, calls, top in fam]


@group('C15/gap_lle_decision_forms', configs=lle_decision_forms_configs, functions=['thermosteam.equilibrium.lle:LLE.__call__'],
       assumptions=['A-opt (box only): LLE.solve_lle_liquid_mol returns 0 < mol_L < mol',
                    'A-phase-fraction: binary_phase_fraction.phase_fraction returns a value in [0, 1]'])
def lle_decision_forms(w, cfg):
    """
    A call never returns the equilibrium of an earlier temperature or composition, whatever FORM the earlier calls had: the
    remembered coefficients are reused only if the chemicals, the temperature and every mole fraction agree (within the solver's
    tolerances) with those of the call that STORED them - the most recent call with two or more chemicals, describe-only or not.
    """
    W.reset_caches()
    env = Env(w, cfg)
    try:
        B.install_solver(env, 'interior')
        seen = {'observing': False, 'reused': None, 'guesses': [], 'call': 0}

        def phase_fraction(zs, Ks, guess=None, za=0., zb=0.):
            if seen['observing']:
                seen['reused'] = True
                raise B._Stop()
            return env.leaf('phi', lo=0., hi=1.)

        real_stub = lle_mod.LLE.solve_lle_liquid_mol

        def solve(self, mol, T, lle_chemicals, single_loop):
            seen['guesses'].append((seen['call'], self._K is None and self._phi is None,
                                    None if self._lle_chemicals is None else [c.ID for c in self._lle_chemicals],
                                    [c.ID for c in lle_chemicals]))
            if seen['observing']:
                seen['reused'] = False
                raise B._Stop()
            return real_stub(self, mol, T, lle_chemicals, single_loop)

        env.patch(lle_mod, 'phase_fraction', phase_fraction)
        env.patch(lle_mod.LLE, 'solve_lle_liquid_mol', solve)
        pkg, top, calls = cfg['pkg'], cfg['top'], cfg['calls']
        s, _ = B.lle_stream(w, 'f', pkg, 'lL', {})
        lle = s.lle
        zs, Ts = [], []
        last = len(calls) - 1
        for n, (present, form) in enumerate(calls):
            if n < last and len(calls) > 2:
                # longer histories: the flows of the earlier calls are fixed numbers (temperatures and solver answers stay symbolic)
                plant(w, s, f'f{n}', {})
                leaves = {}
                for j, ID in enumerate(present):
                    leaves['l', ID] = float(1 + (j + 2 * n) % 3)
                    leaves['L', ID] = 0.
                    dict(W.rows_of(s))['l'].dct[s.chemicals.IDs.index(ID)] = leaves['l', ID]
            else:
                leaves = plant(w, s, f'f{n}', {ID: {'l': '+', 'L': '+' if n else '0'} for ID in present})
            F = w_total([leaves['l', ID] + leaves['L', ID] for ID in present])
            zs.append({ID: (leaves['l', ID] + leaves['L', ID]) / F for ID in present} if present else {})
            Ts.append(w.real(f'T{n}', lo=285., hi=355.))
            if n == last:
                seen['observing'] = True
            seen['call'] = n
            try:
                lle(Ts[n], top_chemical=top, use_cache=True, update=(form == 'full'))
            except B._Stop:
                pass
            except ZeroDivisionError:
                if n == last:
                    raise
                w.note(outcome='ZeroDivisionError in an earlier call (arbitrary phase fraction)')
                return
        reused = seen['reused']
        if reused is None:
            raise AssertionError('the last call neither solved nor reused (contract harness out of date)')
        tolT, tolz = lle.temperature_cache_tolerance, lle.composition_cache_tolerance
        # the call that stored the coefficients: the most recent earlier call with two or more chemicals
        stored = [n for n in range(last) if len(calls[n][0]) > 1]
        m = stored[-1]
        now_, then_ = calls[last][0], calls[m][0]
        same_chems = sorted(now_) == sorted(then_)
        if reused:
            w.ensure('reuse only for the chemicals the coefficients were stored for', w.And(same_chems))
            w.ensure('reuse only at the temperature the coefficients were stored for (|T - T_stored| < tolerance)',
                     w.And(w.lt(Ts[last] - Ts[m], tolT), w.lt(Ts[m] - Ts[last], tolT)))
            if same_chems:
                for ID in now_:
                    w.ensure(f'reuse only at the composition the coefficients were stored for (|z - z_stored| < tolerance) [{ID}]',
                             w.And(w.lt(zs[last][ID] - zs[m][ID], tolz), w.lt(zs[m][ID] - zs[last][ID], tolz)))
        else:
            w.ensure('solving anew is always allowed', w.And())
        for n, nothing, remembered_for, asked_for in seen['guesses']:
            if n == 0:
                w.ensure('call 0: a new solver remembers nothing', w.And(nothing, remembered_for is None))
                continue
            mine = [ID for ID in PKGS[pkg] if ID in calls[n][0]]
            before_n = [k for k in range(n) if len(calls[k][0]) > 1]
            earlier = [ID for ID in PKGS[pkg] if ID in calls[before_n[-1]][0]] if before_n else None
            w.ensure(f'call {n}: the solver is asked about the chemicals present', w.And(asked_for == mine))
            w.ensure(f'call {n}: the solver starts from remembered coefficients only if they were stored for the chemicals now in equilibrium',
                     w.And(nothing or (remembered_for == asked_for and earlier == mine)))
        if same_chems:
            w.canary('canary: the remembered coefficients are never reused', w.And(not reused))
        else:
            w.canary('canary: the last call is at the temperature of the storing call', w.eq(Ts[last], Ts[m]))
        w.note(reused=reused, stored_by_call=m)
    finally:
        env.restore()


# =========================================================================== 7. LLE: describe-only calls with the REAL solvers (mode B)

def real_describe_configs(tier):
    out = []
    Ts = [320.] if tier == 'quick' else [290., 320., 350.]
    for fam in (['WOcE'] if tier == 'quick' else list(B.B_FAMILIES)):
        feeds = B.B_FEEDS[fam][:1] if tier == 'quick' else B.B_FEEDS[fam][:2]
        for fi, feed in enumerate(feeds):
            for T in Ts:
                for m in B.B_METHODS:
                    for top in ([B.B_FAMILIES[fam][1]] if tier == 'quick' else B._b_tops(fam, tier)):
                        out.append({'name': f'{fam}/feed{fi}/T={T:g}/method={m}/top={top}', 'fam': fam, 'feed': list(feed), 'T': T, 'method': m, 'top': top,
                                    'scales': [1e3] if tier == 'quick' else [1e-3, 21.]})
    return out


def b_describe(s, T, method, top):
    lle = s.lle
    lle.method = B.B_METHODS[method]
    try:
        return lle(T, top_chemical=top, update=False)
    except ReferenceError:
        B.purge_lle_numba_cache()          # numba cache-index problem described in C15_lle_sle.py
        return lle(T, top_chemical=top, update=False)


@group('C15/gap_real_describe', configs=real_describe_configs, mode='B',
       notes='families and feeds of C15/real_split (Water/Octanol/Ethanol, Water/Butanol, Water/Hexane/Ethanol, Water/EthylAcetate/Ethanol); methods pseudo '
             'equilibrium / shgo / differential evolution; quick: Water/Octanol/Ethanol 100/100/20 at 320 K, top chemical Octanol, scale 1e3; thorough: 4 families x '
             '2 feeds x T 290/320/350 K x top chemical None / each chemical, scales 1e-3 and 21; describe-only form lle(T, update=False) on a new stream, '
             'compared with the writing form on another new stream of identical contents (phase fraction and every K_i x_l,i = x_L,i within 1e-6) and with '
             'scaled feeds (phase fraction within 1e-6, K_i within 1e-4: the optimisers stop at a relative tolerance of 1e-6 on the Gibbs energy)',
       functions=['thermosteam.equilibrium.lle:LLE.__call__', 'thermosteam.equilibrium.lle:LLE.solve_lle_liquid_mol',
                  'thermosteam.equilibrium.lle:LLE.get_liquid_mol_data', 'thermosteam.equilibrium.lle:pseudo_equilibrium'])
def real_describe(w, cfg):
    """
    The describe-only form with the real solvers: (K, phi) describe exactly the two liquids the writing form hands out (so every
    sentence about those - equal activities, labels - is a sentence about the description), the phase described as 'L' has the
    larger mass fraction of the top chemical, and the description does not change when the feed is scaled.
    """
    W.reset_caches()
    fam, feed, T, m, top = cfg['fam'], cfg['feed'], cfg['T'], cfg['method'], cfg['top']
    IDs = B.B_FAMILIES[fam]
    F = sum(feed)
    ref = B.b_stream(fam, feed)
    try:
        B.b_call(ref, T, m, top)
    except B.B_ERRORS as e:
        w.note(outcome=type(e).__name__)
        return
    fl = B.b_flows(ref)
    s = B.b_stream(fam, feed)
    try:
        chems, K, phi = b_describe(s, T, m, top)
    except B.B_ERRORS as e:
        w.ensure('describe-only: returns as the writing form does', False, outcome=type(e).__name__)
        return
    K = np.asarray(K, dtype=float)
    phi = float(phi)
    pooled = B.b_flows(s)
    w.ensure('describe-only: every chemical conserved', all(abs(pooled['l'][i] + pooled['L'][i] - feed[i]) <= 1e-9 * F for i in range(len(IDs))))
    w.ensure('describe-only: about the chemicals present', [c.ID for c in chems] == [ID for ID, v in zip(IDs, feed) if v])
    FL, Fl = fl['L'].sum(), fl['l'].sum()
    two = FL > 1e-9 * F and Fl > 1e-9 * F
    w.note(K=[float(f'{v:.6g}') for v in K], phi=phi, flows=B.b_round(fl), two_liquids=bool(two))
    w.ensure('describe-only: phi is the fraction of the feed the writing form puts in L', abs(phi - FL / F) <= 1e-6, phi=phi, written=float(FL / F))
    w.canary('canary: everything is described as one liquid', phi in (0., 1.))
    if two:
        xL, xl = fl['L'] / FL, fl['l'] / Fl
        w.ensure('describe-only: K_i is the ratio of the mole fractions the writing form hands out (L over l)',
                 all(abs(K[i] * xl[i] - xL[i]) <= 1e-6 * max(xL[i], K[i] * xl[i]) + 1e-12 for i in range(len(IDs)) if xl[i] >= 1e-12),
                 K=[float(v) for v in K], ratio=[float(a / b) if b else None for a, b in zip(xL, xl)])
        if top is not None:
            # the two liquids as described: x_l = z / (1 + phi (K - 1)), x_L = K x_l
            z = np.asarray(feed, dtype=float) / F
            dl = z / (1. + phi * (K - 1.))
            dL = K * dl
            MW = s.chemicals.MW
            k = IDs.index(top)
            wL = dL[k] * MW[k] / (dL * MW).sum()
            wl = dl[k] * MW[k] / (dl * MW).sum()
            w.ensure(f'describe-only: top chemical {top} has its larger mass fraction in the phase described as L', wL >= wl - 1e-12, w_L=float(wL), w_l=float(wl))
    for k_ in cfg['scales']:
        s2 = B.b_stream(fam, feed, k_)
        try:
            _, K2, phi2 = b_describe(s2, T, m, top)
        except B.B_ERRORS as e:
            w.ensure(f'scaled by {k_:g}: returns as the unscaled call does', False, outcome=type(e).__name__)
            continue
        K2 = np.asarray(K2, dtype=float)
        w.ensure(f'scaled by {k_:g}: the same description (flows proportional to the feed)',
                 abs(float(phi2) - phi) <= 1e-6 and all(abs(a - b) <= 1e-4 * max(abs(a), abs(b)) + 1e-12 for a, b in zip(K2, K)),
                 K=[float(v) for v in K], K_scaled=[float(v) for v in K2], phi=phi, phi_scaled=float(phi2))


# =========================================================================== 8. SLE: enthalpy-specified calls with the REAL models (mode B)

def sle_real_enthalpy_configs(tier):
    out = []
    fills = {'T': SOLUTE, 'H': SOLUTE2, 'W.T': SOLUTE, 'M.H': SOLUTE2, 'WM.H': SOLUTE2, 'M.Th': SOLUTE}
    if tier == 'quick':
        fills = {k: fills[k] for k in ('T', 'M.H', 'W.T')}
    # enthalpy of the call = enthalpy of the contents as liquid at T0 + dH per mol of solute (spans frozen .. partly molten .. molten)
    dHs = [-60e3, -25e3, -5e3, 20e3] if tier == 'quick' else [-90e3, -60e3, -40e3, -25e3, -12e3, -5e3, 0., 20e3, 60e3]
    for fill, solute in fills.items():
        for dH in dHs:
            out.append({'name': f'WMTH/{fill}/solute={solute}/dH={dH:g}', 'pkg': 'WMTH', 'fill': fill, 'solute': solute, 'T0': 330., 'dH': dH})
    return out


@group('C15/gap_sle_real_enthalpy', configs=sle_real_enthalpy_configs, mode='B', functions=SLE_FUNCS,
       notes='real enthalpies, heat capacities, Dortmund activity coefficients and flexsolve; Tetradecanol / Hexadecanol pure and in water / '
             'methanol (package Water/Methanol/Tetradecanol/Hexadecanol); sle(solute, H=h) with h = enthalpy of the contents as a liquid at 330 K '
             '+ dH per mol of solute, dH from -90 to +60 kJ/mol (quick: 4 values); the result is compared with sle(solute, T=T_final) of a new stream '
             'with the same contents (every flow within 1e-3 of the solute present: the enthalpy iteration stops at 1e-3 K)')
def sle_real_enthalpy(w, cfg):
    """
    Enthalpy-specified calls with the real models: only the named solute moves, a pure solute that ends above its melting point is
    all liquid and one that ends below is all solid, and a solute in a solvent is dissolved no further than the solubility computed at
    the temperature the call ends at allows (what a temperature-specified call on a new stream with the same contents dissolves).
    """
    W.reset_caches()
    IDs = PKGS[cfg['pkg']]
    th = W.thermo(IDs)
    solute = cfg['solute']
    i = IDs.index(solute)
    s = tmo.MultiStream(None, phases=('l', 's'), thermo=th)
    b_fill_ls(s, SLE_B_FILLS[cfg['fill']])
    s.T = cfg['T0']
    pre = b_raw(s)
    total = pre['l'][i] + pre['s'][i]
    H = float(s.H) + cfg['dH'] * total
    try:
        s.sle(solute, H=H)
    except NOT_NORMAL as e:
        w.note(outcome=type(e).__name__)
        return
    now = b_raw(s)
    Tf = float(s.T)
    others = [j for j in range(len(IDs)) if j != i]
    w.note(T_final=Tf, dissolved=float(now['l'][i]), solid=float(now['s'][i]))
    w.ensure('only the named solute moves', all(now[ph][j] == pre[ph][j] for ph in 'ls' for j in others))
    w.ensure('solute conserved, no more dissolved than present',
             abs(now['l'][i] + now['s'][i] - total) <= 1e-9 * total and -1e-12 <= now['l'][i] <= total * (1 + 1e-12) and now['s'][i] >= -1e-12)
    w.canary('canary: the solute is gone after the call', float(now['l'][i] + now['s'][i]) == 0.)
    Tm = float(th.chemicals[solute].Tm)
    if not any(pre[ph][j] for ph in 'ls' for j in others):
        w.ensure('pure solute: all liquid above its melting point, all solid below',
                 (now['l'][i] == total and now['s'][i] == 0.) if Tf > Tm + 1e-9 else (now['s'][i] == total and now['l'][i] == 0.) if Tf < Tm - 1e-9 else True,
                 T_final=Tf, Tm=Tm)
    else:
        if abs(float(s.H) - H) > 1e-6 * max(abs(H), 1e3 * total):
            # the enthalpy iteration (50 steps, no convergence check) stopped between two states: the final temperature is not
            # the temperature of the flows handed out, nothing can be said about "the solubility computed" (not a sentence of C15)
            w.note(outcome='enthalpy iteration not converged', H=float(s.H), asked=H)
            return
        fresh = tmo.MultiStream(None, phases=('l', 's'), thermo=th)
        rows = dict(W.rows_of(fresh))
        for ph, a in pre.items():
            for j, v in enumerate(a):
                if v: rows[ph].dct[j] = float(v)
        try:
            fresh.sle(solute, T=Tf)
        except NOT_NORMAL as e:
            w.note(outcome_new=type(e).__name__)
            return
        ref = b_raw(fresh)
        w.ensure('solute in a solvent: no more dissolved than the solubility computed at the final temperature allows (= a temperature-specified call on a new stream)',
                 now['l'][i] <= ref['l'][i] + 1e-3 * total, dissolved=float(now['l'][i]), allowed=float(ref['l'][i]), T_final=Tf)
