# -*- coding: utf-8 -*-
"""
C02 — gap groups: more of the real code that the stream energy balance depends on, under contract.

Same conventions as C02_energy_balance.py (whose helpers are imported, not copied): pure-component models are
uninterpreted (A-models), the temperature solves obey A-root in the mode-S groups, every top-level clause is a sentence of
the property.  What is new here is WHERE the sentences are checked:

  C02/gap_operators     the other entry points of mixing / separating: Stream.sum (classmethod, with and without a property
                        package, Stream and MultiStream class), a + b, 0 + a (builtin sum), a += b, a -= b
  C02/gap_single_inlet  exactly one non-empty inlet (copy_like shortcut) for every single-/multi-phase pairing of receiver
                        and inlet, other package, + Q: Stream.copy_like (phases branch), MultiStream.copy_like
  C02/gap_history       second operations on the same objects: read before assign, assign twice, mix twice into the same
                        receiver, mix then separate out, separate out twice, T/P edits in between; excess energies on
  C02/gap_views         the stream that is assigned / mixed into is a phase view of a MultiStream, a proxy or a linked
                        stream; the value is read back through the other handle too
  C02/gap_mix_vle       mix_from(vle=True) with the energy balance on; the flash (VLE.__call__) is a callee under contract
                        (A-flash = what C04/C03 establish for it), everything mix_from does around it is the real code
  C02/gap_B_xsolvers    (mode B) the REAL multi-phase solvers xsolve_T_at_HP / xsolve_T_at_SP and the h / Hnet setters on
                        real property data (ideal and Peng-Robinson mixtures), bystander streams read afterwards
  C02/gap_B_mix_vle     (mode B) mix_from(vle=True) with the real flash on real property data
"""
import thermosteam as tmo
from engine.api import group
from engine.sx import tmo_world as W
from contracts.C02_energy_balance import PKG, KINDS, _stub, _present, _read_H, _min_of, _Heat


def _stubs(w, plans=None):
    made = {}

    def th(pkg):
        if pkg not in made:
            made[pkg] = _stub(w, pkg, (plans or {}).get(pkg))
        return made[pkg][0]
    th.made = made
    return th


def _frame(w, s):
    return (W.snapshot(s), s.T, s.P)


class _flash_under_contract:
    """Within the block VLE.__call__ is its contract (see _flash_contract): wherever the code under check asks for a flash,
    the callee's contract is what runs (the real flash is the business of C03/C04 and cannot be executed symbolically)."""
    def __init__(self, w, outcome='keep'):
        self.w, self.outcome, self.calls = w, outcome, []

    def __enter__(self):
        import sys
        self.mod = sys.modules['thermosteam.equilibrium.vle']
        self.real = self.mod.VLE.__call__
        self.mod.VLE.__call__ = _flash_contract(self.w, self.outcome, self.calls)
        return self.calls

    def __exit__(self, *exc):
        self.mod.VLE.__call__ = self.real
        return False


def _unchanged(w, s, fr):
    return w.And(W.same_snapshot(w, fr[0], W.snapshot(s)), w.eq(s.T, fr[1]), w.eq(s.P, fr[2]))


# --------------------------------------------------------------------------- operators and Stream.sum

def op_configs(tier):
    quick = tier == 'quick'
    out = []
    pairs = [('l', ('g', 'A', 'pos')), ('l', ('l', 'B', 'pos+maybe')), ('gl', ('l', 'A', 'pos'))]
    if not quick:
        pairs += [('g', ('gl', 'B', 'pos')), ('gl', ('gl', 'A', 'pos')), ('l', ('l', 'A', 'maybe')), ('s', ('l', 'B', 'pos'))]
    for op in ['add', 'radd0', 'sum', 'sum_thermo', 'msum', 'iadd', 'isub']:
        for a, b in pairs:
            if quick and op in ('radd0', 'sum_thermo', 'msum') and (a, b) != pairs[0] and (a, b) != pairs[2]:
                continue
            if op == 'isub' and len(b[0]) > 1 and len(a) == 1 and quick:
                continue
            out.append({'name': f'op={op};a={a};b={b[0]}{b[1]}:{b[2]}', 'op': op, 'a': a, 'b': list(b)})
    out.append({'name': 'op=isub;a=l;b=glA:pos', 'op': 'isub', 'a': 'l', 'b': ['gl', 'A', 'pos']})
    if not quick:
        out.append({'name': 'op=sum3;a=l;b=gB:pos', 'op': 'sum3', 'a': 'l', 'b': ['g', 'B', 'pos']})
    return out


@group('C02/gap_operators', configs=op_configs,
       functions=['thermosteam._stream:Stream.sum', 'thermosteam._stream:Stream.__add__', 'thermosteam._stream:Stream.__radd__',
                  'thermosteam._stream:Stream.__iadd__', 'thermosteam._stream:Stream.__isub__',
                  'thermosteam._stream:Stream.copy_thermal_condition', 'thermosteam._stream:Stream.mix_from',
                  'thermosteam._stream:Stream.separate_out'],
       assumptions=['A-models', 'A-root'])
def operators(w, cfg):
    """Mixing through Stream.sum / + / += and separating through -= obey the same balance as mix_from / separate_out."""
    W.reset_caches()
    th = _stubs(w)
    op = cfg['op']
    akind, (bkind, bpkg, bmode) = cfg['a'], cfg['b']
    tmo.settings.set_thermo(th('A'))                     # a + b and Stream.sum(..) without `thermo` build on the default package
    a, _ = W.stream_on(w, 'a', th('A'), KINDS[akind], present=_present('A', KINDS[akind], 'pos+maybe' if op == 'isub' and len(akind) == 1 else 'pos'))
    b, _ = W.stream_on(w, 'b', th(bpkg), KINDS[bkind], present=_present(bpkg, KINDS[bkind], 'pos' if op == 'isub' else bmode))
    if op == 'isub':
        at, bt = W.total_by_CAS(a), W.total_by_CAS(b)
        if isinstance(KINDS[akind], tuple) and set(KINDS[bkind]) <= set(KINDS[akind]):
            for ph in KINDS[bkind]:
                ra, rb = W.row_by_CAS(a, ph), W.row_by_CAS(b, ph)
                for cas in rb:
                    w.assume(w.lt(rb[cas], ra.get(cas, 0.)) if not isinstance(rb[cas], float) or rb[cas] else True)
        else:
            for cas in bt:
                w.assume(w.lt(bt[cas], at.get(cas, 0.)) if not isinstance(bt[cas], float) or bt[cas] else True)
        H_a, H_b = _read_H(w, a, 'a before'), _read_H(w, b, 'b before')
        fb = _frame(w, b)
        P0 = a.P
        r = a
        r -= b
        H_after = _read_H(w, a, 'a after')
        w.ensure("H(self') = H(self) - H(other)", w.eq(H_after, H_a - H_b))
        got = W.total_by_CAS(a)
        w.ensure("flows(self') = flows(self) - flows(other)", w.And(*[w.eq(got[cas], at[cas] - bt.get(cas, 0.)) for cas in at]))
        w.ensure('P unchanged', w.eq(a.P, P0))
        w.ensure('separated stream unchanged (flows, phases, T, P)', _unchanged(w, b, fb))
        w.canary("canary: H(self') = H(self) + H(other)", w.eq(H_after, H_a + H_b + 1))
        return
    inlets = [a, b]
    if op == 'sum3':
        c, _ = W.stream_on(w, 'c', th('A'), 'l', present=_present('A', 'l', 'pos'))
        inlets.append(c)
    nonempty = [s for s in inlets if not s.isempty()]
    H_in = 0.
    for n, s in enumerate(inlets):
        H_in = H_in + _read_H(w, s, f'inlet {n} before')
    P_in = [s.P for s in nonempty]
    frames = [(n, s, _frame(w, s)) for n, s in enumerate(inlets)]
    with _flash_under_contract(w):
        if op == 'add':
            r = a + b
        elif op == 'radd0':
            r = 0 + a                      # what the builtin sum() starts with: Stream.__radd__(0)
            r = r + b
        elif op == 'sum':
            r = tmo.Stream.sum([a, b])
        elif op == 'sum3':
            r = sum([a, b, c])             # builtin sum over streams
        elif op == 'sum_thermo':
            tmo.settings.set_thermo(th('B'))
            r = tmo.Stream.sum([a, b], None, th('A'))
        elif op == 'msum':
            r = tmo.MultiStream.sum([a, b])
        elif op == 'iadd':
            r = a
            r += b
            frames = frames[1:]
    H_out = _read_H(w, r, 'result')
    w.ensure("H(receiver') = sum of inlet H + Q", w.eq(H_out, H_in))
    w.ensure("P(receiver') = min P over the non-empty inlets", _min_of(w, r.P, P_in))
    for n, s, fr in frames:
        w.ensure(f'inlet {n} unchanged (flows, phases, T, P)', _unchanged(w, s, fr))
    w.canary('canary: result H ignores the second operand', w.eq(H_out, H_in + 1))
    w.canary("canary: P' = max", w.And(*[w.ge(r.P, p) for p in P_in], w.gt(r.P, P_in[0])) if len(P_in) > 1 else w.ne(r.P, P_in[0]))
    w.note(H_in=H_in, H_out=H_out, P=r.P, phases=r.phases)


# --------------------------------------------------------------------------- exactly one non-empty inlet (copy_like shortcut)

def single_configs(tier):
    quick = tier == 'quick'
    combos = [('l', 'gl', 'A'), ('l', 'gl', 'B'), ('gl', 'l', 'A'), ('gl', 'g', 'B'), ('gl', 'gl', 'B'), ('g', 'l', 'A'),
              ('gl', 'gls', 'A'), ('gls', 'gl', 'A')]
    if not quick:
        combos += [('gl', 'gl', 'A'), ('l', 'gls', 'B'), ('gls', 'l', 'B'), ('s', 'gl', 'A'), ('l', 'l', 'B'), ('gl', 'lL', 'A')]
    out = []
    for r, i, pkg in combos:
        for order in (['after'] if quick else ['after', 'before']):
            for q in (['kw'] if quick else ['kw', 'heat', 'none']):
                for mode in (['pos'] if quick else ['pos', 'first-row-pos' if len(i) > 1 else 'pos+maybe']):
                    out.append({'name': f'recv={r};in={i}{pkg}:{mode};empty={order};Q={q}', 'recv': r, 'inlet': [i, pkg, mode],
                                'order': order, 'Q': q})
    return out


@group('C02/gap_single_inlet', configs=single_configs,
       functions=['thermosteam._stream:Stream.mix_from', 'thermosteam._stream:Stream.copy_like',
                  'thermosteam._multi_stream:MultiStream.copy_like', 'thermosteam._stream:Stream.phases (setter)',
                  'thermosteam._multi_stream:MultiStream.H (setter)', 'thermosteam._stream:Stream.H (setter)',
                  'thermosteam._stream:Stream.isempty'],
       assumptions=['A-models', 'A-root'])
def single_inlet(w, cfg):
    """One non-empty inlet among the streams mixed: H' = H(inlet) + Q and P' = P(inlet), whatever the phase structure of
    receiver and inlet (the receiver takes the inlet's conditions through copy_like, then Q through its H setter)."""
    W.reset_caches()
    th = _stubs(w)
    rkind = cfg['recv']
    ikind, ipkg, imode = cfg['inlet']
    recv, _ = W.stream_on(w, 'r', th('A'), KINDS[rkind], present=_present('A', KINDS[rkind], 'pos'))
    s, _ = W.stream_on(w, 'i', th(ipkg), KINDS[ikind], present=_present(ipkg, KINDS[ikind], imode))
    e, _ = W.stream_on(w, 'e', th('A'), 'g', present=_present('A', 'g', 'empty'))
    H_in = _read_H(w, s, 'inlet before')
    H_e = e.H
    fr = _frame(w, s)
    others = [s, e] if cfg['order'] == 'after' else [e, s]
    Q = 0.
    kw = {}
    if cfg['Q'] == 'kw':
        Q = w.real('Q'); kw['Q'] = Q
    elif cfg['Q'] == 'heat':
        Q = w.real('Q.heat'); others.insert(1, _Heat(Q))
    recv.mix_from(others, energy_balance=True, **kw)
    H_out = _read_H(w, recv, 'receiver after')
    w.ensure("H(receiver') = sum of inlet H + Q", w.eq(H_out, H_in + H_e + Q))
    w.ensure("P(receiver') = min P over the non-empty inlets", w.eq(recv.P, fr[2]))
    w.ensure('inlet unchanged (flows, phases, T, P)', _unchanged(w, s, fr))
    w.ensure('empty inlet unchanged', e.isempty())
    w.canary('canary: Q is dropped', w.eq(H_out, H_in + 1) if cfg['Q'] == 'none' else w.eq(H_out, H_in))
    w.canary("canary: P' = P(empty inlet)", w.eq(recv.P, e.P))
    w.note(H_in=H_in, H_out=H_out, phases=recv.phases, cls=type(recv).__name__)


# --------------------------------------------------------------------------- histories: second operations on the same objects

def hist_configs(tier):
    quick = tier == 'quick'
    out = []
    for kind in ['l', 'gl']:
        for prop in ['H', 'h', 'S', 'Hnet']:
            if quick and prop == 'Hnet': continue
            for edit in (['none', 'P'] if not quick else (['P'] if (prop, kind) in (('H', 'l'), ('H', 'gl')) else ['none'])):
                for xs in ([False] if quick and not (prop == 'H' and kind == 'l') else [False, True]):
                    if xs and edit != 'none' and quick: continue
                    mode = 'pos' if prop == 'S' or (kind == 'gl' and quick) else ('first-row-pos' if kind == 'gl' else 'pos+maybe')
                    out.append({'name': f'seq=assign2;phases={kind};prop={prop};edit={edit};excess={xs};flows={mode}', 'seq': 'assign2',
                                'kind': kind, 'prop': prop, 'edit': edit, 'excess': xs, 'mode': mode})
    for seq in ['mix2_self', 'mix2_other', 'mix_sep', 'sep2', 'assign_mix', 'mix_assign']:
        for r in ['l', 'gl']:
            if quick and r == 'gl' and seq in ('mix2_other', 'assign_mix', 'mix_assign', 'sep2'): continue
            for pkg in ((['A'] if seq == 'sep2' else ['B']) if quick else (['A', 'B'] if seq != 'sep2' or r == 'l' else ['A'])):
                out.append({'name': f'seq={seq};recv={r};pkg={pkg}', 'seq': seq, 'recv': r, 'pkg': pkg, 'excess': False})
    return out


def _get(w, s, prop, tag):
    if prop == 'H': return _read_H_x(w, s, tag)
    return getattr(s, prop)


def _read_H_x(w, s, tag, excess=None):
    """_read_H with the excess enthalpies of the pure-component stubs when the package includes them."""
    if not s.mixture.include_excess_energies:
        return _read_H(w, s, tag)
    got = s.H
    IDs = s.chemicals.IDs
    T, P = s.T, s.P
    direct = 0.
    for phase, row in W.rows_of(s):
        for i, n in row.dct.items():
            direct = direct + n * (w.fn(f'H.{IDs[i]}.{phase}')(T, P) + w.fn(f'H_excess.{IDs[i]}.{phase}')(T, P))
    w.lemma(f'{tag}: H getter = sum_k n_k (h_k + hE_k)(phase, T, P)', w.eq(got, direct))
    return got


@group('C02/gap_history', configs=hist_configs,
       functions=['thermosteam._stream:Stream.H (setter)', 'thermosteam._stream:Stream.h (setter)', 'thermosteam._stream:Stream.S (setter)',
                  'thermosteam._stream:Stream.Hnet (setter)', 'thermosteam._multi_stream:MultiStream.H (setter)',
                  'thermosteam._multi_stream:MultiStream.h (setter)', 'thermosteam._multi_stream:MultiStream.S (setter)',
                  'thermosteam._stream:Stream._get_property', 'thermosteam._multi_stream:MultiStream._get_property',
                  'thermosteam._stream:Stream.mix_from', 'thermosteam._stream:Stream.separate_out',
                  'thermosteam.mixture.mixture:Mixture.H', 'thermosteam.mixture.mixture:Mixture.S',
                  'thermosteam._stream:Stream.z_mol', 'thermosteam._stream:Stream.Hf',
                  'thermosteam.indexer:MaterialIndexer.iter_composition'],
       assumptions=['A-models', 'A-root'])
def history(w, cfg):
    """The sentences of the property hold for the SECOND operation on objects that already went through a first one."""
    W.reset_caches()
    seq = cfg['seq']
    P = w.real('P', lo=0., lo_strict=True)          # one pressure for all streams: the min-P sentence is not the point here
    if seq == 'assign2':
        kind, prop = cfg['kind'], cfg['prop']
        multi = len(kind) > 1
        thx = W.stub_thermo(w, PKG['A'], include_excess_energies=True) if cfg['excess'] else None
        if thx is not None:
            # the A-root contract of C02_energy_balance._stub on a package with excess energies
            def _root(self, kind_, value_at, target, T_guess):
                T = w.real(f'root{len(self.roots)}.{kind_}', lo=0., lo_strict=True)
                w.assume(w.eq(value_at(T), target))
                self.roots.append((kind_, T))
                return T
            base = type(thx.mixture)
            thx.mixture.__class__ = type('StubMixtureX', (base,), {'__slots__': (), '_root': _root})
            th = thx
        else:
            th = _stubs(w)('A')
        mode = cfg['mode']
        s, _ = W.stream_on(w, 's', th, KINDS[kind], P=P, present=_present('A', KINDS[kind], mode))
        pre = W.snapshot(s)
        # first round: every getter is read (fills the property cache), then the property is assigned
        seen = [s.H, s.h, s.S]
        v1 = w.real('value1')
        setattr(s, prop, v1)
        seen.append(s.H if prop == 'S' else s.S)                  # another property is read first (same cache, other entry)
        back1 = (_read_H_x(w, s, 'after 1st') + s.Hf) if prop == 'Hnet' else _get(w, s, prop, 'after 1st')
        w.ensure(f'reading {prop} back returns the assigned value', w.eq(back1, v1))
        T1 = s.T
        if cfg['edit'] == 'P':
            s.P = w.real('P2', lo=0., lo_strict=True)
            seen.append(getattr(s, 'Hnet' if prop == 'Hnet' else prop))
        # second round on the same object
        v2 = w.real('value2')
        setattr(s, prop, v2)
        seen.append(s.H if prop == 'S' else s.S)
        back2 = (_read_H_x(w, s, 'after 2nd') + s.Hf) if prop == 'Hnet' else _get(w, s, prop, 'after 2nd')
        w.ensure(f'second assignment: reading {prop} back returns the assigned value', w.eq(back2, v2))
        w.ensure('phases and per-phase flows unchanged', W.same_snapshot(w, pre, W.snapshot(s)))
        w.canary('canary: second read-back still returns the first value', w.And(w.eq(back2, v1), w.ne(v1, v2)))
        w.canary('canary: T never moves', w.eq(s.T, T1))
        return
    th = _stubs(w)
    rkind, pkg = cfg['recv'], cfg['pkg']
    r, _ = W.stream_on(w, 'r', th('A'), KINDS[rkind], P=P, present=_present('A', KINDS[rkind], 'pos+pos' if seq == 'sep2' and pkg == 'B' else 'pos'))
    a, _ = W.stream_on(w, 'a', th('A'), 'l', P=P, present=_present('A', 'l', 'pos'))
    b, _ = W.stream_on(w, 'b', th(pkg), 'g', P=P, present=_present(pkg, 'g', 'pos'))
    if seq in ('mix2_self', 'mix2_other', 'mix_sep', 'mix_assign'):
        r.mix_from([a, b])                                          # first operation (checked by C02/mix_from)
        H1 = _read_H(w, r, 'receiver after 1st mix')
        if seq == 'mix2_self':
            c, _ = W.stream_on(w, 'c', th(pkg), 'l', P=P, present=_present(pkg, 'l', 'pos'))
            fc = _frame(w, c)
            Q = w.real('Q')
            H_c = _read_H(w, c, 'c before')
            r.mix_from([r, c], Q=Q)                                 # the receiver (with its history) is an inlet
            H2 = _read_H(w, r, 'receiver after 2nd mix')
            w.ensure("second mix: H(receiver') = sum of inlet H + Q", w.eq(H2, H1 + H_c + Q))
            w.ensure('second mix: inlet unchanged (flows, phases, T, P)', _unchanged(w, c, fc))
            w.canary('canary: the receiver forgot what it held', w.eq(H2, H_c + Q))
        elif seq == 'mix2_other':
            a.T = w.real('a.T2', lo=0., lo_strict=True)             # the inlets change between the two calls
            H_a, H_b = _read_H(w, a, 'a before 2nd'), _read_H(w, b, 'b before 2nd')
            fa, fb = _frame(w, a), _frame(w, b)
            r.mix_from([b, a])                                      # initial contents of the receiver are ignored
            H2 = _read_H(w, r, 'receiver after 2nd mix')
            w.ensure("second mix: H(receiver') = sum of inlet H + Q", w.eq(H2, H_a + H_b))
            w.ensure('second mix: inlets unchanged (flows, phases, T, P)', w.And(_unchanged(w, a, fa), _unchanged(w, b, fb)))
            w.canary('canary: the receiver kept its first contents', w.eq(H2, H1 + H_a + H_b))
        elif seq == 'mix_sep':
            H_b = _read_H(w, b, 'b before')
            fb = _frame(w, b)
            r.separate_out(b, energy_balance=True)
            H2 = _read_H(w, r, 'receiver after separate_out')
            w.ensure("H(self') = H(self) - H(other)", w.eq(H2, H1 - H_b))
            w.ensure('separated stream unchanged (flows, phases, T, P)', _unchanged(w, b, fb))
            w.canary("canary: H(self') = H(self)", w.eq(H2, H1))
        else:   # mix_assign
            v = w.real('value')
            r.H = v
            w.ensure('reading H back returns the assigned value', w.eq(_read_H(w, r, 'receiver after assignment'), v))
            w.canary('canary: H still the mixed value', w.eq(r.H, H1))
    elif seq == 'sep2':
        # r holds more of everything than a and b together
        rt, at, bt = W.total_by_CAS(r), W.total_by_CAS(a), W.total_by_CAS(b)
        rows = dict(W.rows_of(r))
        for o, ot in ((a, at), (b, bt)):
            oph = o.phase
            have = W.row_by_CAS(r, oph) if oph in rows and len(rows) > 1 else rt
            for cas, v in ot.items():
                if not isinstance(v, float) or v:
                    w.assume(w.lt(at.get(cas, 0.) + bt.get(cas, 0.), have.get(cas, 0.)))
        H0 = _read_H(w, r, 'self before')
        H_a = _read_H(w, a, 'a before')
        r.separate_out(a, energy_balance=True)
        H1 = _read_H(w, r, 'self after 1st')
        H_b = _read_H(w, b, 'b before')
        fb = _frame(w, b)
        r.separate_out(b, energy_balance=True)
        H2 = _read_H(w, r, 'self after 2nd')
        w.ensure("second separate_out: H(self') = H(self) - H(other)", w.eq(H2, H1 - H_b))
        w.ensure('separated stream unchanged (flows, phases, T, P)', _unchanged(w, b, fb))
        w.canary("canary: H(self'') = H(self)", w.eq(H2, H0))
    elif seq == 'assign_mix':
        v = w.real('value')
        H_a0 = a.H                                                   # cached before the assignment
        a.H = v
        H_a, H_b = _read_H(w, a, 'a after assignment'), _read_H(w, b, 'b before')
        fa = _frame(w, a)
        Q = w.real('Q')
        r.mix_from([a, b], Q=Q)
        H2 = _read_H(w, r, 'receiver after mix')
        w.ensure("H(receiver') = sum of inlet H + Q", w.eq(H2, H_a + H_b + Q))
        w.ensure('reading H back returns the assigned value', w.eq(H_a, v))
        w.ensure('inlet unchanged (flows, phases, T, P)', _unchanged(w, a, fa))
        w.canary('canary: the mix used the enthalpy a had before the assignment', w.And(w.eq(H2, H_a0 + H_b + Q), w.ne(H_a0, v)))
    w.note(seq=seq)


# --------------------------------------------------------------------------- other handles: phase views, proxies, links

def view_configs(tier):
    quick = tier == 'quick'
    out = []
    for prop in ['H', 'h', 'S']:
        for ph in (['l'] if quick and prop != 'H' else ['l', 'g']):
            out.append({'name': f'case=view_assign;prop={prop};view={ph}', 'case': 'view_assign', 'prop': prop, 'view': ph})
    for kind in ['l', 'gl']:
        for prop in (['H', 'S'] if quick else ['H', 'h', 'S', 'Hnet']):
            if quick and prop == 'S' and kind == 'gl': continue
            for handle in ['proxy', 'link']:
                for via in ['original', 'handle']:
                    if quick and via == 'handle' and prop != 'H': continue
                    out.append({'name': f'case=alias_assign;phases={kind};prop={prop};handle={handle};assigned={via}', 'case': 'alias_assign',
                                'kind': kind, 'prop': prop, 'handle': handle, 'via': via})
    for recv in ['proxy', 'link', 'flow_proxy'] + ([] if quick else ['view']):
        for pkg in (['B'] if quick else ['A', 'B']):
            out.append({'name': f'case=mix_into_alias;recv={recv};pkg={pkg}', 'case': 'mix_into_alias', 'recv': recv, 'pkg': pkg})
    for ph in ['l', 'g']:
        for other in (['pos', 'empty'] if not quick or ph == 'l' else ['empty']):
            out.append({'name': f'case=mix_own_view;view={ph};other={other}', 'case': 'mix_own_view', 'view': ph, 'other': other, 'pkg': 'B'})
    for pkg in (['A'] if quick else ['A', 'B']):
        out.append({'name': f'case=mix_view_inlet;pkg={pkg}', 'case': 'mix_view_inlet', 'pkg': pkg})
        out.append({'name': f'case=sep_view;pkg={pkg}', 'case': 'sep_view', 'pkg': pkg})
    return out


def _handle(kind, s, th):
    if kind == 'proxy':
        return s.proxy()
    if kind == 'flow_proxy':
        return s.flow_proxy()
    if isinstance(s, tmo.MultiStream):
        h = tmo.MultiStream(None, phases=s.phases, thermo=th)
    else:
        h = tmo.Stream(None, thermo=th)
    h.link_with(s)
    return h


@group('C02/gap_views', configs=view_configs,
       functions=['thermosteam._stream:Stream.H (setter)', 'thermosteam._stream:Stream.h (setter)', 'thermosteam._stream:Stream.S (setter)',
                  'thermosteam._multi_stream:MultiStream.H (setter)', 'thermosteam._multi_stream:MultiStream.S (setter)',
                  'thermosteam._multi_stream:MultiStream.__getitem__', 'thermosteam._stream:Stream.proxy',
                  'thermosteam._stream:Stream.flow_proxy', 'thermosteam._stream:Stream.link_with',
                  'thermosteam._stream:Stream.mix_from', 'thermosteam._stream:Stream.separate_out',
                  'thermosteam._stream:Stream._get_property', 'thermosteam._multi_stream:MultiStream._get_property'],
       assumptions=['A-models', 'A-root'])
def views(w, cfg):
    """The stream assigned to / mixed into / separated out is a phase view, a proxy or a linked stream."""
    W.reset_caches()
    th = _stubs(w)
    case = cfg['case']
    if case == 'view_assign':
        prop, ph = cfg['prop'], cfg['view']
        ms, _ = W.stream_on(w, 'ms', th('A'), ('g', 'l'), present=_present('A', ('g', 'l'), 'pos' if prop == 'S' else 'pos+maybe'))
        v = ms[ph]
        pre = W.snapshot(ms)
        seen = [ms.H, getattr(v, prop)]
        P0 = ms.P
        value = w.real('value')
        setattr(v, prop, value)
        back = _read_H(w, v, 'view after') if prop == 'H' else getattr(v, prop)
        w.ensure(f'reading {prop} back returns the assigned value', w.eq(back, value))
        w.ensure('phases and per-phase flows unchanged', W.same_snapshot(w, pre, W.snapshot(ms)))
        w.ensure('P unchanged', w.And(w.eq(v.P, P0), w.eq(ms.P, P0)))
        w.canary('canary: read-back is value + 1', w.eq(back, value + 1))
        w.canary('canary: the whole stream reads the value assigned to one phase', w.eq(ms.H, value) if prop == 'H' else w.eq(back, value + 2))
        return
    if case == 'alias_assign':
        kind, prop = cfg['kind'], cfg['prop']
        mode = 'pos' if prop == 'S' else ('first-row-pos' if len(kind) > 1 else 'pos+maybe')
        s, _ = W.stream_on(w, 's', th('A'), KINDS[kind], present=_present('A', KINDS[kind], mode))
        h = _handle(cfg['handle'], s, th('A'))
        rd = (lambda x, tag: (_read_H(w, x, tag) + x.Hf) if prop == 'Hnet' else (_read_H(w, x, tag) if prop == 'H' else getattr(x, prop)))
        seen = [getattr(s, prop), getattr(h, prop)]                 # both handles have read (and cached) the old value
        target, reader = (s, h) if cfg['via'] == 'original' else (h, s)
        pre = W.snapshot(s)
        value = w.real('value')
        setattr(target, prop, value)
        back_t, back_r = rd(target, 'assigned handle after'), rd(reader, 'other handle after')
        w.ensure(f'reading {prop} back returns the assigned value', w.eq(back_t, value))
        w.ensure(f'reading {prop} back through the other handle returns the assigned value', w.eq(back_r, value))
        w.ensure('phases and per-phase flows unchanged', W.same_snapshot(w, pre, W.snapshot(s)))
        w.canary('canary: the other handle still reads the old value', w.And(w.eq(back_r, seen[0]), w.ne(seen[0], value)))
        return
    pkg = cfg['pkg']
    if case == 'mix_into_alias':
        a, _ = W.stream_on(w, 'a', th('A'), 'l', present=_present('A', 'l', 'pos'))
        b, _ = W.stream_on(w, 'b', th(pkg), 'g', present=_present(pkg, 'g', 'pos'))
        if cfg['recv'] == 'view':
            ms, _ = W.stream_on(w, 'ms', th('A'), ('g', 'l'), present=_present('A', ('g', 'l'), 'pos'))
            r = ms['l']
            b, _ = W.stream_on(w, 'b2', th(pkg), 'l', present=_present(pkg, 'l', 'pos'))
            inlets = [a, b]
        else:
            r = _handle(cfg['recv'], a, th('A'))                    # the receiver shares its data with inlet `a`
            if cfg['recv'] == 'flow_proxy':
                r.T = w.real('r.T', lo=0., lo_strict=True)          # flows shared, thermal condition its own
            inlets = [a, b]
        H_in = _read_H(w, a, 'a before') + _read_H(w, b, 'b before')
        seen = r.H
        P_in = [a.P, b.P]
        fb = _frame(w, b)
        Q = w.real('Q')
        r.mix_from(inlets, Q=Q)
        H_out = _read_H(w, r, 'receiver after')
        w.ensure("H(receiver') = sum of inlet H + Q", w.eq(H_out, H_in + Q))
        w.ensure("P(receiver') = min P over the non-empty inlets", _min_of(w, r.P, P_in))
        w.ensure('inlet unchanged (flows, phases, T, P)', _unchanged(w, b, fb))
        w.canary('canary: receiver H ignores the inlets', w.eq(H_out, Q + 1))
        return
    if case == 'mix_own_view':
        # a multi-phase stream is mixed from one of its OWN phase views (plus another stream, possibly empty)
        ms, _ = W.stream_on(w, 'ms', th('A'), ('g', 'l'), present=_present('A', ('g', 'l'), 'pos'))
        b, _ = W.stream_on(w, 'b', th(pkg), 'l', present=_present(pkg, 'l', cfg['other']))
        v = ms[cfg['view']]
        whole = ms.H
        H_in = _read_H(w, v, 'view before') + _read_H(w, b, 'b before')
        P_in = [ms.P] + ([b.P] if cfg['other'] == 'pos' else [])
        fb = _frame(w, b)
        Q = w.real('Q')
        ms.mix_from([v, b], Q=Q)
        H_out = _read_H(w, ms, 'receiver after')
        w.ensure("H(receiver') = sum of inlet H + Q", w.eq(H_out, H_in + Q))
        w.ensure("P(receiver') = min P over the non-empty inlets", _min_of(w, ms.P, P_in))
        w.ensure('inlet unchanged (flows, phases, T, P)', _unchanged(w, b, fb))
        w.canary('canary: the receiver kept both of its phases', w.eq(H_out, whole + b.H + Q))
        return
    if case == 'mix_view_inlet':
        ms, _ = W.stream_on(w, 'ms', th(pkg), ('g', 'l'), present=_present(pkg, ('g', 'l'), 'pos'))
        b, _ = W.stream_on(w, 'b', th('A'), 'l', present=_present('A', 'l', 'pos'))
        r, _ = W.stream_on(w, 'r', th('A'), 'l', present=_present('A', 'l', 'pos'))
        v = ms['g']
        whole = ms.H
        H_in = _read_H(w, v, 'view before') + _read_H(w, b, 'b before')
        fm, fb = _frame(w, ms), _frame(w, b)
        Q = w.real('Q')
        r.mix_from([v, b], Q=Q)
        H_out = _read_H(w, r, 'receiver after')
        w.ensure("H(receiver') = sum of inlet H + Q", w.eq(H_out, H_in + Q))
        w.ensure("P(receiver') = min P over the non-empty inlets", _min_of(w, r.P, [ms.P, b.P]))
        w.ensure('inlets unchanged (flows, phases, T, P)', w.And(_unchanged(w, ms, fm), _unchanged(w, b, fb)))
        w.canary('canary: the whole multi-phase stream was mixed in', w.eq(H_out, whole + b.H + Q))
        return
    if case == 'sep_view':
        # separating one phase of a multi-phase stream out of another stream
        ms, _ = W.stream_on(w, 'ms', th(pkg), ('g', 'l'), present=_present(pkg, ('g', 'l'), 'pos'))
        s, _ = W.stream_on(w, 's', th('A'), ('g', 'l'), present=_present('A', ('g', 'l'), 'pos' if pkg == 'A' else 'pos+pos'))
        v = ms['l']
        a, o = W.row_by_CAS(s, 'l'), W.row_by_CAS(ms, 'l')
        for cas, x in o.items():
            if not isinstance(x, float) or x:
                w.assume(w.lt(x, a.get(cas, 0.)))
        H_s, H_v = _read_H(w, s, 'self before'), _read_H(w, v, 'view before')
        fm = _frame(w, ms)
        s.separate_out(v, energy_balance=True)
        H_after = _read_H(w, s, 'self after')
        w.ensure("H(self') = H(self) - H(other)", w.eq(H_after, H_s - H_v))
        w.ensure('separated stream unchanged (flows, phases, T, P)', _unchanged(w, ms, fm))
        w.canary("canary: the whole multi-phase stream was separated out", w.eq(H_after, H_s - ms.H))
        return
    raise ValueError(case)


# --------------------------------------------------------------------------- mode B: the real multi-phase solvers

from contracts.C02_more import _chemicals, reachable


def xb_configs(tier):
    quick = tier == 'quick'
    out = []
    Ts = (300., 420.) if quick else (260., 300., 350., 400., 450., 490.)
    Ps = (1e5, 4e5) if quick else (1e4, 1e5, 1e6, 1e7)
    # (vapour part, liquid part) of Water / Ethanol / Propane
    splits = [((2., 1., 5.), (18., 9., 0.)), ((0., 0., 3.), (5., 30., 0.)), ((4., 6., 1.), (0., 0., 0.))] if quick else \
        [((2., 1., 5.), (18., 9., 0.)), ((0., 0., 3.), (5., 30., 0.)), ((1., 0., 0.), (1., 0., 0.)), ((4., 6., 1.), (0., 0., 0.)),
         ((0., 0., 0.), (1e-3, 2e3, 1.)), ((10., 10., 10.), (1e-2, 1e-2, 0.))]
    for pkg in ('ideal', 'PR'):
        for T in Ts:
            for P in Ps:
                for n, (g, l) in enumerate(splits):
                    out.append({'name': f'{pkg};T={T:g};P={P:g};g={g};l={l}', 'pkg': pkg, 'T': T, 'P': P, 'g': list(g), 'l': list(l)})
    return out


_IDS = ('Water', 'Ethanol', 'Propane')


def _ms(cfg, thermo=None, T=None, scale=1.):
    g = [(i, scale * v) for i, v in zip(_IDS, cfg['g']) if v]
    l = [(i, scale * v) for i, v in zip(_IDS, cfg['l']) if v]
    kw = {}
    if g: kw['g'] = g
    if l: kw['l'] = l
    return tmo.MultiStream(None, T=cfg['T'] if T is None else T, P=cfg['P'], phases=('g', 'l'), **kw)


@group('C02/gap_B_xsolvers', configs=xb_configs, mode='B',
       functions=['thermosteam.mixture.mixture:Mixture.xsolve_T_at_HP', 'thermosteam.mixture.mixture:Mixture.xsolve_T_at_SP',
                  'thermosteam.mixture.mixture:xiter_T_at_HP', 'thermosteam.mixture.mixture:xiter_T_at_SP',
                  'thermosteam.mixture.mixture:iter_T_at_HP', 'thermosteam.mixture.mixture:Mixture.xCn',
                  'thermosteam.mixture.mixture:EOSMixture._load_xfree_energy_args', 'thermosteam.mixture.mixture:EOSMixture.H',
                  'thermosteam._multi_stream:MultiStream.H (setter)', 'thermosteam._multi_stream:MultiStream.h (setter)',
                  'thermosteam._multi_stream:MultiStream.S (setter)', 'thermosteam._stream:Stream.h (setter)',
                  'thermosteam._stream:Stream.Hnet (setter)', 'thermosteam._stream:Stream.mix_from', 'thermosteam._stream:Stream.separate_out'],
       notes='real Aitken/secant solvers of the multi-phase forms (xsolve_T_at_HP/SP) and real property models: {ideal, Peng-Robinson EOS} '
             'mixture x T grid x P grid x gas/liquid splits of Water/Ethanol/Propane in a MultiStream(g,l); plus the h and Hnet setters of a '
             'single-phase Stream with the gas part; read-back within 1e-6 relative (+1e-3 absolute), T unchanged within 1e-4 K when the '
             'current value is assigned (entropy only for splits without liquid: liquid-phase entropy of the real models is the known finding F-C02-K1), a bystander stream of another composition reads the same H before and after every solve; calls that '
             'raise and targets that no temperature in 250-500 K attains (bisection on a copy) are skipped')
def real_xsolvers(w, cfg):
    ch = _chemicals()
    mixture = None if cfg['pkg'] == 'ideal' else tmo.PRMixture.from_chemicals(ch)
    tmo.settings.set_thermo(ch, mixture=mixture)
    close = lambda a, b: abs(a - b) <= 1e-3 + 1e-6 * max(abs(a), abs(b))
    try:
        s = _ms(cfg)
        by = tmo.MultiStream(None, T=cfg['T'] + 7., P=cfg['P'], phases=('g', 'l'), g=[('Ethanol', 3.), ('Propane', 1.)], l=[('Water', 11.), ('Ethanol', 2.)])
        H0, S0, h0, T0 = s.H, s.S, s.h, s.T
        Hby = by.H
    except Exception:
        return                              # property models not defined here: outside the quantifier

    def bystander(after):
        try: now = by.H
        except Exception: return
        w.ensure(f'bystander stream reads the same H after {after}', close(now, Hby), before=Hby, after=now)

    props = (('H', lambda x: x.H, 0.02 * abs(H0) + 1e3), ('h', lambda x: x.h, 0.02 * abs(h0) + 50.),
             ('Hnet', lambda x: x.Hnet, 0.02 * abs(H0) + 1e3), ('S', lambda x: x.S, 0.01 * abs(S0) + 1.))
    for name, getter, delta in props:
        if name == 'S' and any(cfg['l']):
            continue      # liquid-phase entropy of the real models is the known finding F-C02-K1 (noisy S(T)); sampled where no liquid is present
        try:
            setattr(s, name, getter(s))       # assigning the current value
            w.ensure(f'assigning the current {name} leaves T unchanged', abs(s.T - T0) <= 1e-4, T_before=T0, T_after=s.T)
            bystander(f'assigning the current {name}')
            target = getter(s) + delta
            if not reachable(s, name, target): s.T = T0; continue
            setattr(s, name, target)
        except Exception:
            s.T = T0
            continue
        w.ensure(f'reading {name} back returns the assigned value', close(getter(s), target), assigned=target, read=getter(s), T=s.T)
        bystander(f'assigning {name}')
        s.T = T0
    # single-phase stream: the h and Hnet setters (H and S are sampled in C02/B_real_solvers)
    if any(cfg['g']):
        try:
            g = tmo.Stream(None, T=cfg['T'], P=cfg['P'], phase='g', **{i: v for i, v in zip(_IDS, cfg['g']) if v})
            Hg, hg = g.H, g.h
        except Exception:
            g = None
        if g is not None:
            for name, getter, delta in (('h', lambda x: x.h, 0.02 * abs(hg) + 50.), ('Hnet', lambda x: x.Hnet, 0.02 * abs(Hg) + 1e3)):
                try:
                    setattr(g, name, getter(g))
                    w.ensure(f'single phase: assigning the current {name} leaves T unchanged', abs(g.T - T0) <= 1e-4, T_before=T0, T_after=g.T)
                    target = getter(g) + delta
                    if not reachable(g, name, target): g.T = T0; continue
                    setattr(g, name, target)
                except Exception:
                    g.T = T0
                    continue
                w.ensure(f'single phase: reading {name} back returns the assigned value', close(getter(g), target), assigned=target, read=getter(g), T=g.T)
                bystander(f'assigning {name} to a single-phase stream')
                g.T = T0
    # mixing into a multi-phase receiver / separating out of it
    try:
        a = _ms(cfg)
        Tb = cfg['T'] + 25. if cfg['T'] + 25. <= 500. else cfg['T'] - 25.     # both inlets inside 250-500 K
        b = tmo.Stream(None, T=Tb, P=cfg['P'] * 1.5, phase='l', Water=3., Ethanol=4.)
        Q = 1.5e4
        H_in = a.H + b.H + Q
        m = tmo.MultiStream(None, phases=('g', 'l'))
        m.mix_from([a, b], Q=Q)
        Hm = m.H
    except Exception:
        return
    if reachable(m, 'H', H_in):
        w.ensure('mix_from: H = sum of inlet H + Q', close(Hm, H_in), got=Hm, expected=H_in)
    w.ensure('mix_from: P = lowest inlet pressure', m.P == min(a.P, b.P))
    bystander('mix_from')
    try:
        H_diff = m.H - b.H
        m.separate_out(b, energy_balance=True)
        Hs = m.H
    except Exception:
        return
    if reachable(m, 'H', H_diff):
        w.ensure('separate_out: H = H - H(other)', close(Hs, H_diff), got=Hs, expected=H_diff)
    bystander('separate_out')
    w.canary('canary (mode B: not evaluated)', False)


# --------------------------------------------------------------------------- mix_from(vle=True): the flash is a callee under contract

def vle_configs(tier):
    quick = tier == 'quick'
    I = lambda k, p='A', m='pos': [k, p, m]
    base = [([I('l'), I('g', 'B')], ['l', 'gl']), ([I('SELF'), I('g')], ['l']), ([I('gl'), I('l', 'B')], ['g'])]
    if not quick:
        base += [([I('SELF'), I('l', 'B')], ['gl']), ([I('l'), I('g', 'B'), I('l', 'B', 'maybe')], ['l']), ([I('s'), I('l')], ['s', 'l']),
                 ([I('l', 'A', 'pos+maybe'), I('g', 'B', 'pos+maybe')], ['l', 'gl'])]
    out = []
    for inlets, recvs in base:
        for r in recvs:
            for outcome in ['keep', 'all-liquid', 'all-vapour']:
                for q in (['kw'] if quick else ['none', 'kw', 'heat']):
                    if quick and outcome != 'keep' and (inlets is not base[0][0] or r != 'l'): continue
                    nm = f"recv={r};in=" + '+'.join(f'{k}{p}:{m}' for k, p, m in inlets) + f';Q={q};flash={outcome}'
                    out.append({'name': nm, 'recv': r, 'inlets': inlets, 'Q': q, 'outcome': outcome})
    return out


def _flash_contract(w, outcome, calls):
    """VLE.__call__ replaced by its contract (C04: after a flash at specified H and P the stream has the specified pressure
    and reproduces the specified enthalpy; C03: every chemical's total is conserved).  The split it leaves behind is one of
    three: as found, everything liquid, everything vapour."""
    def flash(self, *, T=None, P=None, V=None, H=None, S=None, x=None, y=None, gas_conversion=None, liquid_conversion=None):
        calls.append({k: v for k, v in (('T', T), ('P', P), ('V', V), ('H', H), ('S', S)) if v is not None})
        tc, imol = self._thermal_condition, self._imol
        rows = dict(zip(imol._phases, imol.data.rows))
        if outcome == 'all-liquid':
            rows['l'] += rows['g']; rows['g'].clear()
        elif outcome == 'all-vapour':
            rows['g'] += rows['l']; rows['l'].clear()
        if P is not None: tc.P = P
        if T is not None: tc.T = T
        if H is not None:
            Tn = w.real(f'flash{len(calls)}.T', lo=0., lo_strict=True)
            w.assume(w.eq(self.mixture.xH(tuple(zip(imol._phases, imol.data.rows)), Tn, tc.P), H))
            tc.T = Tn
    return flash


@group('C02/gap_mix_vle', configs=vle_configs,
       functions=['thermosteam._stream:Stream.mix_from', 'thermosteam._stream:Stream.vle', 'thermosteam._multi_stream:MultiStream.vle',
                  'thermosteam._multi_stream:MultiStream.reduce_phases', 'thermosteam._multi_stream:MultiStream.phase (setter)',
                  'thermosteam._stream:Stream.phases (setter)', 'thermosteam.indexer:MaterialIndexer.mix_from',
                  'thermosteam._multi_stream:MultiStream._get_property', 'thermosteam._stream:Stream._get_property'],
       assumptions=['A-models', 'A-root', 'A-flash: VLE.__call__(H=, P=) leaves the stream at the specified pressure with the specified '
                    'enthalpy reproduced and every chemical conserved (its contract: properties C04 and C03)'])
def mix_vle(w, cfg):
    """mix_from(vle=True) with the energy balance on: H' = sum of the inlets' H + Q and P' = min P (the flash is a callee
    under contract; what is checked is what mix_from asks of it and what it does before and after)."""
    import sys
    W.reset_caches()
    th = _stubs(w)
    rkind = cfg['recv']
    recv, _ = W.stream_on(w, 'r', th('A'), KINDS[rkind], present=_present('A', KINDS[rkind], 'pos'))
    inlets, frames = [], []
    for n, (k, p, m) in enumerate(cfg['inlets']):
        if k == 'SELF':
            inlets.append(recv)
        else:
            s, _ = W.stream_on(w, f'i{n}', th(p), KINDS[k], present=_present(p, KINDS[k], m))
            inlets.append(s)
            frames.append((n, s, _frame(w, s)))
    nonempty = [s for s in inlets if not s.isempty()]
    if len(nonempty) < 2:
        return          # a single non-empty inlet is copied, not flashed: C02/gap_single_inlet
    H_in = 0.
    for n, s in enumerate(inlets):
        H_in = H_in + _read_H(w, s, f'inlet {n} before')
    P_in = [s.P for s in nonempty]
    Q = 0.
    others, kw = list(inlets), {}
    if cfg['Q'] == 'kw':
        Q = w.real('Q'); kw['Q'] = Q
    elif cfg['Q'] == 'heat':
        Q = w.real('Q.heat'); others.insert(1, _Heat(Q))
    with _flash_under_contract(w, cfg['outcome']) as calls:
        recv.mix_from(others, energy_balance=True, vle=True, **kw)
    H_out = _read_H(w, recv, 'receiver after')
    w.ensure("H(receiver') = sum of inlet H + Q", w.eq(H_out, H_in + Q))
    w.ensure("P(receiver') = min P over the non-empty inlets", _min_of(w, recv.P, P_in))
    for n, s, fr in frames:
        w.ensure(f'inlet {n} unchanged (flows, phases, T, P)', _unchanged(w, s, fr))
    w.canary('canary: receiver H ignores the inlets', w.eq(H_out, Q + 1))
    w.canary("canary: P' = max", w.And(*[w.ge(recv.P, p) for p in P_in], w.gt(recv.P, P_in[0])))
    w.note(calls=[sorted(c) for c in calls], phases=recv.phases, cls=type(recv).__name__)


# --------------------------------------------------------------------------- mode B: mix_from(vle=True) with the real flash

def vleb_configs(tier):
    quick = tier == 'quick'
    out = []
    Ts = (300., 380.) if quick else (260., 300., 350., 420., 480.)
    Ps = (1e5, 1e6) if quick else (1e4, 1e5, 4e5, 1e6)
    zs = ((20., 10., 5.), (5., 30., 0.)) if quick else ((20., 10., 5.), (5., 30., 0.), (1., 0., 0.), (10., 10., 0.), (0., 0., 3.))
    Qs = (0., 5e5) if quick else (0., 1.5e4, 5e5, -3e5)
    for pkg in ('ideal', 'PR'):
        for T in Ts:
            for P in Ps:
                for z in zs:
                    for Q in Qs:
                        for ph in ('l', 'g'):
                            if not quick and ph == 'g' and pkg == 'PR' and z is not zs[0]: continue
                            if quick and (ph == 'g' and (Q or pkg == 'PR' or z is not zs[0])
                                          or pkg == 'PR' and (z is not zs[0] or not Q) or z is zs[1] and P != Ps[0]): continue
                            out.append({'name': f'{pkg};{ph};T={T:g};P={P:g};z={z};Q={Q:g}', 'pkg': pkg, 'phase': ph, 'T': T, 'P': P,
                                        'z': list(z), 'Q': Q})
    return out


def flash_attains(m, target, P, lo=250., hi=500.):
    """Is `target` the enthalpy of the library's own T,P flash of this material at some temperature in 250-500 K?  Decided
    independently of the H,P flash under check: bisection of H(flash(T, P)) = target on a copy.  The flash enthalpy of a
    strongly non-ideal mixture jumps where the vapour fraction jumps (Water/Ethanol + Propane at its bubble point with the
    EOS mixture: 0 -> 0.10); a target inside a jump is not the enthalpy of any temperature and is outside the quantifier
    (same convention as `reachable` in C02_more)."""
    c = m.copy()
    def f(T):
        c.vle(T=T, P=P)
        return c.H - target
    try:
        flo, fhi = f(lo), f(hi)
    except Exception:
        return False
    if not (flo <= 0. <= fhi): return False
    for _ in range(60):
        mid = 0.5 * (lo + hi)
        try: fm = f(mid)
        except Exception: return False
        if fm <= 0.: lo = mid
        else: hi = mid
    try:
        return min(abs(f(lo)), abs(f(hi))) <= 1e-3 + 1e-6 * abs(target)
    except Exception:
        return False


@group('C02/gap_B_mix_vle', configs=vleb_configs, mode='B',
       functions=['thermosteam._stream:Stream.mix_from', 'thermosteam._stream:Stream.vle', 'thermosteam._multi_stream:MultiStream.reduce_phases',
                  'thermosteam._multi_stream:MultiStream._get_property', 'thermosteam.mixture.mixture:Mixture.xH'],
       notes='real vapour-liquid flash and real property models: mix_from([a, b], vle=True, Q) with {ideal, Peng-Robinson EOS} mixture x phase of a '
             'x T grid x P grid x compositions of Water/Ethanol/Propane x Q; b = 3 Water + 4 Ethanol liquid at T+25 K, 1.5 P; also with the '
             'receiver as first inlet; H within 1e-6 relative (+1e-3 absolute) of sum of inlet H + Q (observed 1e-12), P = lowest inlet pressure; '
             'calls that raise, results outside 250-500 K and targets that the T,P flash of the mixed material attains at no temperature in 250-500 K '
             '(bisection on a copy; the flash enthalpy jumps where the vapour fraction jumps) are skipped')
def real_mix_vle(w, cfg):
    ch = _chemicals()
    mixture = None if cfg['pkg'] == 'ideal' else tmo.PRMixture.from_chemicals(ch)
    tmo.settings.set_thermo(ch, mixture=mixture)
    flows = {i: v for i, v in zip(_IDS, cfg['z']) if v}
    close = lambda a, b: abs(a - b) <= 1e-3 + 1e-6 * max(abs(a), abs(b))
    Q = cfg['Q']
    for recv_is_inlet in (False, True):
        try:
            a = tmo.Stream(None, T=cfg['T'], P=cfg['P'], phase=cfg['phase'], **flows)
            b = tmo.Stream(None, T=cfg['T'] + 25. if cfg['T'] + 25. <= 500. else cfg['T'] - 25., P=cfg['P'] * 1.5, phase='l', Water=3., Ethanol=4.)
            H_in = a.H + b.H + Q
            Hb, Tb, Pb = b.H, b.T, b.P
            m = a if recv_is_inlet else tmo.Stream(None)
            m.mix_from([a, b], vle=True, Q=Q)
            Hm = m.H
        except Exception:
            continue
        tag = 'mix_from(vle=True' + (', receiver among the inlets)' if recv_is_inlet else ')')
        if 250. <= m.T <= 500.:
            w.ensure(f'{tag}: H = sum of inlet H + Q', close(Hm, H_in) or not flash_attains(m, H_in, cfg['P']),
                     got=Hm, expected=H_in, T=m.T, phases=m.phases)
        w.ensure(f'{tag}: P = lowest inlet pressure', m.P == cfg['P'])
        w.ensure(f'{tag}: inlet unchanged (H, T, P)', close(b.H, Hb) and b.T == Tb and b.P == Pb)
    w.canary('canary (mode B: not evaluated)', False)


# --------------------------------------------------------------------------- conserve_phases=True where the phase set collapses

def cp_configs(tier):
    quick = tier == 'quick'
    out = []
    fam = [('gl:l-only', ['l', 'l']), ('gl:empty', ['l', 'l']), ('gl:g-only', ['g', 'g']), ('gl:l-only', ['g', 'g']), ('gl:empty', ['l', 'g'])]
    if not quick:
        fam += [('gl:l-only', ['l', 'gl']), ('gls:l-only', ['l', 'l']), ('gl:empty', ['s', 's']), ('l', ['gl', 'gl'])]
    for recv, ins in fam:
        for pkg in (['B'] if quick else ['A', 'B']):
            for q in (['kw'] if quick else ['kw', 'heat']):
                out.append({'name': f'recv={recv};in={"+".join(ins)};pkg={pkg};Q={q}', 'recv': recv, 'ins': ins, 'pkg': pkg, 'Q': q})
    return out


@group('C02/gap_conserve_phases', configs=cp_configs,
       functions=['thermosteam._stream:Stream.mix_from', 'thermosteam._multi_stream:MultiStream.phases (setter)',
                  'thermosteam._multi_stream:MultiStream.phase', 'thermosteam._multi_stream:MultiStream.phase (setter)',
                  'thermosteam._stream:Stream.H (setter)', 'thermosteam._multi_stream:MultiStream.H (setter)',
                  'thermosteam.indexer:MaterialIndexer.to_chemical_indexer', 'thermosteam.indexer:MaterialIndexer.to_material_indexer'],
       assumptions=['A-models', 'A-root'])
def conserve_phases(w, cfg):
    """mix_from(conserve_phases=True) into a multi-phase receiver whose phases plus the inlets' phases are fewer than it has
    (it turns into a single-phase stream on the way) or more: the balance sentences hold all the same."""
    W.reset_caches()
    th = _stubs(w)
    rk, _, fill = cfg['recv'].partition(':')
    phases = KINDS[rk]
    present = {'default': 'zero'}
    if fill in ('l-only', 'g-only'):
        present[fill[0], PKG['A'][0]] = 'pos'
    elif not fill:
        present = _present('A', phases, 'pos')
    recv, _ = W.stream_on(w, 'r', th('A'), phases, present=present)
    inlets = []
    for n, k in enumerate(cfg['ins']):
        p = 'A' if n == 0 else cfg['pkg']
        s, _ = W.stream_on(w, f'i{n}', th(p), KINDS[k], present=_present(p, KINDS[k], 'pos'))
        inlets.append(s)
    H_in = 0.
    for n, s in enumerate(inlets):
        H_in = H_in + _read_H(w, s, f'inlet {n} before')
    P_in = [s.P for s in inlets]
    frames = [(n, s, _frame(w, s)) for n, s in enumerate(inlets)]
    others, kw = list(inlets), {}
    if cfg['Q'] == 'kw':
        Q = w.real('Q'); kw['Q'] = Q
    else:
        Q = w.real('Q.heat'); others.insert(1, _Heat(Q))
    recv.mix_from(others, energy_balance=True, conserve_phases=True, **kw)
    H_out = _read_H(w, recv, 'receiver after')
    w.ensure("H(receiver') = sum of inlet H + Q", w.eq(H_out, H_in + Q))
    w.ensure("P(receiver') = min P over the non-empty inlets", _min_of(w, recv.P, P_in))
    for n, s, fr in frames:
        w.ensure(f'inlet {n} unchanged (flows, phases, T, P)', _unchanged(w, s, fr))
    w.canary('canary: receiver H ignores the inlets', w.eq(H_out, Q + 1))
    w.canary("canary: P' = max", w.And(*[w.ge(recv.P, p) for p in P_in], w.gt(recv.P, P_in[0])))
    w.note(phases=recv.phases, cls=type(recv).__name__)
