# -*- coding: utf-8 -*-
"""
C16 (gap round) — activity-coefficient models are normalised, consistent and side-effect free.

What the groups of C16_activity_coefficients.py / C16_more.py do not look at, and what is added here

  C16/gap_new_vertex_sym   (S) the arrays that `GroupActivityCoefficients.__new__` derives (r, q, Q fractions, group mask, interaction
                           matrix incl. the `get_interaction` fall-backs, gather index) were rebuilt by hand in C16/vertex_value_sym;
                           here the REAL __new__ of the three real classes builds them (from synthetic sub-group / interaction tables
                           with exact rational R, Q, one Q = 0, pairs absent from the table, members without group data in every
                           position), the real kernels run below it, and gamma_v = 1 at x = e_v is proved for all T and all
                           interaction parameters; the request is repeated (class cache) and the functional form is read too.
  C16/gap_permutation_sym  (S) the value for a chemical does not depend on its position: proved for ALL compositions, temperatures and
                           interaction parameters per structure and order (was: bounded, six data-base chemicals).
  C16/gap_histories_sym    (S) histories on the same objects: other model classes requested first for the same tuple, repeated
                           requests (list / generator), the permuted tuple first, the caller overwriting a returned array,
                           f/args captured before evaluations at another T and x, `activity_coefficients` in between, models
                           obtained through pickle / copy / deepcopy.  After each history the sentences of the property are read
                           again (position independence against the model of the reversed tuple, functional form = object call,
                           members without groups = 1, caller's read-only array untouched).
  C16/gap_ideal_histories  (S) ideal activity / fugacity / Poynting models obtained through every channel (class, fall-back of the three
                           group classes, Thermo.ideal(), IdealThermo, subset, pickle, copy, deepcopy, `chemicals` setter) return one
                           again after the caller has overwritten an earlier result in place.
  C16/gap_B_group_families (B) real compiled kernels and real data-base tables on group assignments the six chemicals of the existing
                           bounded groups do not have: a sub-group with Q = 0 (quaternary carbon), main-group pairs without
                           interaction parameters, chemicals with identical group sets / the same groups in other counts, single
                           sub-group molecules of rare main groups, 6 members with 12 sub-groups.
  C16/gap_B_views          (B) the compiled functional form and the object call on read-only arrays, strided / reversed / offset views
                           of a larger buffer (the buffer around the view is part of the caller's state).
  C16/gap_B_regroup_history (B) the functional groups of a member are (re-)assigned in place between two requests for the same tuple
                           (the documented way to give a chemical NIST groups): position independence and "no group data = one" are
                           read for the chemicals as they are when the model is asked.  FAILS on the unchanged tree: the class cache
                           is keyed by the chemical objects only (reproducer /tmp/gap/C16_defect_1.py, proposed fix C16_defect_1.diff).
"""
import os
import sys
import copy as _copy
import math
import pickle
import random
import itertools
import contextlib
from fractions import Fraction

import numpy as np
import thermosteam as tmo
from engine.api import group
from contracts.C16_activity_coefficients import (AC, FC, PC, chem, Tally, _random_points, _normalised, SEED, _IDEAL_THERMO)

UF = sys.modules['thermosteam.equilibrium.unifac']
GROUP_CLASSES = {'UNIFAC': AC.UNIFACActivityCoefficients, 'Dortmund': AC.DortmundActivityCoefficients,
                 'NIST': AC.NISTActivityCoefficients}
ALL_MODELS = ('UNIFAC', 'Dortmund', 'NIST')
KERNELS = ['thermosteam.equilibrium.activity_coefficients:gamma_UNIFAC',
           'thermosteam.equilibrium.activity_coefficients:gamma_modified_UNIFAC',
           'thermosteam.equilibrium.activity_coefficients:group_activity_coefficients',
           'thermosteam.equilibrium.activity_coefficients:loggammacs_UNIFAC',
           'thermosteam.equilibrium.activity_coefficients:loggammacs_modified_UNIFAC',
           'thermosteam.equilibrium.activity_coefficients:psi_UNIFAC',
           'thermosteam.equilibrium.activity_coefficients:psi_modified_UNIFAC',
           'thermosteam.equilibrium.activity_coefficients:fill_group_psis']
BUILDERS = ['thermosteam.equilibrium.activity_coefficients:GroupActivityCoefficients.__new__',
            'thermosteam.equilibrium.activity_coefficients:GroupActivityCoefficients.__call__',
            'thermosteam.equilibrium.activity_coefficients:GroupActivityCoefficients.args',
            'thermosteam.equilibrium.activity_coefficients:UNIFACActivityCoefficients.f',
            'thermosteam.equilibrium.activity_coefficients:DortmundActivityCoefficients.f',
            'thermosteam.equilibrium.activity_coefficients:NISTActivityCoefficients.f',
            'thermosteam.equilibrium.activity_coefficients:get_chemgroups',
            'thermosteam.equilibrium.activity_coefficients:chemgroup_array',
            'thermosteam.equilibrium.activity_coefficients:get_interaction']
SYN_ASSUMPTIONS = [
    'exp, log and r**0.75 are uninterpreted functions with exp(0) = 1, log(1) = 0, log(a/b) = log a - log b, exp > 0, r**0.75 > 0 for '
    'r > 0 (ground instances over the occurring terms)',
    'the sub-group and interaction-parameter tables of the model classes are replaced by synthetic tables (input data, not code): 2-3 '
    'sub-groups with exact rational R, Q (one Q = 0 in the zeroQ structure), symbolic interaction parameters, some pairs absent from the '
    'table; the chemicals are blank Chemical objects carrying the group counts of the structure']


# =========================================================================== synthetic group data (S groups)

def _exact(w, a, b):
    """The rational a/b: an exact constant term in symbolic mode (the engine reads floats as their decimal expansion and computes
    exactly from there on (A-real), so a float R or Q would carry its rounding into the derived arrays), the float a/b natively."""
    if w.symbolic:
        from engine.sx.sym import SymReal, lift
        return SymReal(lift(Fraction(a, b)))
    return a / b


def _pow_law(w, G):
    """Ground instances of the declared law  r > 0 => r**0.75 > 0  for the r of a modified-UNIFAC model."""
    if w.symbolic and type(G) in (AC.DortmundActivityCoefficients, AC.NISTActivityCoefficients):
        import z3
        from engine.sx.sym import ctx, lift
        for r in G._rs:
            w.assume(z3.Implies(lift(r) > 0, ctx().uf('pow', 2)(lift(r), lift(0.75)) > 0))


def _exp0_law(w, *values):
    """Ground instance of the declared law exp(0) = 1 for the given exp terms (DESIGN 2.2: laws are instantiated, never quantified)."""
    if w.symbolic:
        import z3
        for g in values:
            t = getattr(g, 't', None)
            if t is not None and z3.is_app(t) and t.decl().name() == 'exp' and t.num_args() == 1:
                w.assume(z3.Implies(t.arg(0) == 0, t == 1))


class SyntheticTables:
    """
    While active, the sub-group table and the interaction-parameter table of the given real model classes are replaced by small
    synthetic tables: sub-group ids 1..M with the main-group ids, R and Q of the structure, interaction parameters that are
    symbolic leaves (own leaves per class), or absent from the table so that the fall-back of `get_interaction` is what the
    model gets.  The real `GroupActivityCoefficients.__new__` then builds every derived array from them.  The class caches are
    emptied on entry and on exit (every explored path builds its world from scratch).
    """

    def __init__(self, w, models, struct):
        mains = struct['mains']; M = len(mains)
        missing = set(tuple(p) for p in struct.get('missing', ()))
        zeroQ = struct.get('zeroQ', ())
        self.tables = {}
        for model in models:
            RQ = [(_exact(w, 9 + 7 * m, 10), (0. if m in zeroQ else _exact(w, 8 + 3 * m, 10))) for m in range(M)]
            subgroups = {m + 1: UF.UNIFAC_subgroup(f'g{m + 1}', mains[m], f'G{mains[m]}', RQ[m][0], RQ[m][1]) for m in range(M)}
            inter = {}
            p = model[0]
            for a in sorted(set(mains)):
                for b in sorted(set(mains)):
                    if a == b or (a, b) in missing: continue
                    if model == 'UNIFAC':
                        v = w.real(f'{p}.a{a}_{b}', lo=-2000., hi=2000.)
                    else:
                        v = [w.real(f'{p}.a{a}_{b}', lo=-2000., hi=2000.), w.real(f'{p}.b{a}_{b}', lo=-5., hi=5.),
                             w.real(f'{p}.c{a}_{b}', lo=-0.01, hi=0.01)]
                    inter.setdefault(a, {})[b] = v
            self.tables[model] = (subgroups, inter)

    def __enter__(self):
        self.saved = {}
        for cls in GROUP_CLASSES.values(): cls._cached.clear()
        for model, (subgroups, inter) in self.tables.items():
            cls = GROUP_CLASSES[model]
            self.saved[model] = (cls.__dict__['all_subgroups'], cls.__dict__['all_interactions'])
            cls.all_subgroups = subgroups
            cls.all_interactions = inter
        return self

    def __exit__(self, *exc):
        for model, (sg, ip) in self.saved.items():
            cls = GROUP_CLASSES[model]
            cls.all_subgroups, cls.all_interactions = sg, ip
        for cls in GROUP_CLASSES.values(): cls._cached.clear()
        return False


_SYN = {}


def syn_chemical(ID, groups):
    """A real (blank) Chemical whose UNIFAC, Dortmund and NIST group counts are `groups` ({sub-group id: count}; {} = no group data)."""
    key = (ID, tuple(sorted(groups.items())))
    c = _SYN.get(key)
    if c is None:
        c = _SYN[key] = tmo.Chemical.blank(ID)
        for field in ALL_MODELS:
            getattr(c, field).update({int(g): int(n) for g, n in groups.items()})
    return c


def syn_chemicals(struct):
    return tuple(syn_chemical(f'S{i}', g) for i, g in enumerate(struct['chems']))


# group structures: per chemical {sub-group: count} ({} = member without group data), main group of every sub-group, pairs of main
# groups that are absent from the interaction table, sub-groups (0-based) with Q = 0
STRUCTS = {
    # two chemicals, disjoint groups of two main groups
    'AB': dict(chems=[{1: 1}, {2: 1}], mains=[1, 2]),
    # a shared sub-group, a second sub-group of the SAME main group (i == j branch for different sub-groups)
    'shared': dict(chems=[{1: 1, 2: 1}, {2: 2, 3: 1}], mains=[1, 1, 2]),
    # pairs of main groups that the table does not hold (fall-back of get_interaction), one way only
    'missing': dict(chems=[{1: 2}, {2: 1, 3: 1}], mains=[1, 2, 3], missing=[(1, 3), (2, 1)]),
    # members without group data first / between / on both sides
    'AB+none-first': dict(chems=[{}, {1: 1}, {2: 1}], mains=[1, 2]),
    'AB+none-mid': dict(chems=[{1: 1}, {}, {2: 3}], mains=[1, 2]),
    'AB+none-both': dict(chems=[{}, {1: 1, 2: 1}, {}, {2: 1}], mains=[1, 2]),
    # a sub-group with Q = 0 (quaternary carbon) inside a chemical
    'zeroQ': dict(chems=[{1: 3, 2: 1, 3: 1}, {3: 1, 1: 1}], mains=[1, 1, 2], zeroQ=[1]),
    # three chemicals
    'ABC': dict(chems=[{1: 1}, {1: 1, 2: 1}, {3: 2}], mains=[1, 2, 3]),
    # thorough tier only
    'ABC+none': dict(chems=[{1: 1}, {}, {1: 1, 2: 1}, {3: 2}], mains=[1, 2, 3], missing=[(3, 1)]),
    'four': dict(chems=[{1: 1}, {2: 1}, {3: 1}, {1: 2, 2: 1}], mains=[1, 2, 3]),
    'same-groups': dict(chems=[{1: 2, 2: 4}, {1: 2, 2: 10}, {3: 1}], mains=[1, 1, 2]),
}
QUICK_STRUCTS = ('AB', 'shared', 'missing', 'AB+none-first', 'AB+none-mid', 'AB+none-both', 'zeroQ', 'ABC')


def _ro(w, values):
    """A read-only composition array (a write through any alias raises instead of going unnoticed when it stores an equal value)."""
    a = np.array(list(values), dtype=object if w.symbolic else float)
    a.flags.writeable = False
    return a


# =========================================================================== S: gamma_v = 1 at the vertex, arrays built by the real __new__

def new_configs(tier):
    out = []
    for model in ALL_MODELS:
        for sname, s in STRUCTS.items():
            if tier == 'quick' and sname not in QUICK_STRUCTS: continue
            if tier == 'quick' and model == 'NIST' and sname not in ('shared', 'missing', 'AB+none-mid', 'zeroQ'): continue
            for v in range(len(s['chems'])):
                if not s['chems'][v]: continue
                out.append({'name': f'{model};{sname};vertex={v}', 'model': model, 'struct': sname, 'vertex': v})
    return out


@group('C16/gap_new_vertex_sym', configs=new_configs, functions=BUILDERS + KERNELS, assumptions=SYN_ASSUMPTIONS)
def gap_new_vertex_sym(w, cfg):
    """gamma_v = 1 at x = e_v for ALL temperatures and interaction parameters, with every derived array built by the real __new__ of
    the real model class and everything below it real code down to exp/log; members without group data get exactly one; the
    caller's (read-only) array is untouched; a second request for the same tuple (served from the class cache) is read through
    the functional form."""
    model = cfg['model']; cls = GROUP_CLASSES[model]
    s = STRUCTS[cfg['struct']]
    v = cfg['vertex']
    chems = syn_chemicals(s)
    n = len(chems)
    T = w.real('T', lo=250., hi=450.)
    e = [1. if j == v else 0. for j in range(n)]
    with SyntheticTables(w, [model], s):
        G = cls(chems)
        w.ensure('a model of the requested class is built', type(G) is cls)
        _pow_law(w, G)
        x = _ro(w, e)
        gamma = G(x, T)
        G2 = cls(list(chems))                       # second request: the remembered model
        xf = _ro(w, e)
        gf = G2.f(xf, T, *G2.args)
    _exp0_law(w, gamma[v], gf[v])
    w.ensure('one coefficient per chemical', len(gamma) == n and len(gf) == n)
    w.ensure(f'gamma[{v}] = 1 at the vertex x[{v}] = 1 (object call)', w.eq(gamma[v], 1.))
    w.ensure(f'gamma[{v}] = 1 at the vertex x[{v}] = 1 (functional form, model served for the second request)', w.eq(gf[v], 1.))
    for j in range(n):
        if not s['chems'][j]:
            w.ensure(f'gamma[{j}] = 1 (member without group data)', w.And(w.eq(gamma[j], 1.), w.eq(gf[j], 1.)))
        w.ensure(f'functional form[{j}] = object call[{j}]', w.eq(gf[j], gamma[j]))
        w.ensure(f"caller's x[{j}] unchanged", w.And(w.eq(x[j], e[j]), w.eq(xf[j], e[j])))
    w.canary('canary: the coefficient at the vertex is two', w.eq(gamma[v], 2.))
    w.note(gamma=list(gamma))


# =========================================================================== S: permutation of the chemical list

def perm_configs(tier):
    out = []
    # quick: the structures / orders whose path the solver builds in 0.3-3 s (the others need 5-30 s: every division inside the kernel
    # is a nonlinear feasibility query when the composition is symbolic)
    structs = ('AB', 'shared', 'zeroQ', 'AB+none-first') if tier == 'quick' else ('AB', 'shared', 'missing', 'AB+none-first', 'AB+none-mid', 'zeroQ', 'ABC')
    for model in ALL_MODELS:
        for sname in structs:
            n = len(STRUCTS[sname]['chems'])
            perms = [p for p in itertools.permutations(range(n)) if p != tuple(range(n))]
            if tier == 'quick': perms = [p for p in perms if p in ((1, 0), (2, 0, 1))]
            for p in perms:
                out.append({'name': f'{model};{sname};order={"".join(map(str, p))}', 'model': model, 'struct': sname, 'perm': list(p)})
    return out


def _composition(w, s, name='x'):
    """A composition on the simplex in which every member with groups is present (members without group data may be absent)."""
    xl = [w.real(f'{name}{j}', lo=0., hi=1., lo_strict=bool(g)) for j, g in enumerate(s['chems'])]
    w.assume(w.eq(w.total(xl), 1.))
    return xl


@group('C16/gap_permutation_sym', configs=perm_configs, functions=BUILDERS + KERNELS, assumptions=SYN_ASSUMPTIONS)
def gap_permutation_sym(w, cfg):
    """The value for a chemical does not depend on where it sits in the chemical list: for ALL compositions in which the members
    with groups are present, all T and all interaction parameters (per structure and order); both models built by the real __new__."""
    model = cfg['model']; cls = GROUP_CLASSES[model]
    s = STRUCTS[cfg['struct']]
    perm = cfg['perm']
    chems = syn_chemicals(s)
    n = len(chems)
    T = w.real('T', lo=250., hi=450.)
    # vacuity guard on a side path with a fixed composition (there every feasibility query is linear in the exp terms; with the
    # symbolic composition the solver sometimes finds no model of the path within its budget on a loaded machine)
    early = bool(w.real('canary.switch') > 0.)
    xl = [[1.], [0.375, 0.625], [0.375, 0.125, 0.5], [0.0625, 0.375, 0.0625, 0.5]][n - 1] if early else _composition(w, s)
    with SyntheticTables(w, [model], s):
        G = cls(chems)
        _pow_law(w, G)
        x = _ro(w, xl)
        g0 = G(x, T)
        Gp = cls(tuple(chems[q] for q in perm))
        xp = _ro(w, [xl[q] for q in perm])
        gp = Gp(xp, T)
    if early:
        jg = next(j for j in range(n) if s['chems'][j])
        w.canary('canary: the value of a member with groups is off by one in the permuted list', w.eq(gp[perm.index(jg)], g0[jg] + 1.))
        return
    w.ensure('the model of the permuted list reports the permuted chemicals', tuple(Gp.chemicals) == tuple(chems[q] for q in perm))
    for kpos, q in enumerate(perm):
        w.ensure(f'value of member {q} listed at position {kpos} = its value in the original order', w.eq(gp[kpos], g0[q]))
        w.ensure(f"caller's arrays unchanged (member {q})", w.And(w.eq(x[q], xl[q]), w.eq(xp[kpos], xl[q])))



# =========================================================================== S: histories on the same objects

HISTORIES = ('other-classes-first', 'cache-hit', 'perm-first', 'mutate-result', 'captured-args', 'method-between',
             'pickle', 'copy', 'deepcopy')


def hist_configs(tier):
    out = []
    structs = ('AB+none-mid',) if tier == 'quick' else ('AB+none-mid', 'shared', 'missing', 'zeroQ', 'AB+none-both')
    for model in ALL_MODELS:
        for sname in structs:
            for h in HISTORIES:
                out.append({'name': f'{model};{sname};{h}', 'model': model, 'struct': sname, 'history': h})
    return out


@group('C16/gap_histories_sym', configs=hist_configs,
       functions=BUILDERS + KERNELS + ['thermosteam.equilibrium.activity_coefficients:GroupActivityCoefficients.__reduce__',
                                       'thermosteam.equilibrium.activity_coefficients:GroupActivityCoefficients.activity_coefficients',
                                       'thermosteam.equilibrium.activity_coefficients:ActivityCoefficients.chemicals'],
       assumptions=SYN_ASSUMPTIONS)
def gap_histories_sym(w, cfg):
    """After a history on the same classes / objects the sentences of the property still hold for the model obtained for the tuple:
    every value read for a member (object call, functional form, through captured f/args, after the caller overwrote an earlier
    result) equals the value the model of the REVERSED tuple gives it; members without group data get one; arrays untouched."""
    model = cfg['model']; cls = GROUP_CLASSES[model]; h = cfg['history']
    s = STRUCTS[cfg['struct']]
    chems = syn_chemicals(s)
    n = len(chems)
    idx = [j for j, g in enumerate(s['chems']) if g]
    T = w.real('T', lo=250., hi=450.)
    # compositions are fixed here (binary fractions, exact in both modes; ALL compositions are the subject of C16/gap_permutation_sym):
    # with a symbolic composition every division inside the kernel is a nonlinear feasibility query and four to six evaluations per
    # history took the solver 20-60 s per configuration; T and the interaction parameters stay symbolic
    xl = [[1.], [0.375, 0.625], [0.375, 0.125, 0.5], [0.0625, 0.375, 0.0625, 0.5]][n - 1]
    T2 = 300.                                             # the unrelated evaluation of the history
    yl = [[1.], [0.25, 0.75], [0.25, 0.5, 0.25], [0.125, 0.25, 0.5, 0.125]][n - 1]
    ident = tuple(range(n)); rev = tuple(reversed(ident))
    reads = {}                                           # label -> coefficients in the numbering of `chems`
    arrays = []                                          # (array handed in, expected content)

    def X(vals):
        a = _ro(w, vals); arrays.append((a, list(vals))); return a

    def build(name, order, as_=tuple):
        G = GROUP_CLASSES[name](as_(chems[q] for q in order))
        _pow_law(w, G)
        return G

    models = ALL_MODELS if h == 'other-classes-first' else (model,)
    with SyntheticTables(w, models, s):
        if h == 'other-classes-first':
            for other in ALL_MODELS:
                if other != model: build(other, ident)
            M = build(model, ident)
        elif h == 'cache-hit':
            M1 = build(model, ident)
            M1(X(yl), T2)
            build(model, ident, list)
            M = cls(c for c in chems)
        elif h == 'perm-first':
            Mp0 = build(model, rev)
            Mp0(X([yl[q] for q in rev]), T2)
            M = build(model, ident)
        elif h == 'mutate-result':
            M = build(model, ident)
            r0 = M(X(xl), T)
            reads['first result'] = list(r0)
            for j in range(n): r0[j] = 7. + j           # the caller turns the returned array into something else
        elif h == 'captured-args':
            M = build(model, ident)
            f, args = M.f, M.args
            M(X(yl), T2)
            reads['through f and args captured before another evaluation'] = list(f(X(xl), T, *args))
        elif h == 'method-between':
            M = build(model, ident)
            zs = w.total([yl[j] for j in idx])
            M.activity_coefficients(X([yl[j] / zs for j in idx]), T2)
        else:
            M0 = build(model, ident)
            M0(X(yl), T2)
            M = {'pickle': lambda m: pickle.loads(pickle.dumps(m)), 'copy': _copy.copy, 'deepcopy': _copy.deepcopy}[h](M0)
            _pow_law(w, M)
        reads['object call'] = list(M(X(xl), T))
        reads['functional form'] = list(M.f(X(xl), T, *M.args))
        Mp = build(model, rev)
        rp = Mp(X([xl[q] for q in rev]), T)
        IDs = [c.ID for c in M.chemicals]
    w.ensure('the model obtained lists the chemicals of the tuple in order', IDs == [c.ID for c in chems] and len(rp) == n)
    for label, r in reads.items():
        w.ensure(f'{label}: one coefficient per chemical', len(r) == n)
        for q in range(n):
            w.ensure(f'{label}: value of member {q} = its value when the list is reversed', w.eq(r[q], rp[n - 1 - q]))
            if not s['chems'][q]:
                w.ensure(f'{label}: gamma[{q}] = 1 (member without group data)', w.eq(r[q], 1.))
    w.ensure("every composition array handed in is unchanged",
             w.And(*[w.eq(a[j], v[j]) for a, v in arrays for j in range(len(v))]))
    r = reads['object call']
    w.canary('canary: the value of a member with groups is off by one when the list is reversed', w.eq(r[idx[0]], rp[n - 1 - idx[0]] + 1.))


# =========================================================================== S: ideal models through every channel, after a history

IDEAL_CHANNELS = ('class', 'fallback:UNIFAC', 'fallback:Dortmund', 'fallback:NIST', 'Thermo.ideal', 'IdealThermo', 'ideal.subset',
                  'pickle', 'copy', 'deepcopy', 'pickle.thermo', 'setter')


def ideal_configs(tier):
    out = []
    for ch in IDEAL_CHANNELS:
        for n in ((2,) if tier == 'quick' else (1, 2, 3)):
            if ch in ('Thermo.ideal', 'IdealThermo', 'ideal.subset', 'pickle.thermo') and n != 2: continue
            out.append({'name': f'{ch};n={n}', 'channel': ch, 'n': n})
    return out


@group('C16/gap_ideal_histories', configs=ideal_configs, loop_free=True,
       functions=['thermosteam.equilibrium.activity_coefficients:IdealActivityCoefficients.__init__',
                  'thermosteam.equilibrium.activity_coefficients:IdealActivityCoefficients.__call__',
                  'thermosteam.equilibrium.fugacity_coefficients:IdealFugacityCoefficients.__init__',
                  'thermosteam.equilibrium.fugacity_coefficients:IdealFugacityCoefficients.__call__',
                  'thermosteam.equilibrium.fugacity_coefficients:IdealFugacityCoefficients.chemicals',
                  'thermosteam.equilibrium.poyinting_correction_factors:PoyintingCorrectionFactors.__init__',
                  'thermosteam.equilibrium.poyinting_correction_factors:PoyintingCorrectionFactors.chemicals',
                  'thermosteam.equilibrium.poyinting_correction_factors:PoyintingCorrectionFactors.__reduce__',
                  'thermosteam.equilibrium.poyinting_correction_factors:MockPoyintingCorrectionFactors.__call__',
                  'thermosteam.equilibrium.activity_coefficients:GroupActivityCoefficients.__new__',
                  'thermosteam.equilibrium.ideal:ideal', 'thermosteam.equilibrium.ideal:_ideal_coefficient',
                  'thermosteam._thermo:Thermo.ideal', 'thermosteam._thermo:IdealThermo.__init__',
                  'thermosteam._thermo:IdealThermo.subset', 'thermosteam._thermo:IdealThermo.ideal'])
def gap_ideal_histories(w, cfg):
    """The ideal activity model returns ones and the ideal fugacity / Poynting models return one - also the second time, after the
    caller has overwritten the first result in place, and for objects obtained through a fall-back, a package, a copy or a pickle."""
    ch = cfg['channel']; n = cfg['n']
    IDs = ('Water', 'O2', 'N2')[:n] if ch.startswith('fallback') else ('Water', 'Ethanol', 'O2')[:n]
    chems = tuple(chem(i) for i in IDs)
    dt = object if w.symbolic else float
    xl = [w.real(f'x{j}', lo=0., hi=1.) for j in range(n)]
    w.assume(w.eq(w.total(xl), 1.))
    T = w.real('T', lo=250., hi=450.)
    T2 = w.real('T2', lo=250., hi=450.)
    P = w.real('P', lo=1e3, hi=1e7)
    gamma = phi = pcf = None
    if ch == 'class':
        gamma, phi, pcf = AC.IdealActivityCoefficients(chems), FC.IdealFugacityCoefficients(chems), PC.MockPoyintingCorrectionFactors(chems)
    elif ch.startswith('fallback'):
        cls = GROUP_CLASSES[ch.split(':')[1]]
        cls._cached.clear()
        gamma = cls(chems)                              # at most one member with groups
        cls._cached.clear()
    elif ch in ('Thermo.ideal', 'IdealThermo', 'ideal.subset', 'pickle.thermo'):
        th = _IDEAL_THERMO
        if ch == 'Thermo.ideal': it = th.ideal()
        elif ch == 'IdealThermo': it = tmo.IdealThermo(th.chemicals, th.mixture)
        elif ch == 'ideal.subset': it = th.ideal().subset(th.chemicals)
        else: it = pickle.loads(pickle.dumps(th.ideal()))
        chems = tuple(it.chemicals)
        gamma, phi, pcf = it.Gamma(chems), it.Phi(chems), it.PCF(chems)
    elif ch in ('pickle', 'copy', 'deepcopy'):
        via = {'pickle': lambda m: pickle.loads(pickle.dumps(m)), 'copy': _copy.copy, 'deepcopy': _copy.deepcopy}[ch]
        g0, p0, c0 = AC.IdealActivityCoefficients(chems), FC.IdealFugacityCoefficients(chems), PC.MockPoyintingCorrectionFactors(chems)
        first = g0(np.array(xl, dtype=dt), T2)
        for j in range(n): first[j] = 3.
        gamma, phi, pcf = via(g0), via(p0), via(c0)
    elif ch == 'setter':
        other = tuple(reversed(chems))
        phi, pcf = FC.IdealFugacityCoefficients(other), PC.MockPoyintingCorrectionFactors(other)
        phi.chemicals = list(chems); pcf.chemicals = list(chems)
        gamma = AC.IdealActivityCoefficients(iter(chems))
    x = _ro(w, xl)
    w.ensure('the ideal activity model is handed out', type(gamma) is AC.IdealActivityCoefficients)
    w.ensure('chemicals kept in order', [c.ID for c in gamma.chemicals] == [c.ID for c in chems]
             and (phi is None or [c.ID for c in phi.chemicals] == [c.ID for c in chems])
             and (pcf is None or [c.ID for c in pcf.chemicals] == [c.ID for c in chems]))
    r1 = gamma(x, T)
    w.ensure('ideal activity model: one coefficient per chemical, all one', w.And(len(r1) == n, *[w.eq(r1[j], 1.) for j in range(n)]))
    for j in range(n): r1[j] = r1[j] * xl[j] + 2.          # the caller turns the coefficients into something else, in place
    r2 = gamma(x, T)
    w.ensure('ideal activity model: all one again after the caller overwrote the first result', w.And(len(r2) == n, *[w.eq(r2[j], 1.) for j in range(n)]))
    r3 = gamma(list(xl), T2)
    w.ensure('ideal activity model: all one for a list at another temperature', w.And(len(r3) == n, *[w.eq(r3[j], 1.) for j in range(n)]))
    w.ensure('ideal activity model: functional form = 1', w.eq(gamma.f(x, T, *gamma.args), 1.))
    if phi is not None:
        w.ensure('ideal fugacity model: object call and functional form = 1', w.And(w.eq(phi(x, T, P), 1.), w.eq(phi.f(x, T, P, *phi.args), 1.),
                                                                                     w.eq(phi(list(xl), T2, P), 1.)))
    if pcf is not None:
        Ps = [w.real(f'Psat{j}', lo=0., lo_strict=True) for j in range(n)]
        Psats = _ro(w, Ps)
        w.ensure('ideal Poynting model = 1 (with and without saturation pressures)', w.And(w.eq(pcf(T, P), 1.), w.eq(pcf(T2, P, Psats), 1.)))
        w.ensure('saturation pressures unchanged', w.all_eq(list(Psats), Ps))
    w.ensure("caller's composition unchanged", w.all_eq(list(x), xl))
    w.canary('canary: the ideal model returns two', w.eq(r2[0], 2.))


# =========================================================================== B: group families the existing bounded groups do not have

# group counts by sub-group id; the Dortmund and NIST tables share the numbering for these sub-groups
FAMILY = {
    'Water': ({16: 1}, {16: 1}),
    'tert_Butanol': ({1: 3, 4: 1, 14: 1}, {1: 3, 4: 1, 82: 1}),            # quaternary C: Q = 0
    'MTBE': ({1: 3, 4: 1, 24: 1}, {1: 3, 4: 1, 24: 1}),
    'Neopentane': ({1: 4, 4: 1}, {1: 4, 4: 1}),
    'Isooctane': ({1: 5, 2: 1, 3: 1, 4: 1}, {1: 5, 2: 1, 3: 1, 4: 1}),
    'Dodecane': ({1: 2, 2: 10}, {1: 2, 2: 10}),
    'Tridecane': ({1: 2, 2: 11}, {1: 2, 2: 11}),
    'Hexane_a': ({1: 2, 2: 4}, {1: 2, 2: 4}),                              # two Chemical objects with the same assignment (isomers)
    'Hexane_b': ({1: 2, 2: 4}, {1: 2, 2: 4}),
    'Octanol': ({1: 1, 2: 7, 14: 1}, {1: 1, 2: 7, 14: 1}),
    'AceticAcid': ({1: 1, 42: 1}, {1: 1, 42: 1}),
    'Chloroform': ({50: 1}, {50: 1}),
    'EthylAcetate': ({1: 1, 2: 1, 21: 1}, {1: 1, 2: 1, 21: 1}),
    'Benzene': ({9: 6}, {9: 6}),
    'DMSO': ({67: 1}, {67: 1}),
    'Furfural': ({61: 1}, {61: 1}),
    'Aniline': ({9: 5, 36: 1}, {9: 5, 36: 1}),
    'Acetonitrile': ({40: 1}, {40: 1}),
    'NMP': ({85: 1}, {78: 3, 86: 1}),
    'Glycerol': ({2: 2, 3: 1, 14: 3}, {2: 2, 3: 1, 14: 2, 81: 1}),
    'Inert_1': ({}, {}),
    'Inert_2': ({}, {}),
}
_FAM = {}


def fam_chemical(ID):
    c = _FAM.get(ID)
    if c is None:
        u, d = FAMILY[ID]
        c = _FAM[ID] = tmo.Chemical.blank(ID)
        for field, counts, table in (('UNIFAC', u, UF.UFSG), ('Dortmund', d, UF.DOUFSG), ('NIST', d, UF.NISTUFSG)):
            assert all(g in table for g in counts), (ID, field)
            getattr(c, field).update(counts)
    return c


def fam_has_groups(ID):
    return bool(FAMILY[ID][0])


FAMILY_SETS = [
    ('tert_Butanol', 'Water'),
    ('Neopentane', 'MTBE', 'Octanol'),
    ('Isooctane', 'Inert_1', 'Benzene', 'tert_Butanol'),
    ('Dodecane', 'Tridecane'),
    ('Hexane_a', 'Water', 'Hexane_b'),
    ('DMSO', 'Furfural', 'Acetonitrile', 'Chloroform'),
    ('Inert_1', 'NMP', 'Glycerol', 'Inert_2', 'Aniline'),
    ('AceticAcid', 'Aniline', 'NMP', 'EthylAcetate', 'Benzene', 'Glycerol'),
]
FAMILY_SETS_THOROUGH = [
    ('Neopentane', 'Water'), ('MTBE', 'Inert_1', 'tert_Butanol'), ('Dodecane', 'Tridecane', 'Octanol', 'Inert_1'),
    ('Chloroform', 'DMSO'), ('Furfural', 'Water', 'Acetonitrile'), ('Isooctane', 'Neopentane', 'MTBE', 'tert_Butanol', 'Water'),
    ('Hexane_a', 'Hexane_b', 'Octanol'), ('Glycerol', 'Water', 'AceticAcid', 'Inert_2', 'EthylAcetate', 'Octanol'),
]


def family_configs(tier):
    out = []
    sets = FAMILY_SETS + (FAMILY_SETS_THOROUGH if tier != 'quick' else [])
    temps = (250., 340., 450.) if tier == 'quick' else tuple(250. + 25. * i for i in range(9))
    for model in ALL_MODELS:
        for IDs in sets:
            for T in temps:
                out.append({'name': f'{model};{"+".join(IDs)};T={T:g}', 'model': model, 'IDs': list(IDs), 'T': T})
    return out


def _fam_model(model, IDs):
    return GROUP_CLASSES[model](tuple(fam_chemical(i) for i in IDs))


def _fam_degenerate(IDs, x):
    return not any(xi != 0. for xi, ID in zip(x, IDs) if fam_has_groups(ID))


def _call(G, x, T):
    return np.asarray(G(np.array(x, dtype=float), T), dtype=float)


@group('C16/gap_B_group_families', configs=family_configs, mode='B',
       functions=BUILDERS + KERNELS,
       notes='8 (quick) / 16 (thorough) sets of 2-6 blank chemicals carrying data-base group assignments that the six chemicals of the '
             'existing bounded groups lack (quaternary carbon with Q = 0: tert-butanol, MTBE, neopentane, isooctane; rare main groups whose '
             'interaction parameters with the others are absent from the tables: DMSO, furfural, acetonitrile, chloroform, NMP, aniline; '
             'identical group sets: dodecane/tridecane, two hexane objects; 6 members with 12 sub-groups; two members without group data), real '
             'tables, compiled kernels, 3 model classes; T in {250, 340, 450} (quick) / 250..450 step 25; per set: every vertex and '
             'x_i = 1 - eps (eps 1e-2..1e-10, rest spread evenly / on one member), Gibbs-Duhem by central differences (h = min(1e-5, x/10)) at '
             'the centroid, edge midpoints, trace and dominant members and 6 seeded points along <= 8 seeded directions, every order of the list '
             'for <= 4 members (identity, reverse, rotations, 6 seeded otherwise) at 4 compositions')
def gap_B_group_families(w, cfg):
    model, IDs, T = cfg['model'], cfg['IDs'], cfg['T']
    n = len(IDs)
    rng = random.Random(f"{SEED}/family/{cfg['name']}")
    G = _fam_model(model, IDs)
    nog = [j for j, ID in enumerate(IDs) if not fam_has_groups(ID)]
    t = Tally()
    c_vertex = 'gamma_i = 1 at the vertex x_i = 1'
    c_near = '|gamma_i - 1| <= 10 eps at x_i = 1 - eps (gamma_i tends to one)'
    c_gd = 'Gibbs-Duhem: sum_i x_i dln(gamma_i) = 0 along simplex directions at constant T'
    c_perm = 'the value for a chemical does not depend on its position in the chemical list'
    c_one = 'members without group data get exactly one'
    c_frame = "the caller's composition array is unchanged (object call and functional form)"
    c_form = 'functional form f(x, T, *args) = object call (same values)'
    t.declare(c_vertex, c_near, c_gd, c_perm, c_frame, c_form)
    if nog: t.declare(c_one)

    def observe(x):
        """One evaluation through both forms, with the frame / form / members-without-groups sentences checked on the way."""
        xa = np.array(x, dtype=float); x0 = xa.copy()
        r = np.asarray(G(xa, T), dtype=float)
        xf = x0.copy()
        rf = np.ones(n) * G.f(xf, T, *G.args)
        t.check(c_frame, np.array_equal(xa, x0) and np.array_equal(xf, x0), x=x, after=list(xa), after_f=list(xf))
        t.check(c_form, np.array_equal(rf, r), x=x, object_call=list(r), functional=list(rf))
        if nog: t.check(c_one, all(r[j] == 1. for j in nog), x=x, gamma=list(r))
        return r

    # ---- limit
    for i in range(n):
        if not fam_has_groups(IDs[i]): continue
        e = [0.] * n; e[i] = 1.
        g = observe(e)
        t.check(c_vertex, abs(g[i] - 1.) <= 1e-12, member=IDs[i], gamma=g[i])
        others = [j for j in range(n) if j != i]
        dirs = [[1. / len(others)] * len(others)] + [[1. if j == o else 0. for j in others] for o in others[:2]]
        for d in dirs:
            for eps in (1e-2, 1e-4, 1e-6, 1e-8, 1e-10):
                x = [0.] * n; x[i] = 1. - eps
                for j, dj in zip(others, d): x[j] = eps * dj
                g = observe(x)
                t.check(c_near, abs(g[i] - 1.) <= 10. * eps + 1e-12, member=IDs[i], x=x, gamma=g[i], eps=eps)
    # ---- Gibbs-Duhem
    pts = [[1. / n] * n]
    for a, b in list(itertools.combinations(range(n), 2))[:6]:
        p = [0.] * n; p[a] = p[b] = 0.5; pts.append(p)
    for a in range(n):
        p = [1.] * n; p[a] = 1e-9 * n; pts.append(_normalised(p))
        p = [1e-2] * n; p[a] = 1.; pts.append(_normalised(p))
    pts += _random_points(rng, n, 6)
    slope = 0.
    for x in pts:
        present = [j for j in range(n) if x[j] >= 1e-6]
        pairs = list(itertools.combinations(present, 2))
        rng.shuffle(pairs)
        for a, b in pairs[:8]:
            hh = min(1e-5, x[a] / 10., x[b] / 10.)
            xp = list(x); xm = list(x)
            xp[a] += hh; xp[b] -= hh; xm[a] -= hh; xm[b] += hh
            if _fam_degenerate(IDs, xp) or _fam_degenerate(IDs, xm): continue
            dl = (np.log(_call(G, xp, T)) - np.log(_call(G, xm, T))) / (2. * hh)
            sres = float(np.dot(np.array(x), dl))
            scale = 1. + float(np.max(np.abs(dl)))
            slope = max(slope, float(np.max(np.abs(dl))))
            t.check(c_gd, abs(sres) <= 1e-6 * scale, x=x, direction=(IDs[a], IDs[b]), residual=sres, dlngamma_ds=list(dl))
    # ---- permutation
    if n <= 4:
        perms = list(itertools.permutations(range(n)))
    else:
        base = list(range(n))
        perms = [tuple(base), tuple(reversed(base))] + [tuple(base[r:] + base[:r]) for r in range(1, n)]
        for _ in range(6):
            p = base[:]; rng.shuffle(p); perms.append(tuple(p))
        perms = list(dict.fromkeys(perms))
    ppts = [[1. / n] * n] + _random_points(rng, n, 2)
    p = [0.] * n; p[0] = 0.3; p[-1] = 0.7; ppts.append(p)
    ppts = [x for x in ppts if not _fam_degenerate(IDs, x)]
    base_vals = [observe(x) for x in ppts]
    moved = 0
    for perm in perms:
        Gp = _fam_model(model, [IDs[q] for q in perm])
        for x, g0 in zip(ppts, base_vals):
            gp = _call(Gp, [x[q] for q in perm], T)
            for kpos, q in enumerate(perm):
                ok = abs(gp[kpos] - g0[q]) <= 1e-10 * max(1., abs(g0[q]))
                t.check(c_perm, ok, order=[IDs[q] for q in perm], x=x, member=IDs[q], value=gp[kpos], reference=g0[q])
            if perm != tuple(range(n)) and np.max(np.abs(gp - g0)) > 1e-6: moved += 1
    gc = _call(G, [1. / n] * n, T)
    w.ensure('canary refuted: "every coefficient is one at the equimolar point / nothing changes along any direction" is rejected',
             bool(np.max(np.abs(gc - 1.)) > 1e-6) and slope > 1e-3)
    w.canary('canary: every coefficient is one at the equimolar point', bool(np.max(np.abs(gc - 1.)) <= 1e-6))
    t.flush(w)
    w.note(equimolar=list(gc), largest_slope=slope)


# =========================================================================== B: read-only arrays and views on the compiled functions

VIEW_KINDS = ('read-only', 'strided', 'reversed', 'offset-slice', 'column')


def view_configs(tier):
    out = []
    sets = [('Water', 'Ethanol', 'Acetone'), ('Water', 'O2', 'Ethanol')]
    if tier != 'quick': sets += [('O2', 'Hexane', 'N2', 'Toluene'), ('Water', 'Ethanol', 'Methanol', 'Acetone', 'Hexane', 'Toluene')]
    for model in ALL_MODELS:
        for IDs in sets:
            if tier == 'quick' and model == 'NIST' and len(IDs) == 3 and 'O2' not in IDs: continue
            out.append({'name': f'{model};{"+".join(IDs)}', 'model': model, 'IDs': list(IDs)})
    return out


def _view(kind, x):
    """(the array handed to the model, the buffer that owns its memory)"""
    n = len(x)
    if kind == 'read-only':
        a = np.array(x, dtype=float); a.flags.writeable = False
        return a, a
    if kind == 'strided':
        buf = np.full(2 * n + 1, -7.); buf[1::2] = x
        return buf[1::2], buf
    if kind == 'reversed':
        buf = np.array(x[::-1], dtype=float)
        return buf[::-1], buf
    if kind == 'offset-slice':
        buf = np.full(n + 4, -7.); buf[2:2 + n] = x
        return buf[2:2 + n], buf
    if kind == 'column':
        buf = np.full((n, 3), -7.); buf[:, 1] = x
        return buf[:, 1], buf
    raise ValueError(kind)


@group('C16/gap_B_views', configs=view_configs, mode='B',
       functions=['thermosteam.equilibrium.activity_coefficients:GroupActivityCoefficients.__call__',
                  'thermosteam.equilibrium.activity_coefficients:gamma_UNIFAC',
                  'thermosteam.equilibrium.activity_coefficients:gamma_modified_UNIFAC',
                  'thermosteam.equilibrium.activity_coefficients:IdealActivityCoefficients.__call__'],
       notes='3 model classes x 2 (quick) / 4 (thorough) sets of data-base chemicals; compositions: centroid, one vertex, one edge midpoint, '
             '3 seeded points; T = 330; the composition is handed in as a read-only array, an every-second-element view, a reversed view, '
             'a slice inside a larger buffer and a column of a 2-D array (compiled specialisations of the functional form for these layouts)')
def gap_B_views(w, cfg):
    from contracts.C16_activity_coefficients import build_model, has_groups
    model, IDs = cfg['model'], cfg['IDs']
    n = len(IDs); T = 330.
    rng = random.Random(f"{SEED}/views/{cfg['name']}")
    G = build_model(model, IDs)
    nog = [j for j, ID in enumerate(IDs) if not has_groups(model, ID)]
    grp = [j for j in range(n) if j not in nog]
    pts = [[1. / n] * n]
    e = [0.] * n; e[grp[0]] = 1.; pts.append(e)
    p = [0.] * n; p[grp[0]] = p[grp[-1]] = 0.5; pts.append(p)
    pts += _random_points(rng, n, 3)
    t = Tally()
    c_frame = "the caller's array and the buffer around it are unchanged"
    c_same = 'same values as for a plain array (object call and functional form)'
    c_one = 'members without group data get exactly one'
    t.declare(c_frame, c_same)
    if nog: t.declare(c_one)
    for x in pts:
        ref = np.asarray(G(np.array(x, dtype=float), T), dtype=float)
        for kind in VIEW_KINDS:
            for form in ('object call', 'functional form'):
                a, buf = _view(kind, x)
                before = buf.copy()
                try:
                    r = G(a, T) if form == 'object call' else G.f(a, T, *G.args)
                except Exception as exc:            # a write to a read-only array is refused by numba / numpy
                    t.check(c_frame, False, x=x, layout=kind, form=form, outcome=f'{type(exc).__name__}: {str(exc)[:160]}')
                    continue
                r = np.ones(n) * r
                t.check(c_frame, np.array_equal(buf, before), x=x, layout=kind, form=form, after=buf.tolist())
                t.check(c_same, np.array_equal(r, ref), x=x, layout=kind, form=form, got=list(r), expected=list(ref))
                if nog: t.check(c_one, all(r[j] == 1. for j in nog), x=x, layout=kind, form=form, gamma=list(r))
    gc = np.asarray(G(np.array([1. / n] * n), T), dtype=float)
    w.ensure('canary refuted: "members with groups get exactly one" is rejected', bool(np.max(np.abs(gc - 1.)) > 1e-6))
    w.canary('canary: members with groups get exactly one', bool(np.max(np.abs(gc - 1.)) <= 1e-6))
    t.flush(w)


# =========================================================================== B: the groups of a chemical are re-assigned between requests

REGROUP = {'hexane': {'CH3': 2, 'CH2': 4}, 'ethanol': {'UNIFAC': {'CH3': 1, 'CH2': 1, 'OH': 1}, 'Dortmund': {'CH3': 1, 'CH2': 1, 'OH(P)': 1},
                                              'NIST': {'CH3': 1, 'CH2': 1, 'OH prim': 1}},
           'acetone': {'CH3': 1, 'CH3CO': 1}, 'none': {}}


def regroup_configs(tier):
    out = []
    for model in ALL_MODELS:
        for first, second in (('hexane', 'ethanol'), ('ethanol', 'none'), ('none', 'acetone'), ('acetone', 'acetone')):
            for T in ((330.,) if tier == 'quick' else (260., 330., 440.)):
                out.append({'name': f'{model};Solvent:{first}->{second};T={T:g}', 'model': model, 'first': first, 'second': second, 'T': T})
    return out


def _assign(c, model, what):
    names = REGROUP[what]
    names = names.get(model, names) if what == 'ethanol' else names
    getattr(c, model).set_group_counts_by_name(dict(names))            # reset=True: replaces the earlier assignment


@group('C16/gap_B_regroup_history', configs=regroup_configs, mode='B',
       functions=['thermosteam.equilibrium.activity_coefficients:GroupActivityCoefficients.__new__',
                  'thermosteam.equilibrium.activity_coefficients:GroupActivityCoefficients.__call__',
                  'thermosteam.equilibrium.unifac:GroupCounts.set_group_counts_by_name'],
       notes='3 model classes x 4 histories (a model is requested for (Water, Solvent, Methanol-like), the functional groups of Solvent are '
             're-assigned in place with set_group_counts_by_name, the model is requested again for the same tuple and for the reversed tuple) x 1 '
             '(quick) / 3 temperatures, 3 compositions')
def gap_B_regroup_history(w, cfg):
    """The statement is about the chemicals as they are when the model is asked: after the groups of a member were re-assigned,
    its value must not depend on its position in the list, and a member whose groups were removed gets exactly one."""
    model, T = cfg['model'], cfg['T']
    cls = GROUP_CLASSES[model]
    Water, Solvent, Third = (tmo.Chemical.blank(i) for i in ('Water', 'Solvent', 'Third'))
    getattr(Water, model).set_group_counts_by_name({'H2O': 1})
    getattr(Third, model).set_group_counts_by_name({'CH3OH': 1})
    tup = (Water, Solvent, Third)
    _assign(Solvent, model, cfg['first'])
    pts = [[0.3, 0.5, 0.2], [1. / 3] * 3, [0.05, 0.05, 0.9]]
    m1 = cls(tup)
    for x in pts: m1(np.array(x), T)
    _assign(Solvent, model, cfg['second'])
    t = Tally()
    c_perm = 'the value for a chemical does not depend on its position in the chemical list (groups re-assigned before the request)'
    c_one = 'a member whose group data was removed gets exactly one'
    t.declare(c_perm)
    if cfg['second'] == 'none': t.declare(c_one)
    m2 = cls(tup)
    m3 = cls(tup[::-1])
    moved = 0.
    for x in pts:
        g2 = np.asarray(m2(np.array(x), T), float)
        g3 = np.asarray(m3(np.array(x[::-1]), T), float)[::-1]
        t.check(c_perm, bool(np.all(np.abs(g2 - g3) <= 1e-10 * np.maximum(1., np.abs(g3)))), x=x, listed_first_to_last=list(g2),
                listed_in_reverse=list(g3))
        if cfg['second'] == 'none': t.check(c_one, g2[1] == 1. and g3[1] == 1., x=x, gamma=list(g2))
        moved = max(moved, float(np.max(np.abs(g3 - 1.))))
    w.ensure('canary refuted: "every coefficient is one" is rejected', moved > 1e-6)
    w.canary('canary: every coefficient is one', moved <= 1e-6)
    t.flush(w)
