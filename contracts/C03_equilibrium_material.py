# -*- coding: utf-8 -*-
"""
C03 — phase equilibrium never creates, destroys or makes negative any material.

Strategy (DESIGN 4/C03): conservation, sign and the locked-phase sentences hold
*whatever the numerical solvers return*.  Every solver / property model is
replaced by a havoc stub that returns fresh leaves inside the bounds the real
one guarantees (arbitrary reals where it guarantees nothing) and calls its
callbacks with arbitrary arguments; the REAL bookkeeping of thermosteam is
executed on a real MultiStream whose flows are symbolic leaves:

  VLE.__call__ -> set_thermal_condition / set_TV / set_PV / set_PH / set_PS /
  set_TH / set_TS / set_Tx / set_Px / set_Ty / set_Py, VLE._setup, set_flows,
  the clip at the end of VLE._solve_v, VLE._lever_rule, the seven
  _set_*_chemical single-component branches, the energy / entropy correction
  steps, the error callbacks (_V_err_at_*, _H_hat_err_at_*, _S_hat_err_at_*);
  LLE.__call__ + get_liquid_mol_data (solver and cached branch);
  SLE.__call__ / _setup / _update_solubility / _x_iter;  Stream.vlle.

Every `ensures` is the property's sentence: per chemical the total over the
phases is what it was, every phase flow is >= 0, gas-locked chemicals end up
with nothing outside 'g', liquid/solid-locked chemicals with nothing in 'g'
(after a vapour-liquid calculation); frame: phases that the calculation does not
own are unchanged.  Calls that raise are outside the property ("returns normally").
"""
import os
import sys
import numpy as np
import thermosteam as tmo
from thermosteam import equilibrium as eq
from thermosteam.exceptions import InfeasibleRegion, NoEquilibrium
from thermosteam.mixture.mixture import Mixture
from engine.api import group
from engine.sx import tmo_world as W

# proofs go to a fresh one-shot solver first (engine/sx/sym.py: measured 100x faster on the nonlinear (z/F - m)*F + m*F = z VCs)
os.environ.setdefault('VERIF_PROVE_FRESH_MS', '5000')

vle_mod = sys.modules['thermosteam.equilibrium.vle']
lle_mod = sys.modules['thermosteam.equilibrium.lle']
sle_mod = sys.modules['thermosteam.equilibrium.sle']
stream_mod = sys.modules['thermosteam._stream']

# exceptions by which thermosteam says "no result for this specification" (the property only speaks about
# calls that return normally); anything else escaping is reported as no-unexpected-exception
NOT_NORMAL = (NoEquilibrium, InfeasibleRegion, NotImplementedError, RuntimeError, ZeroDivisionError, AssertionError)

# --------------------------------------------------------------------------- packages

# key -> (search ID, locked phase, N_solutes)
CHEMS = {
    'W': ('Water', None, None), 'E': ('Ethanol', None, None), 'M': ('Methanol', None, None),
    'O': ('Octane', None, None),
    'N': ('N2', 'g', None),          # gas-locked (light, non-partitioning)
    'C': ('CO2', 'g', None),         # gas-locked
    'G': ('Glucose', 'l', None),     # liquid-locked, N_solutes -> 0 (does not count as heavy solute)
    'X': ('NaCl', 'l', 2),           # liquid-locked, counts as 2 mol of solutes (F_mol_heavy > 0)
    'S': ('Sucrose', 's', None),     # solid-locked
    'T': ('Tetradecanol', None, None),   # SLE solute (Tm = 312.65 K, Hfus known)
}
_chem_cache = {}
_pkg_cache = {}


def chem(key):
    c = _chem_cache.get(key)
    if c is None:
        ID, phase, nsol = CHEMS[key]
        c = tmo.Chemical(ID, phase=phase) if phase else tmo.Chemical(ID)
        if nsol is not None:
            c.N_solutes = nsol
        _chem_cache[key] = c
    return c


def pkg(keys):
    """Real compiled package for a string of chemical keys, e.g. 'WENX' (cached; registered for W.reset_caches)."""
    t = _pkg_cache.get(keys)
    if t is None:
        cs = tmo.Chemicals([chem(k) for k in keys])
        cs.compile()
        t = _pkg_cache[keys] = tmo.Thermo(cs)
        W._thermo[('C03', keys)] = t
    return t


ALL_PKGS = ['W', 'WE', 'WN', 'WX', 'WG', 'NX', 'WEN', 'WEX', 'WEG', 'WES', 'WNX', 'WENX', 'WEM', 'WO', 'WEO', 'WG', 'WEGS',
            'WENG', 'WOG']
for _k in ALL_PKGS:
    pkg(_k)


# --------------------------------------------------------------------------- havoc environment

_MISSING = object()


class Env:
    """Per-path source of havoc leaves + registry of the patches to undo."""

    def __init__(self, w, cfg):
        self.w = w
        self.cfg = cfg
        self.n = 0
        self.saved = []
        self.k = cfg.get('k', 1)            # number of callback evaluations a havoc'ed iterative solver makes
        self.calls = {}

    # leaves
    def leaf(self, tag, **kw):
        self.n += 1
        return self.w.real(f'hv{self.n}.{tag}', **kw)

    def pos(self, tag):
        return self.leaf(tag, lo=0., lo_strict=True)

    def unit(self, tag):
        return self.leaf(tag, lo=0., hi=1.)

    def arr(self, xs):
        return np.array(list(xs), dtype=object if self.w.symbolic else float)

    def simplex(self, tag, n):
        """n values >= 0 that sum to 1 (what fn.normalize of a non-negative vector guarantees)."""
        if n == 1:
            return self.arr([1.0])
        vals = [self.leaf(f'{tag}{i}', lo=0., hi=1.) for i in range(n - 1)]
        last = 1.0
        for v in vals:
            last = last - v
        self.w.assume(self.w.ge(last, 0.))
        return self.arr(vals + [last])

    def count(self, what):
        self.calls[what] = self.calls.get(what, 0) + 1

    # patches
    def patch(self, obj, name, value):
        self.saved.append((obj, name, obj.__dict__.get(name, _MISSING) if hasattr(obj, '__dict__') else getattr(obj, name, _MISSING)))
        setattr(obj, name, value)

    def restore(self):
        for obj, name, old in reversed(self.saved):
            if old is _MISSING:
                try:
                    delattr(obj, name)
                except AttributeError:
                    pass
            else:
                setattr(obj, name, old)
        self.saved = []


class HavocMixture(Mixture):
    """A-models/A-root: energies, entropies and the temperature solvers return arbitrary values; they only READ flows."""
    __slots__ = ('env', 'include_excess_energies')

    def __init__(self, env):
        self.env = env
        self.include_excess_energies = False

    def H(self, phase, mol, T, P): return self.env.leaf('H')
    def S(self, phase, mol, T, P): return self.env.leaf('S')
    def xH(self, phase_mol, T, P): return self.env.leaf('xH')
    def xS(self, phase_mol, T, P): return self.env.leaf('xS')
    def Cn(self, phase, mol, T, P=None): return self.env.pos('Cn')
    def xCn(self, phase_mol, T, P=None): return self.env.pos('xCn')
    def solve_T_at_HP(self, phase, mol, H, T_guess, P): return self.env.pos('T_HP')
    def xsolve_T_at_HP(self, phase_mol, H, T_guess, P): return self.env.pos('xT_HP')
    def solve_T_at_SP(self, phase, mol, S, T_guess, P): return self.env.pos('T_SP')
    def xsolve_T_at_SP(self, phase_mol, S, T_guess, P): return self.env.pos('xT_SP')


def havoc_thermo(env, keys, **kw):
    return tmo.Thermo(pkg(keys).chemicals, mixture=HavocMixture(env), **kw)


FLOW_MAX = 1e6


def multistream(w, name, th, phases, dist, keys):
    """
    Real MultiStream with planted flows.  dist: {chemical key: string with one character per phase in `phases`,
    '0' = no entry, '+' = stored leaf > 0, '?' = leaf >= 0 whose presence is forked}.
    """
    s = tmo.MultiStream(None, phases=tuple(phases), thermo=th)
    phases_sorted = s.phases
    present = {'default': 'zero'}
    for k in keys:
        pat = dist.get(k, '0' * len(phases))
        for ph, c in zip(phases, pat):
            present[ph, chem(k).ID] = {'0': 'zero', '+': 'pos', '?': 'maybe'}[c]
    leaves = W.plant_flows(w, s, name, present=present)
    for v in leaves.values():
        if v.__class__ is not float:
            # requires from the quantifier (flows span 1e-3..1e3 kmol/hr; we allow (0, 1e6]): keeps the float replay of a
            # path model away from IEEE absorption (1.8e16 + 1.0), which is outside A-real
            w.assume(w.le(v, FLOW_MAX))
    return s, leaves


def totals(leaves, IDs):
    out = {ID: 0. for ID in IDs}
    for (ph, ID), v in leaves.items():
        out[ID] = out[ID] + v
    return out


def flows_now(s):
    """{(phase, ID): value} for every phase and chemical, read from the raw sparse dicts."""
    IDs = s.chemicals.IDs
    out = {}
    for ph, sv in W.rows_of(s):
        for i, ID in enumerate(IDs):
            out[ph, ID] = sv.dct.get(i, 0.)
    return out


def rep_ok(w, s):
    """No stored zero, keys inside the size (exact test natively: a stored 1e-15 is not a stored zero)."""
    if w.symbolic:
        return W.rep_ok(w, s)
    return all(v != 0 and 0 <= i < sv.size for ph, sv in W.rows_of(s) for i, v in sv.dct.items())


def ensure_material(w, s, before, keys, owned, vle=True, tag=''):
    """
    The sentences of C03 on stream s.  before: {(phase, ID): pre-state leaf}; owned: phases the calculation may change.
    """
    IDs = [chem(k).ID for k in keys]
    now = flows_now(s)
    phases = [ph for ph, _ in W.rows_of(s)]
    t0 = totals(before, IDs)
    for k, ID in zip(keys, IDs):
        t1 = 0.
        for ph in phases:
            t1 = t1 + now[ph, ID]
        w.ensure(f'{tag}total[{ID}] over phases unchanged', w.eq(t1, t0[ID]))
        for ph in phases:
            if ph in owned:
                w.ensure(f'{tag}flow[{ph},{ID}] >= 0', w.ge(now[ph, ID], 0.))
            else:
                w.ensure(f'{tag}frame: flow[{ph},{ID}] untouched', w.eq(now[ph, ID], before.get((ph, ID), 0.)))
        locked = CHEMS[k][1]
        if vle and locked == 'g':
            for ph in phases:
                if ph != 'g' and ph in owned:
                    w.ensure(f'{tag}gas-locked {ID}: nothing in {ph}', w.eq(now[ph, ID], 0.))
        if vle and locked in ('l', 's'):
            w.ensure(f'{tag}{locked}-locked {ID}: nothing in g', w.eq(now['g', ID], 0.))
    w.ensure(f'{tag}rep_ok (no stored zero)', rep_ok(w, s))
    return now


# --------------------------------------------------------------------------- VLE stubs

class _FArgs:
    f = None
    args = ()


def install_vle_stubs(env, real_refresh_K=False, real_solve_v=True):
    """
    Havoc every numerical dependency of thermosteam.equilibrium.vle (assumed contracts, DESIGN 2.6):
      A-bubble/dew  BubblePoint.solve_Py/solve_Ty, DewPoint.solve_Px/solve_Tx return a positive P/T and a
                    composition with entries >= 0 that sums to 1 (they return fn.normalize(.) of K*z >= 0);
      A-iter        flx.IQ_interpolation evaluates its callback k times at arbitrary positive arguments and returns
                    an arbitrary positive value;
      A-fixed-point VLE._solve_v_fixed_point returns an arbitrary real vector (NO bounds: the clip in _solve_v is under check);
      A-models      Psat, Tsat, pcf, mixture energies/entropies return arbitrary (positive where physical) values.
    """
    w = env.w

    class StubPoint:
        def __init__(self, chemicals=(), thermo=None):
            self.chemicals = tuple(chemicals)
            self.IDs = tuple(c.ID for c in self.chemicals)
            n = len(self.chemicals)
            self.Psats = [(lambda T: 1e5) for _ in range(n)]      # consumed by the havoc'ed fixed-point solver only
            self.pcf = lambda T, P, Psats: 1.0
            self.gamma = self.phi = _FArgs()
            self.Tmin = env.pos('Tmin'); self.Tmax = env.pos('Tmax')
            self.Pmin = env.pos('Pmin'); self.Pmax = env.pos('Pmax')

        def _xy(self, tag):
            return env.simplex(tag, len(self.chemicals))

    class StubBubblePoint(StubPoint):
        def solve_Py(self, z, T, liquid_conversion=None): return env.pos('P_bubble'), self._xy('yb')
        def solve_Ty(self, z, P, liquid_conversion=None): return env.pos('T_bubble'), self._xy('yb')

    class StubDewPoint(StubPoint):
        def solve_Px(self, z, T, gas_conversion=None): return env.pos('P_dew'), self._xy('xd')
        def solve_Tx(self, z, P, gas_conversion=None): return env.pos('T_dew'), self._xy('xd')

    class StubFlx:
        @staticmethod
        def IQ_interpolation(f, x0, x1, y0=None, y1=None, x=None, xtol=0., ytol=5e-8, args=(), **kw):
            env.count('IQ')
            r = env.pos('iq_x')
            for _ in range(env.k):
                r = env.pos('iq_x')
                f(r, *args)
            return r

        def __getattr__(self, name):
            raise AssertionError(f'unexpected flexsolve call in vle.py: {name}')

    def solve_v_fixed_point(self, pcf_Psat_over_P, T, P, gas_conversion, liquid_conversion):
        env.count('fixed_point')
        n = len(self._index)
        self._V = env.leaf('V')
        return env.arr([env.leaf(f'v{i}') for i in range(n)])

    def refresh_K(self, V, y_bubble, x_dew, dz_bubble=None, dz_dew=None):
        self._V = V          # initial guess of the havoc'ed solver; writes no flow
        self._K = None

    def solve_v_contract(self, T, P, gas_conversion=None, liquid_conversion=None):
        """Contract of VLE._solve_v proved in group C03/solve_v_clip: 0 <= v <= mol_vle elementwise; sets self._v."""
        env.count('solve_v')
        self._T = T
        mol = self._mol_vle
        vs = []
        interior = env.cfg.get('vmode', 'any') == 'int'
        for i in range(len(self._index)):
            if interior:      # strictly inside: no entry of either phase vanishes (fewer presence forks; 'any' configs cover the rest)
                v = env.leaf(f'v{i}', lo=0., lo_strict=True)
                w.assume(w.lt(v, mol[i]))
            else:
                v = env.leaf(f'v{i}', lo=0.)
                w.assume(w.le(v, mol[i]))
            vs.append(v)
        self._v = v = env.arr(vs)
        return v

    def solve_vle_vapor_mol_shgo(z, T, f_gamma, gamma_args, P, pcf_Psats, f_phi, phi_args, shgo_options):
        # A-opt: scipy's shgo returns a point inside the bounds it is given, here [0, z_i]
        env.count('shgo')
        out = []
        for i in range(len(z)):
            x = env.leaf(f'shgo_x{i}', lo=0.)
            w.assume(w.le(x, z[i]))
            out.append(x)
        return env.arr(out)

    env.patch(vle_mod, 'solve_vle_vapor_mol_shgo', solve_vle_vapor_mol_shgo)
    env.patch(vle_mod, 'BubblePoint', StubBubblePoint)
    env.patch(vle_mod, 'DewPoint', StubDewPoint)
    env.patch(vle_mod, 'flx', StubFlx())
    if real_solve_v:
        env.patch(vle_mod.VLE, '_solve_v_fixed_point', solve_v_fixed_point)
    else:
        env.patch(vle_mod.VLE, '_solve_v', solve_v_contract)
    if not real_refresh_K:
        env.patch(vle_mod.VLE, '_refresh_K', refresh_K)
    # single-component branches: Psat(T), Tsat(P) of the chemical in equilibrium
    env.patch(tmo.Chemical, 'Tsat', lambda self, P, *a, **kw: env.pos('Tsat'))
    for k in env.cfg['pkg']:
        c = chem(k)
        env.patch(c, '_Psat', lambda T, *a, **kw: env.pos('Psat'))


SPECS = ('TP', 'TV', 'PV', 'PH', 'PS', 'TH', 'TS', 'Tx', 'Px', 'Ty', 'Py')


def spec_kwargs(env, spec, n_vle=2):
    kw = {}
    for c in spec:
        if c in 'TP':
            kw[c] = env.w.real(f'spec.{c}', lo=0., lo_strict=True)
        elif c == 'V':
            kw[c] = env.w.real('spec.V', lo=0., hi=1.)
        elif c in 'HS':
            kw[c] = env.w.real(f'spec.{c}')
        elif n_vle == 2:
            a = env.w.real(f'spec.{c}0', lo=0., hi=1.)
            kw[c] = env.arr([a, 1.0 - a])
        else:   # a composition over the chemicals in equilibrium (one partitioning chemical + a non-partitioning one)
            kw[c] = env.simplex(f'spec.{c}', n_vle)
    return kw


def vle_body(spec):
    def body(w, cfg):
        W.reset_caches()
        env = Env(w, cfg)
        keys = cfg['pkg']
        try:
            install_vle_stubs(env, real_refresh_K=cfg.get('refresh_K', False), real_solve_v=cfg.get('solve_v', 'real') == 'real')
            th = havoc_thermo(env, keys)
            phases = cfg.get('phases', 'gl')
            s, before = multistream(w, 'f', th, phases, cfg['dist'], keys)
            n_vle = sum(1 for k in keys if CHEMS[k][1] is None and set(cfg['dist'].get(k, '0')) != {'0'})
            kw = spec_kwargs(env, spec, n_vle)
            vle = s.vle
            try:
                vle(**kw)
            except NOT_NORMAL as e:
                w.note(outcome=type(e).__name__)
                return
            now = ensure_material(w, s, before, keys, owned=('g', 'l'))
            k0 = chem(keys[0]).ID
            w.canary('canary: liquid flow of first chemical unchanged + 1', w.eq(now['l', k0], before.get(('l', k0), 0.) + 1))
            w.note(calls=dict(env.calls), flows=now)
        finally:
            env.restore()
    body.__name__ = f'vle_{spec}'
    return body


def _dist_name(dist, keys):
    return ','.join(f'{k}{dist.get(k, "")}' for k in keys)


# Per specification pair: (package, distribution, options).  Options: k = callback evaluations of a havoc'ed iterative
# solver; solve_v = 'real' (real VLE._solve_v, only the fixed-point iteration is havoc'ed) or 'contract' (VLE._solve_v replaced
# by its contract 0 <= v <= mol_vle proved in C03/solve_v_clip); vmode = 'any' | 'int' (contract stub anywhere in / strictly
# inside the range); refresh_K = run the real VLE._refresh_K (it only prepares the solver's initial guess).
_C, _CI = {'solve_v': 'contract'}, {'solve_v': 'contract', 'vmode': 'int'}
VLE_QUICK = {
    'TP': [('W', {'W': '??'}, {}), ('WE', {'W': '+?', 'E': '?+'}, {}), ('WN', {'W': '+?', 'N': '?+'}, {}),
           ('WX', {'W': '?+', 'X': '+?'}, {}), ('WG', {'W': '++', 'G': '?+'}, {}), ('NX', {'N': '+0', 'X': '0+'}, {}),
           ('WEN', {'W': '+0', 'E': '0+', 'N': '+?'}, {}), ('WEX', {'W': '+?', 'E': '+0', 'X': '0+'}, {}),
           ('WES', {'W': '++', 'E': '+0', 'S': '?+'}, {}),
           ('WN', {'W': '+?+', 'N': '?+0'}, {'phases': 'gls'})],          # a solid phase that VLE does not own: frame
    'TV': [('W', {'W': '??'}, {}), ('WE', {'W': '+0', 'E': '++'}, dict(_C, k=1)), ('WN', {'W': '+?', 'N': '0+'}, dict(_C, k=1)),
           ('WEX', {'W': '+0', 'E': '0+', 'X': '+0'}, dict(_CI, k=1)), ('NX', {'N': '+0', 'X': '0+'}, {}),
           ('WE', {'W': '+0', 'E': '0+'}, {'k': 0})],
    'PH': [('W', {'W': '??'}, {}), ('WE', {'W': '+0', 'E': '++'}, dict(_CI, k=1)), ('WN', {'W': '+0', 'N': '0+'}, dict(_C, k=0)),
           ('WEX', {'W': '+0', 'E': '0+', 'X': '+0'}, dict(_CI, k=0)), ('NX', {'N': '?+', 'X': '+?'}, {})],
    'PS': [('W', {'W': '??'}, {}), ('WE', {'W': '+0', 'E': '++'}, dict(_CI, k=1)), ('WN', {'W': '+0', 'N': '0+'}, dict(_CI, k=0)),
           ('NX', {'N': '?+', 'X': '+?'}, {})],
    'TH': [('W', {'W': '??'}, {}), ('WE', {'W': '+?', 'E': '?+'}, dict(_C, k=1)), ('WEN', {'W': '+0', 'E': '0+', 'N': '?+'}, dict(_C, k=1))],
    'xy': [('WE', {'W': '++', 'E': '++'}, {}), ('WE', {'W': '+?', 'E': '?+'}, {}),
           ('WEG', {'W': '+0', 'E': '0+', 'G': '?+'}, {})],
}
VLE_QUICK['PV'] = VLE_QUICK['TV']
VLE_QUICK['TS'] = VLE_QUICK['TH']

VLE_THOROUGH = {
    'TP': [(keys, {k: '??' for k in keys}, {}) for keys in ('W', 'WE', 'WN', 'WX', 'WG', 'NX', 'WEN', 'WEX', 'WEG', 'WES', 'WNX')]
          + [('WENX', {'W': '+?', 'E': '?+', 'N': '+?', 'X': '?+'}, {}), ('WEM', {'W': '+?', 'E': '?+', 'M': '++'}, {}),
             ('WE', {'W': '+0', 'E': '0+'}, {'refresh_K': True})],
    'TV': [('WE', {'W': '+?', 'E': '?+'}, dict(_C, k=2)), ('WE', {'W': '??', 'E': '??'}, dict(_C, k=1)),
           ('WEN', {'W': '+?', 'E': '?+', 'N': '?+'}, dict(_C, k=1)), ('WEX', {'W': '+?', 'E': '?+', 'X': '+?'}, dict(_C, k=1)),
           ('WE', {'W': '+?', 'E': '?+'}, {'k': 0}), ('WEM', {'W': '+0', 'E': '0+', 'M': '++'}, dict(_CI, k=1)),
           ],
    'PH': [('WE', {'W': '+0', 'E': '++'}, dict(_C, k=0)), ('WE', {'W': '+?', 'E': '?+'}, dict(_CI, k=2)),
           ('WN', {'W': '+?', 'N': '?+'}, dict(_C, k=1)), ('WEN', {'W': '+0', 'E': '0+', 'N': '?+'}, dict(_CI, k=1)),
           ('WEX', {'W': '+0', 'E': '0+', 'X': '+?'}, dict(_CI, k=1)), ('WEM', {'W': '+0', 'E': '0+', 'M': '++'}, dict(_CI, k=0))],
    'PS': [('WE', {'W': '+?', 'E': '?+'}, dict(_CI, k=2)),      # (VLE.__call__ runs set_PS twice when the first attempt raises)
           ('WEN', {'W': '+0', 'E': '0+', 'N': '?+'}, dict(_CI, k=1)), ('WEX', {'W': '+0', 'E': '0+', 'X': '+?'}, dict(_CI, k=1))],
    'TH': [('WE', {'W': '??', 'E': '??'}, dict(_C, k=2)), ('WEX', {'W': '+?', 'E': '?+', 'X': '?+'}, dict(_C, k=1)),
           ('WEM', {'W': '+?', 'E': '?+', 'M': '++'}, dict(_C, k=1))],
    'xy': [('WE', {'W': '??', 'E': '??'}, {}), ('WEG', {'W': '??', 'E': '??', 'G': '??'}, {})],   # three counted components only raise
}
VLE_THOROUGH['PV'] = VLE_THOROUGH['TV']
VLE_THOROUGH['TS'] = VLE_THOROUGH['TH']


def vle_configs(spec):
    key = 'xy' if spec[1] in 'xy' else spec

    def configs(tier):
        fam = list(VLE_QUICK[key])
        if tier == 'thorough':
            fam += VLE_THOROUGH[key]
        out = []
        for keys, dist, opts in fam:
            o = dict({'k': 1, 'solve_v': 'real', 'vmode': 'any', 'refresh_K': False}, **opts)
            nm = f"{keys}/{_dist_name(dist, keys)}/k={o['k']}/solve_v={o['solve_v']}" + ('-int' if o['vmode'] == 'int' else '') \
                 + ('/refresh_K' if o['refresh_K'] else '') + (f"/phases={o['phases']}" if 'phases' in o else '')
            out.append(dict(o, name=nm, pkg=keys, dist=dist))
        return out
    return configs


VLE_FUNCS = {
    'TP': ['VLE.set_thermal_condition', 'VLE._set_thermal_condition_chemical'],
    'TV': ['VLE.set_TV', 'VLE._set_TV_chemical', 'VLE._V_err_at_P'],
    'PV': ['VLE.set_PV', 'VLE._set_PV_chemical', 'VLE._V_err_at_T'],
    'PH': ['VLE.set_PH', 'VLE._set_PH_chemical', 'VLE._H_hat_err_at_T'],
    'PS': ['VLE.set_PS', 'VLE._set_PS_chemical', 'VLE._S_hat_err_at_T'],
    'TH': ['VLE.set_TH', 'VLE._set_TH_chemical', 'VLE._H_hat_err_at_P'],
    'TS': ['VLE.set_TS', 'VLE._set_TS_chemical', 'VLE._S_hat_err_at_P'],
    'Tx': ['VLE.set_Tx', 'VLE._lever_rule'], 'Px': ['VLE.set_Px', 'VLE._lever_rule'],
    'Ty': ['VLE.set_Ty', 'VLE._lever_rule'], 'Py': ['VLE.set_Py', 'VLE._lever_rule'],
}
_VLE_COMMON = ['VLE.__call__', 'VLE._setup', 'VLE._solve_v', 'set_flows']
_A_VLE = ['A-bubble/dew: solve_Py/Ty/Px/Tx return P,T > 0 and a composition >= 0 summing to 1',
          'A-iter: flx.IQ_interpolation only evaluates its callback (k times, arbitrary positive arguments)',
          'A-fixed-point: VLE._solve_v_fixed_point returns an arbitrary real vector',
          'A-models: Psat, Tsat, mixture H/S/xH/xS and T-solvers return arbitrary values and only read the flows']

for _spec in SPECS:
    group(f'C03/vle_{_spec}', configs=vle_configs(_spec),
          functions=[f'thermosteam.equilibrium.vle:{f}' for f in _VLE_COMMON + VLE_FUNCS[_spec]],
          assumptions=_A_VLE)(vle_body(_spec))


# --------------------------------------------------------------------------- loop-free helpers: clip in _solve_v + set_flows

def clip_configs(tier):
    fam = [('WE', {'W': '+?', 'E': '?+'}, 'fixed-point'), ('WEN', {'W': '+0', 'E': '0+', 'N': '?+'}, 'fixed-point'),
           ('WX', {'W': '++', 'X': '+0'}, 'fixed-point'), ('WE', {'W': '+?', 'E': '?+'}, 'shgo')]
    if tier == 'thorough':
        fam += [('WEM', {'W': '+?', 'E': '?+', 'M': '++'}, 'fixed-point'), ('WENX', {'W': '+?', 'E': '?+', 'N': '?+', 'X': '+?'}, 'fixed-point'),
                ('WEN', {'W': '??', 'E': '??', 'N': '?+'}, 'shgo')]
    return [{'name': f'{keys}/{_dist_name(d, keys)}/{m}', 'pkg': keys, 'dist': d, 'method': m} for keys, d, m in fam]


@group('C03/solve_v_clip', configs=clip_configs, loop_free=True,
       functions=['thermosteam.equilibrium.vle:VLE._solve_v', 'thermosteam.equilibrium.vle:set_flows',
                  'thermosteam.equilibrium.vle:VLE._setup'],
       assumptions=['A-fixed-point: VLE._solve_v_fixed_point returns an arbitrary real vector',
                    'A-opt: solve_vle_vapor_mol_shgo returns a point inside its bounds [0, z]'])
def solve_v_clip(w, cfg):
    """Contract of VLE._solve_v used by the iterative groups: 0 <= v <= mol_vle, flows untouched; then set_flows conserves."""
    W.reset_caches()
    env = Env(w, cfg)
    keys = cfg['pkg']
    try:
        install_vle_stubs(env)
        th = havoc_thermo(env, keys)
        s, before = multistream(w, 'f', th, 'gl', cfg['dist'], keys)
        vle = s.vle
        vle.method = cfg.get('method', 'fixed-point')
        try:
            vle._setup()
        except NoEquilibrium:
            return
        if vle._N == 0 or vle._N == 1:
            return      # _solve_v is only used with two or more components (N >= 2)
        after_setup = flows_now(s)
        T = w.real('T', lo=0., lo_strict=True)
        P = w.real('P', lo=0., lo_strict=True)
        v = vle._solve_v(T, P)
        mol = vle._mol_vle
        index = vle._index
        IDs = s.chemicals.IDs
        for n, i in enumerate(index):
            w.ensure(f'0 <= v[{IDs[i]}] <= mol_vle', w.And(w.ge(v[n], 0.), w.le(v[n], mol[n])))
            w.ensure(f'mol_vle[{IDs[i]}] = l + g', w.eq(mol[n], before.get(('l', IDs[i]), 0.) + before.get(('g', IDs[i]), 0.)))
        w.ensure('self._v is the returned vector', vle._v is v)
        now = flows_now(s)
        w.ensure('frame: _solve_v writes no flow', w.And(*[w.eq(now[k], after_setup[k]) for k in sorted(now)]))
        vle_mod.set_flows(vle._vapor_mol, vle._liquid_mol, index, v, mol)
        ensure_material(w, s, before, keys, owned=('g', 'l'), tag='after set_flows: ')
        if len(index):
            w.canary('canary: v[0] = mol_vle[0]', w.eq(v[0], mol[0]))
        else:
            w.canary('canary: false', False)
    finally:
        env.restore()


# --------------------------------------------------------------------------- error callbacks preserve the invariant (any number of solver iterations)

CALLBACKS = {'_V_err_at_P': ('P', 'V', None, None), '_V_err_at_T': ('T', 'V', None, None),
             '_H_hat_err_at_T': ('T', 'H', None, None), '_H_hat_err_at_P': ('P', 'H'),
             '_S_hat_err_at_T': ('T', 'S'), '_S_hat_err_at_P': ('P', 'S')}


def callback_configs(tier):
    out = []
    fam = [('WE', {'W': '??', 'E': '++'}), ('WEN', {'W': '+?', 'E': '?+', 'N': '0+'})]
    if tier == 'thorough':
        fam += [('WEX', {'W': '??', 'E': '??', 'X': '+0'}), ('WEM', {'W': '+?', 'E': '?+', 'M': '++'})]
    for cb in CALLBACKS:
        for keys, d in fam:
            out.append({'name': f'{cb}/{keys}/{_dist_name(d, keys)}', 'cb': cb, 'pkg': keys, 'dist': d})
    return out


@group('C03/vle_err_callbacks', configs=callback_configs,
       functions=[f'thermosteam.equilibrium.vle:VLE.{c}' for c in CALLBACKS] + ['thermosteam.equilibrium.vle:VLE._solve_v', 'thermosteam.equilibrium.vle:set_flows'],
       assumptions=_A_VLE)
def vle_err_callbacks(w, cfg):
    """
    Inductive step for the havoc'ed iterative solvers: from ANY state that satisfies the material invariant (the planted
    distribution after the real _setup) one evaluation of an error callback at an arbitrary argument leaves a state that
    satisfies it.  Hence conservation/sign hold after any number of solver iterations.
    """
    W.reset_caches()
    env = Env(w, cfg)
    keys = cfg['pkg']
    try:
        install_vle_stubs(env)
        th = havoc_thermo(env, keys)
        s, before = multistream(w, 'f', th, 'gl', cfg['dist'], keys)
        vle = s.vle
        try:
            vle._setup()
        except NoEquilibrium:
            return
        if vle._N == 0 or vle._N == 1:
            return      # the callbacks are only used with two or more components (N >= 2)
        vle._T = w.real('T', lo=0., lo_strict=True)
        vle._P = w.real('P', lo=0., lo_strict=True)
        arg = w.real('arg', lo=0., lo_strict=True)
        target = w.real('target')
        extra = CALLBACKS[cfg['cb']][2:]
        r = getattr(vle, cfg['cb'])(arg, target, *extra)
        now = ensure_material(w, s, before, keys, owned=('g', 'l'))
        k0 = chem(keys[0]).ID
        w.canary('canary: gas flow of first chemical is zero', w.eq(now['g', k0], 0.))
    finally:
        env.restore()


# --------------------------------------------------------------------------- LLE

class StubGamma(eq.ActivityCoefficients):
    __slots__ = ('env',)
    env_now = None

    def __init__(self, chemicals):
        self._chemicals = tuple(chemicals)
        self.env = StubGamma.env_now

    def __call__(self, x, T):
        return self.env.arr([self.env.pos('gamma') for _ in self._chemicals])

    f = None
    args = ()


def install_lle_stubs(env):
    """
    A-opt: LLE.solve_lle_liquid_mol returns mol_L inside the box 0 <= mol_L <= mol (bounds given to shgo /
    differential_evolution; x*(1-phi) <= z for phi in [0,1], K >= 0 in the pseudo-equilibrium method);
    phase_fraction returns a value in [0, 1] (as_valid_fraction).
    """
    w = env.w

    def solve_lle_liquid_mol(self, mol, T, lle_chemicals, single_loop):
        env.count('solve_lle')
        out = []
        interior = env.cfg.get('modes', ['any'])[min(env.calls['solve_lle'], len(env.cfg.get('modes', ['any']))) - 1] == 'int'
        for i in range(len(lle_chemicals)):
            if interior:     # strictly inside the box: no entry of either phase vanishes (keeps multi-call configurations small)
                v = env.leaf(f'molL{i}', lo=0., lo_strict=True)
                w.assume(w.lt(v, mol[i]))
            else:
                v = env.leaf(f'molL{i}', lo=0.)
                w.assume(w.le(v, mol[i]))
            out.append(v)
        return env.arr(out)

    def phase_fraction(zs, Ks, guess=None, za=0., zb=0.):
        env.count('phase_fraction')
        return env.unit('phi')

    env.patch(lle_mod.LLE, 'solve_lle_liquid_mol', solve_lle_liquid_mol)
    env.patch(lle_mod, 'phase_fraction', phase_fraction)


def lle_configs(tier):
    out = []
    # modes: one entry per call of the (havoc'ed) solver: 'any' = anywhere in the box, 'int' = strictly inside
    fam = [
        ('WO', 'lL', {'W': '+?', 'O': '?+'}, None, ['any']),
        ('WO', 'lL', {'W': '++', 'O': '++'}, 'Octane', ['any']),
        ('WO', 'lL', {'W': '+0', 'O': '0+'}, 'Water', ['cache']),     # cached branch or solver branch from any cache state
        ('WO', 'glL', {'W': '++?', 'O': '?0+'}, None, ['any']),
        ('WOG', 'lL', {'W': '+0', 'O': '0+', 'G': '0+'}, 'Octane', ['any']),
        ('WN', 'lL', {'W': '+?', 'N': '?+'}, None, ['any']),          # fewer than 2 LLE chemicals: everything pooled in one phase
        ('W', 'lL', {'W': '??'}, None, ['any']),
    ]
    if tier == 'thorough':
        fam += [
            ('WO', 'lL', {'W': '??', 'O': '??'}, 'Octane', ['any']),
            ('WO', 'lL', {'W': '++', 'O': '++'}, None, ['cache']),
            ('WEO', 'lL', {'W': '+?', 'E': '++', 'O': '?+'}, 'Octane', ['any']),
            ('WEO', 'lL', {'W': '+0', 'E': '+0', 'O': '0+'}, None, ['cache']),
            ('WOG', 'glL', {'W': '++?', 'O': '?0+', 'G': '0?+'}, 'Water', ['any']),
        ]
    for keys, phases, d, top, modes in fam:
        out.append({'name': f'{keys}/{phases}/{_dist_name(d, keys)}/top={top}/calls={"+".join(modes)}', 'pkg': keys, 'phases': phases,
                    'dist': d, 'top': top, 'calls': len(modes), 'modes': ['any' if m == 'cache' else m for m in modes],
                    'cache': 'cache' in modes})
    return out


@group('C03/lle', configs=lle_configs,
       functions=['thermosteam.equilibrium.lle:LLE.__call__', 'thermosteam.equilibrium.lle:LLE.get_liquid_mol_data'],
       assumptions=['A-opt: LLE.solve_lle_liquid_mol returns 0 <= mol_L <= mol (solver box)',
                    'A-phase-fraction: binary_phase_fraction.phase_fraction returns a value in [0, 1]'])
def lle(w, cfg):
    W.reset_caches()
    env = Env(w, cfg)
    keys = cfg['pkg']
    try:
        install_lle_stubs(env)
        th = havoc_thermo(env, keys)
        s, before = multistream(w, 'f', th, cfg['phases'], cfg['dist'], keys)
        lle_obj = s.lle
        now = None
        if cfg.get('cache'):
            # ANY cached state of an earlier call on the same chemicals (inductive over call histories): K >= 0 (it is
            # x_L/x_l, zeros or 1e16*ones), an arbitrary earlier temperature and composition, phi is only a solver guess
            cs = s.chemicals
            present = {i for i, ID in enumerate(cs.IDs) if any(dist_char != '0' for dist_char in cfg['dist'].get(
                [k for k in keys if chem(k).ID == ID][0], '0'))}
            lle_chems = [cs.tuple[i] for i in cs.get_lle_indices(present)]
            lle_obj._lle_chemicals = lle_chems
            lle_obj._K = env.arr([env.leaf(f'K{i}', lo=0.) for i in range(len(lle_chems))])
            lle_obj._phi = env.unit('phi_cached')
            lle_obj._T = env.pos('T_cached')
            lle_obj._z_mol = env.arr([env.leaf(f'z_cached{i}', lo=0., hi=1.) for i in range(len(lle_chems))])
        for n in range(cfg['calls']):
            T = w.real(f'T{n}', lo=0., lo_strict=True)
            P = w.real(f'P{n}', lo=0., lo_strict=True) if n % 2 == 0 else None
            try:
                lle_obj(T, P, top_chemical=cfg['top'])
            except NOT_NORMAL as e:
                w.note(outcome=type(e).__name__)
                return
            now = ensure_material(w, s, before, keys, owned=('l', 'L'), vle=False, tag=f'call {n}: ')
        k0 = chem(keys[0]).ID
        w.canary('canary: l flow of first chemical unchanged + 1', w.eq(now['l', k0], before.get(('l', k0), 0.) + 1))
        w.note(calls=dict(env.calls), flows=now)
    finally:
        env.restore()


# --------------------------------------------------------------------------- SLE

class _StubCn:
    def __init__(self, env): self.env = env
    def l(self, T, *a): return self.env.pos('Cn.l')
    def s(self, T, *a): return self.env.pos('Cn.s')
    def g(self, T, *a): return self.env.pos('Cn.g')
    def __call__(self, phase, T, *a): return self.env.pos('Cn')


def install_sle_stubs(env):
    """
    A-models: solubility_eutectic, Cn.l/Cn.s, activity coefficients, mixture xH and T-solvers return arbitrary values;
    A-iter:   flx.aitken evaluates its callback k times at arbitrary arguments and returns an arbitrary value.
    """
    class StubFlx:
        @staticmethod
        def aitken(f, x, xtol=None, args=(), maxiter=50, **kw):
            env.count('aitken')
            r = env.leaf('aitken_x')
            for _ in range(env.k):
                r = env.leaf('aitken_x')
                f(r, *args)
            return r

        def __getattr__(self, name):
            raise AssertionError(f'unexpected flexsolve call in sle.py: {name}')

    env.patch(sle_mod, 'flx', StubFlx())
    env.patch(sle_mod, 'solubility_eutectic', lambda *a, **kw: env.leaf('x_eutectic'))
    for k in env.cfg['pkg']:
        env.patch(chem(k), '_Cn', _StubCn(env))
    StubGamma.env_now = env


def sle_configs(tier):
    out = []
    fam = [
        ('WT', 'ls', {'W': '+0', 'T': '?+'}, ['T'], 1),
        ('WT', 'ls', {'W': '+?', 'T': '++'}, ['H'], 1),
        ('WT', 'ls', {'W': '+0', 'T': '+?'}, ['T', 'Tx'], 1),
        ('WT', 'ls', {'W': '+0', 'T': '+0'}, ['T', 'Hx'], 0),
        ('WT', 'ls', {'W': '00', 'T': '??'}, ['T'], 0),          # pure solute, T given
        ('WT', 'ls', {'W': '00', 'T': '+?'}, ['H'], 0),          # pure solute, H given
        ('WT', 'gls', {'W': '?+0', 'T': '0+?'}, ['T'], 1),
    ]
    if tier == 'thorough':
        fam += [
            ('WMT', 'ls', {'W': '+?', 'M': '?+', 'T': '??'}, ['T'], 2),
            ('WMT', 'ls', {'W': '+?', 'M': '+0', 'T': '+?'}, ['H'], 2),
            ('WT', 'ls', {'W': '??', 'T': '??'}, ['T', 'H'], 1),
            ('WT', 'ls', {'W': '+?', 'T': '?+'}, ['H', 'Tx', 'Hx'], 1),
        ]
    for keys, phases, d, calls, k in fam:
        out.append({'name': f'{keys}/{phases}/{_dist_name(d, keys)}/{"+".join(calls)}/k={k}', 'pkg': keys, 'phases': phases,
                    'dist': d, 'calls': calls, 'k': k})
    return out


for _k in ('WT', 'WMT'):
    pkg(_k)


@group('C03/sle', configs=sle_configs,
       functions=['thermosteam.equilibrium.sle:SLE.__call__', 'thermosteam.equilibrium.sle:SLE._setup',
                  'thermosteam.equilibrium.sle:SLE._update_solubility', 'thermosteam.equilibrium.sle:SLE._solve_x',
                  'thermosteam.equilibrium.sle:SLE._x_iter'],
       assumptions=['A-models: solubility_eutectic, Cn, activity coefficients, mixture energies return arbitrary values',
                    'A-iter: flx.aitken only evaluates its callback (k times, arbitrary arguments)'])
def sle(w, cfg):
    """Calls: 'T' / 'H' = sle(solute, T=..) / (H=..);  'Tx' / 'Hx' = the same with a given solubility."""
    W.reset_caches()
    env = Env(w, cfg)
    keys = cfg['pkg']
    solute = 'Tetradecanol'
    try:
        install_sle_stubs(env)
        th = havoc_thermo(env, keys, Gamma=StubGamma)
        s, before = multistream(w, 'f', th, cfg['phases'], cfg['dist'], keys)
        sle_obj = s.sle
        now = None
        for n, call in enumerate(cfg['calls']):
            kw = {}
            if call[0] == 'T': kw['T'] = w.real(f'T{n}', lo=0., lo_strict=True)
            else: kw['H'] = w.real(f'H{n}')
            if call.endswith('x'): kw['solubility'] = w.real(f'x{n}')
            pre = flows_now(s)
            try:
                sle_obj(solute, **kw)
            except NOT_NORMAL + (AttributeError,) as e:   # AttributeError: solubility given before any _setup (no result)
                if isinstance(e, AttributeError) and not call.endswith('x'):
                    raise
                w.note(outcome=type(e).__name__)
                return
            now = ensure_material(w, s, before, keys, owned=('l', 's'), vle=False, tag=f'call {n}: ')
            for (ph, ID), v in sorted(now.items()):
                if ID != solute:
                    w.ensure(f'call {n}: frame: only the solute moves, flow[{ph},{ID}] unchanged', w.eq(v, pre[ph, ID]))
        w.canary('canary: solid solute unchanged + 1', w.eq(now['s', solute], before.get(('s', solute), 0.) + 1))
        w.note(calls=dict(env.calls), flows=now)
    finally:
        env.restore()
        StubGamma.env_now = None


# --------------------------------------------------------------------------- Stream.vlle (VLE / LLE at contract level)

def install_vlle_stubs(env, keys):
    """
    Stream.vlle is checked against the CONTRACTS of VLE(T,P) and LLE(T,P) proved by the groups above (per chemical
    l+g resp. l+L is kept, all flows >= 0, gas-locked -> g, liquid/solid-locked -> not in g), each call returning an
    arbitrary state allowed by that contract, and against
      A-fixed-point  flx.fixed_point(f, x0) evaluates f at x0 and then only at values f returned, at least once.
    cfg['script']: mode of the successive equilibrium calls ('int' strictly inside, 'lo' nothing moves to the second
    phase, 'hi' everything moves, 'any' anywhere in the closed range; default 'int').
    """
    w = env.w
    script = list(env.cfg.get('script', []))

    def next_mode():
        return script.pop(0) if script else 'int'

    def split(row_a, row_b, i, mode, forced=None):
        """Redistribute chemical i between two phase rows: b gets v in [0, total], a the rest."""
        tot = row_a.dct.get(i, 0.) + row_b.dct.get(i, 0.)
        if not tot:
            return
        if forced == 'a' or (forced is None and mode == 'lo'):
            row_a[i] = tot; row_b[i] = 0.
        elif forced == 'b' or (forced is None and mode == 'hi'):
            row_a[i] = 0.; row_b[i] = tot
        elif mode == 'int':
            v = env.leaf('v', lo=0., lo_strict=True)
            w.assume(w.lt(v, tot))
            row_b[i] = v; row_a[i] = tot - v
        else:
            v = env.leaf('v', lo=0.)
            w.assume(w.le(v, tot))
            row_b[i] = v; row_a[i] = tot - v

    class ContractVLE:
        def __init__(self, imol, thermal_condition=None, thermo=None):
            self.imol = imol

        def __call__(self, *, T, P):
            env.count('vle')
            mode = next_mode()
            l = self.imol['l']; g = self.imol['g']
            for i, k in enumerate(keys):
                locked = CHEMS[k][1]
                split(l, g, i, mode, forced={'g': 'b', 'l': 'a', 's': 'a', None: None}[locked])

    class ContractLLE:
        def __init__(self, imol, thermal_condition=None, thermo=None):
            self.imol = imol

        def __call__(self, T, P=None, **kw):
            env.count('lle')
            mode = next_mode()
            l = self.imol['l']; L = self.imol['L']
            for i, k in enumerate(keys):
                split(L, l, i, mode)

    class StubEq:
        VLE = ContractVLE
        LLE = ContractLLE

    class StubFlx:
        @staticmethod
        def fixed_point(f, x, xtol=5e-8, args=(), **kw):
            env.count('fixed_point')
            for _ in range(max(1, env.k)):
                x = f(x, *args)
            return x

    env.patch(stream_mod, 'eq', StubEq)
    env.patch(stream_mod, 'flx', StubFlx)


def vlle_configs(tier):
    out = []
    fam = [
        ('WO', {'W': '+++', 'O': '+++'}, [], 1),
        ('WO', {'W': '+0+', 'O': '0++'}, ['lo'], 1),                     # VLE leaves no gas: LLE only
        ('WO', {'W': '+0+', 'O': '0++'}, ['hi'], 1),                     # VLE leaves no liquid
        ('WO', {'W': '+0+', 'O': '0++'}, ['int', 'lo'], 1),              # LLE finds one liquid phase
        ('WON', {'W': '+?+', 'O': '?++', 'N': '+0?'}, [], 1),
        ('WOG', {'W': '+0+', 'O': '0++', 'G': '?+0'}, ['int', 'int', 'int', 'int', 'any'], 1),
        ('W', {'W': '???'}, ['any', 'any'], 1),
    ]
    if tier == 'thorough':
        fam += [
            ('WO', {'W': '???', 'O': '???'}, [], 2),
            ('WO', {'W': '+++', 'O': '+++'}, ['any', 'any'], 1),
            ('WO', {'W': '+++', 'O': '+++'}, ['int', 'int', 'any', 'any'], 1),
            ('WO', {'W': '+++', 'O': '+++'}, ['int', 'int', 'int', 'int', 'any', 'any'], 2),
            ('WEO', {'W': '+0+', 'E': '?+?', 'O': '0++'}, [], 1),
        ]
    for keys, d, script, k in fam:
        out.append({'name': f'{keys}/{_dist_name(d, keys)}/script={"-".join(script) or "int"}/k={k}', 'pkg': keys, 'dist': d,
                    'script': script, 'k': k})
    return out


pkg('WON')


@group('C03/vlle', configs=vlle_configs,
       functions=['thermosteam._stream:Stream.vlle'],
       assumptions=['callee contracts: VLE(T,P) and LLE(T,P) conserve every chemical over their two phases, keep flows >= 0 and '
                    'honour locked phases (groups C03/vle_TP, C03/lle)',
                    'A-fixed-point: flx.fixed_point evaluates f at x0 and then only at values returned by f, at least once'])
def vlle(w, cfg):
    W.reset_caches()
    env = Env(w, cfg)
    keys = cfg['pkg']
    try:
        install_vlle_stubs(env, keys)
        th = havoc_thermo(env, keys)
        s, before = multistream(w, 'f', th, 'Lgl', cfg['dist'], keys)
        T = w.real('T', lo=0., lo_strict=True)
        P = w.real('P', lo=0., lo_strict=True)
        try:
            s.vlle(T, P)
        except NOT_NORMAL as e:
            w.note(outcome=type(e).__name__)
            return
        now = ensure_material(w, s, before, keys, owned=('L', 'g', 'l'))
        k0 = chem(keys[0]).ID
        w.canary('canary: total of first chemical doubled', w.eq(now['l', k0] + now['L', k0] + now['g', k0],
                                                                 2 * (before.get(('l', k0), 0.) + before.get(('L', k0), 0.) + before.get(('g', k0), 0.)) + 1))
        w.note(calls=dict(env.calls), flows=now)
    finally:
        env.restore()


# --------------------------------------------------------------------------- mode B: the same clauses as run-time contracts on the REAL solvers

B_PKGS_VLE = ['W', 'WE', 'WEM', 'WEN', 'WEX', 'WEG', 'WENG', 'WES', 'WO']
for _k in B_PKGS_VLE + ['WEO', 'MT']:
    pkg(_k)


def _b_flows(rnd, keys, phases, p_present=0.8):
    """Random non-empty composition over a subset of the package, flows 1e-3..1e3, random initial distribution."""
    flows = {}
    present = [k for k in keys if rnd.random() < p_present] or [keys[0]]
    for k in present:
        tot = 10 ** rnd.uniform(-3, 3)
        r = rnd.random()
        if r < 0.25: fr = [1.] + [0.] * (len(phases) - 1)
        elif r < 0.5: fr = [0.] * (len(phases) - 1) + [1.]
        else:
            cut = sorted(rnd.random() for _ in range(len(phases) - 1))
            fr = [b - a for a, b in zip([0.] + cut, cut + [1.])]
        rnd.shuffle(fr)
        for ph, f in zip(phases, fr):
            if f: flows[f'{ph}.{k}'] = tot * f
    return flows


def bounded_configs(tier):
    import random
    seed = int(os.environ.get('VERIF_SEED', '0') or 0)
    rnd = random.Random(1000 + seed)
    n_vle, n_lle, n_sle, n_vlle = (18, 14, 14, 3) if tier == 'quick' else (220, 150, 150, 30)
    out = []
    for spec in SPECS:
        for n in range(n_vle):
            xy = spec[1] in 'xy'
            keys = B_PKGS_VLE[(n + len(out)) % len(B_PKGS_VLE)] if not xy else ['WE', 'WO', 'WEG', 'WEM'][n % 4]
            vals = {'T': rnd.uniform(250., 500.), 'P': 10 ** rnd.uniform(4, 6.7), 'V': rnd.choice([0., 1., rnd.random(), rnd.random()]),
                    'u': rnd.random(), 'T0': rnd.uniform(280., 320.), 'T1': rnd.uniform(400., 480.), 'x0': rnd.uniform(0.02, 0.98),
                    'Vref': rnd.uniform(0.02, 0.98), 'Tref': rnd.uniform(320., 420.), 'Pref': 10 ** rnd.uniform(4.3, 6.)}
            # 'ref': the second specification (H, S, x or y) is read off a reference flash (T or P, V=Vref) of a copy, so that
            # it lies in the range where the call returns normally; otherwise it is drawn blindly
            ref = xy or (spec in ('TH', 'TS')) or (spec in ('PH', 'PS') and n % 2 == 0)
            out.append({'name': f'vle/{spec}/{keys}/{n}', 'kind': 'vle', 'spec': spec, 'pkg': keys, 'ref': ref,
                        'flows': _b_flows(rnd, keys, 'gl', 1.0 if xy else 0.8), 'vals': vals})
    for n in range(n_lle):
        keys = ['WO', 'WEO', 'WEG', 'WEN'][n % 4]
        out.append({'name': f'lle/{keys}/{n}', 'kind': 'lle', 'pkg': keys, 'flows': _b_flows(rnd, keys, 'lL', 1.0 if n % 8 < 6 else 0.7),
                    'vals': {'T': rnd.uniform(280., 370.), 'P': 101325.}, 'top': rnd.choice([None, 'Water', 'Octane']), 'calls': 1 + n % 2})
    for n in range(n_sle):
        keys = ['WT', 'MT', 'WMT'][n % 3]
        out.append({'name': f'sle/{keys}/{n}', 'kind': 'sle', 'pkg': keys, 'flows': _b_flows(rnd, keys, 'ls'),
                    'vals': {'T': rnd.uniform(270., 330.), 'H': rnd.uniform(-5e5, 5e5) , 'x': rnd.uniform(-0.1, 1.1)},
                    'call': ['T', 'H', 'Tx', 'Hx'][(n // 3) % 4]})
    for n in range(n_vlle):
        keys = ['WEO', 'WO', 'WEN'][n % 3]
        out.append({'name': f'vlle/{keys}/{n}', 'kind': 'vlle', 'pkg': keys, 'flows': _b_flows(rnd, keys, 'Lgl', 1.0),
                    'vals': {'T': rnd.uniform(300., 365.), 'P': 101325. * rnd.choice([0.5, 1., 1., 2.])}})
    return out


@group('C03/bounded_real_solvers', configs=bounded_configs, mode='B',
       functions=['thermosteam.equilibrium.vle:VLE.__call__', 'thermosteam.equilibrium.lle:LLE.__call__',
                  'thermosteam.equilibrium.sle:SLE.__call__', 'thermosteam._stream:Stream.vlle'],
       notes='real solvers and property models, fixed pseudo-random grid (VERIF_SEED): packages of 1-4 chemicals from '
             'water/ethanol/methanol/octane/N2(g-locked)/NaCl,glucose(l-locked)/sucrose(s-locked)/tetradecanol, subsets present, '
             'flows 1e-3..1e3 kmol/hr, random initial phase distribution; every VLE specification pair (T 250-500 K, '
             'P 1e4-5e6 Pa, V in {0,1,random}, H/S between all-liquid and all-vapour values, x/y in (0.02,0.98)), LLE with/without '
             'top_chemical and repeated calls (cache), SLE T/H/solubility, vlle; calls that raise are skipped')
def bounded_real_solvers(w, cfg):
    W.reset_caches()
    keys = cfg['pkg']
    th = pkg(keys)
    kind = cfg['kind']
    phases = {'vle': 'gl', 'lle': 'lL', 'sle': 'ls', 'vlle': 'Lgl'}[kind]
    s = tmo.MultiStream(None, phases=tuple(phases), thermo=th)
    before = {}
    for key, v in cfg['flows'].items():
        ph, k = key.split('.')
        ID = chem(k).ID
        s.imol[ph, ID] = v
        before[ph, ID] = v
    v = cfg['vals']
    try:
        if kind == 'vle':
            spec = cfg['spec']
            kw = {}
            mol = s.mol
            mix = th.mixture
            if cfg.get('ref'):
                r = s.copy()
                first = {'T': v['Tref']} if spec[0] == 'T' else {'P': v['Pref']}
                r.vle(V=v['Vref'], **first)
                kw.update(first)
                c = spec[1]
                if c == 'H': kw['H'] = r.H
                elif c == 'S': kw['S'] = r.S
                else:
                    idx = r.vle._index
                    row = r.imol['l' if c == 'x' else 'g'][idx]
                    kw[c] = row / row.sum()
            for c in (() if cfg.get('ref') else spec):
                if c in 'TPV': kw[c] = v[c]
                elif c == 'H':
                    P = v['P']
                    lo = mix.H('l', mol, v['T0'], P); hi = mix.H('g', mol, v['T1'], P)
                    kw['H'] = lo + v['u'] * (hi - lo)
                elif c == 'S':
                    P = v['P']
                    lo = mix.S('l', mol, v['T0'], P); hi = mix.S('g', mol, v['T1'], P)
                    kw['S'] = lo + v['u'] * (hi - lo)
                else:
                    kw[c] = np.array([v['x0'], 1. - v['x0']])
            s.vle(**kw)
            owned = ('g', 'l')
        elif kind == 'lle':
            for n in range(cfg['calls']):
                s.lle(v['T'] + 1e-4 * n, v['P'], top_chemical=cfg['top'])
            owned = ('l', 'L')
        elif kind == 'sle':
            call = cfg['call']
            if call.endswith('x'):
                s.sle('Tetradecanol', T=v['T'])
            kw = {'T': v['T']} if call[0] == 'T' else {'H': v['H']}
            if call.endswith('x'): kw['solubility'] = v['x']
            s.sle('Tetradecanol', **kw)
            owned = ('l', 's')
        else:
            s.vlle(v['T'], v['P'])
            owned = ('L', 'g', 'l')
    except Exception as e:       # the property speaks about calls that return normally
        if isinstance(e, ReferenceError) and not cfg.get('_retried'):
            # numba's on-disk cache occasionally fails while SAVING a freshly compiled kernel (environment, not thermosteam);
            # the kernel is compiled now, run the same input once more
            return bounded_real_solvers(w, dict(cfg, _retried=True))
        w.note(outcome=f'{type(e).__name__}: {e}'[:120])
        w.assume(False)
        return
    now = ensure_material(w, s, before, keys, owned=owned, vle=kind in ('vle', 'vlle'))
    for (ph, ID), x in now.items():
        w.ensure(f'finite flow[{ph},{ID}]', x == x and abs(x) != float('inf'))
    w.note(flows={k: x for k, x in now.items() if x})
