# -*- coding: utf-8 -*-
"""
C07 — additional groups (added after the seeded change C07_3 was missed): the sentences of the property hold for EVERY
chemical, also for chemicals that were obtained from another one (`Chemical.copy`, `at_state(copy=True)`,
`copy_models_from`) and after the documented way of editing a chemical's models
(`<chem>.Cn.<phase>.add_method(...)` / `<chem>.Hvap.add_method(...)` followed by `<chem>.reset_free_energies()`)
was applied to a *related* chemical.  The first round only enumerated freshly initialised chemicals (one call of
`_init_energies`); here the call histories are enumerated:

    A created -> B derived from A -> one model of A or of B edited + that chemical's free energies reset
    -> every sentence of C07 for A and for B, each against its OWN current Cn / Hvap models.

* `C07/copy_history` (mode S): real `Chemical.blank`, `Chemical.copy`, `Chemical.at_state`, `lock_phase`,
  `Chemical.copy_models_from`, `Chemical.reset_free_energies`, `_init_energies`, `PhaseHandle.copy`, `Functor.copy` on a
  chemical whose heat-capacity models are arbitrary functions (uninterpreted integrals, A-int) and whose Tm, Tb, Hfus, S0
  are leaves.  The model objects obey the contract of thermo's TDependentProperty: `copy()` returns an independent
  object computing the same function, `add_method` makes THIS object compute another arbitrary function.
* `C07/real_copy_history` (mode B): the same histories (plus two edits in a row and an edit before the copy) on real
  database chemicals with the real thermo models, sentences evaluated numerically.

Findings on the unchanged tree (see .scratch/C07/r2_repro_*.py):
  4. `TDependentProperty.copy` (thermosteam/thermo/t_dependent_property.py) is shallow and shares `local_methods`,
     `all_methods`, `T_limits` with the original; `add_method` names every user model 'USER_METHOD', so when BOTH the
     original and the copy get a user model the one edited first evaluates the other's model live with stale
     integrals -> every `two-edits:*` history of `C07/real_copy_history` (r2_fix_1.diff).  This is the real-code
     counterpart of assumption A-model-object of `C07/copy_history`.
  5. (thorough) thermo's HEOS_FIT liquid Cn integrates Cn/T as a difference of huge terms: S_l of Benzene is quantised
     to 2 J/mol/K -> `Benzene;*` Simpson clauses for S_l.
"""
import math
import thermosteam as tmo
from thermosteam.base import PhaseTHandle
from engine.api import group
from contracts.C07_thermo_consistency import (CnStub, _integral, _assume_integrals_additive, _ig_eos, _log, R_GAS, PHASES,
                                             FREE_ENERGY_FUNCTIONS)

HISTORY_FUNCTIONS = FREE_ENERGY_FUNCTIONS + [
    'thermosteam._chemical:Chemical.copy', 'thermosteam._chemical:Chemical.reset_free_energies',
    'thermosteam._chemical:Chemical.at_state', 'thermosteam._chemical:lock_phase',
    'thermosteam._chemical:Chemical.copy_models_from', 'thermosteam.base.phase_handle:PhaseHandle.copy',
    'thermosteam.base.functor:Functor.copy', 'thermosteam.utils.misc:copy_maybe',
]


# --------------------------------------------------------------------------- model objects (contract of TDependentProperty)

class CnModel(CnStub):
    """Heat capacity of one phase: an arbitrary function (tag) that the documented editing call replaces IN THIS OBJECT."""
    CASRN = None

    def copy(self):
        return CnModel(self._w, self._tag, self._enc)

    def add_method(self, tag):
        self._tag = tag

    def __bool__(self):
        return True


class HvapModel:
    CASRN = None

    def __init__(self, w, tag='Hvap'):
        self._w = w
        self._tag = tag

    def __call__(self, T):
        return self._w.fn(self._tag, positive=True)(T)

    def copy(self):
        return HvapModel(self._w, self._tag)

    def add_method(self, tag):
        self._tag = tag

    def __bool__(self):
        return True


def _stub_chemical(w, ID, phase_ref, data, cn=True):
    """Real Chemical (no database data) that carries leaves as Tm, Tb, Hfus, Sfus, S0 and model objects as Cn, Hvap."""
    chem = tmo.Chemical.blank(ID, phase_ref=phase_ref, free_energies=False)
    chem._Tm, chem._Tb, chem._Hfus, chem._S0 = data['Tm'], data['Tb'], data['Hfus'], data['S0']
    chem._Sfus = data['Hfus'] / data['Tm']          # requires of _init_energies (C07/sfus_data)
    chem._Tc = None
    chem._eos = _ig_eos()
    chem._Hvap = HvapModel(w)
    if cn:
        chem._Cn = PhaseTHandle('Cn', *[CnModel(w, p) for p in PHASES])
    return chem


def _model_of(chem, model):
    """'Cn.l' -> the chemical's own liquid heat-capacity model (the model itself for a phase-locked chemical)."""
    if model == 'Hvap':
        return chem.Hvap
    Cn = chem.Cn
    return getattr(Cn, model[-1]) if isinstance(Cn, PhaseTHandle) else Cn


# --------------------------------------------------------------------------- the sentences of C07 for one chemical

def _sentences(w, who, chem, d, canary=False):
    """Every pure-component sentence of C07 for `chem`, against chem's own current Cn / Hvap (read through the public handles)."""
    T_ref, P_ref = chem.T_ref, chem.P_ref
    Tm, Tb, T1, T2, P, P1, P2 = d['Tm'], d['Tb'], d['T1'], d['T2'], d['P'], d['P1'], d['P2']
    H, S, Cn = chem.H, chem.S, chem.Cn
    R = tmo.constants.R
    locked = chem.locked_state
    # A-log instance ln(P2/P1) = ln(P2/P_ref) - ln(P1/P_ref): P_ref is the concrete class constant here, and the
    # engine's log only splits quotients of symbolic terms (C07/init_energies has the sentence with a free P_ref)
    ln_P2_over_P1 = _log(w, P2 / P_ref) - _log(w, P1 / P_ref)
    if locked:
        w.ensure(f'{who}: H(T_ref, P_ref) = 0', w.eq(H(T_ref, P_ref), 0.))
        w.ensure(f'{who}: S(T_ref, P_ref) = S0 (absolute entropy)', w.eq(S(T_ref, P_ref), chem.S0))
        w.ensure(f'{who}: H(T2) - H(T1) = integral of its Cn dT from T1 to T2',
                 w.eq(H(T2, P) - H(T1, P), Cn.T_dependent_property_integral(T1, T2)))
        w.ensure(f'{who}: S(T2,P) - S(T1,P) = integral of its Cn/T dT from T1 to T2',
                 w.eq(S(T2, P) - S(T1, P), Cn.T_dependent_property_integral_over_T(T1, T2)))
        if locked == 'g':
            w.ensure(f'{who}: S_g(T,P2) - S_g(T,P1) = -R ln(P2/P1)', w.eq(S(T1, P2) - S(T1, P1), -R * ln_P2_over_P1))
        if canary:
            w.canary(f'canary: {who}: S(ref state) = S0 + 1', w.eq(S(T_ref, P_ref), chem.S0 + 1.))
        return
    ref = chem.phase_ref
    Hvap_Tb = chem.Hvap(Tb)
    w.ensure(f'{who}: H(phase_ref, T_ref, P_ref) = 0', w.eq(H(ref, T_ref, P_ref), 0.))
    w.ensure(f'{who}: S(phase_ref, T_ref, P_ref) = S0 (absolute entropy)', w.eq(S(ref, T_ref, P_ref), chem.S0))
    for p in PHASES:
        m = getattr(Cn, p)
        w.ensure(f'{who}: H_{p}(T2) - H_{p}(T1) = integral of its Cn_{p} dT from T1 to T2',
                 w.eq(H(p, T2, P) - H(p, T1, P), m.T_dependent_property_integral(T1, T2)))
        w.ensure(f'{who}: S_{p}(T2,P) - S_{p}(T1,P) = integral of its Cn_{p}/T dT from T1 to T2',
                 w.eq(S(p, T2, P) - S(p, T1, P), m.T_dependent_property_integral_over_T(T1, T2)))
    w.ensure(f'{who}: S_g(T,P2) - S_g(T,P1) = -R ln(P2/P1)', w.eq(S('g', T1, P2) - S('g', T1, P1), -R * ln_P2_over_P1))
    w.ensure(f'{who}: H_g(Tb) - H_l(Tb) = its Hvap(Tb)', w.eq(H('g', Tb, P_ref) - H('l', Tb, P_ref), Hvap_Tb))
    w.ensure(f'{who}: H_l(Tm) - H_s(Tm) = Hfus', w.eq(H('l', Tm, P_ref) - H('s', Tm, P_ref), chem.Hfus))
    w.ensure(f'{who}: S_g(Tb) - S_l(Tb) = its Hvap(Tb)/Tb', w.eq(S('g', Tb, P_ref) - S('l', Tb, P_ref), Hvap_Tb / Tb))
    w.ensure(f'{who}: S_l(Tm) - S_s(Tm) = Hfus/Tm', w.eq(S('l', Tm, P_ref) - S('s', Tm, P_ref), chem.Hfus / Tm))
    if canary:
        w.canary(f'canary: {who}: H_g(Tb) - H_l(Tb) = Hvap(Tb) + 1', w.eq(H('g', Tb, P_ref) - H('l', Tb, P_ref), Hvap_Tb + 1.))
        w.canary(f'canary: {who}: S(ref state) = S0 + 1', w.eq(S(ref, T_ref, P_ref), chem.S0 + 1.))


# --------------------------------------------------------------------------- C07/copy_history (mode S)

MODELS = ('Cn.s', 'Cn.l', 'Cn.g', 'Hvap')


def history_configs(tier):
    out = []

    def add(ref, route, edits):
        e = '+'.join(f'{who}.{model}' for who, model in edits) or 'none'
        out.append({'name': f'phase_ref={ref};route={route};edit={e}', 'phase_ref': ref, 'route': route,
                    'edits': [list(x) for x in edits]})

    for ref in PHASES:
        add(ref, 'copy', [])
        for who in ('B', 'A'):                       # the derived chemical / the source chemical is edited afterwards
            for model in MODELS:
                add(ref, 'copy', [(who, model)])
        add(ref, 'copy_models_from', [('B', 'Cn.l')])
        add(ref, 'copy_models_from', [('A', 'Cn.l')])
    for p in PHASES:                                 # phase-locked copy
        for ref in (('l',) if tier == 'quick' else PHASES):
            add(ref, f'at_state_copy:{p}', [('B', f'Cn.{p}')])
            add(ref, f'at_state_copy:{p}', [('A', f'Cn.{p}')])
    if tier == 'thorough':
        for ref in PHASES:
            add(ref, 'copy', [('B', 'Cn.l'), ('A', 'Cn.l')])
            add(ref, 'copy', [('B', 'Cn.l'), ('B', 'Cn.g'), ('B', 'Hvap')])
            add(ref, 'copy_of_copy', [('C', 'Cn.l')])
            add(ref, 'copy_of_copy', [('B', 'Cn.l')])
            for model in ('Cn.s', 'Cn.g'):
                add(ref, 'copy_models_from', [('B', model)])
                add(ref, 'copy_models_from', [('A', model)])
    return out


@group('C07/copy_history', configs=history_configs, functions=HISTORY_FUNCTIONS, loop_free=True,
       assumptions=['A-int: T_dependent_property_integral(_over_T) are additive in their limits (integrals of a function of T)',
                    'A-log: log is uninterpreted with log(a/b) = log a - log b',
                    'A-model-object (contract of thermo TDependentProperty): copy() returns an independent object computing the same '
                    'function; add_method changes the function of the object it is called on, and of no other object'])
def copy_history(w, cfg):
    ref, route = cfg['phase_ref'], cfg['route']
    d = {k: w.real(k, lo=0., lo_strict=True) for k in ('Tm', 'Tb', 'T1', 'T2', 'P', 'P1', 'P2')}
    d['Hfus'] = w.real('Hfus')
    d['S0'] = w.real('S0')
    T_ref = tmo.Chemical.T_ref
    terms = [T_ref, d['Tm'], d['Tb'], d['T1'], d['T2']]
    edited_tags = sorted({f'{model[-1]}*{who}' for who, model in cfg['edits'] if model != 'Hvap'})
    _assume_integrals_additive(w, list(PHASES) + edited_tags, terms)

    chems = {}
    A = chems['A'] = _stub_chemical(w, 'A', ref, d)
    A.reset_free_energies()
    if route == 'copy':
        chems['B'] = A.copy('B')
    elif route == 'copy_of_copy':
        chems['B'] = A.copy('B')
        chems['C'] = chems['B'].copy('C')
    elif route.startswith('at_state_copy:'):
        chems['B'] = A.at_state(route[-1], copy=True)
    elif route == 'copy_models_from':
        B = chems['B'] = _stub_chemical(w, 'B', ref, d, cn=False)
        for p in PHASES:                            # the (empty) models that blank() created need the interface the call uses
            assert hasattr(getattr(B.Cn, p), 'CASRN')
        B.copy_models_from(A, ['Cn'])
    else:
        raise ValueError(route)

    for who, model in cfg['edits']:
        chem = chems[who]
        m = _model_of(chem, model)
        m.add_method('Hvap*' + who if model == 'Hvap' else f'{model[-1]}*{who}')       # the documented way to edit a chemical
        chem.reset_free_energies()

    for n, (who, chem) in enumerate(sorted(chems.items())):
        _sentences(w, who, chem, d, canary=True)
    w.ensure('R is the gas constant', abs(tmo.constants.R - R_GAS) < 1e-5)
    w.ensure('the derived chemical is a new object', all(chems[a] is not chems[b] for a in chems for b in chems if a < b))
    w.note(route=route, locked={k: c.locked_state for k, c in chems.items()})


# --------------------------------------------------------------------------- C07/real_copy_history (mode B)

B_QUICK = ('Ethanol', 'Water')
B_THOROUGH = B_QUICK + ('Methanol', 'Octane', 'Propane', 'Benzene', 'AceticAcid')
B_VALUES = {'Cn.s': 61., 'Cn.l': 200., 'Cn.g': 47., 'Hvap': 31000.}
B_VALUES_2 = {'Cn.s': 83., 'Cn.l': 100., 'Cn.g': 59., 'Hvap': 27000.}


def _b_histories(tier):
    """(name, [op]) with op = ('copy',) | ('at_state_copy', p) | ('edit', who, model, which value set)."""
    hs = [('fresh', []), ('copy', [('copy',)])]
    for model in MODELS:
        hs.append((f'copy;B.{model}', [('copy',), ('edit', 'B', model, 1)]))
        hs.append((f'copy;A.{model}', [('copy',), ('edit', 'A', model, 1)]))
        # both chemicals edited, with different models, before / after the copy
        hs.append((f'two-edits:A.{model};copy;B.{model}', [('edit', 'A', model, 1), ('copy',), ('edit', 'B', model, 2)]))
    hs.append(('two-edits:copy;B.Cn.l;A.Cn.l', [('copy',), ('edit', 'B', 'Cn.l', 1), ('edit', 'A', 'Cn.l', 2)]))
    for p in PHASES:
        hs.append((f'at_state_copy:{p};B.Cn.{p}', [('at_state_copy', p), ('edit', 'B', f'Cn.{p}', 1)]))
        hs.append((f'at_state_copy:{p};A.Cn.{p}', [('at_state_copy', p), ('edit', 'A', f'Cn.{p}', 1)]))
    return hs


def real_history_configs(tier):
    out = []
    IDs = B_QUICK if tier == 'quick' else B_THOROUGH
    for ID in IDs:
        for ref in PHASES:
            for hname, ops in _b_histories(tier):
                if tier == 'quick' and ID != B_QUICK[0] and ref != 'l' and hname not in ('fresh', 'copy;B.Cn.l', 'two-edits:A.Cn.l;copy;B.Cn.l'):
                    continue
                out.append({'name': f'{ID};phase_ref={ref};history={hname}', 'ID': ID, 'phase_ref': ref,
                            'ops': [list(o) for o in ops]})
    return out


def _near(a, b, rtol=1e-6, atol=1e-6):
    a = float(a); b = float(b)
    return abs(a - b) <= atol + rtol * max(abs(a), abs(b))


def _simpson(f, a, b, n=40):
    """Composite Simpson rule: the derivative sentence (dH/dT = Cn, dS/dT = Cn/T) in integral form on the VALUES of the
    chemical's Cn(T) (finite differences of H/S lose all digits: some correlations are integrated as differences of huge terms)."""
    h = (b - a) / n
    t = f(a) + f(b)
    for i in range(1, n):
        t += (4. if i % 2 else 2.) * f(a + i * h)
    return t * h / 3.


def _b_sentences(w, who, chem):
    """The pure-component sentences of C07 for a real chemical (phases with a heat-capacity model only), numerically."""
    T_ref, P_ref = chem.T_ref, chem.P_ref
    Tm, Tb = chem.Tm, chem.Tb
    H, S, Cn = chem.H, chem.S, chem.Cn
    R = tmo.constants.R
    P, P1, P2 = 101325., 50000., 400000.
    locked = chem.locked_state
    # two temperatures inside the range of each phase
    span = {'s': (0.6 * Tm, 0.9 * Tm), 'l': (Tm + 0.2 * (Tb - Tm), Tm + 0.8 * (Tb - Tm)), 'g': (Tb + 20., Tb + 120.)}
    if locked:
        T1, T2 = span[locked]
        w.ensure(f'{who}: H(T_ref, P_ref) = 0', _near(H(T_ref, P_ref), 0.), got=H(T_ref, P_ref))
        w.ensure(f'{who}: S(T_ref, P_ref) = S0 (absolute entropy)', _near(S(T_ref, P_ref), chem.S0), got=S(T_ref, P_ref))
        w.ensure(f'{who}: H(T2) - H(T1) = integral of its Cn dT from T1 to T2',
                 _near(H(T2, P) - H(T1, P), Cn.T_dependent_property_integral(T1, T2)),
                 got=H(T2, P) - H(T1, P), expected=Cn.T_dependent_property_integral(T1, T2))
        w.ensure(f'{who}: S(T2,P) - S(T1,P) = integral of its Cn/T dT from T1 to T2',
                 _near(S(T2, P) - S(T1, P), Cn.T_dependent_property_integral_over_T(T1, T2)),
                 got=S(T2, P) - S(T1, P), expected=Cn.T_dependent_property_integral_over_T(T1, T2))
        qH, qS = _simpson(lambda T: Cn(T), T1, T2), _simpson(lambda T: Cn(T) / T, T1, T2)
        w.ensure(f'{who}: H(T2) - H(T1) = integral of its Cn(T) dT (Simpson rule on the model values, 0.5 %)',
                 _near(H(T2, P) - H(T1, P), qH, rtol=5e-3), got=H(T2, P) - H(T1, P), expected=qH)
        w.ensure(f'{who}: S(T2,P) - S(T1,P) = integral of its Cn(T)/T dT (Simpson rule on the model values, 0.5 %)',
                 _near(S(T2, P) - S(T1, P), qS, rtol=5e-3), got=S(T2, P) - S(T1, P), expected=qS)
        if locked == 'g':
            w.ensure(f'{who}: S_g(T,P2) - S_g(T,P1) = -R ln(P2/P1)', _near(S(T1, P2) - S(T1, P1), -R * math.log(P2 / P1)))
        return
    ref = chem.phase_ref
    Hvap_Tb = chem.Hvap(Tb)
    w.ensure(f'{who}: H(phase_ref, T_ref, P_ref) = 0', _near(H(ref, T_ref, P_ref), 0.), got=H(ref, T_ref, P_ref))
    w.ensure(f'{who}: S(phase_ref, T_ref, P_ref) = S0 (absolute entropy)', _near(S(ref, T_ref, P_ref), chem.S0),
             got=S(ref, T_ref, P_ref), S0=chem.S0)
    for p in PHASES:
        m = getattr(Cn, p)
        T1, T2 = span[p]
        w.ensure(f'{who}: H_{p}(T2) - H_{p}(T1) = integral of its Cn_{p} dT from T1 to T2',
                 _near(H(p, T2, P) - H(p, T1, P), m.T_dependent_property_integral(T1, T2)),
                 got=H(p, T2, P) - H(p, T1, P), expected=m.T_dependent_property_integral(T1, T2))
        w.ensure(f'{who}: S_{p}(T2,P) - S_{p}(T1,P) = integral of its Cn_{p}/T dT from T1 to T2',
                 _near(S(p, T2, P) - S(p, T1, P), m.T_dependent_property_integral_over_T(T1, T2)),
                 got=S(p, T2, P) - S(p, T1, P), expected=m.T_dependent_property_integral_over_T(T1, T2))
        qH, qS = _simpson(lambda T: Cn(p, T), T1, T2), _simpson(lambda T: Cn(p, T) / T, T1, T2)
        w.ensure(f'{who}: H_{p}(T2) - H_{p}(T1) = integral of its Cn_{p}(T) dT (Simpson rule on the model values, 0.5 %)',
                 _near(H(p, T2, P) - H(p, T1, P), qH, rtol=5e-3), got=H(p, T2, P) - H(p, T1, P), expected=qH)
        w.ensure(f'{who}: S_{p}(T2,P) - S_{p}(T1,P) = integral of its Cn_{p}(T)/T dT (Simpson rule on the model values, 0.5 %)',
                 _near(S(p, T2, P) - S(p, T1, P), qS, rtol=5e-3), got=S(p, T2, P) - S(p, T1, P), expected=qS)
    Tg = span['g'][0]
    w.ensure(f'{who}: S_g(T,P2) - S_g(T,P1) = -R ln(P2/P1)', _near(S('g', Tg, P2) - S('g', Tg, P1), -R * math.log(P2 / P1)),
             got=S('g', Tg, P2) - S('g', Tg, P1), expected=-R * math.log(P2 / P1))
    dH_vap = H('g', Tb, P_ref) - H('l', Tb, P_ref)
    dS_vap = S('g', Tb, P_ref) - S('l', Tb, P_ref)
    dH_fus = H('l', Tm, P_ref) - H('s', Tm, P_ref)
    dS_fus = S('l', Tm, P_ref) - S('s', Tm, P_ref)
    w.ensure(f'{who}: H_g(Tb) - H_l(Tb) = its Hvap(Tb)', _near(dH_vap, Hvap_Tb), got=dH_vap, expected=Hvap_Tb)
    w.ensure(f'{who}: S_g(Tb) - S_l(Tb) = its Hvap(Tb)/Tb', _near(dS_vap, Hvap_Tb / Tb), got=dS_vap, expected=Hvap_Tb / Tb)
    w.ensure(f'{who}: H_l(Tm) - H_s(Tm) = Hfus', _near(dH_fus, chem.Hfus), got=dH_fus, expected=chem.Hfus)
    w.ensure(f'{who}: S_l(Tm) - S_s(Tm) = Hfus/Tm', _near(dS_fus, chem.Hfus / Tm), got=dS_fus, expected=chem.Hfus / Tm)


@group('C07/real_copy_history', configs=real_history_configs, functions=HISTORY_FUNCTIONS, mode='B',
       notes='database chemicals Ethanol, Water (quick) + Methanol, Octane, Propane, Benzene, AceticAcid (thorough), each with the three '
             'reference phases; histories: fresh / copy / copy then one of Cn.s, Cn.l, Cn.g, Hvap of the copy or of the original replaced '
             'by a constant model via add_method + reset_free_energies / original edited, copied, copy edited / phase-locked copy; '
             'sentences at P = 1 atm (pressure term 0.5 and 4 bar), two temperatures inside each phase range, rtol 1e-6 '
             '(derivative sentences: Simpson rule with 40 panels on the values of Cn(T), 0.5 %)')
def real_copy_history(w, cfg):
    A = tmo.Chemical(cfg['ID'], cache=False, phase_ref=cfg['phase_ref'])
    complete = all(bool(getattr(A.Cn, p)) for p in PHASES) and A.Tm and A.Tb and bool(A.Hvap) and A.Hfus is not None
    w.ensure('database chemical with complete Cn/Tm/Tb/Hvap data (precondition of the family)', bool(complete))
    w.canary('canary (not evaluated in mode B)', A.H is None)
    if not complete:
        return
    chems = {'A': A}
    for op in cfg['ops']:
        if op[0] == 'copy':
            chems['B'] = A.copy(cfg['ID'] + 'Variant')
        elif op[0] == 'at_state_copy':
            chems['B'] = A.at_state(op[1], copy=True)
        else:
            _, who, model, k = op
            chem = chems[who]
            _model_of_real(chem, model).add_method((B_VALUES if k == 1 else B_VALUES_2)[model])
            chem.reset_free_energies()
    for who, chem in sorted(chems.items()):
        _b_sentences(w, who, chem)
    w.note(chemicals={k: (c.ID, c.phase_ref, c.locked_state) for k, c in chems.items()})


def _model_of_real(chem, model):
    if model == 'Hvap':
        return chem.Hvap
    Cn = chem.Cn
    return getattr(Cn, model[-1]) if hasattr(Cn, 'l') and not chem.locked_state else Cn


# ----------------------------------------------------------------------------------------------------------------------
# Added after the seeded change C07_5 was missed: chemicals created with constructor keywords that select models
# (`method=`, `phase_ref=`, `phase=`, user constants) must come out with free-energy functors that agree with the models and
# constants they report - the jumps at Tb / Tm are defined from `chem.Hvap`, `chem.Tb`, `chem.Hfus`, `chem.Tm` as READ
# from the finished object, whatever the constructor did in which order.

def _ctor_configs(tier):
    out = []
    IDs = ('Water', 'Ethanol') if tier == 'quick' else ('Water', 'Ethanol', 'Octane', 'Benzene', 'AceticAcid', 'Glycerol')
    for ID in IDs:
        for phase_ref in (None, 'l', 'g', 's'):
            for which in ((0, 1, 2) if tier == 'quick' else range(6)):
                out.append({'name': f'{ID};phase_ref={phase_ref};method#{which}', 'ID': ID, 'phase_ref': phase_ref, 'which': which})
    return out


@group('C07/B_constructor_keywords', configs=_ctor_configs, mode='B',
       functions=['thermosteam._chemical:Chemical.__new__', 'thermosteam._chemical:Chemical.set_method', 'thermosteam._chemical:Chemical.reset_free_energies',
                  'thermosteam._chemical:Chemical._init_energies'],
       notes='2 (quick) / 6 (thorough) database chemicals x phase_ref in {default, l, g, s} x the first 3 (quick) / 6 (thorough) method names that any of the '
             'chemical\'s temperature-dependent models (Hvap, Cn.l, Cn.g, Psat, V.l) offers, passed as Chemical(ID, method=..., phase_ref=..., cache=False); '
             'clauses: H and S jumps at Tb and Tm equal the Hvap/Hfus the finished object reports; dH/dT = Cn by central differences (1e-4 relative)')
def constructor_keywords(w, cfg):
    import thermosteam as tmo
    ID = cfg['ID']
    stock = tmo.Chemical(ID, cache=False)
    names = []
    for model in (stock.Hvap, stock.Cn.l, stock.Cn.g, stock.Psat, stock.V.l):
        for mth in getattr(model, 'all_methods', ()) or ():
            if mth not in names: names.append(mth)
    names = sorted(names)
    if cfg['which'] >= len(names):
        w.ensure('vacuity guard: fewer methods than requested (nothing to check)', True); return
    method = names[cfg['which']]
    kw = {'method': method, 'cache': False}
    if cfg['phase_ref']: kw['phase_ref'] = cfg['phase_ref']
    try:
        chem = tmo.Chemical(ID, **kw)
    except Exception as e:
        w.ensure('the constructor accepts a method name that one of the models offers', False, exception=f'{type(e).__name__}: {e}'); return
    P = chem.P_ref if hasattr(chem, 'P_ref') else 101325.
    Tb, Tm = chem.Tb, chem.Tm
    H, S = chem.H, chem.S
    w.note(method=method, Hvap_method=getattr(chem.Hvap, 'method', None))
    try:
        Hvap_Tb = chem.Hvap(Tb)
    except Exception:
        Hvap_Tb = None
    if Hvap_Tb is not None and Tb:
        w.ensure('H_g(Tb) - H_l(Tb) = Hvap(Tb) of the finished chemical', w.eq(H('g', Tb, P) - H('l', Tb, P), Hvap_Tb), got=H('g', Tb, P) - H('l', Tb, P), Hvap=Hvap_Tb)
        w.ensure('S_g(Tb) - S_l(Tb) = Hvap(Tb)/Tb of the finished chemical', w.eq(S('g', Tb, P) - S('l', Tb, P), Hvap_Tb / Tb), got=S('g', Tb, P) - S('l', Tb, P), expect=Hvap_Tb / Tb)
    if chem.Hfus is not None and Tm:
        w.ensure('H_l(Tm) - H_s(Tm) = Hfus of the finished chemical', w.eq(H('l', Tm, P) - H('s', Tm, P), chem.Hfus))
        w.ensure('S_l(Tm) - S_s(Tm) = Hfus/Tm of the finished chemical', w.eq(S('l', Tm, P) - S('s', Tm, P), chem.Hfus / Tm))
    ref = chem.phase_ref
    w.ensure('H(reference phase, T_ref) = H_ref', w.eq(H(ref, chem.T_ref, P), chem.H_ref))
    for ph, T in (('l', 0.5 * (Tm + Tb) if Tm and Tb else 300.), ('g', (Tb or 350.) + 40.)):
        try:
            dT = 1e-3 * T
            slope = (H(ph, T + dT, P) - H(ph, T - dT, P)) / (2 * dT)
            cn = getattr(chem.Cn, ph)(T)
        except Exception:
            continue
        w.ensure(f'dH_{ph}/dT = Cn_{ph} (central difference)', abs(slope - cn) <= 1e-4 * max(abs(cn), 1.), slope=slope, Cn=cn)
