# -*- coding: utf-8 -*-
"""
C13 — copies are independent, links share what they advertise, pickles round-trip.

Contracts (sidecar) on the real functions.  Observable state of a stream =
flows per (phase, CAS), phase(s), T, P (+ ID, price, characterization factors
for constructors / pickles), read through the public accessors; sharing =
object identity of the advertised containers AND write-through; independence =
frame: after a symbolic write to one side the other side's snapshot is unchanged.
Pickling is checked on the `__reduce__` recipes (callable(*args) [+ state],
applied recursively; assumption A-pickle) in symbolic mode and additionally with
the real pickle.dumps/loads in native mode.
"""
import copy as _copy
import itertools
import pickle
import types

import numpy

import thermosteam as tmo
from engine.api import group
from engine.sx import tmo_world as W

A = ('Water', 'Ethanol', 'Methanol')               # main package
B = ('Methanol', 'Water')                           # subset, other order
B4 = ('Methanol', 'Ethanol', 'Water', 'Octane')     # superset, other order
PKG = {'A': A, 'B': B, 'B4': B4}
W.preload([A, B, B4])

# stream kinds: single-phase Stream 'l','g','s','L'; MultiStream 'm:<phases>' built by the constructor;
# 'c:<phases>' = Stream cast to MultiStream through `stream.phases = ...`
KINDS = {'l': 'l', 'g': 'g', 's': 's', 'L': 'L', 'S': 'S',
         'm:l': ('l',), 'm:g': ('g',), 'm:gl': ('g', 'l'), 'm:Ll': ('L', 'l'), 'm:gls': ('g', 'l', 's'),
         'm:gL': ('L', 'g'), 'm:ls': ('l', 's'), 'm:Ls': ('L', 's'), 'm:L': ('L',),
         'c:gl': ('g', 'l'), 'c:Ll': ('L', 'l')}


def _is_multi(kind):
    return kind[:2] in ('m:', 'c:')


def _swapcase(p):
    return p.lower() if p.isupper() else p.upper()


def _mk(w, name, kind, pkg='A', fill='pos+maybe', TP=True):
    """Real Stream / MultiStream with planted flows and (symbolic) T, P."""
    IDs = PKG[pkg]
    th = W.thermo(IDs)
    phases = KINDS[kind]
    rows = (phases,) if isinstance(phases, str) else phases
    if fill == 'empty':
        present = {'default': 'zero'}
    elif fill == 'pos':
        present = {'default': 'pos'}
    elif fill == 'pos+maybe':     # first chemical present in every row, last one maybe, others absent
        present = {'default': 'zero'}
        for n, ph in enumerate(rows):
            present[ph, IDs[0]] = 'pos'
            if n == 0: present[ph, IDs[-1]] = 'maybe'
    elif fill == 'first-row':     # only the first row holds material (multi-phase stream holding one phase)
        present = {'default': 'zero', (rows[0], IDs[0]): 'pos', (rows[0], IDs[-1]): 'maybe'}
    elif fill == 'last-row':
        present = {'default': 'zero', (rows[-1], IDs[0]): 'pos', (rows[-1], IDs[-1]): 'maybe'}
    elif fill == 'maybe':
        present = {'default': 'zero'}
        for ph in rows:
            present[ph, IDs[0]] = 'maybe'
    else:
        raise ValueError(fill)
    if kind.startswith('c:'):
        s = tmo.Stream(None, thermo=th, phase=rows[-1])
        s.phases = rows
        W.plant_flows(w, s, name, present=present)
    elif isinstance(phases, str):
        s = tmo.Stream(None, thermo=th, phase=phases)
        W.plant_flows(w, s, name, present=present)
    else:
        s = tmo.MultiStream(None, phases=tuple(phases), thermo=th)
        W.plant_flows(w, s, name, present=present)
    if TP:
        s.T = w.real(f'{name}.T', lo=0., lo_strict=True)
        s.P = w.real(f'{name}.P', lo=0., lo_strict=True)
    return s


def obs(s):
    """Observable state through the public accessors."""
    CASs = s.chemicals.CASs
    if isinstance(s, tmo.MultiStream):
        phases = tuple(s.phases)
        rows = list(zip(phases, s.imol.data.rows))
    else:
        phases = (s.phase,)
        rows = [(s.phase, s.mol)]
    flows = {}
    rowflows = {}
    stored_ok = []
    for n, (ph, sv) in enumerate(rows):
        for i, v in sv.dct.items():
            flows[ph, CASs[i]] = v
            rowflows[n, CASs[i]] = v
            stored_ok.append((v, i, sv.size))
    return {'flows': flows, 'rowflows': rowflows, 'phases': phases, 'cls': type(s).__name__, 'T': s.T, 'P': s.P,
            'stored': stored_ok}


def eq_map(w, a, b):
    keys = sorted(set(a) | set(b), key=str)
    return w.And(*[w.eq(a.get(k, 0.), b.get(k, 0.)) for k in keys])


def same_flows(w, a, b):
    return w.And(a['phases'] == b['phases'], a['cls'] == b['cls'], eq_map(w, a['flows'], b['flows']))


def same_TP(w, a, b):
    return w.And(w.eq(a['T'], b['T']), w.eq(a['P'], b['P']))


def same_obs(w, a, b):
    return w.And(same_flows(w, a, b), same_TP(w, a, b))


def rep_ok(w, o):
    return w.And(*[w.And(w.ne(v, 0.), 0 <= i < n) for v, i, n in o['stored']])


def containers(s):
    """Mutable containers behind a stream, by role (for identity facts)."""
    imol = s._imol
    data = imol.data
    d = {'imol': imol, 'data': data, 'thermal_condition': s._thermal_condition}
    if hasattr(data, 'rows'):
        d['rows'] = data.rows
        for n, r in enumerate(data.rows):
            d[f'row{n}'] = r
            d[f'dct{n}'] = r.dct
    else:
        d['dct0'] = data.dct
        d['phase'] = imol._phase
    return d


def shared_roles(a, b):
    ca, cb = containers(a), containers(b)
    ids = {id(v): k for k, v in cb.items()}
    return sorted(k for k, v in ca.items() if id(v) in ids)


def views_consistent(w, s):
    """For a MultiStream the per-phase views s[phase] show the stream's own rows, T and P."""
    if not isinstance(s, tmo.MultiStream):
        return True
    cs = []
    try:
        for ph, row in zip(s.phases, s.imol.data.rows):
            v = s[ph]
            cs.append(v.mol is row)
            cs.append(v.thermal_condition is s.thermal_condition)
            cs.append(v.phase == ph)
    except AttributeError:      # a stream that cannot even produce its views is not consistent
        return False
    return w.And(*cs)


def havoc(w, s, tag, flows=True, TP=True, phase=True):
    """An arbitrary symbolic write to every observable quantity of `s` through the public API."""
    if flows:
        IDs = s.chemicals.IDs
        if isinstance(s, tmo.MultiStream):
            for ph in s.phases:
                for ID in IDs:
                    s.imol[ph, ID] = w.real(f'{tag}.{ph}.{ID}', lo=0., lo_strict=True)
        else:
            for ID in IDs:
                s.imol[ID] = w.real(f'{tag}.{ID}', lo=0., lo_strict=True)
    if TP:
        s.T = w.real(f'{tag}.T', lo=0., lo_strict=True)
        s.P = w.real(f'{tag}.P', lo=0., lo_strict=True)
    if phase and not isinstance(s, tmo.MultiStream):
        s.phase = 's' if s.phase != 's' else 'l'


# =========================================================================== copy / __copy__

def copy_configs(tier):
    kinds = ['l', 'g', 'm:l', 'm:gl', 'm:Ll', 'c:gl']
    out = []
    for k in kinds:
        for how in ['copy', '__copy__']:
            for th in ['none', 'same', 'B4']:
                if how == '__copy__' and th != 'none': continue
                if tier != 'thorough' and th == 'B4' and k not in ('l', 'm:gl'): continue
                out.append({'name': f'kind={k};how={how};thermo={th}', 'kind': k, 'how': how, 'thermo': th})
    if tier == 'thorough':
        for k in ['s', 'L', 'm:gls', 'm:g', 'c:Ll']:
            out.append({'name': f'kind={k};how=copy;thermo=none', 'kind': k, 'how': 'copy', 'thermo': 'none'})
    return out


@group('C13/copy', configs=copy_configs,
       functions=['thermosteam._stream:Stream.copy', 'thermosteam._stream:Stream.__copy__',
                  'thermosteam.indexer:Indexer.copy', 'thermosteam.indexer:ChemicalIndexer._copy_without_data',
                  'thermosteam.indexer:MaterialIndexer._copy_without_data', 'thermosteam.indexer:ChemicalIndexer.reset_chemicals',
                  'thermosteam.indexer:MaterialIndexer.reset_chemicals',
                  'thermosteam._thermal_condition:ThermalCondition.copy', 'thermosteam._phase:Phase.copy',
                  'thermosteam.base.sparse:SparseVector.copy', 'thermosteam.base.sparse:SparseArray.copy'])
def copy_(w, cfg):
    W.reset_caches()
    s = _mk(w, 's', cfg['kind'], 'A', 'pos+maybe')
    pre = obs(s)
    if cfg['how'] == '__copy__':
        c = _copy.copy(s)
    elif cfg['thermo'] == 'none':
        c = s.copy()
    else:
        c = s.copy(thermo=W.thermo(PKG['A' if cfg['thermo'] == 'same' else cfg['thermo']]))
    oc = obs(c)
    w.ensure('copy has the same flows and phase(s)', same_flows(w, pre, oc))
    w.ensure('copy has the same T and P', same_TP(w, pre, oc))
    w.ensure('original unchanged by copy()', same_obs(w, pre, obs(s)))
    w.ensure('copy rep_ok', rep_ok(w, oc))
    w.ensure('copy shares no container with the original', shared_roles(c, s) == [], shared=shared_roles(c, s))
    w.ensure('copy: phase views consistent', views_consistent(w, c))
    # independence, both directions (frame)
    havoc(w, c, 'wc')
    os2 = obs(s)
    w.ensure('write to the copy is not visible in the original', same_obs(w, pre, os2))
    oc2 = obs(c)
    havoc(w, s, 'ws')
    w.ensure('write to the original is not visible in the copy', same_obs(w, oc2, obs(c)))
    w.canary('canary: copy has T + 1', w.eq(oc['T'], pre['T'] + 1))
    w.canary('canary: write to the copy visible in the original', same_TP(w, os2, oc2))


# =========================================================================== copy_like

def copy_like_configs(tier):
    targets = ['l', 'g', 'm:l', 'm:gl', 'm:Ll']
    sources = ['l', 'g', 's', 'L', 'm:l', 'm:gl', 'm:Ll', 'm:gls']
    pkgs = ['AA', 'AB']
    if tier == 'thorough':
        targets += ['s', 'L', 'm:g', 'm:gL', 'm:gls', 'c:gl', 'm:ls']
        sources += ['m:g', 'm:gL', 'S', 'c:gl', 'm:ls', 'm:Ls', 'm:L']
        pkgs += ['AB4', 'BA']
    out = []
    for t, s, p in itertools.product(targets, sources, pkgs):
        fills = ['pos+maybe']
        if _is_multi(s) and len(KINDS[s]) > 1 and (p == 'AA' or tier == 'thorough'):
            fills += ['first-row', 'last-row']      # multi-phase source holding one phase
        if tier == 'thorough' and p == 'AA':
            fills += ['empty']
        for f in fills:
            out.append({'name': f't={t};s={s};pkg={p};fill={f}', 't': t, 's': s, 'pkg': p, 'fill': f})
    else:
        for p in pkgs:      # phases that differ only by case (compatible phase indexers)
            out.append({'name': f't=m:l;s=m:L;pkg={p};fill=pos+maybe', 't': 'm:l', 's': 'm:L', 'pkg': p, 'fill': 'pos+maybe'})
    if tier == 'thorough':
        out.append({'name': 't=SELF;s=l;pkg=AA;fill=pos+maybe', 't': 'SELF', 's': 'l', 'pkg': 'AA', 'fill': 'pos+maybe'})
        out.append({'name': 't=SELF;s=m:gl;pkg=AA;fill=pos+maybe', 't': 'SELF', 's': 'm:gl', 'pkg': 'AA', 'fill': 'pos+maybe'})
    return out


def _expected_flows(src, t_phases):
    """Source flows relabelled for a target with phases `t_phases`: same label, or the other-case label
    only if the exact label is absent (C12 rule).  Returns (flows, unrepresentable source phases)."""
    exp = {}
    missing = []
    for (p, cas), v in src['flows'].items():
        q = p if p in t_phases else (_swapcase(p) if _swapcase(p) in t_phases else None)
        if q is None:
            missing.append(p)
            continue
        exp[q, cas] = exp.get((q, cas), 0.) + v
    return exp, sorted(set(missing))


@group('C13/copy_like', configs=copy_like_configs,
       functions=['thermosteam._stream:Stream.copy_like', 'thermosteam._multi_stream:MultiStream.copy_like',
                  'thermosteam.indexer:ChemicalIndexer.copy_like', 'thermosteam.indexer:MaterialIndexer.copy_like',
                  'thermosteam.indexer:MaterialIndexer._expand_phases', 'thermosteam.indexer:index_overlap',
                  'thermosteam._thermal_condition:ThermalCondition.copy_like', 'thermosteam._stream:Stream.phases',
                  'thermosteam._multi_stream:MultiStream.phases', 'thermosteam.base.sparse:SparseVector.copy_like',
                  'thermosteam.base.sparse:SparseArray.copy_like'])
def copy_like(w, cfg):
    W.reset_caches()
    pt, ps = cfg['pkg'][0], cfg['pkg'][1:]
    s = _mk(w, 's', cfg['s'], ps, cfg['fill'])
    t = s if cfg['t'] == 'SELF' else _mk(w, 't', cfg['t'], pt, 'pos+maybe')
    if _is_multi(cfg['t']):
        for ph in t.phases: t[ph]            # per-phase views exist before the call (they are cached by the stream)
    pre = obs(s)
    try:
        t.copy_like(s)
    except tmo.exceptions.UndefinedChemicalAlias:
        # raises: allowed exactly when the source holds material of a chemical the target's package lacks
        lacking = [v for (p, cas), v in pre['flows'].items() if cas not in t.chemicals.CASs]
        w.ensure('raises UndefinedChemicalAlias only if the source holds a chemical the target lacks',
                 w.Or(*[w.ne(v, 0.) for v in lacking]))
        w.ensure('source unchanged', same_obs(w, pre, obs(s)))
        return
    ot = obs(t)
    w.ensure('T and P equal to the source', same_TP(w, ot, pre))
    if _is_multi(cfg['t']):
        exp, missing = _expected_flows(pre, ot['phases'])
        w.ensure('every source phase is a phase of the target', missing == [], missing=missing, target_phases=ot['phases'])
    else:
        exp = pre['flows']
        w.ensure('phase(s) equal to the source', ot['phases'] == pre['phases'], target=ot['phases'], source=pre['phases'])
    w.ensure('flows equal to the source, phase by phase', eq_map(w, ot['flows'], exp))
    w.ensure('source unchanged', same_obs(w, pre, obs(s)))
    w.ensure('target rep_ok', rep_ok(w, ot))
    if t is not s:
        w.ensure('target shares no container with the source', shared_roles(t, s) == [], shared=shared_roles(t, s))
        w.ensure('target phase views consistent', views_consistent(w, t))
        havoc(w, t, 'wt')
        w.ensure('later write to the target is not visible in the source', same_obs(w, pre, obs(s)))
    w.canary('canary: T = source T + 1', w.eq(ot['T'], pre['T'] + 1))
    k0 = sorted(pre['flows'], key=str)
    if k0:
        w.canary('canary: source flow doubled', w.eq(pre['flows'][k0[0]], 2 * pre['flows'][k0[0]] + 1))


# =========================================================================== copy_thermal_condition / copy_phase

def tc_configs(tier):
    kinds = ['l', 'm:gl'] if tier != 'thorough' else ['l', 'g', 'm:l', 'm:gl', 'm:Ll', 'c:gl']
    return [{'name': f't={t};s={s_}', 't': t, 's': s_} for t in kinds for s_ in kinds]


@group('C13/copy_thermal_condition', configs=tc_configs,
       functions=['thermosteam._stream:Stream.copy_thermal_condition', 'thermosteam._thermal_condition:ThermalCondition.copy_like'])
def copy_thermal_condition(w, cfg):
    W.reset_caches()
    s = _mk(w, 's', cfg['s'], 'B')
    t = _mk(w, 't', cfg['t'], 'A')
    pre_s, pre_t = obs(s), obs(t)
    t.copy_thermal_condition(s)
    ot = obs(t)
    w.ensure('T and P equal to the source', same_TP(w, ot, pre_s))
    w.ensure('flows and phase(s) of the target unchanged', same_flows(w, ot, pre_t))
    w.ensure('source unchanged', same_obs(w, pre_s, obs(s)))
    w.ensure('thermal condition not shared', t.thermal_condition is not s.thermal_condition)
    havoc(w, t, 'wt', flows=False, phase=False)
    w.ensure('later write to the target is not visible in the source', same_obs(w, pre_s, obs(s)))
    w.canary('canary: T = source T + 1', w.eq(ot['T'], pre_s['T'] + 1))


def phase_configs(tier):
    ph = ['l', 'g', 's', 'L']
    return [{'name': f't={t};s={s_}', 't': t, 's': s_} for t in ph for s_ in ph + ['m:gl']
            if tier == 'thorough' or (t, s_) in (('l', 'g'), ('g', 'l'), ('l', 'L'), ('s', 's'), ('l', 'm:gl'))]


@group('C13/copy_phase', configs=phase_configs, functions=['thermosteam._stream:Stream.copy_phase'])
def copy_phase(w, cfg):
    W.reset_caches()
    s = _mk(w, 's', cfg['s'], 'A')
    t = _mk(w, 't', cfg['t'], 'A')
    pre_s, pre_t = obs(s), obs(t)
    try:
        t.copy_phase(s)
    except ValueError:
        w.ensure('raises ValueError only for a multi-phase source', _is_multi(cfg['s']))
        w.ensure('target unchanged when copy_phase raises', same_obs(w, pre_t, obs(t)))
        w.canary('canary: T changed', w.eq(obs(t)['T'], pre_t['T'] + 1))
        return
    ot = obs(t)
    w.ensure('phase equal to the source', ot['phases'] == pre_s['phases'])
    w.ensure('flows, T, P of the target unchanged', w.And(eq_map(w, ot['rowflows'], pre_t['rowflows']), same_TP(w, ot, pre_t)))
    w.ensure('source unchanged', same_obs(w, pre_s, obs(s)))
    w.ensure('phase container not shared', t.imol._phase is not s.imol._phase)
    w.canary('canary: T changed', w.eq(ot['T'], pre_t['T'] + 1))


# =========================================================================== link_with / unlink / proxy / flow_proxy

FLAGS = list(itertools.product([False, True], repeat=3))      # (flow, phase, TP)


def link_configs(tier):
    pairs = [('l', 'g'), ('m:gl', 'm:gl'), ('c:gl', 'c:gl')]
    if tier == 'thorough':
        pairs += [('l', 'l'), ('s', 'L'), ('m:gl', 'c:gl'), ('m:Ll', 'm:Ll'), ('m:gls', 'm:gls'), ('m:l', 'm:l')]
    out = []
    for (ka, kb) in pairs:
        for fl in FLAGS:
            if _is_multi(ka) and tier != 'thorough' and ka == 'c:gl' and fl not in ((True, True, True), (True, False, False)):
                continue
            for un in ['a', 'b']:
                op = 'link:' + ''.join(n for n, f in zip(('flow', 'phase', 'TP'), fl) if f).replace('flowphase', 'flow+phase').replace('phaseTP', 'phase+TP').replace('flowTP', 'flow+TP') if any(fl) else 'link:none'
                op = 'link:' + ('+'.join(n for n, f in zip(('flow', 'phase', 'TP'), fl) if f) or 'none')
                out.append({'name': f'a={ka};b={kb};op={op};unlink={un}', 'a': ka, 'b': kb, 'op': 'link', 'flags': list(fl), 'unlink': un})
    proxied = ['l', 'g', 'm:gl', 'c:gl'] + (['s', 'm:l', 'm:Ll', 'c:Ll', 'm:gls'] if tier == 'thorough' else [])
    for kb in proxied:
        for op in ['proxy', 'flow_proxy']:
            for un in ['a', 'b']:
                out.append({'name': f'a=new;b={kb};op={op};unlink={un}', 'a': None, 'b': kb, 'op': op, 'flags': None, 'unlink': un})
    # streams of different classes cannot link (raises by contract)
    out.append({'name': 'a=l;b=m:gl;op=link:flow+phase+TP;unlink=a', 'a': 'l', 'b': 'm:gl', 'op': 'link', 'flags': [True, True, True], 'unlink': 'a'})
    out.append({'name': 'a=m:gl;b=l;op=link:flow+phase+TP;unlink=a', 'a': 'm:gl', 'b': 'l', 'op': 'link', 'flags': [True, True, True], 'unlink': 'a'})
    # multi-phase streams with different phase tuples
    for fl in ([True, True, True], [True, False, False]):
        op = 'link:' + '+'.join(n for n, f in zip(('flow', 'phase', 'TP'), fl) if f)
        out.append({'name': f'a=m:gl;b=m:Ll;op={op};unlink=a', 'a': 'm:gl', 'b': 'm:Ll', 'op': 'link', 'flags': fl, 'unlink': 'a'})
    return out


def _part(o, part, multi):
    if part == 'flow':
        return dict(o['flows']) if multi else dict(o['rowflows'])
    if part == 'phase':
        return o['phases']
    return {'T': o['T'], 'P': o['P']}


def _part_eq(w, x, y):
    if isinstance(x, tuple):
        return x == y
    return eq_map(w, x, y)


def _part_shared(a, b, part):
    if part == 'flow':
        return a.imol.data is b.imol.data
    if part == 'phase':
        return a.imol._phase is b.imol._phase
    return a.thermal_condition is b.thermal_condition


@group('C13/link', configs=link_configs,
       functions=['thermosteam._stream:Stream.link_with', 'thermosteam._stream:Stream.unlink',
                  'thermosteam._stream:Stream.proxy', 'thermosteam._stream:Stream.flow_proxy',
                  'thermosteam.indexer:ChemicalIndexer._copy_without_data', 'thermosteam.indexer:MaterialIndexer._copy_without_data',
                  'thermosteam._multi_stream:MultiStream.__getitem__', 'thermosteam._multi_stream:MultiStream.reset_cache'])
def link(w, cfg):
    W.reset_caches()
    kb = cfg['b']
    b = _mk(w, 'b', kb, 'A')
    multi = _is_multi(kb)
    parts = ['flow', 'TP'] if multi else ['flow', 'phase', 'TP']
    if multi:
        for ph in b.phases: b[ph]          # per-phase views are handed out (and cached) before linking
    pre_b = obs(b)
    if cfg['op'] == 'link':
        a = _mk(w, 'a', cfg['a'], 'A')
        if _is_multi(cfg['a']):
            for ph in a.phases: a[ph]
        pre_a = obs(a)
        sel = dict(zip(('flow', 'phase', 'TP'), cfg['flags']))
        try:
            a.link_with(b, *cfg['flags'])
        except RuntimeError:
            w.ensure('raises RuntimeError only for streams of different classes', _is_multi(cfg['a']) != multi)
            w.ensure('nothing changed when link_with raises', w.And(same_obs(w, pre_a, obs(a)), same_obs(w, pre_b, obs(b))))
            w.canary('canary: T changed', w.eq(obs(a)['T'], pre_a['T'] + 1))
            return
        w.ensure('link_with does not raise for streams of the same class', _is_multi(cfg['a']) == multi)
    else:
        a = b.proxy() if cfg['op'] == 'proxy' else b.flow_proxy()
        pre_a = None
        sel = {'flow': True, 'phase': cfg['op'] == 'proxy', 'TP': cfg['op'] == 'proxy'}
    oa, ob = obs(a), obs(b)
    w.ensure('source unchanged by linking', same_obs(w, pre_b, ob))
    for part in parts:
        if sel[part]:
            w.ensure(f'{part} selected: container shared', _part_shared(a, b, part))
            w.ensure(f'{part} selected: values equal to the source', _part_eq(w, _part(oa, part, multi), _part(ob, part, multi)))
        else:
            w.ensure(f'{part} not selected: container not shared', not _part_shared(a, b, part))
            if pre_a is not None:
                w.ensure(f'{part} not selected: values unchanged', _part_eq(w, _part(oa, part, multi), _part(pre_a, part, multi)))
    if multi and sel['flow']:
        w.ensure('flow selected: phases equal to the source', oa['phases'] == ob['phases'], a=oa['phases'], b=ob['phases'])
    w.ensure('linked: phase views consistent', w.And(views_consistent(w, a), views_consistent(w, b)))
    # write-through exactly for the selected parts, both directions
    for src, dst, tag in ((b, a, 'wb'), (a, b, 'wa')):
        before = obs(dst)
        havoc(w, src, tag)
        osrc, odst = obs(src), obs(dst)
        for part in parts:
            if sel[part]:
                w.ensure(f'{part} selected: write to {tag[1]} visible in the other', _part_eq(w, _part(odst, part, multi), _part(osrc, part, multi)))
            else:
                w.ensure(f'{part} not selected: write to {tag[1]} not visible in the other', _part_eq(w, _part(odst, part, multi), _part(before, part, multi)))
    w.canary('canary: unshared T follows', w.eq(obs(a)['T'], obs(b)['T'] + 1))
    # unlink ends all sharing and preserves values
    u, o = (a, b) if cfg['unlink'] == 'a' else (b, a)
    pu, po = obs(u), obs(o)
    u.unlink()
    w.ensure('unlink preserves the values of the unlinked stream', same_obs(w, pu, obs(u)))
    w.ensure('unlink preserves the values of the other stream', same_obs(w, po, obs(o)))
    w.ensure('after unlink no container is shared', shared_roles(a, b) == [], shared=shared_roles(a, b))
    w.ensure('after unlink: phase views consistent', w.And(views_consistent(w, a), views_consistent(w, b)))
    pb = obs(b)
    havoc(w, a, 'ua')
    w.ensure('after unlink a write to a is not visible in b', same_obs(w, pb, obs(b)))
    pa = obs(a)
    havoc(w, b, 'ub')
    w.ensure('after unlink a write to b is not visible in a', same_obs(w, pa, obs(a)))
    w.canary('canary: after unlink T still follows', w.eq(obs(a)['T'], obs(b)['T']))
