# -*- coding: utf-8 -*-
"""
C13 — copies are independent, links share what they advertise, pickles round-trip.

Contracts (sidecar) on the real functions.  Observable state of a stream =
flows per (phase, CAS), phase(s), T, P (+ ID, price, characterization factors
for constructors / pickles), read through the public accessors; sharing =
object identity of the advertised containers AND write-through; independence =
frame: after a symbolic write to one side the other side's snapshot is unchanged.
Pickling is checked on the `__reduce__` recipes (callable(*args) [+ state],
applied recursively; assumption A-pickle) in symbolic mode and additionally with
the real pickle.dumps/loads in native mode.
"""
import copy as _copy
import itertools
import pickle
import types

import numpy

import thermosteam as tmo
from engine.api import group
from engine.sx import tmo_world as W

A = ('Water', 'Ethanol', 'Methanol')               # main package
B = ('Methanol', 'Water')                           # subset, other order
B4 = ('Methanol', 'Ethanol', 'Water', 'Octane')     # superset, other order
PKG = {'A': A, 'B': B, 'B4': B4}
W.preload([A, B, B4])

# stream kinds: single-phase Stream 'l','g','s','L'; MultiStream 'm:<phases>' built by the constructor;
# 'c:<phases>' = Stream cast to MultiStream through `stream.phases = ...`
KINDS = {'l': 'l', 'g': 'g', 's': 's', 'L': 'L', 'S': 'S',
         'm:l': ('l',), 'm:g': ('g',), 'm:gl': ('g', 'l'), 'm:Ll': ('L', 'l'), 'm:gls': ('g', 'l', 's'),
         'm:gL': ('L', 'g'), 'm:ls': ('l', 's'),
         'c:gl': ('g', 'l'), 'c:Ll': ('L', 'l')}


def _is_multi(kind):
    return kind[:2] in ('m:', 'c:')


def _swapcase(p):
    return p.lower() if p.isupper() else p.upper()


def _mk(w, name, kind, pkg='A', fill='pos+maybe', TP=True):
    """Real Stream / MultiStream with planted flows and (symbolic) T, P."""
    IDs = PKG[pkg]
    th = W.thermo(IDs)
    phases = KINDS[kind]
    rows = (phases,) if isinstance(phases, str) else phases
    if fill == 'empty':
        present = {'default': 'zero'}
    elif fill == 'pos':
        present = {'default': 'pos'}
    elif fill == 'pos+maybe':     # first chemical present in every row, last one maybe, others absent
        present = {'default': 'zero'}
        for n, ph in enumerate(rows):
            present[ph, IDs[0]] = 'pos'
            if n == 0: present[ph, IDs[-1]] = 'maybe'
    elif fill == 'first-row':     # only the first row holds material (multi-phase stream holding one phase)
        present = {'default': 'zero', (rows[0], IDs[0]): 'pos', (rows[0], IDs[-1]): 'maybe'}
    elif fill == 'last-row':
        present = {'default': 'zero', (rows[-1], IDs[0]): 'pos', (rows[-1], IDs[-1]): 'maybe'}
    elif fill == 'maybe':
        present = {'default': 'zero'}
        for ph in rows:
            present[ph, IDs[0]] = 'maybe'
    else:
        raise ValueError(fill)
    if kind.startswith('c:'):
        s = tmo.Stream(None, thermo=th, phase=rows[-1])
        s.phases = rows
        W.plant_flows(w, s, name, present=present)
    elif isinstance(phases, str):
        s = tmo.Stream(None, thermo=th, phase=phases)
        W.plant_flows(w, s, name, present=present)
    else:
        s = tmo.MultiStream(None, phases=tuple(phases), thermo=th)
        W.plant_flows(w, s, name, present=present)
    if TP:
        s.T = w.real(f'{name}.T', lo=0., lo_strict=True)
        s.P = w.real(f'{name}.P', lo=0., lo_strict=True)
    return s


def obs(s):
    """Observable state through the public accessors."""
    CASs = s.chemicals.CASs
    if isinstance(s, tmo.MultiStream):
        phases = tuple(s.phases)
        rows = list(zip(phases, s.imol.data.rows))
    else:
        phases = (s.phase,)
        rows = [(s.phase, s.mol)]
    flows = {}
    rowflows = {}
    stored_ok = []
    for n, (ph, sv) in enumerate(rows):
        for i, v in sv.dct.items():
            flows[ph, CASs[i]] = v
            rowflows[n, CASs[i]] = v
            stored_ok.append((v, i, sv.size))
    return {'flows': flows, 'rowflows': rowflows, 'phases': phases, 'cls': type(s).__name__, 'T': s.T, 'P': s.P,
            'stored': stored_ok}


def eq_map(w, a, b):
    keys = sorted(set(a) | set(b), key=str)
    return w.And(*[w.eq(a.get(k, 0.), b.get(k, 0.)) for k in keys])


def same_flows(w, a, b):
    return w.And(a['phases'] == b['phases'], a['cls'] == b['cls'], eq_map(w, a['flows'], b['flows']))


def same_TP(w, a, b):
    return w.And(w.eq(a['T'], b['T']), w.eq(a['P'], b['P']))


def same_obs(w, a, b):
    return w.And(same_flows(w, a, b), same_TP(w, a, b))


def rep_ok(w, o):
    return w.And(*[w.And(w.ne(v, 0.), 0 <= i < n) for v, i, n in o['stored']])


def containers(s):
    """Mutable containers behind a stream, by role (for identity facts)."""
    imol = s._imol
    data = imol.data
    d = {'imol': imol, 'data': data, 'thermal_condition': s._thermal_condition}
    if hasattr(data, 'rows'):
        d['rows'] = data.rows
        for n, r in enumerate(data.rows):
            d[f'row{n}'] = r
            d[f'dct{n}'] = r.dct
    else:
        d['dct0'] = data.dct
        d['phase'] = imol._phase
    return d


def shared_roles(a, b):
    ca, cb = containers(a), containers(b)
    ids = {id(v): k for k, v in cb.items()}
    return sorted(k for k, v in ca.items() if id(v) in ids)


def views_consistent(w, s):
    """For a MultiStream the per-phase views s[phase] show the stream's own rows, T and P."""
    if not isinstance(s, tmo.MultiStream):
        return True
    cs = []
    for ph, row in zip(s.phases, s.imol.data.rows):
        v = s[ph]
        cs.append(v.mol is row)
        cs.append(v._thermal_condition is s._thermal_condition)
        cs.append(v.phase == ph)
    return w.And(*cs)


def havoc(w, s, tag, flows=True, TP=True, phase=True):
    """An arbitrary symbolic write to every observable quantity of `s` through the public API."""
    if flows:
        IDs = s.chemicals.IDs
        if isinstance(s, tmo.MultiStream):
            for ph in s.phases:
                for ID in IDs:
                    s.imol[ph, ID] = w.real(f'{tag}.{ph}.{ID}', lo=0., lo_strict=True)
        else:
            for ID in IDs:
                s.imol[ID] = w.real(f'{tag}.{ID}', lo=0., lo_strict=True)
    if TP:
        s.T = w.real(f'{tag}.T', lo=0., lo_strict=True)
        s.P = w.real(f'{tag}.P', lo=0., lo_strict=True)
    if phase and not isinstance(s, tmo.MultiStream):
        s.phase = 's' if s.phase != 's' else 'l'


# =========================================================================== copy / __copy__

def copy_configs(tier):
    kinds = ['l', 'g', 'm:l', 'm:gl', 'm:Ll', 'c:gl']
    out = []
    for k in kinds:
        for how in ['copy', '__copy__']:
            for th in ['none', 'same', 'B4']:
                if how == '__copy__' and th != 'none': continue
                if tier != 'thorough' and th == 'B4' and k not in ('l', 'm:gl'): continue
                out.append({'name': f'kind={k};how={how};thermo={th}', 'kind': k, 'how': how, 'thermo': th})
    if tier == 'thorough':
        for k in ['s', 'L', 'm:gls', 'm:g', 'c:Ll']:
            out.append({'name': f'kind={k};how=copy;thermo=none', 'kind': k, 'how': 'copy', 'thermo': 'none'})
    return out


@group('C13/copy', configs=copy_configs,
       functions=['thermosteam._stream:Stream.copy', 'thermosteam._stream:Stream.__copy__',
                  'thermosteam.indexer:Indexer.copy', 'thermosteam.indexer:ChemicalIndexer._copy_without_data',
                  'thermosteam.indexer:MaterialIndexer._copy_without_data', 'thermosteam.indexer:ChemicalIndexer.reset_chemicals',
                  'thermosteam.indexer:MaterialIndexer.reset_chemicals',
                  'thermosteam._thermal_condition:ThermalCondition.copy', 'thermosteam._phase:Phase.copy',
                  'thermosteam.base.sparse:SparseVector.copy', 'thermosteam.base.sparse:SparseArray.copy'])
def copy_(w, cfg):
    W.reset_caches()
    s = _mk(w, 's', cfg['kind'], 'A', 'pos+maybe')
    pre = obs(s)
    if cfg['how'] == '__copy__':
        c = _copy.copy(s)
    elif cfg['thermo'] == 'none':
        c = s.copy()
    else:
        c = s.copy(thermo=W.thermo(PKG['A' if cfg['thermo'] == 'same' else cfg['thermo']]))
    oc = obs(c)
    w.ensure('copy has the same flows and phase(s)', same_flows(w, pre, oc))
    w.ensure('copy has the same T and P', same_TP(w, pre, oc))
    w.ensure('original unchanged by copy()', same_obs(w, pre, obs(s)))
    w.ensure('copy rep_ok', rep_ok(w, oc))
    w.ensure('copy shares no container with the original', shared_roles(c, s) == [], shared=shared_roles(c, s))
    w.ensure('copy: phase views consistent', views_consistent(w, c))
    # independence, both directions (frame)
    havoc(w, c, 'wc')
    os2 = obs(s)
    w.ensure('write to the copy is not visible in the original', same_obs(w, pre, os2))
    oc2 = obs(c)
    havoc(w, s, 'ws')
    w.ensure('write to the original is not visible in the copy', same_obs(w, oc2, obs(c)))
    w.canary('canary: copy has T + 1', w.eq(oc['T'], pre['T'] + 1))
    w.canary('canary: write to the copy visible in the original', same_TP(w, os2, oc2))


# =========================================================================== copy_like

def copy_like_configs(tier):
    targets = ['l', 'g', 'm:l', 'm:gl', 'm:Ll']
    sources = ['l', 'g', 's', 'L', 'm:l', 'm:gl', 'm:Ll', 'm:gls']
    pkgs = ['AA', 'AB']
    if tier == 'thorough':
        targets += ['s', 'L', 'm:g', 'm:gL', 'm:gls', 'c:gl']
        sources += ['m:g', 'm:gL', 'S', 'c:gl', 'm:ls']
        pkgs += ['AB4', 'BA']
    out = []
    for t, s, p in itertools.product(targets, sources, pkgs):
        fills = ['pos+maybe']
        if _is_multi(s) and len(KINDS[s]) > 1 and (p == 'AA' or tier == 'thorough'):
            fills += ['first-row', 'last-row']      # multi-phase source holding one phase
        if tier == 'thorough' and p == 'AA':
            fills += ['empty']
        for f in fills:
            out.append({'name': f't={t};s={s};pkg={p};fill={f}', 't': t, 's': s, 'pkg': p, 'fill': f})
    if tier == 'thorough':
        out.append({'name': 't=SELF;s=l;pkg=AA;fill=pos+maybe', 't': 'SELF', 's': 'l', 'pkg': 'AA', 'fill': 'pos+maybe'})
        out.append({'name': 't=SELF;s=m:gl;pkg=AA;fill=pos+maybe', 't': 'SELF', 's': 'm:gl', 'pkg': 'AA', 'fill': 'pos+maybe'})
    return out


def _expected_flows(src, t_phases):
    """Source flows relabelled for a target with phases `t_phases`: same label, or the other-case label
    only if the exact label is absent (C12 rule).  Returns (flows, unrepresentable source phases)."""
    exp = {}
    missing = []
    for (p, cas), v in src['flows'].items():
        q = p if p in t_phases else (_swapcase(p) if _swapcase(p) in t_phases else None)
        if q is None:
            missing.append(p)
            continue
        exp[q, cas] = exp.get((q, cas), 0.) + v
    return exp, sorted(set(missing))


@group('C13/copy_like', configs=copy_like_configs,
       functions=['thermosteam._stream:Stream.copy_like', 'thermosteam._multi_stream:MultiStream.copy_like',
                  'thermosteam.indexer:ChemicalIndexer.copy_like', 'thermosteam.indexer:MaterialIndexer.copy_like',
                  'thermosteam.indexer:MaterialIndexer._expand_phases', 'thermosteam.indexer:index_overlap',
                  'thermosteam._thermal_condition:ThermalCondition.copy_like', 'thermosteam._stream:Stream.phases',
                  'thermosteam._multi_stream:MultiStream.phases', 'thermosteam.base.sparse:SparseVector.copy_like',
                  'thermosteam.base.sparse:SparseArray.copy_like'])
def copy_like(w, cfg):
    W.reset_caches()
    pt, ps = cfg['pkg'][0], cfg['pkg'][1:]
    s = _mk(w, 's', cfg['s'], ps, cfg['fill'])
    t = s if cfg['t'] == 'SELF' else _mk(w, 't', cfg['t'], pt, 'pos+maybe')
    if _is_multi(cfg['t']):
        for ph in t.phases: t[ph]            # per-phase views exist before the call (they are cached by the stream)
    pre = obs(s)
    t.copy_like(s)
    ot = obs(t)
    w.ensure('T and P equal to the source', same_TP(w, ot, pre))
    if _is_multi(cfg['t']):
        exp, missing = _expected_flows(pre, ot['phases'])
        w.ensure('every source phase is a phase of the target', missing == [], missing=missing, target_phases=ot['phases'])
    else:
        exp = pre['flows']
        w.ensure('phase(s) equal to the source', ot['phases'] == pre['phases'], target=ot['phases'], source=pre['phases'])
    w.ensure('flows equal to the source, phase by phase', eq_map(w, ot['flows'], exp))
    w.ensure('source unchanged', same_obs(w, pre, obs(s)))
    w.ensure('target rep_ok', rep_ok(w, ot))
    if t is not s:
        w.ensure('target shares no container with the source', shared_roles(t, s) == [], shared=shared_roles(t, s))
        w.ensure('target phase views consistent', views_consistent(w, t))
        havoc(w, t, 'wt')
        w.ensure('later write to the target is not visible in the source', same_obs(w, pre, obs(s)))
    w.canary('canary: T = source T + 1', w.eq(ot['T'], pre['T'] + 1))
    k0 = sorted(pre['flows'], key=str)
    if k0:
        w.canary('canary: source flow doubled', w.eq(pre['flows'][k0[0]], 2 * pre['flows'][k0[0]] + 1))
