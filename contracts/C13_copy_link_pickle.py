# -*- coding: utf-8 -*-
"""
C13 — copies are independent, links share what they advertise, pickles round-trip.

Contracts (sidecar) on the real functions.  Observable state of a stream =
flows per (phase, CAS), phase(s), T, P (+ ID, price, characterization factors
for constructors / pickles), read through the public accessors; sharing =
object identity of the advertised containers AND write-through; independence =
frame: after a symbolic write to one side the other side's snapshot is unchanged.
Pickling is checked on the `__reduce__` recipes (callable(*args) [+ state],
applied recursively; assumption A-pickle) in symbolic mode and additionally with
the real pickle.dumps/loads in native mode.

Round 2: (i) flows are also observed through the by-name accessors `imol[phase, ID]` / `imol[ID]` (`by_name_ok`: what a
stream reports by name is what it holds for that chemical of its own package), after every operation and after writes,
with histories in which either stream was read by name first; (ii) a later change may be made by a multi-phase stream's
own equilibrium methods: symbolically the containers its vle/lle/sle objects are bound to must be the stream's own
(`eq_own`, `eq_shared_roles`; assumption A-eq-writes: an equilibrium call writes only to the `imol` and
`thermal_condition` of its object), with histories in which the objects were handed out before the operation; and the
bounded group C13/equilibrium_after_history runs the real VLE solver after link/unlink/proxy/copy/pickle histories and
compares every stream with the sharing model of C13/sequences.
"""
import copy as _copy
import itertools
import pickle
import types

import numpy

import thermosteam as tmo
from engine.api import group
from engine.sx import tmo_world as W

A = ('Water', 'Ethanol', 'Methanol')               # main package
B = ('Methanol', 'Water')                           # subset, other order
B4 = ('Methanol', 'Ethanol', 'Water', 'Octane')     # superset, other order
P3 = ('Methanol', 'Water', 'Ethanol')               # the chemicals of A listed in another order
PKG = {'A': A, 'B': B, 'B4': B4, 'P': P3}
W.preload([A, B, B4, P3])

# stream kinds: single-phase Stream 'l','g','s','L'; MultiStream 'm:<phases>' built by the constructor;
# 'c:<phases>' = Stream cast to MultiStream through `stream.phases = ...`
KINDS = {'l': 'l', 'g': 'g', 's': 's', 'L': 'L', 'S': 'S',
         'm:l': ('l',), 'm:g': ('g',), 'm:gl': ('g', 'l'), 'm:Ll': ('L', 'l'), 'm:gls': ('g', 'l', 's'),
         'm:gL': ('L', 'g'), 'm:ls': ('l', 's'), 'm:Ls': ('L', 's'), 'm:L': ('L',),
         'c:gl': ('g', 'l'), 'c:Ll': ('L', 'l')}


def _is_multi(kind):
    return kind[:2] in ('m:', 'c:')


def _swapcase(p):
    return p.lower() if p.isupper() else p.upper()


def _mk(w, name, kind, pkg='A', fill='pos+maybe', TP=True):
    """Real Stream / MultiStream with planted flows and (symbolic) T, P."""
    IDs = PKG[pkg]
    th = W.thermo(IDs)
    phases = KINDS[kind]
    rows = (phases,) if isinstance(phases, str) else phases
    if fill == 'empty':
        present = {'default': 'zero'}
    elif fill == 'pos':
        present = {'default': 'pos'}
    elif fill == 'pos+maybe':     # first chemical present in every row, last one maybe, others absent
        present = {'default': 'zero'}
        for n, ph in enumerate(rows):
            present[ph, IDs[0]] = 'pos'
            if n == 0: present[ph, IDs[-1]] = 'maybe'
    elif fill == 'first-row':     # only the first row holds material (multi-phase stream holding one phase)
        present = {'default': 'zero', (rows[0], IDs[0]): 'pos', (rows[0], IDs[-1]): 'maybe'}
    elif fill == 'last-row':
        present = {'default': 'zero', (rows[-1], IDs[0]): 'pos', (rows[-1], IDs[-1]): 'maybe'}
    elif fill == 'maybe':
        present = {'default': 'zero'}
        for ph in rows:
            present[ph, IDs[0]] = 'maybe'
    else:
        raise ValueError(fill)
    if kind.startswith('c:'):
        s = tmo.Stream(None, thermo=th, phase=rows[-1])
        s.phases = rows
        W.plant_flows(w, s, name, present=present)
    elif isinstance(phases, str):
        s = tmo.Stream(None, thermo=th, phase=phases)
        W.plant_flows(w, s, name, present=present)
    else:
        s = tmo.MultiStream(None, phases=tuple(phases), thermo=th)
        W.plant_flows(w, s, name, present=present)
    if TP:
        s.T = w.real(f'{name}.T', lo=0., lo_strict=True)
        s.P = w.real(f'{name}.P', lo=0., lo_strict=True)
    return s


def obs(s):
    """Observable state through the public accessors."""
    CASs = s.chemicals.CASs
    if isinstance(s, tmo.MultiStream):
        phases = tuple(s.phases)
        rows = list(zip(phases, s.imol.data.rows))
    else:
        phases = (s.phase,)
        rows = [(s.phase, s.mol)]
    flows = {}
    rowflows = {}
    stored_ok = []
    for n, (ph, sv) in enumerate(rows):
        for i, v in sv.dct.items():
            flows[ph, CASs[i]] = v
            rowflows[n, CASs[i]] = v
            stored_ok.append((v, i, sv.size))
    return {'flows': flows, 'rowflows': rowflows, 'phases': phases, 'cls': type(s).__name__, 'T': s.T, 'P': s.P,
            'stored': stored_ok}


def eq_map(w, a, b):
    keys = sorted(set(a) | set(b), key=str)
    return w.And(*[w.eq(a.get(k, 0.), b.get(k, 0.)) for k in keys])


def same_flows(w, a, b):
    return w.And(a['phases'] == b['phases'], a['cls'] == b['cls'], eq_map(w, a['flows'], b['flows']))


def same_TP(w, a, b):
    return w.And(w.eq(a['T'], b['T']), w.eq(a['P'], b['P']))


def same_obs(w, a, b):
    return w.And(same_flows(w, a, b), same_TP(w, a, b))


def rep_ok(w, o):
    return w.And(*[w.And(w.ne(v, 0.), 0 <= i < n) for v, i, n in o['stored']])


def containers(s):
    """Mutable containers behind a stream, by role (for identity facts)."""
    imol = s._imol
    data = imol.data
    d = {'imol': imol, 'data': data, 'thermal_condition': s._thermal_condition}
    if hasattr(data, 'rows'):
        d['rows'] = data.rows
        for n, r in enumerate(data.rows):
            d[f'row{n}'] = r
            d[f'dct{n}'] = r.dct
    else:
        d['dct0'] = data.dct
        d['phase'] = imol._phase
    return d


def shared_roles(a, b):
    ca, cb = containers(a), containers(b)
    ids = {id(v): k for k, v in cb.items()}
    return sorted(k for k, v in ca.items() if id(v) in ids)


def views_consistent(w, s):
    """For a MultiStream the per-phase views s[phase] show the stream's own rows, T and P."""
    if not isinstance(s, tmo.MultiStream):
        return True
    cs = []
    try:
        for ph, row in zip(s.phases, s.imol.data.rows):
            v = s[ph]
            cs.append(v.mol is row)
            cs.append(v.thermal_condition is s.thermal_condition)
            cs.append(v.phase == ph)
    except AttributeError:      # a stream that cannot even produce its views is not consistent
        return False
    return w.And(*cs)


def by_name(s):
    """Flows read through the public by-name accessors: imol[phase, ID] (imol[ID] for a single-phase stream), keyed
    (phase, CAS); for a multi-phase stream also the total imol[ID] over the phases, keyed ('*', CAS)."""
    ch = s.chemicals
    out = {}
    if isinstance(s, tmo.MultiStream):
        for ph in s.phases:
            for ID, cas in zip(ch.IDs, ch.CASs):
                out[ph, cas] = s.imol[ph, ID]
        for ID, cas in zip(ch.IDs, ch.CASs):
            out['*', cas] = s.imol[ID]
    else:
        for ID, cas in zip(ch.IDs, ch.CASs):
            out[s.phase, cas] = s.imol[ID]
    return out


def by_name_ok(w, s):
    """The flows a stream reports by (phase, chemical ID) are its flows: the value stored for that chemical of the
    stream's own property package in that phase (observable state must not depend on the accessor used)."""
    o = obs(s)
    exp = dict(o['flows'])
    if isinstance(s, tmo.MultiStream):
        for (ph, cas), v in o['flows'].items():
            exp['*', cas] = exp.get(('*', cas), 0.) + v
    try:
        got = by_name(s)
    except (IndexError, KeyError, AttributeError):      # a stream whose flows cannot be read by name does not report them
        return False
    return eq_map(w, got, exp)


def _eq_targets(s):
    """(role, flow indexer, thermal condition) the equilibrium methods vle/lle/sle of a multi-phase stream are bound to:
    the arguments their object will be built from and, if it was handed out already, the object itself.  Nothing is
    loaded here (handing out `s.vle` adds the phases 'g','l' to the stream)."""
    out = []
    for name in ('vle', 'lle', 'sle'):
        c = getattr(s, f'_{name}_cache')
        out.append((f'{name} (to be built)', c.args[0], c.args[1]))
        if c.value is not None:
            out.append((f'{name} (handed out)', c.value.imol, c.value.thermal_condition))
    return out


def eq_own(w, s):
    """A multi-phase stream's equilibrium methods (vle, lle, sle) work on -- i.e. read and write -- the stream's own
    flow indexer and thermal condition (assumption A-eq-writes: an equilibrium call changes nothing but the `imol`
    and `thermal_condition` its equilibrium object is bound to).  Otherwise a later change made through them would be
    visible in another stream, or not in this one."""
    if not isinstance(s, tmo.MultiStream):
        return True
    try:
        return w.And(*[w.And(imol is s.imol, imol.data is s.imol.data, tc is s.thermal_condition)
                       for _, imol, tc in _eq_targets(s)])
    except AttributeError:      # a multi-phase stream without equilibrium methods
        return False


def eq_foreign(s):
    return [role for role, imol, tc in _eq_targets(s) if not (imol is s.imol and imol.data is s.imol.data and tc is s.thermal_condition)] \
        if isinstance(s, tmo.MultiStream) else []


def load_eq(s):
    """Hand out (and thereby cache) the equilibrium objects of a multi-phase stream through the public accessors
    `s.vle`, `s.lle`, `s.sle` -- those whose phases the stream has already (the others would add phases)."""
    if isinstance(s, tmo.MultiStream):
        ph = set(s.phases)
        if {'g', 'l'} <= ph: s.vle
        if {'L', 'l'} <= ph: s.lle
        if {'l', 's'} <= ph: s.sle


def eq_roles(s):
    """Containers the equilibrium methods of a multi-phase stream write to, by role (identity facts)."""
    d = {}
    if not isinstance(s, tmo.MultiStream): return d
    for role, imol, tc in _eq_targets(s):
        d[f'{role}.imol'] = imol
        d[f'{role}.data'] = imol.data
        d[f'{role}.thermal_condition'] = tc
        for n, r in enumerate(getattr(imol.data, 'rows', ())):
            d[f'{role}.row{n}'] = r
    return d


def eq_shared_roles(a, b):
    """Roles of containers written by a's equilibrium methods that are containers of b (flows, T, P) or are written
    by b's equilibrium methods."""
    cb = containers(b)
    cb.update(eq_roles(b))
    ids = {id(v) for v in cb.values()}
    return sorted(k for k, v in eq_roles(a).items() if id(v) in ids)


def havoc(w, s, tag, flows=True, TP=True, phase=True):
    """An arbitrary symbolic write to every observable quantity of `s` through the public API."""
    if flows:
        IDs = s.chemicals.IDs
        if isinstance(s, tmo.MultiStream):
            for ph in s.phases:
                for ID in IDs:
                    s.imol[ph, ID] = w.real(f'{tag}.{ph}.{ID}', lo=0., lo_strict=True)
        else:
            for ID in IDs:
                s.imol[ID] = w.real(f'{tag}.{ID}', lo=0., lo_strict=True)
    if TP:
        s.T = w.real(f'{tag}.T', lo=0., lo_strict=True)
        s.P = w.real(f'{tag}.P', lo=0., lo_strict=True)
    if phase and not isinstance(s, tmo.MultiStream):
        s.phase = 's' if s.phase != 's' else 'l'


# =========================================================================== copy / __copy__

def copy_configs(tier):
    kinds = ['l', 'g', 'm:l', 'm:gl', 'm:Ll', 'c:gl']
    out = []
    for k in kinds:
        for how in ['copy', '__copy__']:
            for th in ['none', 'same', 'B4', 'P']:
                if how == '__copy__' and th != 'none': continue
                if tier != 'thorough' and th == 'B4' and k not in ('l', 'm:gl'): continue
                if tier != 'thorough' and th == 'P' and k not in ('l', 'm:gl', 'c:gl'): continue
                out.append({'name': f'kind={k};how={how};thermo={th}', 'kind': k, 'how': how, 'thermo': th})
    if tier == 'thorough':
        for k in ['s', 'L', 'm:gls', 'm:g', 'c:Ll']:
            out.append({'name': f'kind={k};how=copy;thermo=none', 'kind': k, 'how': 'copy', 'thermo': 'none'})
    # histories: the original is read by (phase, ID) before the copy is (default: the copy first); the equilibrium
    # objects of the original were handed out before it is copied
    more = [('m:gl', 'copy', 'P'), ('m:gl', 'copy', 'none'), ('c:gl', 'copy', 'P'), ('m:gl', '__copy__', 'none')]
    if tier == 'thorough':
        more += [('m:gl', 'copy', 'B4'), ('m:Ll', 'copy', 'P'), ('m:gls', 'copy', 'P'), ('c:Ll', 'copy', 'B4'), ('l', 'copy', 'P')]
    for k, how, th in more:
        for read, eq in (('original-first', 'fresh'), ('copy-first', 'loaded'), ('original-first', 'loaded')):
            out.append({'name': f'kind={k};how={how};thermo={th};read={read};eq={eq}', 'kind': k, 'how': how, 'thermo': th,
                        'read': read, 'eq': eq})
    return out


@group('C13/copy', configs=copy_configs, assumptions=['A-eq-writes'],
       functions=['thermosteam._stream:Stream.copy', 'thermosteam._stream:Stream.__copy__',
                  'thermosteam.indexer:Indexer.copy', 'thermosteam.indexer:ChemicalIndexer._copy_without_data',
                  'thermosteam.indexer:MaterialIndexer._copy_without_data', 'thermosteam.indexer:ChemicalIndexer.reset_chemicals',
                  'thermosteam.indexer:MaterialIndexer.reset_chemicals',
                  'thermosteam._thermal_condition:ThermalCondition.copy', 'thermosteam._phase:Phase.copy',
                  'thermosteam.base.sparse:SparseVector.copy', 'thermosteam.base.sparse:SparseArray.copy',
                  'thermosteam.indexer:MaterialIndexer._set_cache', 'thermosteam.indexer:MaterialIndexer._get_index_data',
                  'thermosteam._multi_stream:MultiStream.reset_cache'])
def copy_(w, cfg):
    W.reset_caches()
    s = _mk(w, 's', cfg['kind'], 'A', 'pos+maybe')
    if cfg.get('eq') == 'loaded': load_eq(s)
    pre = obs(s)
    if cfg.get('read') == 'original-first':
        w.ensure('before the copy: flows read by (phase, ID) are the flows of the original', by_name_ok(w, s))
    if cfg['how'] == '__copy__':
        c = _copy.copy(s)
    elif cfg['thermo'] == 'none':
        c = s.copy()
    else:
        c = s.copy(thermo=W.thermo(PKG['A' if cfg['thermo'] == 'same' else cfg['thermo']]))
        w.ensure('copy uses the requested property package', c.thermo is W.thermo(PKG['A' if cfg['thermo'] == 'same' else cfg['thermo']]))
    oc = obs(c)
    w.ensure('copy has the same flows and phase(s)', same_flows(w, pre, oc))
    w.ensure('copy has the same T and P', same_TP(w, pre, oc))
    w.ensure('original unchanged by copy()', same_obs(w, pre, obs(s)))
    w.ensure('copy rep_ok', rep_ok(w, oc))
    w.ensure('copy shares no container with the original', shared_roles(c, s) == [], shared=shared_roles(c, s))
    w.ensure('copy: phase views consistent', views_consistent(w, c))
    first, second = (c, s) if cfg.get('read', 'copy-first') == 'copy-first' else (s, c)
    w.ensure('flows read by (phase, ID): first stream read reports its flows', by_name_ok(w, first), which=cfg.get('read', 'copy-first'))
    w.ensure('flows read by (phase, ID): second stream read reports its flows', by_name_ok(w, second))
    w.ensure('copy: equilibrium methods work on the copy\'s own flows, T and P', eq_own(w, c), foreign=eq_foreign(c))
    w.ensure('original: equilibrium methods work on the original\'s own flows, T and P', eq_own(w, s), foreign=eq_foreign(s))
    w.ensure('copy: equilibrium methods write to no container of the original', eq_shared_roles(c, s) == [], shared=eq_shared_roles(c, s))
    w.ensure('original: equilibrium methods write to no container of the copy', eq_shared_roles(s, c) == [], shared=eq_shared_roles(s, c))
    # independence, both directions (frame)
    havoc(w, c, 'wc')
    os2 = obs(s)
    w.ensure('write to the copy is not visible in the original', same_obs(w, pre, os2))
    w.ensure('after a write to the copy: flows read by (phase, ID) are the flows of each stream', w.And(by_name_ok(w, c), by_name_ok(w, s)))
    oc2 = obs(c)
    havoc(w, s, 'ws')
    w.ensure('write to the original is not visible in the copy', same_obs(w, oc2, obs(c)))
    w.ensure('after a write to the original: flows read by (phase, ID) are the flows of each stream', w.And(by_name_ok(w, s), by_name_ok(w, c)))
    w.canary('canary: copy has T + 1', w.eq(oc['T'], pre['T'] + 1))
    w.canary('canary: write to the copy visible in the original', same_TP(w, os2, oc2))


# =========================================================================== copy_like

def copy_like_configs(tier):
    targets = ['l', 'g', 'm:l', 'm:gl', 'm:Ll']
    sources = ['l', 'g', 's', 'L', 'm:l', 'm:gl', 'm:Ll', 'm:gls']
    pkgs = ['AA', 'AB']
    if tier == 'thorough':
        targets += ['s', 'L', 'm:g', 'm:gL', 'm:gls', 'c:gl', 'm:ls']
        sources += ['m:g', 'm:gL', 'S', 'c:gl', 'm:ls', 'm:Ls', 'm:L']
        pkgs += ['AB4', 'BA']
    out = []
    for t, s, p in itertools.product(targets, sources, pkgs):
        fills = ['pos+maybe']
        if _is_multi(s) and len(KINDS[s]) > 1 and (p == 'AA' or tier == 'thorough'):
            fills += ['first-row', 'last-row']      # multi-phase source holding one phase
        if tier == 'thorough' and p == 'AA':
            fills += ['empty']
        for f in fills:
            out.append({'name': f't={t};s={s};pkg={p};fill={f}', 't': t, 's': s, 'pkg': p, 'fill': f})
    else:
        for p in pkgs:      # phases that differ only by case (compatible phase indexers)
            out.append({'name': f't=m:l;s=m:L;pkg={p};fill=pos+maybe', 't': 'm:l', 's': 'm:L', 'pkg': p, 'fill': 'pos+maybe'})
    if tier == 'thorough':
        out.append({'name': 't=SELF;s=l;pkg=AA;fill=pos+maybe', 't': 'SELF', 's': 'l', 'pkg': 'AA', 'fill': 'pos+maybe'})
        out.append({'name': 't=SELF;s=m:gl;pkg=AA;fill=pos+maybe', 't': 'SELF', 's': 'm:gl', 'pkg': 'AA', 'fill': 'pos+maybe'})
    # histories: both streams were read by (phase, ID), and the equilibrium objects of the target handed out, before the call
    # (a multi-phase target may get new phases, i.e. other rows, by the call)
    out += [dict(c, name=c['name'] + ';read=before', read='before') for c in out
            if _is_multi(c['t']) and c['fill'] == 'pos+maybe']
    return out


def _expected_flows(src, t_phases):
    """Source flows relabelled for a target with phases `t_phases`: same label, or the other-case label
    only if the exact label is absent (C12 rule).  Returns (flows, unrepresentable source phases)."""
    exp = {}
    missing = []
    for (p, cas), v in src['flows'].items():
        q = p if p in t_phases else (_swapcase(p) if _swapcase(p) in t_phases else None)
        if q is None:
            missing.append(p)
            continue
        exp[q, cas] = exp.get((q, cas), 0.) + v
    return exp, sorted(set(missing))


@group('C13/copy_like', configs=copy_like_configs, assumptions=['A-eq-writes'],
       functions=['thermosteam._stream:Stream.copy_like', 'thermosteam._multi_stream:MultiStream.copy_like',
                  'thermosteam.indexer:ChemicalIndexer.copy_like', 'thermosteam.indexer:MaterialIndexer.copy_like',
                  'thermosteam.indexer:MaterialIndexer._expand_phases', 'thermosteam.indexer:index_overlap',
                  'thermosteam._thermal_condition:ThermalCondition.copy_like', 'thermosteam._stream:Stream.phases',
                  'thermosteam._multi_stream:MultiStream.phases', 'thermosteam.base.sparse:SparseVector.copy_like',
                  'thermosteam.base.sparse:SparseArray.copy_like',
                  'thermosteam.indexer:MaterialIndexer._set_cache', 'thermosteam.indexer:MaterialIndexer._get_index_data',
                  'thermosteam._multi_stream:MultiStream.reset_cache'])
def copy_like(w, cfg):
    W.reset_caches()
    pt, ps = cfg['pkg'][0], cfg['pkg'][1:]
    s = _mk(w, 's', cfg['s'], ps, cfg['fill'])
    t = s if cfg['t'] == 'SELF' else _mk(w, 't', cfg['t'], pt, 'pos+maybe')
    if _is_multi(cfg['t']):
        for ph in t.phases: t[ph]            # per-phase views exist before the call (they are cached by the stream)
    if cfg.get('read') == 'before':
        load_eq(t)
        w.ensure('before the call: flows read by (phase, ID) are the flows of each stream', w.And(by_name_ok(w, t), by_name_ok(w, s)))
    pre = obs(s)
    try:
        t.copy_like(s)
    except tmo.exceptions.UndefinedChemicalAlias:
        # raises: allowed exactly when the source holds material of a chemical the target's package lacks
        lacking = [v for (p, cas), v in pre['flows'].items() if cas not in t.chemicals.CASs]
        w.ensure('raises UndefinedChemicalAlias only if the source holds a chemical the target lacks',
                 w.Or(*[w.ne(v, 0.) for v in lacking]))
        w.ensure('source unchanged', same_obs(w, pre, obs(s)))
        return
    ot = obs(t)
    w.ensure('T and P equal to the source', same_TP(w, ot, pre))
    if _is_multi(cfg['t']):
        exp, missing = _expected_flows(pre, ot['phases'])
        w.ensure('every source phase is a phase of the target', missing == [], missing=missing, target_phases=ot['phases'])
    else:
        exp = pre['flows']
        w.ensure('phase(s) equal to the source', ot['phases'] == pre['phases'], target=ot['phases'], source=pre['phases'])
    w.ensure('flows equal to the source, phase by phase', eq_map(w, ot['flows'], exp))
    w.ensure('source unchanged', same_obs(w, pre, obs(s)))
    w.ensure('target rep_ok', rep_ok(w, ot))
    w.ensure('flows read by (phase, ID) are the flows of the target', by_name_ok(w, t))
    w.ensure('flows read by (phase, ID) are the flows of the source', by_name_ok(w, s))
    w.ensure('equilibrium methods of the target work on its own flows, T and P', eq_own(w, t), foreign=eq_foreign(t))
    w.ensure('equilibrium methods of the source work on its own flows, T and P', eq_own(w, s), foreign=eq_foreign(s))
    if t is not s:
        w.ensure('target shares no container with the source', shared_roles(t, s) == [], shared=shared_roles(t, s))
        w.ensure('equilibrium methods of either stream write to no container of the other',
                 eq_shared_roles(t, s) + eq_shared_roles(s, t) == [], shared=eq_shared_roles(t, s) + eq_shared_roles(s, t))
        w.ensure('target phase views consistent', views_consistent(w, t))
        havoc(w, t, 'wt')
        w.ensure('later write to the target is not visible in the source', same_obs(w, pre, obs(s)))
        w.ensure('after a write to the target: flows read by (phase, ID) are the flows of each stream', w.And(by_name_ok(w, t), by_name_ok(w, s)))
    w.canary('canary: T = source T + 1', w.eq(ot['T'], pre['T'] + 1))
    k0 = sorted(pre['flows'], key=str)
    if k0:
        w.canary('canary: source flow doubled', w.eq(pre['flows'][k0[0]], 2 * pre['flows'][k0[0]] + 1))


# =========================================================================== copy_thermal_condition / copy_phase

def tc_configs(tier):
    kinds = ['l', 'm:gl'] if tier != 'thorough' else ['l', 'g', 'm:l', 'm:gl', 'm:Ll', 'c:gl']
    return [{'name': f't={t};s={s_}', 't': t, 's': s_} for t in kinds for s_ in kinds]


@group('C13/copy_thermal_condition', configs=tc_configs,
       functions=['thermosteam._stream:Stream.copy_thermal_condition', 'thermosteam._thermal_condition:ThermalCondition.copy_like'])
def copy_thermal_condition(w, cfg):
    W.reset_caches()
    s = _mk(w, 's', cfg['s'], 'B')
    t = _mk(w, 't', cfg['t'], 'A')
    pre_s, pre_t = obs(s), obs(t)
    t.copy_thermal_condition(s)
    ot = obs(t)
    w.ensure('T and P equal to the source', same_TP(w, ot, pre_s))
    w.ensure('flows and phase(s) of the target unchanged', same_flows(w, ot, pre_t))
    w.ensure('source unchanged', same_obs(w, pre_s, obs(s)))
    w.ensure('thermal condition not shared', t.thermal_condition is not s.thermal_condition)
    havoc(w, t, 'wt', flows=False, phase=False)
    w.ensure('later write to the target is not visible in the source', same_obs(w, pre_s, obs(s)))
    w.canary('canary: T = source T + 1', w.eq(ot['T'], pre_s['T'] + 1))


def phase_configs(tier):
    ph = ['l', 'g', 's', 'L']
    return [{'name': f't={t};s={s_}', 't': t, 's': s_} for t in ph for s_ in ph + ['m:gl']
            if tier == 'thorough' or (t, s_) in (('l', 'g'), ('g', 'l'), ('l', 'L'), ('s', 's'), ('l', 'm:gl'))]


@group('C13/copy_phase', configs=phase_configs, functions=['thermosteam._stream:Stream.copy_phase'])
def copy_phase(w, cfg):
    W.reset_caches()
    s = _mk(w, 's', cfg['s'], 'A')
    t = _mk(w, 't', cfg['t'], 'A')
    pre_s, pre_t = obs(s), obs(t)
    try:
        t.copy_phase(s)
    except ValueError:
        w.ensure('raises ValueError only for a multi-phase source', _is_multi(cfg['s']))
        w.ensure('target unchanged when copy_phase raises', same_obs(w, pre_t, obs(t)))
        w.canary('canary: T changed', w.eq(obs(t)['T'], pre_t['T'] + 1))
        return
    ot = obs(t)
    w.ensure('phase equal to the source', ot['phases'] == pre_s['phases'])
    w.ensure('flows, T, P of the target unchanged', w.And(eq_map(w, ot['rowflows'], pre_t['rowflows']), same_TP(w, ot, pre_t)))
    w.ensure('source unchanged', same_obs(w, pre_s, obs(s)))
    w.ensure('phase container not shared', t.imol._phase is not s.imol._phase)
    w.canary('canary: T changed', w.eq(ot['T'], pre_t['T'] + 1))


# =========================================================================== link_with / unlink / proxy / flow_proxy

FLAGS = list(itertools.product([False, True], repeat=3))      # (flow, phase, TP)


def link_configs(tier):
    pairs = [('l', 'g'), ('m:gl', 'm:gl'), ('c:gl', 'c:gl')]
    if tier == 'thorough':
        pairs += [('l', 'l'), ('s', 'L'), ('m:gl', 'c:gl'), ('m:Ll', 'm:Ll'), ('m:gls', 'm:gls'), ('m:l', 'm:l')]
    out = []
    for (ka, kb) in pairs:
        for fl in FLAGS:
            if _is_multi(ka) and tier != 'thorough' and ka == 'c:gl' and fl not in ((True, True, True), (True, False, False)):
                continue
            for un in ['a', 'b']:
                op = 'link:' + ('+'.join(n for n, f in zip(('flow', 'phase', 'TP'), fl) if f) or 'none')
                out.append({'name': f'a={ka};b={kb};op={op};unlink={un}', 'a': ka, 'b': kb, 'op': 'link', 'flags': list(fl), 'unlink': un})
    proxied = ['l', 'g', 'm:gl', 'c:gl'] + (['s', 'm:l', 'm:Ll', 'c:Ll', 'm:gls'] if tier == 'thorough' else [])
    for kb in proxied:
        for op in ['proxy', 'flow_proxy']:
            for un in ['a', 'b']:
                out.append({'name': f'a=new;b={kb};op={op};unlink={un}', 'a': None, 'b': kb, 'op': op, 'flags': None, 'unlink': un})
    # streams of different classes cannot link (raises by contract)
    out.append({'name': 'a=l;b=m:gl;op=link:flow+phase+TP;unlink=a', 'a': 'l', 'b': 'm:gl', 'op': 'link', 'flags': [True, True, True], 'unlink': 'a'})
    out.append({'name': 'a=m:gl;b=l;op=link:flow+phase+TP;unlink=a', 'a': 'm:gl', 'b': 'l', 'op': 'link', 'flags': [True, True, True], 'unlink': 'a'})
    # multi-phase streams with different phase tuples
    for fl in ([True, True, True], [True, False, False]):
        op = 'link:' + '+'.join(n for n, f in zip(('flow', 'phase', 'TP'), fl) if f)
        out.append({'name': f'a=m:gl;b=m:Ll;op={op};unlink=a', 'a': 'm:gl', 'b': 'm:Ll', 'op': 'link', 'flags': fl, 'unlink': 'a'})
    # histories in which the equilibrium objects (s.vle ...) of the multi-phase streams were handed out before linking
    loaded = []
    for c in out:
        if not _is_multi(c['b']) or (c['a'] is not None and not _is_multi(c['a'])): continue
        if tier != 'thorough' and not (c['b'] == 'm:gl' and c['a'] in (None, 'm:gl')): continue
        loaded.append(dict(c, name=c['name'] + ';eq=loaded', eq='loaded'))
    # histories in which both streams were read by (phase, ID) before linking
    read = [dict(c, name=c['name'] + ';read=before', read='before') for c in out
            if c['a'] is not None and _is_multi(c['a']) and _is_multi(c['b']) and c['unlink'] == 'a'
            and (tier == 'thorough' or tuple(c['flags']) in ((True, True, True), (True, False, False)))]
    return out + loaded + read


def _part(o, part, multi):
    if part == 'flow':
        return dict(o['flows']) if multi else dict(o['rowflows'])
    if part == 'phase':
        return o['phases']
    return {'T': o['T'], 'P': o['P']}


def _part_eq(w, x, y):
    if isinstance(x, tuple):
        return x == y
    return eq_map(w, x, y)


def _part_shared(a, b, part):
    if part == 'flow':
        return a.imol.data is b.imol.data
    if part == 'phase':
        return a.imol._phase is b.imol._phase
    return a.thermal_condition is b.thermal_condition


@group('C13/link', configs=link_configs, assumptions=['A-eq-writes'],
       functions=['thermosteam._stream:Stream.link_with', 'thermosteam._stream:Stream.unlink',
                  'thermosteam._stream:Stream.proxy', 'thermosteam._stream:Stream.flow_proxy',
                  'thermosteam.indexer:ChemicalIndexer._copy_without_data', 'thermosteam.indexer:MaterialIndexer._copy_without_data',
                  'thermosteam._multi_stream:MultiStream.__getitem__', 'thermosteam._multi_stream:MultiStream.reset_cache'])
def link(w, cfg):
    W.reset_caches()
    kb = cfg['b']
    b = _mk(w, 'b', kb, 'A')
    multi = _is_multi(kb)
    parts = ['flow', 'TP'] if multi else ['flow', 'phase', 'TP']
    if multi:
        for ph in b.phases: b[ph]          # per-phase views are handed out (and cached) before linking
    if cfg.get('eq') == 'loaded': load_eq(b)
    pre_b = obs(b)
    if cfg['op'] == 'link':
        a = _mk(w, 'a', cfg['a'], 'A')
        if _is_multi(cfg['a']):
            for ph in a.phases: a[ph]
        if cfg.get('eq') == 'loaded': load_eq(a)
        if cfg.get('read') == 'before':
            w.ensure('before linking: flows read by (phase, ID) are the flows of each stream', w.And(by_name_ok(w, a), by_name_ok(w, b)))
        pre_a = obs(a)
        sel = dict(zip(('flow', 'phase', 'TP'), cfg['flags']))
        try:
            a.link_with(b, *cfg['flags'])
        except RuntimeError:
            w.ensure('raises RuntimeError only for streams of different classes', _is_multi(cfg['a']) != multi)
            w.ensure('nothing changed when link_with raises', w.And(same_obs(w, pre_a, obs(a)), same_obs(w, pre_b, obs(b))))
            w.canary('canary: T changed', w.eq(obs(a)['T'], pre_a['T'] + 1))
            return
        w.ensure('link_with does not raise for streams of the same class', _is_multi(cfg['a']) == multi)
    else:
        a = b.proxy() if cfg['op'] == 'proxy' else b.flow_proxy()
        pre_a = None
        sel = {'flow': True, 'phase': cfg['op'] == 'proxy', 'TP': cfg['op'] == 'proxy'}
    oa, ob = obs(a), obs(b)
    w.ensure('source unchanged by linking', same_obs(w, pre_b, ob))
    for part in parts:
        if sel[part]:
            w.ensure(f'{part} selected: container shared', _part_shared(a, b, part))
            w.ensure(f'{part} selected: values equal to the source', _part_eq(w, _part(oa, part, multi), _part(ob, part, multi)))
        else:
            w.ensure(f'{part} not selected: container not shared', not _part_shared(a, b, part))
            if pre_a is not None:
                w.ensure(f'{part} not selected: values unchanged', _part_eq(w, _part(oa, part, multi), _part(pre_a, part, multi)))
    if multi and sel['flow']:
        w.ensure('flow selected: phases equal to the source', oa['phases'] == ob['phases'], a=oa['phases'], b=ob['phases'])
    w.ensure('linked: phase views consistent', w.And(views_consistent(w, a), views_consistent(w, b)))
    w.ensure('linked: flows read by (phase, ID) are the flows of each stream', w.And(by_name_ok(w, a), by_name_ok(w, b)))
    # a change made by an equilibrium method of a stream is a change to that stream: it goes through the selected
    # (shared) parts to the other stream and for the rest stays in the stream itself
    w.ensure('linked: equilibrium methods of a work on a\'s own flows, T and P', eq_own(w, a), foreign=eq_foreign(a))
    w.ensure('linked: equilibrium methods of b work on b\'s own flows, T and P', eq_own(w, b), foreign=eq_foreign(b))
    # write-through exactly for the selected parts, both directions
    for src, dst, tag in ((b, a, 'wb'), (a, b, 'wa')):
        before = obs(dst)
        havoc(w, src, tag)
        osrc, odst = obs(src), obs(dst)
        for part in parts:
            if sel[part]:
                w.ensure(f'{part} selected: write to {tag[1]} visible in the other', _part_eq(w, _part(odst, part, multi), _part(osrc, part, multi)))
            else:
                w.ensure(f'{part} not selected: write to {tag[1]} not visible in the other', _part_eq(w, _part(odst, part, multi), _part(before, part, multi)))
    w.canary('canary: unshared T follows', w.eq(obs(a)['T'], obs(b)['T'] + 1))
    # unlink ends all sharing and preserves values
    u, o = (a, b) if cfg['unlink'] == 'a' else (b, a)
    pu, po = obs(u), obs(o)
    u.unlink()
    w.ensure('unlink preserves the values of the unlinked stream', same_obs(w, pu, obs(u)))
    w.ensure('unlink preserves the values of the other stream', same_obs(w, po, obs(o)))
    w.ensure('after unlink no container is shared', shared_roles(a, b) == [], shared=shared_roles(a, b))
    w.ensure('after unlink: phase views consistent', w.And(views_consistent(w, a), views_consistent(w, b)))
    w.ensure('after unlink: flows read by (phase, ID) are the flows of each stream', w.And(by_name_ok(w, a), by_name_ok(w, b)))
    w.ensure('after unlink: equilibrium methods of the unlinked stream work on its own flows, T and P', eq_own(w, u), foreign=eq_foreign(u))
    w.ensure('after unlink: equilibrium methods of the other stream work on its own flows, T and P', eq_own(w, o), foreign=eq_foreign(o))
    w.ensure('after unlink: equilibrium methods of either stream write to no container of the other',
             eq_shared_roles(a, b) + eq_shared_roles(b, a) == [], shared=eq_shared_roles(a, b) + eq_shared_roles(b, a))
    pb = obs(b)
    havoc(w, a, 'ua')
    w.ensure('after unlink a write to a is not visible in b', same_obs(w, pb, obs(b)))
    pa = obs(a)
    havoc(w, b, 'ub')
    w.ensure('after unlink a write to b is not visible in a', same_obs(w, pa, obs(a)))
    w.ensure('after unlink and writes: flows read by (phase, ID) are the flows of each stream', w.And(by_name_ok(w, a), by_name_ok(w, b)))
    w.canary('canary: after unlink T still follows', w.eq(obs(a)['T'], obs(b)['T']))


# =========================================================================== pickling (A-pickle) and constructors

_ATOMIC = (type(None), bool, int, float, complex, str, bytes, type, type(Ellipsis), types.FunctionType,
           types.BuiltinFunctionType, types.ModuleType, numpy.generic)


def rebuild(obj, memo):
    """
    The object pickle.loads(pickle.dumps(obj)) builds, under assumption A-pickle: reconstruction calls exactly the
    `__reduce_ex__(2)` recipe -- callable(*args), then the state (`__setstate__` or dict/slot assignment), then list
    and dict items -- on recursively reconstructed arguments, shared references staying shared (memo).
    Leaves (numbers, symbolic reals, strings, classes, functions) are taken as they are.  `memo` may be pre-seeded with
    objects that are to be kept by reference (the property package, whose own recipe is checked separately).
    """
    from engine.sx.sym import is_sym
    if is_sym(obj) or isinstance(obj, _ATOMIC):
        return obj
    key = id(obj)
    if key in memo:
        return memo[key][0]
    t = type(obj)
    if t is tuple:
        new = tuple([rebuild(x, memo) for x in obj])
        memo[key] = (new, obj)
        return new
    if t is list:
        new = []
        memo[key] = (new, obj)
        new.extend(rebuild(x, memo) for x in obj)
        return new
    if t is dict:
        new = {}
        memo[key] = (new, obj)
        for k, v in obj.items():
            new[rebuild(k, memo)] = rebuild(v, memo)
        return new
    if t in (set, frozenset):
        new = t(rebuild(x, memo) for x in obj)
        memo[key] = (new, obj)
        return new
    if t is numpy.ndarray:
        if obj.dtype == object:
            new = numpy.empty(obj.shape, dtype=object)
            flat = new.reshape(-1)
            for n, x in enumerate(obj.flat): flat[n] = rebuild(x, memo)
        else:
            new = obj.copy()
        memo[key] = (new, obj)
        return new
    if t is types.MethodType:      # pickled as getattr(self, name)
        return getattr(rebuild(obj.__self__, memo), obj.__func__.__name__)
    rv = obj.__reduce_ex__(2)
    if isinstance(rv, str):        # a global, pickled by reference
        return obj
    rv = tuple(rv) + (None,) * (5 - len(rv))
    func, args, state, listitems, dictitems = rv[:5]
    new = rebuild(func, memo)(*rebuild(args, memo))
    memo[key] = (new, obj)
    if state is not None:
        state = rebuild(state, memo)
        setstate = getattr(new, '__setstate__', None)
        if setstate is not None:
            setstate(state)
        else:
            slotstate = None
            if isinstance(state, tuple) and len(state) == 2:
                state, slotstate = state
            if state:
                new.__dict__.update(state)
            if slotstate:
                for k, v in slotstate.items(): setattr(new, k, v)
    if listitems is not None:
        for x in listitems: new.append(rebuild(x, memo))
    if dictitems is not None:
        for k, v in dictitems: new[rebuild(k, memo)] = rebuild(v, memo)
    return new


def _by_reference(*objs):
    return {id(o): (o, o) for o in objs}


def unpickled(w, obj, keep=()):
    """[recipe result] in symbolic mode; [recipe result, real pickle round-trip] natively."""
    out = [rebuild(obj, _by_reference(*keep))]
    if not w.symbolic:
        out.append(pickle.loads(pickle.dumps(obj)))
    return out


def stream_configs(tier):
    kinds = ['l', 'g', 'm:gl', 'm:Ll', 'c:gl', 'm:l']
    if tier == 'thorough':
        kinds += ['s', 'L', 'm:gls', 'm:g', 'c:Ll']
    out = []
    for k in kinds:
        for ID in ['feed', None]:
            for cf in ['given', 'none', 'added-later']:
                if tier != 'thorough' and (ID is None or cf == 'added-later') and k not in ('l', 'm:gl'): continue
                out.append({'name': f'kind={k};ID={ID};cf={cf}', 'kind': k, 'ID': ID, 'cf': cf})
    for k in ['l', 'm:gl'] + (['g', 'm:Ll', 'm:l'] if tier == 'thorough' else []):
        # flows given positionally (`flow=` array) instead of by keyword
        out.append({'name': f'kind={k};ID=feed;cf=given;args=flow', 'kind': k, 'ID': 'feed', 'cf': 'given', 'args': 'flow'})
    return out


@group('C13/stream_init_pickle', configs=stream_configs, assumptions=['A-pickle', 'A-eq-writes'],
       functions=['thermosteam._stream:Stream.__init__', 'thermosteam._multi_stream:MultiStream.__init__',
                  'thermosteam._stream:Stream.from_data', 'thermosteam._stream:Stream.__reduce__',
                  'thermosteam._stream:Stream.get_data', 'thermosteam._stream:Stream.set_data', 'thermosteam._stream:StreamData',
                  'thermosteam.indexer:ChemicalIndexer.__reduce__', 'thermosteam.indexer:MaterialIndexer.__reduce__',
                  'thermosteam.indexer:ChemicalIndexer.from_data', 'thermosteam.indexer:MaterialIndexer.from_data',
                  'thermosteam._phase:Phase.__reduce__', 'thermosteam._thermal_condition:ThermalCondition',
                  'thermosteam.base.sparse:SparseVector (slot recipe)', 'thermosteam.base.sparse:SparseArray (slot recipe)'])
def stream_init_pickle(w, cfg):
    W.reset_caches()
    th = W.thermo(A)
    kind = cfg['kind']
    phases = KINDS[kind]
    T = w.real('T', lo=0., lo_strict=True)
    P = w.real('P', lo=0., lo_strict=True)
    price = w.real('price')
    cf = {'GWP': w.real('cf.GWP'), 'FEC': w.real('cf.FEC')}
    kw = dict(T=T, P=P, price=price, thermo=th)
    if cfg['cf'] == 'given':
        kw['characterization_factors'] = dict(cf)
    given = {}
    if kind.startswith('m:'):
        for ph in phases:
            given[ph, 'Water'] = w.real(f'f.{ph}.Water', lo=0., lo_strict=True)
            given[ph, 'Methanol'] = w.real(f'f.{ph}.Methanol', lo=0., lo_strict=True)
        if cfg.get('args') == 'flow':
            s = tmo.MultiStream(cfg['ID'], phases=phases, **kw,
                                flow=[[given[ph, 'Water'], 0., given[ph, 'Methanol']] for ph in tmo._phase.phase_tuple(phases)])
        else:
            s = tmo.MultiStream(cfg['ID'], phases=phases, **kw,
                                **{ph: [('Water', given[ph, 'Water']), ('Methanol', given[ph, 'Methanol'])] for ph in phases})
    else:
        ph0 = phases[-1] if kind.startswith('c:') else phases
        given[ph0, 'Water'] = w.real('f.Water', lo=0., lo_strict=True)
        given[ph0, 'Methanol'] = w.real('f.Methanol', lo=0., lo_strict=True)
        if cfg.get('args') == 'flow':
            s = tmo.Stream(cfg['ID'], phase=ph0, flow=[given[ph0, 'Water'], 0., given[ph0, 'Methanol']], **kw)
        else:
            s = tmo.Stream(cfg['ID'], phase=ph0, Water=given[ph0, 'Water'], Methanol=given[ph0, 'Methanol'], **kw)
        if kind.startswith('c:'):
            s.phases = phases
    if cfg['cf'] == 'added-later':
        s.characterization_factors.update(cf)
    exp_cf = {} if cfg['cf'] == 'none' else cf
    cas = {ID: W.chemical(ID).CAS for ID in A}
    exp_flows = {(ph, cas[ID]): v for (ph, ID), v in given.items()}
    o = obs(s)
    # ---- constructor arguments are carried
    w.ensure('constructor: ID as given', s.ID == (cfg['ID'] or ''), ID=s.ID)
    w.ensure('constructor: flows and phase(s) as given', w.And(set(o['phases']) == set(phases if not isinstance(phases, str) else [phases]),
                                                                 eq_map(w, o['flows'], exp_flows)))
    w.ensure('constructor: T and P as given', w.And(w.eq(o['T'], T), w.eq(o['P'], P)))
    w.ensure('constructor: price as given', w.eq(s.price, price))
    w.ensure('constructor: flows read by (phase, ID) are the flows given', by_name_ok(w, s))
    w.ensure('constructor: equilibrium methods work on the stream\'s own flows, T and P', eq_own(w, s), foreign=eq_foreign(s))
    w.ensure('constructor: characterization factors as given',
             w.And(set(s.characterization_factors) == set(exp_cf), eq_map(w, dict(s.characterization_factors), exp_cf)),
             got=sorted(s.characterization_factors))
    # ---- pickle round trip
    cf_now = dict(s.characterization_factors)
    rs = unpickled(w, s, keep=(th, th.chemicals))
    w.ensure('pickle: original unchanged', w.And(same_obs(w, o, obs(s)), w.eq(s.price, price), eq_map(w, dict(s.characterization_factors), cf_now)))
    for r in rs:
        orr = obs(r)
        w.ensure('pickle: same ID', r.ID == s.ID, got=r.ID, want=s.ID)
        # a stream holding one phase may come back as the single-phase class (the library identifies the two: `phases` setter)
        w.ensure('pickle: same class', type(r) is type(s) or (len(o['phases']) == 1 and isinstance(r, tmo.Stream)),
                 got=type(r).__name__, want=type(s).__name__)
        w.ensure('pickle: same flows and phase(s)', w.And(o['phases'] == orr['phases'], eq_map(w, o['flows'], orr['flows'])),
                 got=orr['phases'], want=o['phases'])
        w.ensure('pickle: same T and P', same_TP(w, o, orr))
        w.ensure('pickle: same price', w.eq(r.price, price))
        w.ensure('pickle: same characterization factors',
                 w.And(set(r.characterization_factors) == set(cf_now), eq_map(w, dict(r.characterization_factors), cf_now)),
                 got=sorted(r.characterization_factors), want=sorted(cf_now))
        w.ensure('pickle: rep_ok', rep_ok(w, orr))
        w.ensure('pickle: no container shared with the original',
                 w.And(shared_roles(r, s) == [], r.characterization_factors is not s.characterization_factors))
        w.ensure('pickle: phase views consistent', views_consistent(w, r))
        w.ensure('pickle: flows read by (phase, ID) are the flows of the unpickled stream', by_name_ok(w, r))
        w.ensure('pickle: equilibrium methods of the unpickled stream work on its own flows, T and P', eq_own(w, r), foreign=eq_foreign(r))
        w.ensure('pickle: equilibrium methods of either stream write to no container of the other',
                 eq_shared_roles(r, s) + eq_shared_roles(s, r) == [], shared=eq_shared_roles(r, s) + eq_shared_roles(s, r))
    r = rs[0]
    havoc(w, r, 'wr')
    w.ensure('pickle: later write to the unpickled stream is not visible in the original', same_obs(w, o, obs(s)))
    w.canary('canary: unpickled price + 1', w.eq(rs[0].price, price + 1))
    w.canary('canary: constructor T + 1', w.eq(o['T'], T + 1))


# --------------------------------------------------------------------------- pickling of the parts, reactions, chemicals, packages

PARTS = ['ChemicalMolarFlowIndexer:l', 'ChemicalMolarFlowIndexer:g', 'MolarFlowIndexer:gl', 'MolarFlowIndexer:Ll',
         'SplitIndexer', 'Phase', 'LockedPhase', 'PhaseIndexer', 'ThermalCondition', 'StreamData:l', 'StreamData:gl',
         'SparseVector', 'SparseArray', 'Reaction', 'Reaction:phases', 'ParallelReaction', 'Chemical', 'CompiledChemicals', 'Thermo']


def parts_configs(tier):
    return [{'name': f'part={p}', 'part': p} for p in PARTS]


def _sv_eq(w, a, b):
    return w.And(a.size == b.size, eq_map(w, dict(a.dct), dict(b.dct)), a.dct is not b.dct)


def _sa_eq(w, a, b):
    return w.And(len(a.rows) == len(b.rows), *[_sv_eq(w, x, y) for x, y in zip(a.rows, b.rows)])


def _chemical_state(c):
    T, P = 320., 101325.
    vals = {k: getattr(c, k) for k in ('ID', 'CAS', 'MW', 'Tb', 'Tc', 'Pc', 'Hf', 'phase_ref', 'formula', 'locked_state')}
    vals['aliases'] = sorted(c.aliases)
    for name, args in (('Psat', (T,)), ('Hvap', (T,)), ('sigma', (T,))):
        vals[name] = getattr(c, name)(*args)
    for name in ('Cn', 'H', 'S', 'V', 'mu', 'kappa'):
        for ph in 'lg':
            f = getattr(c, name)
            vals[name, ph] = f(ph, T, P) if name != 'Cn' else f(ph, T)
    return vals


def _all_slots(obj):
    out = []
    for c in type(obj).__mro__:
        sl = c.__dict__.get('__slots__', ())
        out.extend([sl] if isinstance(sl, str) else sl)
    return out


def _field_diff(new, old):
    """Slots (and __dict__ entries) of `old` that `new` does not carry as the very same object."""
    bad = []
    for f in _all_slots(old):
        if hasattr(old, f):
            if not hasattr(new, f) or getattr(new, f) is not getattr(old, f): bad.append(f)
        elif getattr(new, f, None) is not None:      # an unset field may come back as None (read with a None default), nothing else
            bad.append(f)
    for f, v in getattr(old, '__dict__', {}).items():
        if getattr(new, '__dict__', {}).get(f, bad) is not v: bad.append(f)
    return bad


def _same_fields(new, old):
    return _field_diff(new, old) == []


def _state_eq(a, b):
    if set(a) != set(b): return False
    for k in a:
        x, y = a[k], b[k]
        if isinstance(x, float):
            if not (x == y or abs(x - y) <= 1e-12 * max(abs(x), abs(y))): return False
        elif x != y:
            return False
    return True


@group('C13/pickle_parts', configs=parts_configs, assumptions=['A-pickle'],
       functions=['thermosteam.indexer:ChemicalIndexer.__reduce__', 'thermosteam.indexer:MaterialIndexer.__reduce__',
                  'thermosteam.indexer:SplitIndexer.__reduce__', 'thermosteam._phase:Phase.__reduce__',
                  'thermosteam._phase:LockedPhase.__reduce__', 'thermosteam._phase:PhaseIndexer.__reduce__',
                  'thermosteam._thermal_condition:ThermalCondition (slot recipe)', 'thermosteam._stream:StreamData (slot recipe)',
                  'thermosteam.base.sparse:SparseVector (slot recipe)', 'thermosteam.base.sparse:SparseArray (slot recipe)',
                  'thermosteam.reaction._reaction:Reaction (slot recipe)', 'thermosteam.reaction._reaction:ParallelReaction (slot recipe)',
                  'thermosteam._chemical:Chemical.__reduce__', 'thermosteam._chemical:unpickle_chemical',
                  'thermosteam._chemicals:CompiledChemicals.__reduce__', 'thermosteam.utils.pickle:cucumber',
                  'thermosteam.utils.pickle:new_from_state', 'thermosteam._thermo:Thermo'])
def pickle_parts(w, cfg):
    W.reset_caches()
    part = cfg['part']
    th = W.thermo(A)
    chems = th.chemicals
    keep = (th, chems)
    name, _, arg = part.partition(':')
    if name in ('ChemicalMolarFlowIndexer', 'MolarFlowIndexer', 'StreamData'):
        s = _mk(w, 's', arg if name == 'ChemicalMolarFlowIndexer' or arg == 'l' else 'm:' + arg, 'A', 'pos+maybe')
        x = s.get_data() if name == 'StreamData' else s.imol
        imol = x._imol if name == 'StreamData' else x
        for r in unpickled(w, x, keep):
            rimol = r._imol if name == 'StreamData' else r
            w.ensure('same class', type(r) is type(x))
            w.ensure('same chemicals', rimol.chemicals.IDs == imol.chemicals.IDs)
            if hasattr(imol.data, 'rows'):
                w.ensure('same phases', tuple(rimol.phases) == tuple(imol.phases))
                w.ensure('same data, not shared', _sa_eq(w, rimol.data, imol.data))
            else:
                w.ensure('same phase, container not shared', w.And(rimol.phase == imol.phase, rimol._phase is not imol._phase))
                w.ensure('same data, not shared', _sv_eq(w, rimol.data, imol.data))
            if name == 'StreamData':
                w.ensure('same T, P and phases', w.And(w.eq(r._T, x._T), w.eq(r._P, x._P), tuple(r._phases) == tuple(x._phases)))
        w.canary('canary: T + 1', w.eq(s.T, s.T + 1))
    elif name == 'SplitIndexer':
        x = tmo.indexer.SplitIndexer(chemicals=chems)
        vals = {ID: w.real(f'split.{ID}', lo=0., hi=1., lo_strict=True) for ID in ('Water', 'Methanol')}
        for ID, v in vals.items(): x[ID] = v
        for r in unpickled(w, x, keep):
            w.ensure('same class', type(r) is type(x))
            w.ensure('same chemicals', r.chemicals.IDs == x.chemicals.IDs)
            w.ensure('same data, not shared', _sv_eq(w, r.data, x.data))
            w.ensure('same splits by ID', w.And(*[w.eq(r[ID], v) for ID, v in vals.items()], w.eq(r['Ethanol'], 0.)))
        w.canary('canary: split + 1', w.eq(x['Water'], vals['Water'] + 1))
    elif name in ('Phase', 'LockedPhase'):
        cls = getattr(tmo._phase, name)
        for ph in ('l', 'g', 'S'):
            x = cls(ph)
            for r in unpickled(w, x):
                w.ensure('same phase', r.phase == ph)
                w.ensure('is a Phase', isinstance(r, tmo._phase.Phase))
                if name == 'Phase':
                    w.ensure('container not shared', r is not x)
        w.canary('canary: phase differs', w.eq(1., 2.))
    elif name == 'PhaseIndexer':
        for phs in (('g', 'l'), ('L', 'l'), ('g', 'l', 's'), ('l',)):
            x = tmo._phase.PhaseIndexer(phs)
            for r in unpickled(w, x):
                w.ensure('same phases and indices', w.And(r.phases == x.phases, *[r(p) == x(p) for p in phs]))
                w.ensure('phase indexers stay unique per phase set', r is x)
        w.canary('canary: index differs', w.eq(1., 2.))
    elif name == 'ThermalCondition':
        T = w.real('T', lo=0., lo_strict=True); P = w.real('P', lo=0., lo_strict=True)
        x = tmo.ThermalCondition(T, P)
        for r in unpickled(w, x):
            w.ensure('same class', type(r) is type(x))
            w.ensure('same T and P', w.And(w.eq(r.T, T), w.eq(r.P, P)))
            w.ensure('container not shared', r is not x)
        w.canary('canary: T + 1', w.eq(x.T, T + 1))
    elif name in ('SparseVector', 'SparseArray'):
        s = _mk(w, 's', 'l' if name == 'SparseVector' else 'm:gl', 'A', 'pos+maybe', TP=False)
        x = s.imol.data
        for r in unpickled(w, x):
            w.ensure('same class', type(r) is type(x))
            w.ensure('same data, not shared', _sv_eq(w, r, x) if name == 'SparseVector' else _sa_eq(w, r, x))
        v0 = (x if name == 'SparseVector' else x.rows[0]).dct[0]
        w.canary('canary: value + 1', w.eq(v0, v0 + 1))
    elif name in ('Reaction', 'ParallelReaction'):
        X = w.real('X', lo=0., hi=1.)
        nu = w.real('nu', lo=0., lo_strict=True)
        if arg == 'phases':
            x = tmo.Reaction('Water,l -> Ethanol,g', reactant='Water', X=X, chemicals=chems)
            x._stoichiometry[1, chems.index('Ethanol')] = nu
        else:
            x = tmo.Reaction({'Water': -1, 'Ethanol': nu}, reactant='Water', X=X, chemicals=chems)
        if name == 'ParallelReaction':
            X2 = w.real('X2', lo=0., hi=1.)
            x2 = tmo.Reaction({'Methanol': -1, 'Ethanol': 0.5}, reactant='Methanol', X=X2, chemicals=chems)
            x = tmo.ParallelReaction([x, x2])
        for r in unpickled(w, x, keep):
            w.ensure('same class', type(r) is type(x))
            w.ensure('same chemicals, basis, phases, reactant',
                     w.And(r.chemicals.IDs == x.chemicals.IDs, r.basis == x.basis, tuple(r.phases) == tuple(x.phases),
                           r._reactant_index == x._reactant_index if name == 'Reaction' else list(r._reactant_index) == list(x._reactant_index)))
            if name == 'ParallelReaction':
                w.ensure('same conversions', w.And(len(r.X) == 2, w.eq(r.X[0], X), w.eq(r.X[1], X2), r._X is not x._X))
            else:
                w.ensure('same conversion', w.eq(r.X, X))
            st_r, st_x = r._stoichiometry, x._stoichiometry
            if isinstance(st_x, (list, tuple)):
                ok = w.And(len(st_r) == len(st_x), *[_sv_eq(w, a, b) for a, b in zip(st_r, st_x)])
            else:
                ok = _sa_eq(w, st_r, st_x) if hasattr(st_x, 'rows') else _sv_eq(w, st_r, st_x)
            w.ensure('same stoichiometry, not shared', ok)
        w.canary('canary: X + 1', w.eq(x.X if name == 'Reaction' else x.X[0], X + 1))
    elif name in ('Chemical', 'CompiledChemicals', 'Thermo'):
        # nothing here is symbolic: the recipe is applied one level (fields handed over completely) in both modes,
        # the real pickle round trip and the observable state of the result are compared natively
        if name == 'Chemical':
            xs = [W.chemical(ID) for ID in A]
        elif name == 'CompiledChemicals':
            xs = [chems, W.thermo(B).chemicals]
        else:
            xs = [th, W.thermo(B4)]
        for x in xs:
            rv = x.__reduce__()
            r1 = rv[0](*rv[1])
            if name in ('Chemical', 'Thermo'):
                w.ensure('recipe hands over every field', _same_fields(r1, x), missing=_field_diff(r1, x))
            else:
                w.ensure('recipe hands over every field', w.And(r1.IDs == x.IDs, all(a is b for a, b in zip(r1.tuple, x.tuple))))
            w.ensure('recipe gives the same class', type(r1) is type(x))
            if not w.symbolic:
                r2 = pickle.loads(pickle.dumps(x))
                if name == 'Chemical':
                    ok = _state_eq(_chemical_state(r2), _chemical_state(x)) and r2 is not x
                elif name == 'CompiledChemicals':
                    ok = (r2.IDs == x.IDs and r2.CASs == x.CASs and list(r2.MW) == list(x.MW)
                          and all(_state_eq(_chemical_state(a), _chemical_state(b)) for a, b in zip(r2.tuple, x.tuple)))
                else:
                    mol = numpy.arange(1., x.chemicals.size + 1.)
                    ok = (r2.chemicals.IDs == x.chemicals.IDs and type(r2.mixture) is type(x.mixture)
                          and r2.Gamma is x.Gamma and r2.Phi is x.Phi and r2.PCF is x.PCF
                          and all(abs(getattr(r2.mixture, f)('l', mol, 320., 101325.) - getattr(x.mixture, f)('l', mol, 320., 101325.)) < 1e-9
                                  for f in ('H', 'S', 'Cn', 'V')))
                w.ensure('real pickle round trip: identical observable state', ok)
            else:
                w.ensure('real pickle round trip: identical observable state', True, note='evaluated natively only')
        w.canary('canary: concrete', w.eq(1., 2.))
    else:
        raise ValueError(part)


# =========================================================================== histories: sequences of copy / link / unlink / proxy / copy_like / write

class _Cell:
    """One shared container of the abstract model; `v` is its current value."""
    __slots__ = ('v',)

    def __init__(self, v): self.v = v


class _Rec:
    """Abstract indexer: the flow cell and the phase cell (a proxy shares the whole record with its original)."""
    __slots__ = ('flow', 'phase')

    def __init__(self, flow, phase): self.flow, self.phase = flow, phase


class _M:
    """Abstract stream: which containers it points to."""
    __slots__ = ('rec', 'TP')

    def __init__(self, rec, TP): self.rec, self.TP = rec, TP

    def cell(self, part):
        return self.TP if part == 'TP' else getattr(self.rec, part)


LINK_CHOICES = {'all': (True, True, True), 'flow': (True, False, False), 'phase': (False, True, False), 'TP': (False, False, True),
                'flow+TP': (True, False, True)}


def _seq_alphabet(multi):
    ops = []
    for a, b in ((0, 1), (1, 0)):
        for f in (('all', 'flow', 'TP') if multi else ('all', 'flow', 'phase', 'TP', 'flow+TP')):
            ops.append(f'L{a}{b}:{f}')
        ops.append(f'K{a}{b}')
    for i in (0, 1, 2):
        ops += [f'U{i}', f'W{i}']
    ops += ['P0', 'F0', 'C0', 'K02', 'K20', 'L21:all', 'L12:flow']
    return ops


def _seq_valid(seq):
    """Structural filter: stream 2 must exist before it is used, at most one new stream; link_with is not applied to a
    receiver whose indexer is shared with a proxy (the property does not say which of the two semantics holds there)."""
    have2 = False
    aliased = set()      # streams whose indexer object is shared with another stream
    for op in seq:
        k = op[0]
        idx = [int(c) for c in op[1:3] if c.isdigit()]
        if 2 in idx and not have2 and k not in 'PFC': return False
        if k in 'PFC':
            if have2: return False
            have2 = True
            if k == 'P': aliased |= {0, 2}
        elif k == 'L':
            if idx[0] in aliased: return False
        elif k == 'U':
            if idx[0] in aliased: aliased.clear()
    return True


def seq_configs(tier):
    out = []
    for fam in ('single', 'multi'):
        multi = fam == 'multi'
        alpha = _seq_alphabet(multi)
        seqs = [(a,) for a in alpha] + list(itertools.product(alpha, repeat=2))
        if tier == 'thorough':
            seqs += list(itertools.product(alpha, repeat=3))
        else:
            # a fixed sample of length-3 histories around the interesting operations
            core = ['L01:all', 'L10:flow', 'U0', 'U1', 'U2', 'P0', 'F0', 'C0', 'K01', 'W0', 'W1', 'W2']
            if not multi: core.append('L01:phase')
            seqs += [s for s in itertools.product(core, repeat=3) if s[0] in ('L01:all', 'P0', 'F0', 'L10:flow', 'L01:phase')]
        for s in seqs:
            if _seq_valid(s):
                out.append({'name': f'{fam};' + ','.join(s), 'family': fam, 'seq': list(s)})
                if multi and (tier == 'thorough' or len(s) <= 2) and any(op[0] in 'LUPF' for op in s):
                    out.append({'name': f'{fam};' + ','.join(s) + ';eq=loaded', 'family': fam, 'seq': list(s), 'eq': 'loaded'})
    return out


@group('C13/sequences', configs=seq_configs, assumptions=['A-eq-writes'],
       functions=['thermosteam._stream:Stream.link_with', 'thermosteam._stream:Stream.unlink', 'thermosteam._stream:Stream.proxy',
                  'thermosteam._stream:Stream.flow_proxy', 'thermosteam._stream:Stream.copy', 'thermosteam._stream:Stream.copy_like',
                  'thermosteam._multi_stream:MultiStream.copy_like'])
def sequences(w, cfg):
    W.reset_caches()
    multi = cfg['family'] == 'multi'
    parts = ['flow', 'TP'] if multi else ['flow', 'phase', 'TP']
    kinds = ['c:gl', 'c:gl'] if multi else ['l', 'g']
    streams = [_mk(w, f's{i}', k, 'A', 'pos') for i, k in enumerate(kinds)]
    if cfg.get('eq') == 'loaded':       # the equilibrium objects were handed out (s.vle) before the history starts
        for s in streams: load_eq(s)

    def fresh(s):
        o = obs(s)
        return _M(_Rec(_Cell(_part(o, 'flow', multi)), _Cell(o['phases'])), _Cell(_part(o, 'TP', multi)))

    model = [fresh(s) for s in streams]

    def check(step):
        for i, (s, m) in enumerate(zip(streams, model)):
            o = obs(s)
            for part in parts:
                w.ensure(f'step {step}: stream {i}: {part} as modelled', _part_eq(w, _part(o, part, multi), m.cell(part).v))
            if multi:
                w.ensure(f'step {step}: stream {i}: phase views consistent', views_consistent(w, s))
                w.ensure(f'step {step}: stream {i}: equilibrium methods work on its own flows, T and P', eq_own(w, s), foreign=eq_foreign(s))
            w.ensure(f'step {step}: stream {i}: flows read by (phase, ID) are its flows', by_name_ok(w, s))
        for i, j in itertools.combinations(range(len(streams)), 2):
            for part in parts:
                w.ensure(f'step {step}: streams {i},{j}: {part} shared iff linked',
                         _part_shared(streams[i], streams[j], part) == (model[i].cell(part) is model[j].cell(part)),
                         shared=_part_shared(streams[i], streams[j], part))
            if multi and not any(model[i].cell(part) is model[j].cell(part) for part in parts):
                sh = eq_shared_roles(streams[i], streams[j]) + eq_shared_roles(streams[j], streams[i])
                w.ensure(f'step {step}: streams {i},{j}: nothing linked: equilibrium methods of either write to no container of the other',
                         sh == [], shared=sh)

    for step, op in enumerate(cfg['seq'], 1):
        k = op[0]
        idx = [int(c) for c in op[1:3] if c.isdigit()]
        if k == 'L':
            a, b = idx
            flags = LINK_CHOICES[op.split(':')[1]]
            streams[a].link_with(streams[b], *flags)
            ma, mb = model[a], model[b]
            if flags[0]: ma.rec.flow = mb.rec.flow
            if flags[1] and not multi: ma.rec.phase = mb.rec.phase
            if flags[2]: ma.TP = mb.TP
        elif k == 'U':
            a, = idx
            streams[a].unlink()
            m = model[a]
            model[a] = _M(_Rec(_Cell(dict(m.rec.flow.v)), _Cell(m.rec.phase.v)), _Cell(dict(m.TP.v)))
        elif k == 'K':
            a, b = idx
            streams[a].copy_like(streams[b])
            ma, mb = model[a], model[b]
            ma.rec.flow.v = dict(mb.rec.flow.v); ma.rec.phase.v = mb.rec.phase.v; ma.TP.v = dict(mb.TP.v)
        elif k == 'W':
            a, = idx
            s = streams[a]
            havoc(w, s, f'w{step}')
            o = obs(s)
            m = model[a]
            m.rec.flow.v = _part(o, 'flow', multi); m.TP.v = _part(o, 'TP', multi)
            if not multi:
                m.rec.phase.v = ('s',) if m.rec.phase.v != ('s',) else ('l',)
        elif k in 'PFC':
            a, = idx
            s, m = streams[a], model[a]
            if k == 'P':
                streams.append(s.proxy()); model.append(_M(m.rec, m.TP))
            elif k == 'F':
                streams.append(s.flow_proxy()); model.append(_M(_Rec(m.rec.flow, _Cell(m.rec.phase.v)), _Cell(dict(m.TP.v))))
            else:
                streams.append(s.copy()); model.append(_M(_Rec(_Cell(dict(m.rec.flow.v)), _Cell(m.rec.phase.v)), _Cell(dict(m.TP.v))))
        check(step)
    w.canary('canary: streams 0 and 1 end with T differing by 1', w.eq(obs(streams[0])['T'], obs(streams[1])['T'] + 1))


# =========================================================================== histories ending in a real equilibrium call (bounded)
# "No later change to either is visible in the other", "linking shares exactly the selected parts", "unlinking ends all
# sharing": the later change here is the one a stream's own equilibrium method makes (s.vle(...) with the real solver).
# The sharing model is the one of C13/sequences; the expected effect of the call is what the same call does to a fresh,
# unrelated stream holding the same flows, T and P.

WE = ('Water', 'Ethanol')
W.preload([WE])

EQ_SPECS = {'VP': dict(V=0.5, P=101325.), 'TP': dict(T=358., P=101325.), 'VT': dict(V=0.3, T=350.)}
EQ_START = [  # (T, P, {(phase, ID): flow}) of streams 0 and 1
    (300., 101325., {('l', 'Water'): 10., ('l', 'Ethanol'): 10.}),
    (320., 2e5, {('l', 'Water'): 4., ('l', 'Ethanol'): 12., ('g', 'Water'): 1.}),
]
EQ_NOTES = ('Water/Ethanol, real property package and real VLE solver; two multi-phase (g,l) streams with fixed flows/T/P '
            '(20 mol at 300 K, 1 atm; 17 mol at 320 K, 2 bar); histories of 1-2 (thorough: 1-3) operations out of link_with (all / flow / TP, '
            'both directions), unlink, proxy, flow_proxy, copy, pickle round trip, copy_like, handing out s.vle, followed by one real '
            'vle call (V=0.5,P | T,P | V,T) on each stream in turn, optionally followed by unlink and a second call; '
            'same result = every flow within 1e-4 of the total flow, T within 1e-3 K, P within 1e-6 relative')


def _eq_alphabet():
    return ['L01:all', 'L01:flow', 'L01:TP', 'L10:all', 'L10:TP', 'U0', 'U1', 'U2', 'P0', 'F0', 'C0', 'R0', 'K01', 'K10', 'V0', 'V1', 'V2',
            'L21:all', 'L12:flow', 'K02', 'K20']


def _eq_valid(seq):
    have2 = False
    aliased = set()
    for op in seq:
        k = op[0]
        idx = [int(c) for c in op[1:3] if c.isdigit()]
        if 2 in idx and not have2 and k not in 'PFCR': return False
        if k in 'PFCR':
            if have2: return False
            have2 = True
            if k == 'P': aliased |= {0, 2}
        elif k == 'L':
            if idx[0] in aliased: return False
        elif k == 'U':
            if idx[0] in aliased: aliased.clear()
    return True


def eq_seq_configs(tier):
    alpha = _eq_alphabet()
    if tier == 'thorough':
        seqs = [(a,) for a in alpha] + list(itertools.product(alpha, repeat=2))
        core = ['L01:all', 'L10:TP', 'P0', 'F0', 'U0', 'U1', 'U2', 'V0', 'K01']
        seqs += [s for s in itertools.product(core, repeat=3) if s[0][0] in 'LPFV']
        specs = list(EQ_SPECS)
    else:
        seqs = [(a,) for a in alpha]
        sharing = ['L01:all', 'L01:flow', 'L10:TP', 'P0', 'F0']
        seqs += list(itertools.product(sharing, ['U0', 'U1', 'U2']))            # share, then unlink
        seqs += list(itertools.product(['V0', 'V1'], ['L01:all', 'L01:TP', 'P0', 'F0']))   # equilibrium object handed out before
        seqs += [('L01:all', 'K10'), ('C0', 'L02:all')]
        specs = ['VP']
    out = []
    for s in seqs:
        if not _eq_valid(s): continue
        if not any(op[0] in 'LPFCRK' for op in s): continue                # two unrelated streams only
        n = 3 if any(op[0] in 'PFCR' for op in s) else 2
        for spec in specs:
            if spec != 'VP' and len(s) == 3: continue
            for i in range(n):
                out.append({'name': ','.join(s) + f';E{i}:{spec}', 'seq': list(s), 'on': i, 'spec': spec, 'then': None})
                # ... then one of the streams unlinks and the next one is flashed
                if len(s) == 1 and spec == 'VP' and (tier == 'thorough' or s[0] in ('L01:all', 'L10:TP', 'P0', 'F0')):
                    for u in range(n):
                        if tier != 'thorough' and u != i: continue
                        j = (u + 1) % n
                        out.append({'name': ','.join(s) + f';E{i}:{spec};U{u};E{j}:TP', 'seq': list(s), 'on': i, 'spec': spec, 'then': [u, j]})
    return out


def _eq_fresh(th, o):
    """A fresh, unrelated stream with the observed flows, T and P."""
    ID = dict(zip(th.chemicals.CASs, th.chemicals.IDs))
    r = tmo.MultiStream(None, phases=o['phases'], T=o['T'], P=o['P'], thermo=th)
    for (ph, cas), v in o['flows'].items(): r.imol[ph, ID[cas]] = v
    return r


def _eq_close(a, b, F):
    if isinstance(a, tuple): return a == b
    if set(a) == {'T', 'P'}:
        return bool(abs(a['T'] - b['T']) <= 1e-3 and abs(a['P'] - b['P']) <= 1e-6 * max(abs(a['P']), abs(b['P'])))
    return all(abs(a.get(k, 0.) - b.get(k, 0.)) <= 1e-4 * F for k in set(a) | set(b))


@group('C13/equilibrium_after_history', configs=eq_seq_configs, mode='B', notes=EQ_NOTES,
       functions=['thermosteam._stream:Stream.link_with', 'thermosteam._stream:Stream.unlink', 'thermosteam._stream:Stream.proxy',
                  'thermosteam._stream:Stream.flow_proxy', 'thermosteam._stream:Stream.copy', 'thermosteam._stream:Stream.__reduce__',
                  'thermosteam._multi_stream:MultiStream.copy_like', 'thermosteam._multi_stream:MultiStream.reset_cache',
                  'thermosteam._multi_stream:MultiStream.vle', 'thermosteam.utils.cache:Cache.retrieve'])
def equilibrium_after_history(w, cfg):
    W.reset_caches()
    th = W.thermo(WE)
    parts = ['flow', 'TP']
    streams = []
    for T, P, flows in EQ_START:
        s = tmo.MultiStream(None, phases=('g', 'l'), T=T, P=P, thermo=th)
        for (ph, ID), v in flows.items(): s.imol[ph, ID] = v
        streams.append(s)
    Fmax = 20.

    def fresh(s):
        o = obs(s)
        return _M(_Rec(_Cell(_part(o, 'flow', True)), _Cell(o['phases'])), _Cell(_part(o, 'TP', True)))

    model = [fresh(s) for s in streams]

    def check(step):
        for i, (s, m) in enumerate(zip(streams, model)):
            o = obs(s)
            for part in parts:
                w.ensure(f'{step}: stream {i}: {part} as modelled (own changes kept, changes of unlinked streams not visible, of linked ones visible)',
                         _eq_close(_part(o, part, True), m.cell(part).v, Fmax), got=_part(o, part, True) if part == 'TP' else sorted((str(k), round(v, 6)) for k, v in _part(o, part, True).items()),
                         want=m.cell(part).v if part == 'TP' else sorted((str(k), round(v, 6)) for k, v in m.cell(part).v.items()))
            w.ensure(f'{step}: stream {i}: phase views consistent', views_consistent(w, s))
            w.ensure(f'{step}: stream {i}: flows read by (phase, ID) are its flows', by_name_ok(w, s))
        for i, j in itertools.combinations(range(len(streams)), 2):
            for part in parts:
                w.ensure(f'{step}: streams {i},{j}: {part} shared iff linked',
                         _part_shared(streams[i], streams[j], part) == (model[i].cell(part) is model[j].cell(part)))

    def flash(step, i, spec):
        s, m = streams[i], model[i]
        ref = _eq_fresh(th, obs(s))
        try:
            ref.vle(**EQ_SPECS[spec])
        except Exception as e:      # the call itself is not the subject here (C02-C04)
            w.note(**{f'{step}_outcome': type(e).__name__})
            return False
        try:
            s.vle(**EQ_SPECS[spec])
        except Exception as e:
            w.ensure(f'{step}: the call returns as it does on a fresh stream with the same flows, T and P', False, outcome=repr(e)[:200])
            return False
        o = obs(ref)
        m.rec.flow.v = _part(o, 'flow', True); m.TP.v = _part(o, 'TP', True)
        return True

    for step, op in enumerate(cfg['seq'], 1):
        k = op[0]
        idx = [int(c) for c in op[1:3] if c.isdigit()]
        if k == 'L':
            a, b = idx
            flags = LINK_CHOICES[op.split(':')[1]]
            streams[a].link_with(streams[b], *flags)
            ma, mb = model[a], model[b]
            if flags[0]: ma.rec.flow = mb.rec.flow
            if flags[2]: ma.TP = mb.TP
        elif k == 'U':
            a, = idx
            streams[a].unlink()
            m = model[a]
            model[a] = _M(_Rec(_Cell(dict(m.rec.flow.v)), _Cell(m.rec.phase.v)), _Cell(dict(m.TP.v)))
        elif k == 'K':
            a, b = idx
            streams[a].copy_like(streams[b])
            ma, mb = model[a], model[b]
            ma.rec.flow.v = dict(mb.rec.flow.v); ma.rec.phase.v = mb.rec.phase.v; ma.TP.v = dict(mb.TP.v)
        elif k == 'V':
            a, = idx
            streams[a].vle          # hands out (and caches) the equilibrium object; the stream has 'g' and 'l' already
        elif k in 'PFCR':
            a, = idx
            s, m = streams[a], model[a]
            if k == 'P':
                streams.append(s.proxy()); model.append(_M(m.rec, m.TP))
            elif k == 'F':
                streams.append(s.flow_proxy()); model.append(_M(_Rec(m.rec.flow, _Cell(m.rec.phase.v)), _Cell(dict(m.TP.v))))
            else:
                streams.append(s.copy() if k == 'C' else pickle.loads(pickle.dumps(s)))
                model.append(_M(_Rec(_Cell(dict(m.rec.flow.v)), _Cell(m.rec.phase.v)), _Cell(dict(m.TP.v))))
    check('after the history')
    if flash('call 1', cfg['on'], cfg['spec']):
        check('after call 1')
    if cfg['then']:
        u, j = cfg['then']
        streams[u].unlink()
        m = model[u]
        model[u] = _M(_Rec(_Cell(dict(m.rec.flow.v)), _Cell(m.rec.phase.v)), _Cell(dict(m.TP.v)))
        check('after unlink')
        if flash('call 2', j, 'TP'):
            check('after call 2')
    w.note(T=[round(s.T, 4) for s in streams], vapor=[round(float(s.imol['g'].sum()), 6) for s in streams])
    w.canary('canary (not evaluated in mode B): all streams end at the same T', len({round(s.T, 6) for s in streams}) == 1)
