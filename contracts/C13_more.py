# -*- coding: utf-8 -*-
"""
C13 - additional bounded group (added after the seeded change C13_5 was missed): the pickle round trip of a Chemical,
of a property package built on it and of a stream using it, when a chemical with the SAME ID sits in
`Chemical.chemical_cache` (every chemical created with cache=True does) and the pickled one is a customised variant
(phase-locked, other constants, other model set, copied under another name).  Unpickling has to reproduce the object
that was pickled, not whatever the process happens to remember under that ID.
"""
import pickle
import thermosteam as tmo
from engine.api import group

VARIANTS = ('stock', 'locked-s', 'locked-l', 'Tb', 'Hf', 'Tm+Hfus', 'phase_ref', 'renamed', 'models-from', 'method')
OBJECTS = ('chemical', 'chemicals', 'thermo', 'stream', 'multistream')


def configs(tier):
    out = []
    IDs = ('Water', 'Glucose') if tier == 'quick' else ('Water', 'Glucose', 'Ethanol', 'Octane')
    for ID in IDs:
        for variant in VARIANTS:
            for cached in ((True,) if tier == 'quick' else (True, False)):
                out.append({'name': f'{ID};{variant};cached={cached}', 'ID': ID, 'variant': variant, 'cached': cached})
    return out


def _variant(ID, variant):
    c = tmo.Chemical(ID, cache=False)
    if variant == 'locked-s': c.at_state('s')
    elif variant == 'locked-l': c.at_state('l')
    elif variant == 'Tb': c.Tb = c.Tb + 6.88
    elif variant == 'Hf': c.Hf = (c.Hf or 0.) - 1234.5
    elif variant == 'Tm+Hfus': c.Tm = c.Tm + 3.; c.Hfus = (c.Hfus or 1000.) * 1.25
    elif variant == 'phase_ref':
        c.phase_ref = 'g' if c.phase_ref != 'g' else 'l'
    elif variant == 'renamed': c = c.copy(ID)               # a copy under the same ID: its own model objects
    elif variant == 'models-from':
        other = tmo.Chemical('Methanol', cache=False)
        c.copy_models_from(other, ['Cn', 'mu'])
    elif variant == 'method':
        methods = list(c.Hvap.all_methods)
        if len(methods) > 1: c.Hvap.method = [m for m in methods if m != c.Hvap.method][0]
    return c


def _observe(c):
    """Observable state of a chemical: constants, lock, reference state, a few model values."""
    obs = {'ID': c.ID, 'CAS': c.CAS, 'locked_state': c.locked_state, 'phase_ref': c.phase_ref,
           'MW': c.MW, 'Tb': c.Tb, 'Tm': c.Tm, 'Tc': c.Tc, 'Hf': c.Hf, 'Hfus': c.Hfus, 'Sfus': c.Sfus, 'H_ref': c.H_ref, 'T_ref': c.T_ref}
    for T in (290., 330., 400.):
        for name in ('H', 'S', 'Cn', 'V', 'mu'):
            f = getattr(c, name, None)
            try:
                if c.locked_state: obs[f'{name}({T:g})'] = f(T, 101325.) if name in ('H', 'S', 'V') else f(T)
                else:
                    for ph in 'lg':
                        obs[f'{name}.{ph}({T:g})'] = f(ph, T, 101325.) if name in ('H', 'S', 'V') else getattr(f, ph)(T)
            except Exception as e:          # a model without data for this chemical: the same exception type is the observation
                obs[f'{name}({T:g})'] = type(e).__name__
        try: obs[f'Hvap({T:g})'] = c.Hvap(T)
        except Exception as e: obs[f'Hvap({T:g})'] = type(e).__name__
    try: obs['Hvap.method'] = c.Hvap.method
    except Exception: pass
    return obs


def _same(w, a, b):
    bad = []
    for k in a:
        x, y = a[k], b.get(k)
        if isinstance(x, float) and isinstance(y, float):
            if not w.eq(x, y): bad.append((k, x, y))
        elif x != y: bad.append((k, x, y))
    return bad


@group('C13/B_pickle_chemical_variants', configs=configs, mode='B',
       functions=['thermosteam._chemical:Chemical.__reduce__', 'thermosteam._chemical:unpickle_chemical',
                  'thermosteam._chemicals:CompiledChemicals.__reduce__', 'thermosteam._thermo:Thermo.__reduce__',
                  'thermosteam._stream:Stream.__reduce__', 'thermosteam._multi_stream:MultiStream.__reduce__'],
       notes='2 (quick) / 4 (thorough) database chemicals x 10 customisations (none, phase locks, Tb, Hf, Tm+Hfus, phase_ref, copy under the same ID, models copied '
             'from another chemical, another Hvap method) x the stock chemical of the same ID present in Chemical.chemical_cache (and absent, thorough); real pickle.dumps/loads of '
             'the chemical, the compiled chemicals, the Thermo, a Stream and a MultiStream built on it; observed: constants, lock, reference phase, H/S/Cn/V/mu/Hvap at 3 temperatures')
def pickle_chemical_variants(w, cfg):
    ID = cfg['ID']
    if cfg['cached']:
        tmo.Chemical(ID, cache=True)                       # the stock chemical, remembered by the process (ordinary use)
    else:
        tmo.Chemical.chemical_cache.pop(ID, None)
    c = _variant(ID, cfg['variant'])
    other = tmo.Chemical('Methanol' if ID != 'Methanol' else 'Propanol', cache=True)
    before = _observe(c)
    chems = tmo.CompiledChemicals([c, other])
    thermo = tmo.Thermo(chems)
    s = tmo.Stream(None, thermo=thermo, T=315., P=2e5, price=0.25, **{ID: 3., other.ID: 1.})
    ms = tmo.MultiStream(None, thermo=thermo, T=340., l=[(ID, 2.)], g=[(other.ID, 1.5)])
    roundtrips = {
        'chemical': lambda: pickle.loads(pickle.dumps(c)),
        'chemicals': lambda: getattr(pickle.loads(pickle.dumps(chems)), ID),
        'thermo': lambda: getattr(pickle.loads(pickle.dumps(thermo)).chemicals, ID),
        'stream': lambda: getattr(pickle.loads(pickle.dumps(s)).chemicals, ID),
        'multistream': lambda: getattr(pickle.loads(pickle.dumps(ms)).chemicals, ID),
    }
    for what in OBJECTS:
        c2 = roundtrips[what]()
        bad = _same(w, before, _observe(c2))
        w.ensure(f'pickle round trip of the {what}: the chemical has identical observable state', not bad, differs=str(bad[:4]))
    s2 = pickle.loads(pickle.dumps(s))
    w.ensure('pickle round trip of the stream: flows, T, P, price', w.And(w.all_eq(list(s2.mol.to_array()), list(s.mol.to_array())), w.eq(s2.T, s.T), w.eq(s2.P, s.P), w.eq(s2.price, s.price)))
    try:
        H0, F0 = s.H, s.F_mass
    except Exception:
        H0 = None                                    # the customised chemical has no enthalpy model for this phase: nothing to compare
    if H0 is not None:
        try:
            w.ensure('pickle round trip of the stream: H and F_mass', w.And(w.eq(s2.H, H0), w.eq(s2.F_mass, F0)), H=(s2.H, H0))
        except Exception as e:
            w.ensure('pickle round trip of the stream: H and F_mass', False, exception=f'{type(e).__name__}: {e}')
    after = _observe(c)
    w.ensure('pickling does not change the original', not _same(w, before, after))
    w.ensure('vacuity guard: the customised chemical differs from the stock one (or is the stock case)',
             cfg['variant'] in ('stock', 'renamed', 'method') or bool(_same(w, before, _observe(tmo.Chemical(ID, cache=False)))))
