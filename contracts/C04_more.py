# -*- coding: utf-8 -*-
"""
C04 - additional bounded group.  The seeded change C04_1 (a bubble-point object remembered without regard to the
activity-coefficient model of the package) only shows when TWO property packages on the same chemicals are used one after
the other IN ONE PROCESS; the groups of C04 reported it only when two of their configurations happened to be scheduled on
the same worker process (found when the seeded changes were re-run under load).  Here the history is one configuration.
Same clauses as C04/B_ideal_raoult (the flash with the ideal package agrees with an independent Raoult / Rachford-Rice
solution), evaluated after a flash of the same chemicals on the default (Dortmund) package.
"""
import numpy as np
from engine.api import group
from contracts.C04_flash_specifications import B_ideal_raoult, b_ideal_configs, b_stream, flash, b_warm, b_chem, NOT_NORMAL, _VLE


def configs(tier):
    base = b_ideal_configs(tier)
    picked = [c for c in base if c['name'].endswith(';z0;T=350')]
    if tier == 'quick': picked = picked[:3]
    return [dict(c, name='after-nonideal;' + c['name']) for c in picked]


@group('C04/B_two_packages_history', configs=configs, mode='B',
       functions=[_VLE + '__call__', _VLE + 'set_thermal_condition', 'thermosteam.equilibrium.bubble_point:BubblePoint.__new__',
                  'thermosteam.equilibrium.dew_point:DewPoint.__new__'],
       notes='3 (quick) / all equimolar T=350 K mixtures of C04/B_ideal_raoult: first a T,P flash of the same chemicals on the default (Dortmund) package in the same process, '
             'then the clauses of C04/B_ideal_raoult on the ideal package (independent Raoult / Rachford-Rice solution, 1e-6 of the feed)')
def two_packages_history(w, cfg):
    b_warm()
    IDs = cfg['IDs']; z = np.array(cfg['z']); T = cfg['T']
    Psats = np.array([b_chem(i).Psat(T) for i in IDs])
    P_mid = 0.5 * (float((z * Psats).sum()) + float(1. / (z / Psats).sum()))
    s0 = b_stream(IDs, z, F=100., ideal=False)
    try:
        flash(s0, T=T, P=P_mid)          # remembered bubble/dew point objects, instance caches ... of the non-ideal package
    except NOT_NORMAL as e:
        w.note(first_flash=repr(e)[:100])
    B_ideal_raoult(w, cfg)
