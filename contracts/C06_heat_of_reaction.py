# -*- coding: utf-8 -*-
"""
C06 -- heat of reaction and adiabatic reaction close the energy balance.

Contracts (sidecar) on the real functions of thermosteam/reaction/_reaction.py (Reaction.dH, ReactionItem.dH,
Reaction.__call__, Reaction.adiabatic_reaction as shared by ReactionSet / ReactionSystem), thermosteam/_stream.py
(Stream.Hf, Stream.Hnet, Stream.H setter) and thermosteam/_chemicals.py (CompiledChemicals._compile builds the
Hf / MW arrays).  Nothing is re-implemented: the reactions, streams and packages are the real objects.

What is symbolic
  * every stoichiometric coefficient, every conversion X in [0,1], every feed flow >= 0, T, P > 0, the heat input Q;
  * the chemicals' data the property talks about: heat of formation Hf, heat of fusion Hfus, heat of vaporisation
    Hvap (an uninterpreted function of T, so that "at 298.15 K" is part of what is checked) and, for the dH ladder,
    the molecular weights MW and the reference phase (enumerated).  They are PATCHED onto private Chemical objects
    (fresh `tmo.Chemical(ID)` instances owned by this file, never the shared W.chemical objects): attributes
    `_Hf`, `_MW`, `_phase_ref` before `Chemicals.compile()` (so the real `_compile` builds the Hf/MW arrays from
    them), `_Hfus`, `_Hvap` after it.  The original values are restored at the start of every path.
  * the enthalpy of the streams: W.stub_thermo (A-models: pure-component H uninterpreted; A-root for the
    temperature solve of the `H` setter), built over the private package.

Specification side (from the statement, not from the code)
  enthalpy levels of a chemical at 298.15 K:  s: 0,  l: Hfus,  g: Hfus + Hvap(298.15)
  latent(ref -> phase) = level(phase) - level(ref)          (the nine-entry table of the statement)
  dH = X * sum_k nu_k/|nu_r| * (Hf_k + latent_k) [/ MW_k on the weight basis]
  Hnet = H + sum_k Hf_k n_k
  isothermal:  Hnet' - Hnet = sum_i dH_i * (reactant fed to reaction i)   [parallel: from the feed; series/system:
               from the running composition]
  adiabatic:   Hnet' = Hnet + Q

The isothermal sentence and the temperature
  dH has no temperature argument: it is the heat of reaction at 298.15 K (latent heats at 298.15 K).  At another
  temperature the stream's sensible/latent enthalpy H also changes with the composition (sum_k nu_k h_k(T)), so the
  literal sentence can only hold where H does not change.  The groups therefore state
    C06/isothermal          (Hnet - H)' - (Hnet - H) = sum_i (dH_i - X_i * latent part_i) * fed_i      for every T, P
                            i.e. the literal sentence with the change of H at constant T made explicit (dH_i is what
                            the code reports, and is separately compared with the statement's table);
    C06/isothermal_literal  the literal sentence with H uninterpreted: refuted (kept visible, proposed known finding);
    C06/real_reactions (B)  the literal sentence at 298.15 K with every chemical in its reference phase, on real data.

Harness notes
  * reaction sets and everything under the adiabatic temperature solve use numeric stoichiometric coefficients
    (config names end in `fixed-nu`); single isothermal reactions and the dH ladder have symbolic coefficients;
  * molecular weights are symbolic only in C06/dH; the stream groups use the database values;
  * `forget(stream)` empties the stream's property memo before the post-state is read (memo coherence is C14);
  * the reactant fed is counted in the unit of the basis (kmol/hr or kg/hr), dH in J/mol or J/g.
"""
import os
import types
import numpy as np
import thermosteam as tmo
from thermosteam.exceptions import InfeasibleRegion
from thermosteam.base import SparseVector
from engine.api import group
from engine.sx import tmo_world as W

# engine option (engine/sx/sym.py, Ctx.prove): discharge each VC first on a fresh one-shot solver; the long-lived path
# solver is orders of magnitude slower on the nonlinear VCs of this property (products flow * X * Hf, n/F * F).
os.environ.setdefault('VERIF_PROVE_FRESH_MS', '8000')

RXN = 'thermosteam.reaction._reaction:'
IDS = ('Water', 'Ethanol', 'Methanol')
ORDERS = {'P': (0, 1, 2),        # the reaction's package
          'Q': (2, 0, 1)}        # same chemicals, other order (another package object) for the stream
PH = ('g', 'l')
T_REF = 298.15

# --------------------------------------------------------------------------- private chemicals (patched per path)

_FIELDS = ('_Hf', '_MW', '_Hfus', '_phase_ref', '_Hvap')
_PRIV, _ORIG = {}, {}


def _private(ID):
    c = _PRIV.get(ID)
    if c is None:
        c = _PRIV[ID] = tmo.Chemical(ID)          # cache=None: a fresh object nobody else holds
        _ORIG[ID] = {f: getattr(c, f) for f in _FIELDS}
    return c


for _i in IDS: _private(_i)                       # database access before the workers fork


class _HvapModel:
    """Stands in for the chemical's Hvap handle: an uninterpreted function of the temperature (A-models)."""
    def __init__(self, w, ID):
        self.f = w.fn(f'Hvap.{ID}')

    def __call__(self, T, *args):
        return self.f(T)


def packages(w, orders, refs=None, sym_MW=False):
    """
    Plant Hf (and MW, reference phase) on the private chemicals, compile one real package per requested order with the
    real Chemicals.compile, then plant Hfus and the Hvap model.  Returns ({order: CompiledChemicals}, data) with
    data[ID] = {'Hf','MW','Hfus','Hvap298','ref'} -- the leaves the specification side computes with.
    """
    for ID in IDS:
        c = _PRIV[ID]
        for f, v in _ORIG[ID].items(): setattr(c, f, v)
    data = {}
    for n, ID in enumerate(IDS):
        c = _PRIV[ID]
        if refs: c._phase_ref = refs[n]
        c._Hf = w.real(f'Hf.{ID}')
        if sym_MW: c._MW = w.real(f'MW.{ID}', lo=0., lo_strict=True)
        data[ID] = {'Hf': c._Hf, 'MW': c._MW, 'ref': c._phase_ref}
    pk = {}
    for o in orders:
        cs = tmo.Chemicals([_PRIV[IDS[i]] for i in ORDERS[o]])
        cs.compile()
        pk[o] = cs
    for ID in IDS:
        c = _PRIV[ID]
        c._Hfus = w.real(f'Hfus.{ID}')
        c._Hvap = _HvapModel(w, ID)
        data[ID]['Hfus'] = c._Hfus
        data[ID]['Hvap298'] = w.fn(f'Hvap.{ID}')(T_REF)
    return pk, data


def compile_clauses(w, chems, data, tag=''):
    """CompiledChemicals._compile: the Hf / MW arrays are [c.Hf], [c.MW] in the order of the package."""
    for i, ID in enumerate(chems.IDs):
        w.ensure(f'package{tag} Hf[{i}] is the heat of formation of chemical {i}', w.eq(chems.Hf[i], data[ID]['Hf']))
        w.ensure(f'package{tag} MW[{i}] is the molecular weight of chemical {i}', w.eq(chems.MW[i], data[ID]['MW']))


# --------------------------------------------------------------------------- specification side (the statement)

def level(d, phase):
    """Enthalpy level of a phase at 298.15 K relative to the solid."""
    return {'s': 0., 'l': d['Hfus'], 'g': d['Hfus'] + d['Hvap298']}[phase]


def latent(d, phase):
    """Latent heat between the chemical's reference phase and `phase` (0 when they coincide)."""
    return level(d, phase) - level(d, d['ref'])


class Spec:
    """One written reaction: coefficients nu[(phase|None, ID)], reactant key, conversion, basis."""
    def __init__(self, nu, r, X, basis):
        self.nu, self.r, self.X, self.basis = nu, r, X, basis


def spec_sum(sp, data, what):
    """sum_k nu_k/|nu_r| * term_k [/MW_k]; what = 'all' (Hf + latent) | 'latent' | 'Hf'."""
    tot = 0.
    for (ph, ID), v in sp.nu.items():
        d = data[ID]
        h = 0.
        if what in ('all', 'Hf'): h = h + d['Hf']
        if what in ('all', 'latent') and ph is not None: h = h + latent(d, ph)
        if sp.basis == 'wt': h = h / d['MW']
        tot = tot + (v / (-sp.nu[sp.r])) * h
    return tot


def spec_dH(sp, data):
    return sp.X * spec_sum(sp, data, 'all')


def spec_single(sp, u, feds):
    fed = u[sp.r]
    feds.append(fed)
    ext = fed * sp.X / (-sp.nu[sp.r])
    return {k: u[k] + ext * sp.nu[k] if k in sp.nu else u[k] for k in u}


def spec_apply(prog, u, feds):
    """State after the program; appends the reactant fed to every reaction (order of all_specs) to `feds`."""
    kind = prog['kind']
    if kind == 'single': return spec_single(prog['specs'][0], u, feds)
    if kind == 'parallel':
        new = dict(u)
        for sp in prog['specs']:                 # every extent from the FEED composition
            fed = u[sp.r]
            feds.append(fed)
            ext = fed * sp.X / (-sp.nu[sp.r])
            for k in sp.nu: new[k] = new[k] + ext * sp.nu[k]
        return new
    if kind == 'series':
        for sp in prog['specs']: u = spec_single(sp, u, feds)   # running composition
        return u
    if kind == 'system':
        for m in prog['members']: u = spec_apply(m, u, feds)
        return u
    raise AssertionError(kind)


def all_specs(prog):
    if prog['kind'] == 'system':
        return [s for m in prog['members'] for s in all_specs(m)]
    return prog['specs']


# --------------------------------------------------------------------------- building the real objects

_FIXED_NU = (2., 0.5, 3., -0.25, 1.5, 0.75)


def make_spec(w, tag, desc, basis, unit_reactant=False, nonzero=True, fixed=None):
    """desc = {'nu': [[ID, phase|None], ...], 'reactant': ID}: plants the coefficients (reactant < 0) and X in [0,1].
    unit_reactant: the reactant's coefficient is -1 and the others are the numbers `fixed` yields (the stoichiometry is
    then part of the configuration; conversions, flows and the chemicals' data stay symbolic)."""
    nu, r = {}, None
    for ID, ph in desc['nu']:
        if ID == desc['reactant']:
            r = (ph, ID)
            nu[ph, ID] = -1. if unit_reactant else w.real(f'{tag}.nu.{ID}', hi=0., hi_strict=True)
        elif unit_reactant and fixed is not None:
            nu[ph, ID] = next(fixed)
        else:
            nu[ph, ID] = w.real(f'{tag}.nu.{ID}', nonzero=nonzero)
    return Spec(nu, r, w.real(f'{tag}.X', lo=0., hi=1.), basis)


def make_rxn(sp, chems, tagged, phases=PH, cls=None):
    cls = cls or tmo.Reaction
    if tagged:
        d = {ID: (ph, v) for (ph, ID), v in sp.nu.items()}
        return cls(d, reactant=sp.r[1], X=sp.X, chemicals=chems, basis=sp.basis, phases=phases)
    d = {ID: v for (ph, ID), v in sp.nu.items()}
    return cls(d, reactant=sp.r[1], X=sp.X, chemicals=chems, basis=sp.basis)


def make_program(w, cfgprog, basis, chems, tagged, tag='rx', unit_reactant=False, fixed=None):
    kind = cfgprog['kind']
    if unit_reactant and fixed is None: fixed = iter(_FIXED_NU * 3)
    if kind == 'system':
        members, objs = [], []
        for n, m in enumerate(cfgprog['members']):
            p, o = make_program(w, m, basis, chems, tagged, f'{tag}{n}', unit_reactant, fixed)
            members.append(p); objs.append(o)
        return {'kind': 'system', 'members': members}, tmo.ReactionSystem(*objs)
    specs = [make_spec(w, f'{tag}{n}' if len(cfgprog['rxns']) > 1 else tag, d, basis, unit_reactant, fixed=fixed)
             for n, d in enumerate(cfgprog['rxns'])]
    rxns = [make_rxn(sp, chems, tagged) for sp in specs]
    if kind == 'single': obj = rxns[0]
    elif kind == 'parallel': obj = tmo.ParallelReaction(rxns)
    elif kind == 'series': obj = tmo.SeriesReaction(rxns)
    else: raise AssertionError(kind)
    return {'kind': kind, 'specs': specs}, obj


def reported_dHs(obj):
    """The heats of reaction the code reports, one per written reaction in the order of all_specs."""
    if isinstance(obj, tmo.ReactionSystem):
        return [v for m in obj.reactions for v in reported_dHs(m)]
    if isinstance(obj, tmo.reaction.ReactionSet):
        return [item.dH for item in obj]
    return [obj.dH]


def is_scalar(v):
    return np.ndim(v) == 0


def _plant(sv, i, v, kind):
    d = sv.dct
    if kind == 'zero': return
    if kind == 'pos' or not hasattr(d, 'put'):
        if kind == 'pos' or v: d[i] = v
    else:
        d.put(i, v)                  # contract level: candidate of undecided presence (no fork)


def stub_thermo_on(w, chems):
    """W.stub_thermo (A-models, A-root) over a private compiled package: registered under a private key for the call."""
    key = ('C06-private-package', id(chems))
    W._thermo[key] = types.SimpleNamespace(chemicals=chems)
    try:
        return W.stub_thermo(w, key)
    finally:
        del W._thermo[key]


class SolveFailed(RuntimeError):
    """What the stubbed temperature solver raises when the configuration says it fails."""


def failing(th, fail):
    """The first `fail` temperature solves raise (no root in the present phase): drives the H setter's fall-back."""
    mix = th.mixture
    base = type(mix)
    left = {'n': fail}
    log = []

    def wrap(name):
        real = getattr(base, name)

        def solve(self, *args):
            if left['n'] > 0:
                left['n'] -= 1
                log.append('raise')
                raise SolveFailed(f'{name}: no root in this phase (stub)')
            log.append('root')
            return real(self, *args)
        solve.__name__ = name
        return solve

    mix.__class__ = type('FailingStubMixture', (base,), {
        '__slots__': (), 'solve_T_at_HP': wrap('solve_T_at_HP'), 'xsolve_T_at_HP': wrap('xsolve_T_at_HP')})
    return log


class _NeverValid(list):
    """Key of the property memo that never records a state: every read of H, Hf, ... is computed from the present state.
    Whether the memo notices a change is property C14 (proved there); comparing the remembered and the present
    composition symbolically between two reactions is what made reaction SYSTEMS under the temperature solve intractable
    (and undecided, not caught, on the seeded change C06_4).  Trusted-base entry 'memo-off' of the C06 groups."""
    def __setitem__(self, i, v): pass


def make_stream(w, th, tagged, phase, present, name='s'):
    """Real Stream (phase) / MultiStream (PH) on `th` with planted flows >= 0, T, P > 0.
    present: {(phase|None, ID): 'pos'|'maybe'|'zero'}, default 'zero'.  Returns (stream, read, feed)."""
    IDs = th.chemicals.IDs
    s = tmo.MultiStream(None, phases=PH, thermo=th) if tagged else tmo.Stream(None, thermo=th, phase=phase)
    feed = {}
    for ph, sv in W.rows_of(s):
        for j, ID in enumerate(IDs):
            key = ((ph if tagged else None), ID)
            kind = present.get(key, 'zero')
            v = 0. if kind == 'zero' else w.real(f'{name}.{ph}.{ID}', lo=0., lo_strict=(kind == 'pos'))
            feed[key] = v
            _plant(sv, j, v, kind)
    s.T = w.real(f'{name}.T', lo=0., lo_strict=True)
    s.P = w.real(f'{name}.P', lo=0., lo_strict=True)
    if isinstance(s._property_cache_key, list): s._property_cache_key = _NeverValid([None, None])

    def read():
        out = {}
        cur = s.chemicals.IDs
        for ph, sv in W.rows_of(s):
            for j, ID in enumerate(cur):
                out[(ph if tagged else None), ID] = sv.dct.get(j, 0.)
        return out
    return s, read, feed


def forget(s):
    """Empty the stream's property memo so that the next read is computed from the present state.  (Whether the memo
    would have noticed the change is property C14; comparing the old and the new composition symbolically is what makes
    it expensive here.)"""
    key = s._property_cache_key
    if isinstance(key, _NeverValid): pass
    elif isinstance(key, list): key[:] = (None, None)   # the key list may be shared with proxies: emptied in place
    else: s._property_cache_key = (None, None)
    s._property_cache.clear()


def formation_flow(data, state, mw=None):
    """sum_k Hf_k n_k for a state in mol (or, with mw, in mass units)."""
    return sum([data[ID]['Hf'] * (v / mw[ID] if mw else v) for (ph, ID), v in state.items()], 0.)


def snapshot_rxn(obj):
    """Observable definition of a reaction object (frame clauses)."""
    if isinstance(obj, tmo.ReactionSystem):
        return [snapshot_rxn(i) for i in obj._reactions]
    st = obj._stoichiometry
    sts = st if isinstance(st, list) else [st]
    dense = []
    for a in sts:
        for rw in (a.rows if hasattr(a, 'rows') else [a]):
            dense.append([rw.dct.get(j, 0.) for j in range(rw.size)])
    X = obj._X
    return {'st': dense, 'X': list(X) if hasattr(X, '__iter__') else [X], 'basis': obj._basis,
            'r': str(obj._reactant_index), 'chem': obj.chemicals.IDs, 'phases': obj._phases}


def same_rxn(w, a, b):
    if isinstance(a, list):
        return w.And(*[same_rxn(w, i, j) for i, j in zip(a, b)])
    if (a['basis'], a['r'], a['chem'], a['phases']) != (b['basis'], b['r'], b['chem'], b['phases']) or len(a['st']) != len(b['st']):
        return w.And(False)
    cs = [w.eq(x, y) for ra, rb in zip(a['st'], b['st']) for x, y in zip(ra, rb)]
    cs += [w.eq(x, y) for x, y in zip(a['X'], b['X'])]
    return w.And(*cs)


# --------------------------------------------------------------------------- structure families

def _desc(ids, reactant, phases=None):
    return {'nu': [[i, (phases[n] if phases else None)] for n, i in enumerate(ids)], 'reactant': reactant}


def programs(tier, tagged):
    """Named reaction structures: which chemicals carry a coefficient, which is the reactant, how they are combined."""
    a, b, c = IDS
    t = (lambda pat: pat) if tagged else (lambda pat: None)
    d1 = _desc((a, b), a, t('lg'))
    d2 = _desc((b, c), b, t('gl'))
    d3 = _desc(IDS, a, t('lgg'))
    d4 = _desc((a, c), c, t('ll'))
    d5 = _desc(IDS, b, t('lgl'))
    S = lambda d: {'kind': 'single', 'rxns': [d]}
    out = {
        'single[a>bc]': S(d3),
        'single[a>b]': S(d1),
        'single[b>ac]': S(d5),
        'parallel[a>b|b>c]': {'kind': 'parallel', 'rxns': [d1, d2]},
        'series[a>b;b>c]': {'kind': 'series', 'rxns': [d1, d2]},
        'parallel[a>b|a>bc]': {'kind': 'parallel', 'rxns': [d1, d3]},      # same reactant twice
        'system[par(a>b|b>c);c>a]': {'kind': 'system', 'members': [{'kind': 'parallel', 'rxns': [d1, d2]}, S(d4)]},
        'system[a>b;b>c]': {'kind': 'system', 'members': [S(d1), S(d2)]},
    }
    if tier == 'thorough':
        out.update({
            'single[c>a]': S(d4),
            'series[a>b;a>bc]': {'kind': 'series', 'rxns': [d1, d3]},
            'system[ser(a>b;b>c);c>a]': {'kind': 'system', 'members': [{'kind': 'series', 'rxns': [d1, d2]}, S(d4)]},
            'parallel3[a>b|b>c|c>a]': {'kind': 'parallel', 'rxns': [d1, d2, d4]},
            'series3[a>b;b>c;c>a]': {'kind': 'series', 'rxns': [d1, d2, d4]},
        })
    return out


def _n_rxns(prog):
    return sum(_n_rxns(m) for m in prog['members']) if prog['kind'] == 'system' else len(prog['rxns'])


def _keys_of(prog):
    if prog['kind'] == 'system':
        return [k for m in prog['members'] for k in _keys_of(m)]
    return [(ph, ID) for d in prog['rxns'] for ID, ph in d['nu']]


def _reactants_of(prog):
    if prog['kind'] == 'system':
        return [k for m in prog['members'] for k in _reactants_of(m)]
    return [(ph, ID) for d in prog['rxns'] for ID, ph in d['nu'] if ID == d['reactant']]


def presence(prog, tagged, phase, flows):
    """
    Which flows are planted (all others are 0).
      'lean'      the first reaction's reactant is certainly fed, the reactants of the other reactions may be absent,
                  plus one bystander that takes no part (phase-tagged: a chemical in a phase the reactions do not name);
      'first-pos' the first reactant is certainly fed, every other chemical taking part may be absent, one bystander;
      'maybe'     every chemical taking part may be absent (the stream may be empty).
    """
    keys = list(dict.fromkeys(_keys_of(prog)))
    reactants = list(dict.fromkeys(_reactants_of(prog)))
    p = {}
    if flows == 'lean':
        for k in reactants: p[k] = 'maybe'
        p[reactants[0]] = 'pos'
    else:
        for k in keys: p[k] = 'maybe'
        if flows == 'first-pos': p[reactants[0]] = 'pos'
    used = set(keys)
    for ID in reversed(IDS):
        for ph in (PH if tagged else (None,)):
            if (ph, ID) not in used:
                p[ph, ID] = 'maybe'
                return p
    return p


# =========================================================================== 1. Reaction.dH against the statement's table

PAIRS = [(r, p) for r in 'lgs' for p in 'lgs']        # (reference phase, phase named in the reaction)


def dH_configs(tier):
    out = []
    n = len(PAIRS)
    # every (reference phase, tagged phase) pair occurs for the reactant, for a product and for a third chemical
    combos = [(PAIRS[i], PAIRS[(i + 4) % n], PAIRS[(i + 8) % n]) for i in range(n)]
    if tier == 'thorough':
        combos = [(x, y, PAIRS[(i + j) % n]) for i, x in enumerate(PAIRS) for j, y in enumerate(PAIRS)]
    for combo in combos:
        refs = ''.join(r for r, p in combo)
        tags = ''.join(p for r, p in combo)
        for basis in ('mol', 'wt'):
            out.append({'name': f'single;refs={refs};tags={tags};{basis}', 'kind': 'single', 'refs': refs, 'tags': tags, 'basis': basis})
    for basis in ('mol', 'wt'):
        out.append({'name': f'single;phase-less;{basis}', 'kind': 'single', 'refs': 'lgs', 'tags': None, 'basis': basis})
        out.append({'name': f'single;phase-less;{basis};coefficient may be 0', 'kind': 'single', 'refs': 'lgs', 'tags': None,
                    'basis': basis, 'maybe0': True})
    out.append({'name': 'single;refs=lgs;tags=gls;mol;coefficient may be 0', 'kind': 'single', 'refs': 'lgs', 'tags': 'gls',
                'basis': 'mol', 'maybe0': True})
    # the same reaction on both bases (basis setter): per unit mass of reactant
    out.append({'name': 'convert;phase-less', 'kind': 'convert', 'refs': 'lll', 'tags': None, 'basis': 'mol'})
    out.append({'name': 'convert;refs=lgs;tags=gsl', 'kind': 'convert', 'refs': 'lgs', 'tags': 'gsl', 'basis': 'mol'})
    # members of reaction sets report their own heat of reaction; kinetic reactions (conversion 1)
    for kind in ('parallel', 'series'):
        for tags, refs in ((None, 'lll'), ('lgl', 'lgs')):
            for basis in (('mol', 'wt') if tier == 'thorough' or tags is None else ('mol',)):
                out.append({'name': f'{kind}-items;{"phase-less" if tags is None else "refs=" + refs + ";tags=" + tags};{basis}',
                            'kind': kind, 'refs': refs, 'tags': tags, 'basis': basis})
    out.append({'name': 'kinetic;phase-less', 'kind': 'kinetic', 'refs': 'lll', 'tags': None, 'basis': 'mol'})
    out.append({'name': 'kinetic;refs=lgs;tags=gls', 'kind': 'kinetic', 'refs': 'lgs', 'tags': 'gls', 'basis': 'mol'})
    return out


class _Kinetic(tmo.KineticReaction):
    """Concrete kinetic reaction (rate/volume are not used by dH)."""
    def rate(self, stream): return 0.
    def volume(self, stream): return 1.


@group('C06/dH', configs=dH_configs, l0=True,
       functions=[RXN + 'Reaction.dH', RXN + 'ReactionItem.dH', RXN + 'KineticReaction.dH', RXN + 'Reaction.__init__',
                  RXN + 'Reaction._rescale', RXN + 'set_reaction_basis', RXN + 'ReactionSet.__init__',
                  RXN + 'ReactionSet.__iter__', RXN + 'ReactionSet.__getitem__',
                  'thermosteam._chemicals:CompiledChemicals._compile', 'thermosteam._chemicals:chemical_data_array'],
       assumptions=['A-models'])
def dH(w, cfg):
    """Reported heat of reaction = X * sum nu_k (Hf_k + latent(ref_k -> phase_k)) [/MW_k]; table from the statement."""
    W.reset_caches()
    tags, basis, kind = cfg['tags'], cfg['basis'], cfg['kind']
    tagged = tags is not None
    pk, data = packages(w, ['P'], refs=cfg['refs'], sym_MW=True)
    chems = pk['P']
    compile_clauses(w, chems, data)
    phases = tuple(sorted(set(tags))) if tagged else None
    Hf0 = list(chems.Hf)
    if kind in ('single', 'convert', 'kinetic'):
        sp = make_spec(w, 'rx', _desc(IDS, IDS[0], tags), basis, nonzero=not cfg.get('maybe0'))
        if kind == 'kinetic':
            sp.X = 1.
            d = {ID: ((ph, v) if tagged else v) for (ph, ID), v in sp.nu.items()}
            rxn = _Kinetic(d, chemicals=chems, reactant=IDS[0], **({'phases': phases} if tagged else {}))
        else:
            rxn = make_rxn(sp, chems, tagged, phases)
        pre = snapshot_rxn(rxn)
        got = rxn.dH
        w.ensure('dH is a number', is_scalar(got))
        if not is_scalar(got): return
        w.ensure('dH = X * sum nu_k (Hf_k + latent_k) [/MW_k]', w.eq(got, spec_dH(sp, data)))
        w.ensure('reading dH leaves the reaction alone', same_rxn(w, pre, snapshot_rxn(rxn)))
        if kind == 'convert':
            rxn.basis = 'wt'
            got_wt = rxn.dH
            w.ensure('dH by weight * MW of the reactant = dH by mol', w.eq(got_wt * data[sp.r[1]]['MW'], got))
            w.ensure('conversion unchanged by the basis change', w.eq(rxn.X, sp.X))
        w.canary('canary: dH = spec + 1', w.eq(got, spec_dH(sp, data) + 1))
        if tagged and any(r != t for r, t in zip(cfg['refs'], tags)):
            w.canary('canary: latent heats do not matter', w.eq(got, sp.X * spec_sum(sp, data, 'Hf')))
        w.note(dH=got)
    else:
        a, b, c = IDS
        descs = [_desc((a, b), a, tags[:2] if tagged else None), _desc((b, c), b, tags[1:] if tagged else None)]
        specs = [make_spec(w, f'rx{n}', d, basis) for n, d in enumerate(descs)]
        rxns = [make_rxn(sp, chems, tagged, phases) for sp in specs]
        obj = (tmo.ParallelReaction if kind == 'parallel' else tmo.SeriesReaction)(rxns)
        pre = snapshot_rxn(obj)
        for how, items in (('iterated', list(obj)), ('indexed', [obj[0], obj[1]])):
            for n, (item, sp) in enumerate(zip(items, specs)):
                got = item.dH
                w.ensure(f'dH of member {n} ({how}) is a number', is_scalar(got), shape=str(np.shape(got)))
                if is_scalar(got):
                    w.ensure(f'dH of member {n} ({how}) = X_{n} * sum nu_k (Hf_k + latent_k) [/MW_k]', w.eq(got, spec_dH(sp, data)))
                    w.canary(f'canary: member {n} reports the other conversion', w.eq(got, specs[1 - n].X * spec_sum(sp, data, 'all')))
        w.ensure('reading dH leaves the reaction set alone', same_rxn(w, pre, snapshot_rxn(obj)))
        w.canary('canary: conversions are all equal', w.eq(specs[0].X, specs[1].X))
    w.ensure('package Hf array unchanged', w.all_eq(list(chems.Hf), Hf0))


# =========================================================================== 2. Stream.Hf / Stream.Hnet

def hf_configs(tier):
    out = []
    for kind in ('l', 'g', 'gl'):
        for pkg in ('P', 'Q'):
            out.append({'name': f'phases={kind};pkg={pkg}', 'kind': kind, 'pkg': pkg})
            # the heats of formation are revised after compiling and the package refreshed as documented
            # (added after the seeded change C06_3: refresh_constants no longer rebuilt the Hf array)
            out.append({'name': f'phases={kind};pkg={pkg};Hf-revised', 'kind': kind, 'pkg': pkg, 'revise': True})
    return out


@group('C06/Hf_Hnet', configs=hf_configs, l0=True,
       functions=['thermosteam._stream:Stream.Hf', 'thermosteam._stream:Stream.Hnet', 'thermosteam._stream:Stream.H',
                  'thermosteam._multi_stream:MultiStream.mol', 'thermosteam._multi_stream:MultiStream.H',
                  'thermosteam._chemicals:CompiledChemicals._compile', 'thermosteam._chemicals:CompiledChemicals.refresh_constants'],
       assumptions=['A-models'])
def Hf_Hnet(w, cfg):
    """Hf = sum_k Hf_k * (total flow of k), Hnet = H + Hf; reading them changes nothing."""
    W.reset_caches()
    tagged = len(cfg['kind']) > 1
    pk, data = packages(w, [cfg['pkg']])
    chems = pk[cfg['pkg']]
    compile_clauses(w, chems, data)
    th = stub_thermo_on(w, chems)
    present = {((ph if tagged else None), ID): 'maybe' for ph in (PH if tagged else (None,)) for ID in IDS}
    s, read, feed = make_stream(w, th, tagged, cfg['kind'], present)
    if cfg.get('revise'):
        for ID in IDS:
            _PRIV[ID]._Hf = data[ID]['Hf'] = w.real(f'Hf2.{ID}')
        chems.refresh_constants()
        compile_clauses(w, chems, data, tag=' after refresh_constants')
    T0, P0 = s.T, s.P
    Hf = s.Hf
    H = s.H
    Hnet = s.Hnet
    w.ensure('Hf = sum_k Hf_k * total flow of k', w.eq(Hf, formation_flow(data, feed)))
    w.ensure('Hnet = H + Hf', w.eq(Hnet, H + Hf))
    after = read()
    w.ensure('flows, T, P unchanged by reading', w.And(w.eq(s.T, T0), w.eq(s.P, P0), *[w.eq(after[k], feed[k]) for k in feed]))
    w.canary('canary: Hnet = H', w.eq(Hnet, H))
    w.canary('canary: Hf = 0', w.eq(Hf, 0.))


# =========================================================================== 3. isothermal reaction

def _stream_cfgs(tier, what):
    """(reaction structure) x (plain | phase-tagged) x basis x stream package x presence pattern x feed phase."""
    out = []
    adia = what == 'adia'
    quick = tier == 'quick'
    for tagged in (False, True):
        progs = programs(tier, tagged)
        for pname, prog in progs.items():
            # symbolic stoichiometric coefficients for single reactions; for reaction sets (and under the temperature solve
            # of the adiabatic method) the coefficients are numbers of the configuration (X, flows, Hf, ... stay symbolic)
            fixed = _n_rxns(prog) >= 2 or adia
            single = pname == 'single[a>bc]'
            variants = [('mol', 'P', 'lean', 'l')]
            if quick:
                if single:
                    variants += [('wt', 'P', 'lean', 'l'), ('mol', 'Q', 'lean', 'l')]
                    if not tagged: variants += [('mol', 'P', 'lean', 'g')]
                    if not tagged and not adia: variants += [('mol', 'P', 'maybe', 'l')]
                if pname in ('parallel[a>b|b>c]', 'series[a>b;b>c]') and not adia:
                    variants += [('wt', 'Q', 'lean', 'l')]
                if adia and not (single or (pname in ('parallel[a>b|b>c]', 'series[a>b;b>c]', 'system[a>b;b>c]') and not tagged)):
                    continue      # one two-reaction set per reaction class (Reaction, Parallel-, SeriesReaction, ReactionSystem:
                                  # the seeded change C06_4 gave ReactionSystem its own adiabatic_reaction); larger sets differ
                                  # only in the isothermal call, which C06/isothermal covers, and run in the thorough tier
                if not adia and pname == 'system[a>b;b>c]':
                    continue      # isothermal: the three-reaction system above covers the class in the quick tier
            elif adia:
                big = _n_rxns(prog) >= 3
                if big and (tagged or prog['kind'] != 'system'):
                    continue      # three reactions under the temperature solve: minutes per path, no new code path
                if not tagged and not big: variants += [('wt', 'Q', 'lean', 'l')]
                if single: variants += [('wt', 'P', 'lean', 'l'), ('mol', 'Q', 'lean', 'l'), ('mol', 'P', 'first-pos', 'l'), ('mol', 'P', 'maybe', 'l')]
                if single and not tagged: variants += [('mol', 'P', 'lean', 'g')]
            else:
                variants = [(b, k, 'lean', 'l') for b in ('mol', 'wt') for k in ('P', 'Q')]
                if _n_rxns(prog) <= 2:
                    variants += [('mol', 'P', 'first-pos', 'l'), ('wt', 'Q', 'first-pos', 'l'), ('mol', 'P', 'maybe', 'l')]
                if not tagged: variants += [('mol', 'P', 'lean', 'g')]
            for basis, pkg, flows, phase in variants:
                nm = (f'{"tagged" if tagged else "plain"};{pname};{basis};pkg={pkg};flows={flows}' + ('' if tagged else f';phase={phase}')
                      + (';fixed-nu' if fixed else ''))
                out.append({'name': nm, 'tagged': tagged, 'prog': prog, 'basis': basis, 'pkg': pkg, 'flows': flows,
                            'phase': phase, 'unit': fixed, 'refs': 'lgs' if tagged else None})
    return out


def iso_configs(tier):
    return _stream_cfgs(tier, 'iso')


def _world(w, cfg):
    """Private package(s), stub thermo, reaction program, stream; everything the stream groups share."""
    tagged, basis = cfg['tagged'], cfg['basis']
    orders = ['P'] if cfg['pkg'] == 'P' else ['P', cfg['pkg']]
    pk, data = packages(w, orders, refs=cfg.get('refs'))
    rchems, schems = pk['P'], pk[cfg['pkg']]
    for o in orders: compile_clauses(w, pk[o], data, tag=f' {o}')
    th = stub_thermo_on(w, schems)
    prog, obj = make_program(w, cfg['prog'], basis, rchems, tagged, unit_reactant=cfg.get('unit', False))
    present = presence(cfg['prog'], tagged, cfg['phase'], cfg['flows'])
    s, read, feed = make_stream(w, th, tagged, cfg['phase'], present)
    mw = {ID: data[ID]['MW'] for ID in IDS}
    return data, th, prog, obj, s, read, feed, mw


def _units(state, mw, by_mass):
    return {k: (v * mw[k[1]] if by_mass else v) for k, v in state.items()}


def _isothermal(w, cfg, literal):
    W.reset_caches()
    tagged, basis = cfg['tagged'], cfg['basis']
    data, th, prog, obj, s, read, feed, mw = _world(w, cfg)
    by_mass = basis == 'wt'
    u = _units(feed, mw, by_mass)
    feds = []
    e = spec_apply(prog, u, feds)
    specs = all_specs(prog)
    pre = snapshot_rxn(obj)
    T0, P0, phases0 = s.T, s.P, tuple(p for p, _ in W.rows_of(s))
    Hf_arr0 = list(s.chemicals.Hf)
    H0, Hf0, Hnet0 = s.H, s.Hf, s.Hnet
    dHs = reported_dHs(obj)
    try:
        obj(s)
    except InfeasibleRegion:
        w.ensure('InfeasibleRegion only if a flow would be negative', w.Or(*[w.lt(e[k], 0.) for k in e]))
        return
    forget(s)
    H1, Hf1, Hnet1 = s.H, s.Hf, s.Hnet
    got = read()
    feasible = w.And(*[w.ge(e[k], 0.) for k in e])
    scalar = all(is_scalar(v) for v in dHs)
    if literal:
        w.ensure('every reported heat of reaction is a number', scalar)
        if scalar:
            heat = sum([dh * fed for dh, fed in zip(dHs, feds)], 0.)
            w.ensure('literal: Hnet after - Hnet before = sum_i dH_i * reactant fed to i', w.Implies(feasible, w.eq(Hnet1 - Hnet0, heat)))
            w.canary('canary: Hnet unchanged', w.eq(Hnet1, Hnet0))
        return
    w.ensure('isothermal: T and P unchanged', w.And(w.eq(s.T, T0), w.eq(s.P, P0)))
    w.ensure('phases unchanged', tuple(p for p, _ in W.rows_of(s)) == phases0)
    w.ensure('Hf before = sum_k Hf_k n_k', w.eq(Hf0, formation_flow(data, feed)))
    w.ensure('Hf after = sum_k Hf_k n_k', w.eq(Hf1, formation_flow(data, got)))
    w.ensure('Hnet = H + Hf before and after', w.And(w.eq(Hnet0, H0 + Hf0), w.eq(Hnet1, H1 + Hf1)))
    for n, (dh, sp) in enumerate(zip(dHs, specs)):
        w.ensure(f'reported dH of reaction {n} is a number', is_scalar(dh), shape=str(np.shape(dh)))
        if is_scalar(dh):
            w.ensure(f'reported dH of reaction {n} = X * sum nu_k (Hf_k + latent_k) [/MW_k]', w.eq(dh, spec_dH(sp, data)))
    if scalar:
        # the part of dH that is heat of formation (dH minus the latent heats at 298.15 K, which the stream carries in H)
        heat = sum([(dh - sp.X * spec_sum(sp, data, 'latent')) * fed for dh, sp, fed in zip(dHs, specs, feds)], 0.)
        w.ensure('(Hnet - H) after - (Hnet - H) before = sum_i (dH_i - latent part) * reactant fed to i',
                 w.Implies(feasible, w.eq((Hnet1 - H1) - (Hnet0 - H0), heat)))
        w.canary('canary: formation enthalpy flow unchanged', w.eq(Hnet1 - H1, Hnet0 - H0))
    w.ensure('reaction object unchanged', same_rxn(w, pre, snapshot_rxn(obj)))
    w.ensure('package Hf array unchanged', w.all_eq(list(s.chemicals.Hf), Hf_arr0))
    w.note(Hnet0=Hnet0, Hnet1=Hnet1, dH=dHs, fed=feds)


_STREAM_FUNCS = [RXN + 'Reaction.__call__', RXN + 'as_material_array', RXN + 'Reaction._reaction',
                 RXN + 'ParallelReaction._reaction', RXN + 'SeriesReaction._reaction', RXN + 'ReactionSystem._reaction',
                 RXN + 'Reaction.dH', RXN + 'ReactionItem.dH', 'thermosteam._stream:Stream.Hnet', 'thermosteam._stream:Stream.Hf',
                 'thermosteam._stream:Stream.H', 'thermosteam._multi_stream:MultiStream.H',
                 'thermosteam._chemicals:CompiledChemicals._compile']


@group('C06/isothermal', configs=iso_configs, l0=True, functions=_STREAM_FUNCS, assumptions=['A-models'])
def isothermal(w, cfg):
    """reaction(stream) at constant T: the formation-enthalpy flow changes by the heat of reaction times the reactant fed."""
    _isothermal(w, cfg, literal=False)


def literal_configs(tier):
    keep = ('plain;single[a>bc];mol;pkg=P;flows=lean;phase=l', 'tagged;single[a>bc];mol;pkg=P;flows=lean',
            'plain;parallel[a>b|b>c];mol;pkg=P;flows=lean;phase=l;fixed-nu')
    return [dict(c, unit=True, name=c['name'].replace(';fixed-nu', '') + ';fixed-nu') for c in _stream_cfgs('quick', 'iso') if c['name'] in keep]


@group('C06/isothermal_literal', configs=literal_configs, l0=True, functions=_STREAM_FUNCS, assumptions=['A-models'])
def isothermal_literal(w, cfg):
    """The statement's second sentence read literally, at an arbitrary temperature (H uninterpreted)."""
    _isothermal(w, cfg, literal=True)


# =========================================================================== 4. adiabatic reaction

def adia_configs(tier):
    out = []
    for c in _stream_cfgs(tier, 'adia'):
        base = c['basis'] == 'mol' and c['pkg'] == 'P' and c['flows'] == 'lean' and c['phase'] == 'l'
        single = 'single[a>bc]' in c['name']
        combos = [('Q', 0)]
        if base and single:
            combos += [('Q', 1)] + ([('default', 0)] if not c['tagged'] or tier == 'thorough' else [])
            if tier == 'thorough': combos += [('default', 1)]
        elif base and tier == 'thorough' and not c['tagged']:
            combos += [('Q', 1)]
        for q, fail in combos:
            out.append(dict(c, name=c['name'] + f';Q={q};fail={fail}', Q=q, fail=fail))
    out.append({'name': 'not-a-stream', 'tagged': False, 'prog': programs('quick', False)['single[a>bc]'], 'basis': 'mol', 'pkg': 'P',
                'flows': 'first-pos', 'phase': 'l', 'unit': False, 'refs': None, 'Q': 'Q', 'fail': 0, 'notstream': True})
    return out


@group('C06/adiabatic', configs=adia_configs, l0=True,
       functions=[RXN + 'Reaction.adiabatic_reaction'] + _STREAM_FUNCS + ['thermosteam._stream:Stream.isempty'],
       assumptions=['A-models', 'A-root'])
def adiabatic(w, cfg):
    """adiabatic_reaction(stream, Q): Hnet after = Hnet before + Q (A-root for the temperature solve of the H setter)."""
    W.reset_caches()
    tagged, basis = cfg['tagged'], cfg['basis']
    data, th, prog, obj, s, read, feed, mw = _world(w, cfg)
    log = failing(th, cfg['fail'])
    Q = w.real('Q') if cfg['Q'] == 'Q' else 0.
    by_mass = basis == 'wt'
    u = _units(feed, mw, by_mass)
    feds = []
    e = spec_apply(prog, u, feds)
    pre = snapshot_rxn(obj)
    if cfg.get('notstream'):
        arr = SparseVector([feed[None, ID] for ID in IDS])
        try:
            obj.adiabatic_reaction(arr, Q)
            w.ensure('a bare array is refused (ValueError)', False)
        except ValueError:
            w.ensure('refused array unchanged', w.And(*[w.eq(arr.dct.get(j, 0.), feed[None, ID]) for j, ID in enumerate(IDS)]))
            w.canary('canary: array was reacted', w.ne(arr.dct.get(0, 0.), feed[None, IDS[0]]))
        return
    T0, P0, phases0 = s.T, s.P, tuple(p for p, _ in W.rows_of(s))
    Hf_arr0 = list(s.chemicals.Hf)
    Hnet0 = s.Hnet
    try:
        if cfg['Q'] == 'Q': obj.adiabatic_reaction(s, Q)
        else: obj.adiabatic_reaction(s)
    except InfeasibleRegion:
        w.ensure('InfeasibleRegion only if a flow would be negative', w.Or(*[w.lt(e[k], 0.) for k in e]))
        return
    except SolveFailed:
        w.ensure('solver failure is passed on only where no other phase can be tried', tagged)
        return
    forget(s)
    Hnet1 = s.Hnet
    got = read()
    gu = _units(got, mw, by_mass)
    w.ensure('Hnet after = Hnet before + Q', w.eq(Hnet1, Hnet0 + Q))
    feasible = w.And(*[w.ge(e[k], 0.) for k in e])
    if cfg['fail'] == 0 or tagged:
        w.ensure('material reacted as by the isothermal call', w.Implies(feasible, w.And(*[w.eq(gu[k], e[k]) for k in e])))
        w.ensure('phases unchanged when the solve succeeds', tuple(p for p, _ in W.rows_of(s)) == phases0)
    else:
        tot = lambda st: {ID: sum([v for (ph, i), v in st.items() if i == ID], 0.) for ID in IDS}
        w.ensure('fall-back flips l <-> g and keeps the reacted material',
                 w.And(s.phase == {'l': 'g', 'g': 'l'}[cfg['phase']],
                       w.Implies(feasible, w.And(*[w.eq(tot(gu)[ID], tot(e)[ID]) for ID in IDS]))))
    w.ensure('P unchanged', w.eq(s.P, P0))
    w.ensure('reaction object unchanged', same_rxn(w, pre, snapshot_rxn(obj)))
    w.ensure('package Hf array unchanged', w.all_eq(list(s.chemicals.Hf), Hf_arr0))
    w.canary('canary: Hnet after = Hnet before + Q + 1', w.eq(Hnet1, Hnet0 + Q + 1))
    w.canary('canary: T never moves', w.eq(s.T, T0))
    w.note(Hnet0=Hnet0, Hnet1=Hnet1, T0=T0, T=s.T, log=list(log))


# =========================================================================== 5. bounded: real chemicals, real solvers (mode B)

REAL = [  # (reaction, reactant, chemicals); stoichiometry completed by correct_atomic_balance
    ('H2 + O2 -> H2O', 'H2', ('H2', 'O2', 'H2O')),
    ('CH4 + O2 -> CO2 + H2O', 'CH4', ('CH4', 'O2', 'CO2', 'H2O')),
    ('Ethanol + O2 -> CO2 + H2O', 'Ethanol', ('Ethanol', 'O2', 'CO2', 'H2O')),
    ('Methanol + O2 -> CO2 + H2O', 'Methanol', ('Methanol', 'O2', 'CO2', 'H2O')),
    ('CO + O2 -> CO2', 'CO', ('CO', 'O2', 'CO2')),
    ('CO + H2O -> CO2 + H2', 'CO', ('CO', 'H2O', 'CO2', 'H2')),
    ('Glucose -> Ethanol + CO2', 'Glucose', ('Glucose', 'Ethanol', 'CO2', 'H2O')),
    ('Ethanol -> Ethylene + H2O', 'Ethanol', ('Ethanol', 'Ethylene', 'H2O')),
    ('AceticAcid + Ethanol -> EthylAcetate + H2O', 'AceticAcid', ('AceticAcid', 'Ethanol', 'EthylAcetate', 'H2O')),
    ('N2 + H2 -> NH3', 'N2', ('N2', 'H2', 'NH3')),
    ('Propane + O2 -> CO2 + H2O', 'Propane', ('Propane', 'O2', 'CO2', 'H2O')),
    ('CO + H2 -> Methanol', 'CO', ('CO', 'H2', 'Methanol')),
]
W.preload([ids for _, _, ids in REAL])


def real_configs(tier):
    out = []
    Ts = (280., 350., 450.) if tier == 'quick' else (280., 298.15, 320., 350., 400., 450.)
    for n, (rx, reactant, ids) in enumerate(REAL):
        for phase in 'lg':
            if phase == 'g' and 'Glucose' in ids: continue          # glucose has no vapour model (locked solid)
            for T in Ts:
                for basis, X, Q in ((('mol', 0.6, 2.5e4),) if tier == 'quick' else (('mol', 0.6, 2.5e4), ('wt', 1.0, -1.0e4), ('mol', 0.25, 0.))):
                    out.append({'name': f'{n}:{rx};feed={phase};T={T:g};{basis};X={X:g};Q={Q:g}', 'n': n, 'phase': phase, 'T': T,
                                'basis': basis, 'X': X, 'Q': Q, 'kind': 'stream'})
        out.append({'name': f'{n}:{rx};reference state', 'n': n, 'kind': 'reference', 'basis': 'mol', 'X': 0.6})
    # reaction SETS on real models (added after the seeded change C06_4, which gave ReactionSystem its own
    # adiabatic_reaction that added Q once per member; the mode-S configuration of that class runs out of budget on it)
    for cls in ('parallel', 'series', 'system', 'system-of-sets'):
        for T in ((350.,) if tier == 'quick' else (280., 350., 450.)):
            for basis, Q in (('mol', 2.5e4), ('wt', -1.0e4)) if tier == 'quick' else (('mol', 2.5e4), ('wt', -1.0e4), ('mol', 0.)):
                out.append({'name': f'set:{cls};feed=g;T={T:g};{basis};Q={Q:g}', 'kind': 'set', 'cls': cls, 'T': T, 'basis': basis, 'Q': Q})
    return out


_SET_IDS = ('CO', 'H2O', 'CO2', 'H2', 'Methanol')
W.preload([_SET_IDS])


def _real_set(w, cfg):
    th = W.thermo(_SET_IDS)
    chems = th.chemicals
    mk = lambda rx, r, X: tmo.Reaction(rx, reactant=r, X=X, chemicals=chems, correct_atomic_balance=True)
    r1, r2, r3 = mk('CO + H2O -> CO2 + H2', 'CO', 0.6), mk('CO + H2 -> Methanol', 'CO', 0.3), mk('Methanol -> CO + H2', 'Methanol', 0.5)
    if cfg['basis'] == 'wt':
        for r in (r1, r2, r3): r.basis = 'wt'
    obj = {'parallel': lambda: tmo.ParallelReaction([r1, r2]), 'series': lambda: tmo.SeriesReaction([r1, r2]),
           'system': lambda: tmo.ReactionSystem(r1, r2),
           'system-of-sets': lambda: tmo.ReactionSystem(tmo.ParallelReaction([r1, r2]), r3)}[cfg['cls']]()
    s = tmo.Stream(None, thermo=th, phase='g', T=cfg['T'], CO=10., H2O=30., CO2=2., H2=25., Methanol=1.)
    s2 = s.copy()
    obj(s)
    w.ensure('isothermal: T unchanged', w.eq(s.T, cfg['T']))
    Q = cfg['Q']
    Hnet0 = s2.Hnet
    if Q: obj.adiabatic_reaction(s2, Q)
    else: obj.adiabatic_reaction(s2)
    w.ensure('adiabatic: Hnet after = Hnet before + Q', w.eq(s2.Hnet, Hnet0 + Q))
    w.ensure('adiabatic: same material as the isothermal reaction', w.And(*[w.eq(s2.imol[ID], s.imol[ID]) for ID in _SET_IDS]))
    w.note(T_out=s2.T, Hnet0=Hnet0, Hnet1=s2.Hnet)


@group('C06/real_reactions', configs=real_configs, mode='B',
       functions=[RXN + 'Reaction.dH', RXN + 'Reaction.__call__', RXN + 'Reaction.adiabatic_reaction', 'thermosteam._stream:Stream.Hnet',
                  'thermosteam._stream:Stream.Hf', 'thermosteam._stream:Stream.H', 'thermosteam.mixture.mixture:Mixture.solve_T_at_HP'],
       notes='12 real reactions (combustions, fermentation, shift, esterification, syntheses) of the bundled database x feed phase l/g '
             'x T in {280..450 K} x basis/conversion/heat input; real property models and the real temperature solver; plus each '
             'reaction phase-tagged at 298.15 K with every chemical in its reference phase (where the literal sentence '
             '"Hnet changes by dH * reactant fed" applies without sensible heat)')
def real_reactions(w, cfg):
    if cfg['kind'] == 'set':
        return _real_set(w, cfg)
    rx, reactant, ids = REAL[cfg['n']]
    th = W.thermo(ids)
    chems = th.chemicals
    X, basis = cfg['X'], cfg['basis']
    data = {c.ID: {'Hf': c.Hf, 'MW': c.MW, 'ref': c.phase_ref, 'Hfus': c.Hfus or 0.,
                   'Hvap298': (c.Hvap(T_REF) if not c.locked_state else 0.)} for c in chems}
    if cfg['kind'] == 'reference':
        # the reaction written with every chemical in its reference phase, on a multi-phase stream at 298.15 K
        plain = tmo.Reaction(rx, reactant=reactant, X=X, chemicals=chems, correct_atomic_balance=True)
        refs = {c.ID: c.phase_ref for c in chems}
        nu = {ID: float(plain.istoichiometry[ID]) for ID in ids if plain.istoichiometry[ID]}
        phases = tuple(sorted(set(refs.values()) | {'g', 'l'}))
        rxn = tmo.Reaction({ID: (refs[ID], v) for ID, v in nu.items()}, reactant=reactant, X=X, chemicals=chems, phases=phases)
        s = tmo.MultiStream(None, phases=phases, thermo=th, T=T_REF)
        for n, ID in enumerate(ids):
            s.imol[refs[ID], ID] = 10. if ID == reactant else (60. if nu.get(ID, 0.) < 0 else 2. + n)
        sp = Spec({(refs[ID], ID): v for ID, v in nu.items()}, (refs[reactant], reactant), X, 'mol')
        Hnet0 = s.Hnet
        w.ensure('dH = X * sum nu_k (Hf_k + latent_k)', w.eq(rxn.dH, spec_dH(sp, data)))
        w.ensure('no latent heat when every chemical is in its reference phase', w.eq(rxn.dH, plain.dH))
        rxn(s)
        w.ensure('literal at the reference state: Hnet after - Hnet before = dH * reactant fed', w.eq(s.Hnet - Hnet0, rxn.dH * 10.))
        w.ensure('T unchanged', w.eq(s.T, T_REF))
        w.note(dH=rxn.dH, Hnet0=Hnet0, Hnet1=s.Hnet)
        return
    rxn = tmo.Reaction(rx, reactant=reactant, X=X, chemicals=chems, correct_atomic_balance=True)
    if basis == 'wt': rxn.basis = 'wt'
    nu = {ID: float(rxn.istoichiometry[ID]) for ID in ids if rxn.istoichiometry[ID]}
    sp = Spec({(None, ID): v for ID, v in nu.items()}, (None, reactant), X, basis)
    dh = rxn.dH
    w.ensure('dH = X * sum nu_k Hf_k [/MW_k]', w.eq(dh, spec_dH(sp, data)))
    flows = {ID: (10. if ID == reactant else (60. if nu.get(ID, 0.) < 0 else 2. + n)) for n, ID in enumerate(ids)}
    s = tmo.Stream(None, thermo=th, phase=cfg['phase'], T=cfg['T'], **flows)
    s2 = s.copy()
    fed = flows[reactant] * (data[reactant]['MW'] if basis == 'wt' else 1.)
    H0, Hnet0 = s.H, s.Hnet
    rxn(s)
    w.ensure('isothermal: T unchanged', w.eq(s.T, cfg['T']))
    w.ensure('(Hnet - H) after - (Hnet - H) before = dH * reactant fed', w.eq((s.Hnet - s.H) - (Hnet0 - H0), dh * fed))
    w.ensure('reactant consumed = X * fed', w.eq(s.imol[reactant], flows[reactant] * (1. - X)))
    Q = cfg['Q']
    Hnet0 = s2.Hnet
    if Q: rxn.adiabatic_reaction(s2, Q)
    else: rxn.adiabatic_reaction(s2)
    w.ensure('adiabatic: Hnet after = Hnet before + Q', w.eq(s2.Hnet, Hnet0 + Q))
    w.ensure('adiabatic: same material as the isothermal reaction', w.And(*[w.eq(s2.imol[ID], s.imol[ID]) for ID in ids]))
    w.note(dH=dh, T_out=s2.T, phase_out=s2.phase, Hnet0=Hnet0, Hnet1=s2.Hnet)
