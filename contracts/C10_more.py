# -*- coding: utf-8 -*-
"""
C10 — additional obligation groups (added after the seeded changes C10_1 and C10_2 were missed):
  * lookups after an indexer's phase set was expanded IN PLACE (mix_from / copy_like bringing a new phase), for keys that
    were looked up before the expansion, on the expanded indexer and on a second indexer that still has the old phases;
  * whole-row writes whose value is a SparseVector (imol[...] = sv, imol[phase] = sv, imol[phase] = other.imol[phase]).
"""
import thermosteam as tmo
from engine.api import group
from engine.sx import tmo_world as W

A = ('Water', 'Ethanol')
W.preload([A])
FUNCS = ['thermosteam.indexer:MaterialIndexer._expand_phases', 'thermosteam.indexer:MaterialIndexer._set_cache',
         'thermosteam.indexer:MaterialIndexer._get_index_data', 'thermosteam.indexer:MaterialIndexer.__getitem__',
         'thermosteam.indexer:MaterialIndexer.__setitem__', 'thermosteam.indexer:MaterialIndexer.copy_like',
         'thermosteam.indexer:MaterialIndexer.mix_from', 'thermosteam._phase:PhaseIndexer']


def _positional(s, phase, ID):
    i = s.chemicals.IDs.index(ID)
    for p, sv in W.rows_of(s):
        if p == phase:
            return sv.dct.get(i, 0.)
    return 0.


def _check_reads(w, s, label):
    for phase, _ in W.rows_of(s):
        for ID in s.chemicals.IDs:
            w.ensure(f'{label}: imol[{phase!r},{ID!r}] = positional entry', w.eq(s.imol[phase, ID], _positional(s, phase, ID)))
        row = s.imol[phase]
        w.ensure(f'{label}: imol[{phase!r}] = positional row',
                 w.And(*[w.eq(row.dct.get(i, 0.), _positional(s, phase, ID)) for i, ID in enumerate(s.chemicals.IDs)]))
        vals = s.imol[phase, tuple(s.chemicals.IDs)]
        w.ensure(f'{label}: imol[{phase!r},(IDs)] = positional entries',
                 w.all_eq(list(vals), [_positional(s, phase, ID) for ID in s.chemicals.IDs]))
    for ID in s.chemicals.IDs:
        tot = 0.
        for phase, _ in W.rows_of(s): tot = tot + _positional(s, phase, ID)
        w.ensure(f'{label}: imol[{ID!r}] = sum over phases', w.eq(s.imol[ID], tot))


def expansion_configs(tier):
    out = []
    for start in (('l', 's'), ('L', 'l'), ('l',), ('s', 'S')):
        for new in ('g', 's', 'L', 'l'):
            if new in start: continue
            for how in ('copy_like', 'mix_from'):
                out.append({'name': f'phases={"".join(start)};new={new};via={how}', 'start': list(start), 'new': new, 'how': how})
    return out


@group('C10/phase_expansion', configs=expansion_configs, functions=FUNCS)
def phase_expansion(w, cfg):
    W.reset_caches()
    start = tuple(cfg['start'])
    m1, _ = W.make_stream(w, 'm', A, start, present={'default': 'pos'})
    m2, _ = W.make_stream(w, 'n', A, start, present={'default': 'pos'})     # keeps the old phase set
    src, _ = W.make_stream(w, 'x', A, cfg['new'], present={'default': 'pos'})
    _check_reads(w, m1, 'before')                                            # fills the lookup cache of the old phase set
    pre2 = W.snapshot(m2)
    if cfg['how'] == 'copy_like':
        m1.copy_like(src)
    else:
        m1.mix_from([m1, src], energy_balance=False)
    if cfg['new'].lower() not in [p.lower() for p in start]:     # a case twin of an existing phase is merged by design, not added
        w.ensure('the new phase is part of the phase set', cfg['new'] in [p for p, _ in W.rows_of(m1)])
    _check_reads(w, m1, 'after expansion')
    _check_reads(w, m2, 'second indexer with the old phases')
    w.ensure('second indexer untouched', W.same_snapshot(w, pre2, W.snapshot(m2)))
    # write through a phase key after the expansion lands in that phase's row
    v = w.real('v', lo=0, lo_strict=True)
    p0 = start[0]
    before = {(p, ID): _positional(m1, p, ID) for p, _ in W.rows_of(m1) for ID in A}
    m1.imol[p0, 'Ethanol'] = v
    for (p, ID), old in before.items():
        w.ensure(f'write after expansion: entry [{p!r},{ID!r}]', w.eq(_positional(m1, p, ID), v if (p, ID) == (p0, 'Ethanol') else old))
    w.canary('canary: read returns another row', w.eq(m1.imol[p0, 'Water'], _positional(m1, p0, 'Water') + 1))


def sparse_write_configs(tier):
    out = []
    for target in ('l', 'gl'):
        for key in (['...'] if target == 'l' else ['l', 'g', 'l<-other[l]']):
            out.append({'name': f'target={target};key={key}', 'target': target, 'key': key})
    return out


@group('C10/write_sparse_value', configs=sparse_write_configs,
       functions=['thermosteam.indexer:reset_sparse_chemical_data', 'thermosteam.indexer:set_sparse_chemical_data',
                  'thermosteam.indexer:ChemicalIndexer.__setitem__', 'thermosteam.indexer:MaterialIndexer.__setitem__'])
def write_sparse_value(w, cfg):
    W.reset_caches()
    phases = 'l' if cfg['target'] == 'l' else ('g', 'l')
    t, _ = W.make_stream(w, 't', A, phases)           # every entry maybe-zero
    o, _ = W.make_stream(w, 'o', A, phases)
    key = cfg['key']
    SV = type(W.rows_of(o)[0][1])
    if key == 'l<-other[l]':
        value = o.imol['l']; tkey = 'l'; srow = 'l'
    else:
        srow = W.rows_of(o)[0][0]
        value = SV.from_dict(dict(W.rows_of(o)[0][1].dct), len(A))      # a free-standing SparseVector
        tkey = ... if key == '...' else key
    expect = {ID: _positional(o, srow, ID) for ID in A}
    trow = 'l' if tkey is ... else tkey
    others = {(p, ID): _positional(t, p, ID) for p, _ in W.rows_of(t) for ID in A if p != trow}
    pre_o = W.snapshot(o)
    t.imol[tkey] = value
    for ID in A:
        w.ensure(f'row written = value [{ID}] (entries that are zero in the value are zero afterwards)', w.eq(_positional(t, trow, ID), expect[ID]))
    for (p, ID), old in others.items():
        w.ensure(f'other row untouched [{p},{ID}]', w.eq(_positional(t, p, ID), old))
    w.ensure('source unchanged', W.same_snapshot(w, pre_o, W.snapshot(o)))
    w.ensure('rep_ok', W.rep_ok(w, t))
    w.canary('canary: old entries survive', w.eq(_positional(t, trow, 'Water'), expect['Water'] + 1))
