# -*- coding: utf-8 -*-
"""
C07 — pure-component and mixture enthalpy/entropy are thermodynamically consistent.

Contracts (sidecar) on the REAL functions:

* `Chemical._init_energies` (called unbound on a small record object that carries exactly the
  attributes the function reads: P_ref, T_ref, H_ref, _Tc, _locked_state) followed by the real
  functor machinery of `thermosteam.free_energy` / `thermosteam.base` (functor classes created by
  the `@functor` decorator, `PhaseTPFunctorBuilder`, `PhaseTPHandle.__call__`, `TFunctor/TPFunctor.__call__`).
  The heat-capacity models are objects whose `T_dependent_property_integral(a, b)` and
  `T_dependent_property_integral_over_T(a, b)` are UNINTERPRETED functions I_p(a,b), J_p(a,b) per phase
  (arbitrary heat-capacity functions).  The only thing assumed about them is that they are integrals,
  i.e. additive: I(a,b)+I(b,c)=I(a,c), I(a,a)=0 — instantiated as ground `w.assume` facts over the
  temperature terms that occur (T_ref, Tm, Tb, T1, T2).  Tm, Tb, T_ref, P_ref, Hfus, Hvap(Tb), S0, T, P are
  arbitrary reals (> 0 where they are temperatures/pressures).
* `Chemical._init_data` for the caller-side obligation of `_init_energies` (Sfus = Hfus/Tm).
* `IdealTPMixtureModel`, `IdealTMixtureModel`, `IdealEntropyModel`, `Mixture.H/S/xH/xS/xCn`
  with uninterpreted pure-component models (A-models), `IdealMixture.from_chemicals` / `create_mixture_model`
  (model k belongs to chemical k), and `Stream.S` before/after mixing pure streams at equal T and P.
  `log` is the engine's uninterpreted log (log(a/b) -> log a - log b) plus ground instances of
  "log x <= log y for 0 < x <= y" and "log 1 = 0" where the entropy of mixing needs them.

Findings on the unchanged tree (see .scratch/C07/repro_*.py):
  1. IdealEntropyModel adds +n ln x instead of -R n ln x  -> clauses `mixing-term*` of groups `C07/mixture_*`
     (repair changes doctest digits: known finding).
  2. `_init_data` leaves Sfus = None for database chemicals -> `C07/sfus_data` (fix_1.diff).
  3. gas-locked chemical with phase_ref != 'g' loses -R ln(P/P_ref) -> `C07/init_energies_locked` (fix_2.diff).

Every top-level `ensure` is a sentence of the property, not what the code happens to compute.
"""
import math
import types
import thermosteam as tmo
from thermosteam.base import PhaseTHandle, PhaseTPHandle, SparseVector
from engine.api import group
from engine.sx import tmo_world as W

R_GAS = 8.314462618            # J/mol/K (CODATA); thermosteam.constants.R must agree to 1e-5
PHASES = ('s', 'l', 'g')
MIX_IDS = ('Water', 'Ethanol', 'Methanol', 'Octane')
W.preload([MIX_IDS[:2], MIX_IDS[:3], MIX_IDS])


# --------------------------------------------------------------------------- helpers

def _log(w, x):
    """log of a leaf/term: the engine's uninterpreted log (with log(a/b) -> log a - log b) or math.log."""
    if w.symbolic:
        from engine.sx.sym import SymReal, lift
        return (x if isinstance(x, SymReal) else SymReal(lift(x))).log()
    return math.log(x)


class CnStub:
    """
    Heat-capacity model of one phase with *arbitrary* Cn(T): the two integrals are uninterpreted
    functions of their limits.  Stateless (so the frame "models are not modified" is checkable by identity).
    """
    def __init__(self, w, tag, encoding='additive'):
        self._w = w
        self._tag = tag
        self._enc = encoding
        self.calls = []

    def T_dependent_property_integral(self, Ta, Tb):
        self.calls.append(('I', Ta, Tb))
        return _integral(self._w, 'I', self._tag, self._enc, Ta, Tb)

    def T_dependent_property_integral_over_T(self, Ta, Tb):
        self.calls.append(('J', Ta, Tb))
        return _integral(self._w, 'J', self._tag, self._enc, Ta, Tb)

    def __call__(self, T, P=None):
        return self._w.fn(f'Cn.{self._tag}', positive=True)(T)


def _integral(w, kind, tag, encoding, Ta, Tb):
    """
    The integral of an arbitrary function between Ta and Tb in one of two equivalent encodings:
    'additive'        uninterpreted two-place function + ground additivity facts (_assume_integrals_additive);
    'antiderivative'  F(Tb) - F(Ta) with F uninterpreted (every additive two-place function has this form
                      with F(x) = I(x0, x), and conversely) — used as a second, independent encoding (thorough).
    """
    if encoding == 'antiderivative':
        F = w.fn(f'F{kind}.{tag}')
        return F(Tb) - F(Ta)
    return w.fn(f'{kind}.{tag}')(Ta, Tb)


def _assume_integrals_additive(w, tags, terms, encoding='additive'):
    """
    A-int (the contract of thermo's TDependentProperty integrals): I and J are integrals of a function
    of T, hence additive over adjacent intervals.  Ground instances over the temperature terms that occur.
    Returns {(kind, tag): {(i, j): value}} so that the clauses use the very same applications.
    """
    n = len(terms)
    tab = {}
    for tag in tags:
        for kind in ('I', 'J'):
            v = {(i, j): _integral(w, kind, tag, encoding, terms[i], terms[j]) for i in range(n) for j in range(n)}
            tab[kind, tag] = v
            if encoding != 'additive':
                continue
            for i in range(n):
                w.assume(w.eq(v[i, i], 0.))
                for j in range(n):
                    for k in range(n):
                        if len({i, j, k}) == 3 or (i == k and i != j):
                            w.assume(w.eq(v[i, j] + v[j, k], v[i, k]))
    return tab


class HvapStub:
    def __init__(self, w): self._w = w
    def __call__(self, T): return self._w.fn('Hvap', positive=True)(T)


def _record(w, locked):
    """The part of a Chemical that `_init_energies` reads; reference constants are leaves."""
    rec = types.SimpleNamespace()
    rec.T_ref = w.real('T_ref', lo=0., lo_strict=True)
    rec.P_ref = w.real('P_ref', lo=0., lo_strict=True)
    rec.H_ref = w.real('H_ref')
    rec._Tc = w.real('Tc', lo=0., lo_strict=True)
    rec._locked_state = locked
    return rec


def _tie_reference_constants(w, rec, cfg):
    # "enthalpy is zero at the reference state": H_ref is the class constant of Chemical
    w.assume(w.eq(rec.H_ref, tmo.Chemical.H_ref))
    if cfg.get('refs') == 'class':
        w.assume(w.eq(rec.T_ref, tmo.Chemical.T_ref))
        w.assume(w.eq(rec.P_ref, tmo.Chemical.P_ref))


def _ig_eos():
    from thermo.eos import IG
    return IG(T=298.15, P=101325.)


# --------------------------------------------------------------------------- Chemical._init_energies, three reference phases

def energies_configs(tier):
    out = [{'name': f'phase_ref={r};refs=free', 'phase_ref': r, 'refs': 'free'} for r in PHASES]
    if tier == 'thorough':
        out += [{'name': f'phase_ref={r};refs=class', 'phase_ref': r, 'refs': 'class'} for r in PHASES]
        out += [{'name': f'phase_ref={r};refs=free;integrals=antiderivative', 'phase_ref': r, 'refs': 'free',
                 'integrals': 'antiderivative'} for r in PHASES]
    return out


FREE_ENERGY_FUNCTIONS = [
    'thermosteam._chemical:Chemical._init_energies',
    'thermosteam.free_energy:Liquid_Enthalpy_Ref_Liquid', 'thermosteam.free_energy:Liquid_Enthalpy_Ref_Gas',
    'thermosteam.free_energy:Liquid_Enthalpy_Ref_Solid', 'thermosteam.free_energy:Solid_Enthalpy_Ref_Solid',
    'thermosteam.free_energy:Solid_Enthalpy_Ref_Liquid', 'thermosteam.free_energy:Solid_Enthalpy_Ref_Gas',
    'thermosteam.free_energy:Gas_Enthalpy_Ref_Gas', 'thermosteam.free_energy:Gas_Enthalpy_Ref_Liquid',
    'thermosteam.free_energy:Gas_Enthalpy_Ref_Solid',
    'thermosteam.free_energy:Liquid_Entropy_Ref_Liquid', 'thermosteam.free_energy:Liquid_Entropy_Ref_Gas',
    'thermosteam.free_energy:Liquid_Entropy_Ref_Solid', 'thermosteam.free_energy:Solid_Entropy_Ref_Solid',
    'thermosteam.free_energy:Solid_Entropy_Ref_Liquid', 'thermosteam.free_energy:Solid_Entropy_Ref_Gas',
    'thermosteam.free_energy:Gas_Entropy_Ref_Gas', 'thermosteam.free_energy:Gas_Entropy_Ref_Liquid',
    'thermosteam.free_energy:Gas_Entropy_Ref_Solid',
    'thermosteam.base.phase_handle:PhaseFunctorBuilder.__call__', 'thermosteam.base.phase_handle:PhaseTPHandle.__call__',
    'thermosteam.base.functor:Functor.from_args', 'thermosteam.base.functor:TPFunctor.__call__',
    'thermosteam.base.functor:TFunctor.__call__', 'thermosteam.base.functor:functor_matching_params',
]


@group('C07/init_energies', configs=energies_configs, functions=FREE_ENERGY_FUNCTIONS, loop_free=True,
       assumptions=['A-int: T_dependent_property_integral(_over_T) are additive in their limits (integrals of a function of T)',
                    'A-log: log is uninterpreted with log(a/b) = log a - log b'])
def init_energies(w, cfg):
    ref = cfg['phase_ref']
    rec = _record(w, None)
    _tie_reference_constants(w, rec, cfg)
    Tm = w.real('Tm', lo=0., lo_strict=True)
    Tb = w.real('Tb', lo=0., lo_strict=True)
    Hfus = w.real('Hfus')
    S0 = w.real('S0')
    T1 = w.real('T1', lo=0., lo_strict=True)
    T2 = w.real('T2', lo=0., lo_strict=True)
    P = w.real('P', lo=0., lo_strict=True)
    P1 = w.real('P1', lo=0., lo_strict=True)
    P2 = w.real('P2', lo=0., lo_strict=True)
    T_ref, P_ref = rec.T_ref, rec.P_ref
    terms = [T_ref, Tm, Tb, T1, T2]
    iT_ref, iTm, iTb, iT1, iT2 = range(5)
    enc = cfg.get('integrals', 'additive')
    integ = _assume_integrals_additive(w, PHASES, terms, enc)
    stubs = {p: CnStub(w, p, enc) for p in PHASES}
    Cn = PhaseTHandle('Cn', stubs['s'], stubs['l'], stubs['g'])
    Hvap = HvapStub(w)
    Hvap_Tb = Hvap(Tb)
    Sfus = Hfus / Tm           # requires of _init_energies (established by its caller, see C07/sfus_data)
    before = dict(vars(rec))

    tmo.Chemical._init_energies(rec, Cn, Hvap, None, Hfus, Sfus, Tm, Tb, _ig_eos(), ref, S0)

    H, S = rec._H, rec._S

    # ---- reference state
    w.ensure('H(phase_ref, T_ref, P_ref) = 0', w.eq(H(ref, T_ref, P_ref), 0.))
    w.ensure('S(phase_ref, T_ref, P_ref) = S0 (absolute entropy)', w.eq(S(ref, T_ref, P_ref), S0))
    # ---- temperature derivatives, integral form, every phase
    for p in PHASES:
        w.ensure(f'H_{p}(T2) - H_{p}(T1) = integral of Cn_{p} dT from T1 to T2',
                 w.eq(H(p, T2, P) - H(p, T1, P), integ['I', p][iT1, iT2]))
        w.ensure(f'S_{p}(T2,P) - S_{p}(T1,P) = integral of Cn_{p}/T dT from T1 to T2',
                 w.eq(S(p, T2, P) - S(p, T1, P), integ['J', p][iT1, iT2]))
    # ---- pressure dependence of the gas entropy
    w.ensure('S_g(T,P2) - S_g(T,P1) = -R ln(P2/P1)',
             w.eq(S('g', T1, P2) - S('g', T1, P1), -tmo.constants.R * _log(w, P2 / P1)))
    w.ensure('R is the gas constant', abs(tmo.constants.R - R_GAS) < 1e-5)
    # ---- jumps at the normal boiling and melting point (P = P_ref = 1 atm)
    w.ensure('H_g(Tb) - H_l(Tb) = Hvap(Tb)', w.eq(H('g', Tb, P_ref) - H('l', Tb, P_ref), Hvap_Tb))
    w.ensure('H_l(Tm) - H_s(Tm) = Hfus', w.eq(H('l', Tm, P_ref) - H('s', Tm, P_ref), Hfus))
    w.ensure('S_g(Tb) - S_l(Tb) = Hvap(Tb)/Tb', w.eq(S('g', Tb, P_ref) - S('l', Tb, P_ref), Hvap_Tb / Tb))
    w.ensure('S_l(Tm) - S_s(Tm) = Hfus/Tm', w.eq(S('l', Tm, P_ref) - S('s', Tm, P_ref), Hfus / Tm))
    # ---- frame
    after = vars(rec)
    w.ensure('frame: only _H, _S, _H_excess, _S_excess are assigned',
             set(after) - set(before) == {'_H', '_S', '_H_excess', '_S_excess'}
             and all(after[k] is before[k] for k in before))
    w.ensure('frame: heat-capacity handle untouched',
             Cn.s is stubs['s'] and Cn.l is stubs['l'] and Cn.g is stubs['g'])
    w.ensure('result kinds: H, S are phase handles over (T, P) carrying Tc',
             isinstance(H, PhaseTPHandle) and isinstance(S, PhaseTPHandle) and H.var == 'H' and S.var == 'S'
             and H.Tc is rec._Tc and S.Tc is rec._Tc
             and isinstance(rec._H_excess, PhaseTPHandle) and isinstance(rec._S_excess, PhaseTPHandle))
    w.canary('canary: H_g(Tb) - H_l(Tb) = Hvap(Tb) + 1', w.eq(H('g', Tb, P_ref) - H('l', Tb, P_ref), Hvap_Tb + 1.))
    w.canary('canary: S(ref state) = S0 + 1', w.eq(S(ref, T_ref, P_ref), S0 + 1.))
    w.note(H_ref_state=H(ref, T_ref, P_ref), S_g_Tb=S('g', Tb, P_ref))


# --------------------------------------------------------------------------- Chemical._init_energies, phase-locked chemicals

def locked_configs(tier):
    # lock_phase() sets phase_ref = locked phase; the phase_ref setter (public) can change it afterwards
    out = [{'name': f'locked={p};phase_ref={p}', 'locked': p, 'phase_ref': p, 'refs': 'free'} for p in PHASES]
    out += [{'name': f'locked={p};phase_ref={r}', 'locked': p, 'phase_ref': r, 'refs': 'free'}
            for p in PHASES for r in PHASES if p != r]
    if tier == 'thorough':
        out += [dict(c, name=c['name'] + ';refs=class', refs='class') for c in out[:3]]
        out += [dict(c, name=c['name'] + ';integrals=antiderivative', integrals='antiderivative') for c in out[:9]]
    return out


@group('C07/init_energies_locked', configs=locked_configs, loop_free=True,
       functions=['thermosteam._chemical:Chemical._init_energies', 'thermosteam.free_energy:Enthalpy',
                  'thermosteam.free_energy:Entropy', 'thermosteam.free_energy:EntropyGas',
                  'thermosteam.base.functor:Functor.__init__', 'thermosteam.base.functor:TPFunctor.__call__'],
       assumptions=['A-int: T_dependent_property_integral(_over_T) are additive in their limits (integrals of a function of T)',
                    'A-log: log is uninterpreted with log(a/b) = log a - log b'])
def init_energies_locked(w, cfg):
    phase = cfg['locked']
    rec = _record(w, phase)
    _tie_reference_constants(w, rec, cfg)
    Tm = w.real('Tm', lo=0., lo_strict=True)
    Tb = w.real('Tb', lo=0., lo_strict=True)
    Hfus = w.real('Hfus')
    S0 = w.real('S0')
    T1 = w.real('T1', lo=0., lo_strict=True)
    T2 = w.real('T2', lo=0., lo_strict=True)
    P = w.real('P', lo=0., lo_strict=True)
    P1 = w.real('P1', lo=0., lo_strict=True)
    P2 = w.real('P2', lo=0., lo_strict=True)
    T_ref, P_ref = rec.T_ref, rec.P_ref
    terms = [T_ref, Tm, Tb, T1, T2]
    enc = cfg.get('integrals', 'additive')
    integ = _assume_integrals_additive(w, [phase], terms, enc)
    Cn = CnStub(w, phase, enc)          # lock_phase replaced the phase handle by the model of the locked phase
    before = dict(vars(rec))

    tmo.Chemical._init_energies(rec, Cn, HvapStub(w), None, Hfus, Hfus / Tm, Tm, Tb, _ig_eos(), cfg['phase_ref'], S0)

    H, S = rec._H, rec._S
    w.ensure('H(T_ref, P_ref) = 0', w.eq(H(T_ref, P_ref), 0.))
    w.ensure('S(T_ref, P_ref) = S0 (absolute entropy)', w.eq(S(T_ref, P_ref), S0))
    w.ensure('H(T2) - H(T1) = integral of Cn dT from T1 to T2', w.eq(H(T2, P) - H(T1, P), integ['I', phase][3, 4]))
    w.ensure('S(T2,P) - S(T1,P) = integral of Cn/T dT from T1 to T2', w.eq(S(T2, P) - S(T1, P), integ['J', phase][3, 4]))
    if phase == 'g':
        w.ensure('S_g(T,P2) - S_g(T,P1) = -R ln(P2/P1)',
                 w.eq(S(T1, P2) - S(T1, P1), -tmo.constants.R * _log(w, P2 / P1)))
    after = vars(rec)
    w.ensure('frame: only _H, _S, _H_excess, _S_excess are assigned',
             set(after) - set(before) == {'_H', '_S', '_H_excess', '_S_excess'}
             and all(after[k] is before[k] for k in before))
    w.ensure('result kinds: functors of (T, P) on the locked model', H.Cn is Cn and S.Cn is Cn and H.var == 'H' and S.var == 'S')
    w.canary('canary: S(ref state) = S0 + 1', w.eq(S(T_ref, P_ref), S0 + 1.))
    w.canary('canary: H(T2) - H(T1) = 0', w.eq(H(T2, P) - H(T1, P), 0.))


# --------------------------------------------------------------------------- caller side of the requires "Sfus = Hfus/Tm"

WATER_CAS = '7732-18-5'


def sfus_configs(tier):
    out = []
    for hf in ('given', 'database'):
        for tm in ('given', 'database'):
            out.append({'name': f'Hfus={hf};Tm={tm}', 'Hfus': hf, 'Tm': tm})
    return out


@group('C07/sfus_data', configs=sfus_configs, functions=['thermosteam._chemical:Chemical._init_data'], loop_free=True)
def sfus_data(w, cfg):
    rec = types.SimpleNamespace(atoms={'H': 2, 'O': 1})
    Tm = w.real('Tm', lo=0., lo_strict=True) if cfg['Tm'] == 'given' else None
    Hfus = w.real('Hfus', lo=0., lo_strict=True) if cfg['Hfus'] == 'given' else None
    tmo.Chemical._init_data(rec, WATER_CAS, 18.01528, Tm, 373.124, 647.14, 22048320.0, 5.6e-05, 0.344, None, None,
                            Hfus, 1.85, {'H': 2, 'O': 1}, 0.1665, False)
    if Tm is not None: w.ensure('Tm as given', w.eq(rec._Tm, Tm))
    if Hfus is not None: w.ensure('Hfus as given', w.eq(rec._Hfus, Hfus))
    complete = rec._Hfus is not None and rec._Tm is not None
    w.ensure('melting data complete for water', complete)
    # the entropy jump at the melting point used by the S functors is Sfus: it must be Hfus/Tm
    w.ensure('Sfus = Hfus/Tm', rec._Sfus is not None and w.eq(rec._Sfus * rec._Tm, rec._Hfus),
             Sfus=str(rec._Sfus), Hfus=str(rec._Hfus), Tm=str(rec._Tm))
    w.canary('canary: Sfus = Hfus/Tm + 1', rec._Sfus is not None and w.eq(rec._Sfus * rec._Tm, rec._Hfus + rec._Tm))
    w.note(Sfus=rec._Sfus, Hfus=rec._Hfus, Tm=rec._Tm)


# --------------------------------------------------------------------------- ideal mixture models

def _present_sets(n, tier):
    full = tuple(range(n))
    out = [full]
    if n >= 2:
        out.append(full[:-1])                 # last chemical absent
        out.append(full[1:])                  # first chemical absent
    if tier == 'thorough' and n >= 3:
        out.append((0, n - 1))
        out += [(i,) for i in range(n)]
    return out


def models_configs(tier):
    out = []
    sizes = (2, 3, 4)
    for n in sizes:
        for pres in _present_sets(n, tier):
            for phase in (('l', 'g') if tier == 'quick' else ('l', 'g', 's')):
                out.append({'name': f'N={n};present={"".join(map(str, pres))};phase={phase}', 'N': n,
                            'present': list(pres), 'phase': phase, 'maybe': []})
    # entries that may be zero (decided by the explorer when the vector is built, as a caller would)
    out.append({'name': 'N=2;present=0;maybe=1;phase=l', 'N': 2, 'present': [0], 'phase': 'l', 'maybe': [1]})
    out.append({'name': 'N=3;present=1;maybe=02;phase=g', 'N': 3, 'present': [1], 'phase': 'g', 'maybe': [0, 2]})
    if tier == 'thorough':
        out.append({'name': 'N=4;present=;maybe=0123;phase=l', 'N': 4, 'present': [], 'phase': 'l', 'maybe': [0, 1, 2, 3]})
        out.append({'name': 'N=3;present=;maybe=012;phase=s', 'N': 3, 'present': [], 'phase': 's', 'maybe': [0, 1, 2]})
    return out


def _pure_models(w, var, n, with_P=True):
    ms = []
    for k in range(n):
        if with_P:
            def m(phase, T, P, _k=k): return w.fn(f'{var}{_k}.{phase}')(T, P)
        else:
            def m(phase, T, P=None, _k=k): return w.fn(f'{var}{_k}.{phase}')(T)
        ms.append(m)
    return ms


def _mol(w, cfg, name='n'):
    """SparseVector of molar amounts: 'present' entries > 0, 'maybe' entries >= 0 (stored iff non-zero), others absent."""
    vals = {}
    dct = {}
    for i in range(cfg['N']):
        if i in cfg['present']:
            vals[i] = dct[i] = w.real(f'{name}{i}', lo=0., lo_strict=True)
        elif i in cfg.get('maybe', ()):
            v = w.real(f'{name}{i}', lo=0.)
            vals[i] = v
            if v: dct[i] = v
        else:
            vals[i] = 0.
    return SparseVector.from_dict(dct, cfg['N']), vals


def _stored(sv):
    return dict(sv.dct)


def _same_dct(w, a, b):
    if set(a) != set(b): return w.And(False)
    return w.And(*[w.eq(a[k], b[k]) for k in a])


def _mixing_term(w, vals, stored):
    """-R sum n_k ln(n_k/N) over the non-zero amounts (0 ln 0 = 0)."""
    N = w.total([vals[k] for k in sorted(stored)])
    t = 0.
    for k in sorted(stored):
        t = t + vals[k] * _log(w, vals[k] / N)
    return -tmo.constants.R * t, N


def _assume_log_monotone(w, pairs):
    """A-log-mono (ground instances): log x <= log y for 0 < x <= y."""
    for x, y in pairs:
        w.assume(w.Implies(w.And(w.lt(0., x), w.le(x, y)), w.le(_log(w, x), _log(w, y))))


@group('C07/mixture_models', configs=models_configs, loop_free=True,
       functions=['thermosteam.mixture.ideal_mixture_model:IdealTPMixtureModel.__call__',
                  'thermosteam.mixture.ideal_mixture_model:IdealTMixtureModel.__call__',
                  'thermosteam.mixture.ideal_mixture_model:IdealEntropyModel.__call__',
                  'thermosteam.base.sparse:SparseVector.sum'],
       assumptions=['A-models: pure-component H, S, Cn are arbitrary (uninterpreted) functions of (phase, T, P)',
                    'A-log: log is uninterpreted with log(a/b) = log a - log b; ground instances of log x <= log y for 0 < x <= y'])
def mixture_models(w, cfg):
    from thermosteam.mixture import IdealTPMixtureModel, IdealTMixtureModel, IdealEntropyModel
    n, phase = cfg['N'], cfg['phase']
    T = w.real('T', lo=0., lo_strict=True)
    P = w.real('P', lo=0., lo_strict=True)
    lam = w.real('lambda', lo=0., lo_strict=True)
    mol, vals = _mol(w, cfg)
    stored = _stored(mol)
    hm, sm, cm = _pure_models(w, 'h', n), _pure_models(w, 's', n), _pure_models(w, 'cn', n, with_P=False)
    Hmodel = IdealTPMixtureModel(hm, 'H')
    Smodel = IdealEntropyModel(sm, 'S')
    Cmodel = IdealTMixtureModel(cm, 'Cn')
    h = {k: w.fn(f'h{k}.{phase}')(T, P) for k in range(n)}
    s = {k: w.fn(f's{k}.{phase}')(T, P) for k in range(n)}
    cn = {k: w.fn(f'cn{k}.{phase}')(T) for k in range(n)}
    scaled = SparseVector.from_dict({k: lam * v for k, v in stored.items()}, n)

    H = Hmodel(phase, mol, T, P)
    C = Cmodel(phase, mol, T)
    C_P = Cmodel(phase, mol, T, P)
    S = Smodel(phase, mol, T, P)
    H_scaled = Hmodel(phase, scaled, T, P)
    C_scaled = Cmodel(phase, scaled, T, P)

    w.ensure('H_mix = sum n_k h_k', w.eq(H, w.total([vals[k] * h[k] for k in range(n)])))
    w.ensure('Cn_mix = sum n_k cn_k', w.And(w.eq(C, w.total([vals[k] * cn[k] for k in range(n)])), w.eq(C_P, C)))
    w.ensure('H extensive: H(lambda n) = lambda H(n)', w.eq(H_scaled, lam * H))
    w.ensure('Cn extensive: Cn(lambda n) = lambda Cn(n)', w.eq(C_scaled, lam * C))
    mixing, N = _mixing_term(w, vals, stored)
    w.ensure('mixing-term: S_mix = sum n_k s_k - R sum n_k ln x_k',
             w.eq(S, w.total([vals[k] * s[k] for k in range(n)]) + mixing), S=str(S)[:200], mixing=str(mixing)[:200])
    # mixing pure streams (same T, P, phase) never lowers entropy
    _assume_log_monotone(w, [(vals[k], N) for k in sorted(stored)])
    S_pure = 0.
    for k in sorted(stored):
        S_pure = S_pure + Smodel(phase, SparseVector.from_dict({k: vals[k]}, n), T, P)
    w.ensure('mixing-term => entropy of mixing >= 0: S(mixed) >= sum S(pure inlets)', w.ge(S, S_pure), S=str(S)[:200], S_inlets=str(S_pure)[:200])
    w.ensure('pure stream: S = n s (no mixing term)',
             w.And(*[w.eq(Smodel(phase, SparseVector.from_dict({k: vals[k]}, n), T, P), vals[k] * s[k]) for k in sorted(stored)]))
    # frame
    w.ensure('frame: mol unchanged', w.And(_same_dct(w, stored, mol.dct), mol.size == n))
    w.ensure('frame: models unchanged', all(a is b for a, b in zip(Hmodel.models, hm)) and len(Hmodel.models) == n
             and all(a is b for a, b in zip(Smodel.models, sm)) and all(a is b for a, b in zip(Cmodel.models, cm)))
    w.canary('canary: H_mix = sum n_k h_k + 1', w.eq(H, w.total([vals[k] * h[k] for k in range(n)]) + 1.))
    w.canary('canary: S_mix = sum n_k s_k + 1', w.eq(S, w.total([vals[k] * s[k] for k in range(n)]) + 1.))
    w.note(S=S, H=H)


# --------------------------------------------------------------------------- Mixture.H / S / xH / xS / xCn

def mixture_configs(tier):
    out = []
    for n in ((2, 3) if tier == 'quick' else (2, 3, 4)):
        for ex in (False, True):
            out.append({'name': f'N={n};excess={ex}', 'N': n, 'excess': ex, 'present': list(range(n))})
    out.append({'name': 'N=3;excess=True;present=02', 'N': 3, 'excess': True, 'present': [0, 2]})
    return out


@group('C07/mixture_HS', configs=mixture_configs, loop_free=True,
       functions=['thermosteam.mixture.mixture:Mixture.H', 'thermosteam.mixture.mixture:Mixture.S',
                  'thermosteam.mixture.mixture:Mixture.xH', 'thermosteam.mixture.mixture:Mixture.xS',
                  'thermosteam.mixture.mixture:Mixture.xCn',
                  'thermosteam.mixture.ideal_mixture_model:IdealTPMixtureModel.__call__',
                  'thermosteam.mixture.ideal_mixture_model:IdealEntropyModel.__call__'],
       assumptions=['A-models: pure-component H, S, Cn, H_excess, S_excess are arbitrary (uninterpreted) functions of (phase, T, P)',
                    'A-log: log is uninterpreted with log(a/b) = log a - log b'])
def mixture_HS(w, cfg):
    n = cfg['N']
    IDs = MIX_IDS[:n]
    th = W.stub_thermo(w, IDs, include_excess_energies=cfg['excess'])
    mix = th.mixture
    T = w.real('T', lo=0., lo_strict=True)
    P = w.real('P', lo=0., lo_strict=True)
    cfg_l = dict(cfg, maybe=[])
    mol_l, vl = _mol(w, cfg_l, 'nl')
    mol_g, vg = _mol(w, cfg_l, 'ng')
    stored_l, stored_g = _stored(mol_l), _stored(mol_g)
    ex = 1. if cfg['excess'] else 0.

    def pure(var, phase, k, with_P=True):
        return w.fn(f'{var}.{IDs[k]}.{phase}')(T, P) if with_P else w.fn(f'{var}.{IDs[k]}.{phase}')(T)

    def wsum(var, phase, vals, with_P=True):
        return w.total([vals[k] * pure(var, phase, k, with_P) for k in range(n) if k in cfg['present']])

    H_l = mix.H('l', mol_l, T, P)
    S_l = mix.S('l', mol_l, T, P)
    H_g = mix.H('g', mol_g, T, P)
    S_g = mix.S('g', mol_g, T, P)
    Cn_l = mix.Cn('l', mol_l, T)
    Cn_g = mix.Cn('g', mol_g, T)
    phase_mol = (('l', mol_l), ('g', mol_g))
    xH, xS, xCn = mix.xH(phase_mol, T, P), mix.xS(iter(phase_mol), T, P), mix.xCn(phase_mol, T)
    S_empty = mix.S('l', SparseVector.from_dict({}, n), T, P)

    w.ensure('H = sum n_k h_k (+ sum n_k hE_k iff include_excess_energies)',
             w.eq(H_l, wsum('H', 'l', vl) + ex * wsum('H_excess', 'l', vl)))
    w.ensure('Cn = sum n_k cn_k', w.eq(Cn_l, wsum('Cn', 'l', vl, with_P=False)))
    w.ensure('S: excess entropy added iff include_excess_energies',
             w.eq(S_l - mix._S('l', mol_l, T, P), ex * wsum('S_excess', 'l', vl)))
    mixing, _ = _mixing_term(w, vl, stored_l)
    w.ensure('mixing-term: S = sum n_k s_k - R sum n_k ln x_k (+ excess iff include_excess_energies)',
             w.eq(S_l, wsum('S', 'l', vl) + mixing + ex * wsum('S_excess', 'l', vl)))
    w.ensure('S of an empty phase = 0', w.eq(S_empty, 0.))
    w.ensure('xH = sum over phases of H', w.eq(xH, H_l + H_g))
    w.ensure('xS = sum over phases of S', w.eq(xS, S_l + S_g))
    w.ensure('xCn = sum over phases of Cn', w.eq(xCn, Cn_l + Cn_g))
    w.ensure('frame: mol unchanged', w.And(_same_dct(w, stored_l, mol_l.dct), _same_dct(w, stored_g, mol_g.dct)))
    w.ensure('frame: include_excess_energies unchanged', mix.include_excess_energies is cfg['excess'])
    w.canary('canary: H ignores the excess flag', w.eq(H_l, wsum('H', 'l', vl) + (1. - ex) * wsum('H_excess', 'l', vl) + 1.))
    w.canary('canary: xH = H_l', w.eq(xH, H_l + H_g + 1.))


# --------------------------------------------------------------------------- wiring of the mixture models to the chemicals

def wiring_configs(tier):
    out = [{'name': 'IDs=' + '+'.join(MIX_IDS[:n]), 'IDs': list(MIX_IDS[:n])} for n in (2, 3, 4)]
    return out


@group('C07/mixture_wiring', configs=wiring_configs, loop_free=True,
       functions=['thermosteam.mixture.mixture:IdealMixture.from_chemicals', 'thermosteam.mixture.mixture:create_mixture_model'])
def mixture_wiring(w, cfg):
    from thermosteam.mixture import IdealTPMixtureModel, IdealTMixtureModel, IdealEntropyModel, IdealMixture
    chems = W.thermo(cfg['IDs']).chemicals
    for ex in (False, True):
        mix = IdealMixture.from_chemicals(chems, include_excess_energies=ex)
        for var, model, cls in (('Cn', mix.Cn, IdealTMixtureModel), ('H', mix._H, IdealTPMixtureModel),
                                ('S', mix._S, IdealEntropyModel), ('H_excess', mix._H_excess, IdealTPMixtureModel),
                                ('S_excess', mix._S_excess, IdealTPMixtureModel)):
            ok = type(model) is cls and len(model.models) == len(chems.tuple)
            ok = ok and all((m is getattr(c, var)) or (getattr(m, 'model', None) is getattr(c, var))
                            for m, c in zip(model.models, chems.tuple))
            w.ensure(f'{var} model k is the {var} of chemical k (index order); excess={ex}', ok)
        w.ensure(f'include_excess_energies stored; excess={ex}', mix.include_excess_energies is ex)
    w.canary('canary: models reversed', all(m is getattr(c, 'H') for m, c in zip(mix._H.models, reversed(chems.tuple))))


# --------------------------------------------------------------------------- Stream.S before / after mixing pure streams

def stream_configs(tier):
    out = [{'name': f'N={n};phase={ph}', 'N': n, 'phase': ph} for n in (2, 3) for ph in ('l', 'g')]
    return out if tier == 'thorough' else out[:2]


@group('C07/mixture_stream', configs=stream_configs, loop_free=True,
       functions=['thermosteam._stream:Stream.S', 'thermosteam._stream:Stream._get_property',
                  'thermosteam.mixture.mixture:Mixture.S', 'thermosteam.mixture.ideal_mixture_model:IdealEntropyModel.__call__'],
       assumptions=['A-models: pure-component S are arbitrary (uninterpreted) functions of (phase, T, P)',
                    'A-log: log is uninterpreted with log(a/b) = log a - log b; ground instances of log x <= log y for 0 < x <= y and log 1 = 0'])
def mixture_stream(w, cfg):
    W.reset_caches()
    n, phase = cfg['N'], cfg['phase']
    IDs = MIX_IDS[:n]
    th = W.stub_thermo(w, IDs)
    T = w.real('T', lo=0., lo_strict=True)
    P = w.real('P', lo=0., lo_strict=True)
    inlets, amounts = [], []
    for k, ID in enumerate(IDs):
        s, lv = W.stream_on(w, f'in{k}', th, phase, T=T, P=P, present={'default': 'zero', (phase, ID): 'pos'})
        inlets.append(s); amounts.append(lv[phase, ID])
    N = w.total(amounts)
    _assume_log_monotone(w, [(v, N) for v in amounts])
    # A-log: log 1 = 0, ground instance at the term that occurs (the sum of the normalised composition Stream.S passes on)
    Y = w.total([v / N for v in amounts])
    w.assume(w.Implies(w.eq(Y, 1.), w.eq(_log(w, Y), 0.)))
    S_in = [s.S for s in inlets]
    pre = [W.snapshot(s) for s in inlets]
    mixed, _ = W.stream_on(w, 'mixed', th, phase, T=T, P=P, present={'default': 'zero'})
    mixed.mix_from(inlets, energy_balance=False)
    w.ensure('mixed stream at the same T and P', w.And(w.eq(mixed.T, T), w.eq(mixed.P, P)))
    S_out = mixed.S
    for k, ID in enumerate(IDs):
        w.ensure(f'pure inlet {k}: S = n s_k(T,P)', w.eq(S_in[k], amounts[k] * w.fn(f'S.{ID}.{phase}')(T, P)))
    w.ensure('mixing-term => mixing streams at equal T and P never lowers entropy', w.ge(S_out, w.total(S_in)),
             S_out=str(S_out)[:300])
    w.ensure('frame: inlets unchanged', w.And(*[W.same_snapshot(w, p0, W.snapshot(s)) for p0, s in zip(pre, inlets)]))
    # (cheap canary on purpose: the path condition of this group is non-linear, a model search with more
    #  non-linear terms in the canary itself made z3 answer `unknown` now and then on a loaded machine)
    w.canary('canary: mixing changes the temperature', w.eq(mixed.T, T + 1.))
