# -*- coding: utf-8 -*-
"""
C11 — molar, mass and volumetric views and unit conversions of a stream always agree.

Contracts (sidecar) on the real functions of thermosteam; every `ensures` is a sentence of the
property, stated over the raw molar data of the stream (the sparse dicts) and the *live*
temperature, pressure and phase:

    mass_k  = MW_k * mol_k                 vol_k = 1000 * V_k(phase_now, T_now, P_now) * mol_k
    F_mol = sum mol, F_mass = sum mass, F_vol = sum vol
    write through a view in a unit, read back in the same unit   -> the written value
    read in another unit                                           -> written value * fixed factor
    set a total                                                    -> composition unchanged
    inconsistent dimension                                         -> rejected (and nothing changes)
    ... and all of it again after T=, P=, phase=, phases=, link_with, unlink, copy_like, _reset_thermo.

A-models: the pure-component molar volumes V_k(phase, T, P) are positive uninterpreted functions
planted on the real Chemical objects (`chem._V`, a real PhaseTPHandle of stub functions); the
mixture rule is the real IdealMixture built by the real `from_chemicals` from those chemicals.
A-pint: unit factors are the concrete floats of the real pint-backed `conversion_factor`
(compared once against textbook constants).  MW are the real floats.
"""
import os
import itertools
import numpy as np
import thermosteam as tmo
from thermosteam.base import PhaseTPHandle
from thermosteam.base.dictionary_view import MassFlowDict, VolumetricFlowDict
from thermosteam.mixture import IdealMixture
from thermosteam import units_of_measure as UofM
from engine.api import group
from engine.sx import tmo_world as W

A = ('Water', 'Ethanol')
B = ('Ethanol', 'Water')                    # same chemicals, other order (property-package reset)
A3 = ('Water', 'Ethanol', 'Octane')
B3 = ('Octane', 'Water', 'Ethanol')
PKG = {'A': A, 'B': B, 'A3': A3, 'B3': B3}
W.preload(list(PKG.values()))
# engine option (sym.Ctx.prove): discharge each VC first with a fresh one-shot solver (same formula, 100x faster here)
os.environ.setdefault('VERIF_PROVE_FRESH_MS', '5000')

KINDS = {'l': 'l', 'g': 'g', 's': 's', 'L': 'L', 'gl': ('g', 'l'), 'ls': ('l', 's'), 'gls': ('g', 'l', 's'),
         'lL': ('L', 'l')}

ASSUME = ['A-models: V_k(phase,T,P) positive uninterpreted functions of the live (T, P) per chemical and phase',
          'A-pint: unit factors are the floats returned by the real pint registry',
          'A-TPtol: two temperatures/pressures of one history are either the same value or differ by >= 1e-6 '
          '(ThermalCondition.in_equilibrium treats |dT|,|dP| < 1e-12 as equal)']

# fixed conversion factors (textbook constants) from the base units kmol/hr, kg/hr, m3/hr
TEXTBOOK = {
    'kmol/hr': ('mol', 1.), 'mol/s': ('mol', 1000. / 3600.), 'mol/hr': ('mol', 1000.), 'lbmol/hr': ('mol', 1. / 0.45359237),
    'kg/hr': ('mass', 1.), 'lb/hr': ('mass', 1. / 0.45359237), 'g/min': ('mass', 1000. / 60.), 'kg/s': ('mass', 1. / 3600.),
    'm3/hr': ('vol', 1.), 'm^3/hr': ('vol', 1.), 'L/min': ('vol', 1000. / 60.), 'gal/min': ('vol', 1. / 0.003785411784 / 60.),
    'm3/s': ('vol', 1. / 3600.),
}
BASE = {'mol': 'kmol/hr', 'mass': 'kg/hr', 'vol': 'm^3/hr'}
BAD_UNITS = ['kg', 'K', 'm', 'kg/m3', 'kmol', 'J/hr', 'hr']


def pint_factor(units):
    """(view name, factor) through the real pint-backed units objects, not through Stream._flow_cache."""
    name = TEXTBOOK[units][0]
    return name, UofM.AbsoluteUnitsOfMeasure(BASE[name]).conversion_factor(units)


# --------------------------------------------------------------------------- world

SINGLE_MODEL = ()          # IDs whose V is one phase-independent model (locked-state chemicals); set per configuration


def _Vfn(w, ID, phase, single=False):
    return w.fn(f'V.{ID}' if single else f'V.{ID}.{phase.lower()}', positive=True)


def plant_V(w, chem, single=False):
    """chem.V becomes a *real* PhaseTPHandle whose s/l/g models are uninterpreted positive functions of (T, P)."""
    ID = chem.ID
    if single:
        f = _Vfn(w, ID, None, True)
        object.__setattr__(chem, '_V', lambda T, P=None: f(T, P))
        return

    def model(ph):
        f = _Vfn(w, ID, ph)
        return lambda T, P=None: f(T, P)
    object.__setattr__(chem, '_V', PhaseTPHandle('V', model('s'), model('l'), model('g'), None))


def package(w, pkg, single=()):
    """Real Thermo on the real compiled chemicals; V of every chemical stubbed; real ideal mixing rule."""
    th = W.thermo(PKG[pkg])
    for c in th.chemicals.tuple:
        plant_V(w, c, c.ID in single)
    mix = IdealMixture.from_chemicals(th.chemicals)
    return tmo.Thermo(th.chemicals, mixture=mix)


def V_expected(w, s, ID, phase, T, P, single=()):
    return _Vfn(w, ID, phase, ID in single)(T, P)


def present(pkg, rows, mode):
    IDs = PKG[pkg]
    if mode == 'all-maybe':
        return None
    p = {'default': 'zero'}
    for n, ph in enumerate(rows):
        if mode == 'pos+maybe':
            p[ph, IDs[0]] = 'pos'
            p[ph, IDs[-1]] = 'maybe' if n == 0 else 'pos'
        elif mode == 'all-pos':
            for ID in IDs: p[ph, ID] = 'pos'
        elif mode == 'first-pos':
            p[ph, IDs[0]] = 'pos'
        elif mode == 'diag':            # phase n holds chemical n (and the first phase also the last chemical)
            p[ph, IDs[n % len(IDs)]] = 'pos'
        elif mode == 'empty':
            pass
    return p


def mk(w, name, kind, pkg, mode, th=None, single=()):
    th = th or package(w, pkg, single)
    phases = KINDS[kind]
    rows = (phases,) if isinstance(phases, str) else tuple(sorted(phases))
    return W.stream_on(w, name, th, phases, present=present(pkg, rows, mode))


def distinct(w, xs):
    """A-TPtol for a list of leaves."""
    for a, b in itertools.combinations(xs, 2):
        w.assume(w.Or(w.ge(a - b, 1e-6), w.ge(b - a, 1e-6)))


# --------------------------------------------------------------------------- observation (the ensures of the property)

class Raised:
    def __init__(self, e): self.e = e
    def __repr__(self): return f'<raised {type(self.e).__name__}: {self.e}>'


def attempt(f):
    try:
        return f()
    except Exception as e:       # an exception while *reading* a view is never an allowed outcome
        return Raised(e)


def eq_or_fail(w, got, want):
    if isinstance(got, Raised):
        return w.And(False)
    return w.eq(got, want)


def observe(w, s, tag, single=(), units=('mol/s', 'lb/hr', 'L/min'), canary=False):
    """
    Full observation of one stream: every relation of the property between the raw molar data and
    what the mass / volumetric views, the totals and the unit-converting getters show *now*.
    """
    multi = isinstance(s, tmo.MultiStream)
    IDs = s.chemicals.IDs
    MW = s.chemicals.MW
    T = s._thermal_condition._T
    P = s._thermal_condition._P
    rows = W.rows_of(s)
    pre = W.snapshot(s)
    imass = attempt(lambda: s.imass)
    ivol = attempt(lambda: s.ivol)
    F = {'mol': 0., 'mass': 0., 'vol': 0.}
    per_chem = {ID: {'mol': 0., 'mass': 0., 'vol': 0.} for ID in IDs}
    exp = {}
    for ph, sv in rows:
        for k, ID in enumerate(IDs):
            n = sv.dct.get(k, 0.)
            m = float(MW[k]) * n
            v = 1000. * V_expected(w, s, ID, ph, T, P, single) * n if not _is_zero(n) else 0.
            exp[ph, ID] = (n, m, v)
            F['mol'] = F['mol'] + n; F['mass'] = F['mass'] + m; F['vol'] = F['vol'] + v
            c = per_chem[ID]
            c['mol'] = c['mol'] + n; c['mass'] = c['mass'] + m; c['vol'] = c['vol'] + v
    # structure of the views follows the stream
    if multi:
        w.ensure(f'{tag}: imass/ivol have the phases of the stream',
                 (not isinstance(imass, Raised)) and (not isinstance(ivol, Raised))
                 and tuple(imass.phases) == tuple(s.phases) == tuple(ivol.phases))
    # entries
    for (ph, ID), (n, m, v) in exp.items():
        key = (ph, ID) if multi else ID
        w.ensure(f'{tag}: imass[{ph},{ID}] = MW*mol', eq_or_fail(w, attempt(lambda: imass[key]), m))
        w.ensure(f'{tag}: ivol[{ph},{ID}] = 1000*V(phase,T,P)*mol', eq_or_fail(w, attempt(lambda: ivol[key]), v))
        w.ensure(f'{tag}: imol[{ph},{ID}] = molar data', eq_or_fail(w, attempt(lambda: s.imol[key]), n))
    # arrays mol / mass / vol (per chemical; total over phases for a MultiStream)
    mol = attempt(lambda: s.mol); mass = attempt(lambda: s.mass); vol = attempt(lambda: s.vol)
    for k, ID in enumerate(IDs):
        c = per_chem[ID]
        w.ensure(f'{tag}: mol[{ID}]', eq_or_fail(w, attempt(lambda: mol[k]), c['mol']))
        w.ensure(f'{tag}: mass[{ID}] = MW*mol', eq_or_fail(w, attempt(lambda: mass[k]), c['mass']))
        w.ensure(f'{tag}: vol[{ID}] = 1000*V*mol', eq_or_fail(w, attempt(lambda: vol[k]), c['vol']))
    # totals are the sums of the views
    F_mol = attempt(lambda: s.F_mol); F_mass = attempt(lambda: s.F_mass); F_vol = attempt(lambda: s.F_vol)
    w.ensure(f'{tag}: F_mol = sum mol', eq_or_fail(w, F_mol, F['mol']))
    w.ensure(f'{tag}: F_mass = sum MW*mol', eq_or_fail(w, F_mass, F['mass']))
    w.ensure(f'{tag}: F_vol = sum 1000*V*mol', eq_or_fail(w, F_vol, F['vol']))
    w.ensure(f'{tag}: mass.sum() = F_mass', eq_or_fail(w, attempt(lambda: s.mass.sum()), F['mass']))
    w.ensure(f'{tag}: vol.sum() = F_vol', eq_or_fail(w, attempt(lambda: s.vol.sum()), F['vol']))
    if multi:
        w.ensure(f'{tag}: imass.data.sum() = F_mass', eq_or_fail(w, attempt(lambda: s.imass.data.sum()), F['mass']))
        w.ensure(f'{tag}: ivol.data.sum() = F_vol', eq_or_fail(w, attempt(lambda: s.ivol.data.sum()), F['vol']))
    # unit-converting getters
    ph0, ID0 = next(iter(exp))
    key0 = (ph0, ID0) if multi else ID0
    for u in units:
        name, f = pint_factor(u)
        idx = {'mol': 0, 'mass': 1, 'vol': 2}[name]
        w.ensure(f'{tag}: get_flow({u})[{ph0},{ID0}] = factor*view',
                 eq_or_fail(w, attempt(lambda: s.get_flow(u, key0)), f * exp[ph0, ID0][idx]))
        w.ensure(f'{tag}: get_total_flow({u}) = factor*total', eq_or_fail(w, attempt(lambda: s.get_total_flow(u)), f * F[name]))
    # frame: observing changes nothing
    w.ensure(f'{tag}: observation leaves molar data, T, P unchanged',
             w.And(W.same_snapshot(w, pre, W.snapshot(s)), w.eq(s._thermal_condition._T, T), w.eq(s._thermal_condition._P, P)))
    if canary:
        w.canary(f'canary: F_mass = F_mol', eq_or_fail(w, F_mass, F['mol'] + 1.))
        w.canary(f'canary: vol = 1000*V*mol + 1', eq_or_fail(w, attempt(lambda: vol[0]), per_chem[IDs[0]]['vol'] + 1.))
    return {'F': F, 'exp': exp, 'per_chem': per_chem}


def _is_zero(x):
    return isinstance(x, (int, float)) and x == 0


# --------------------------------------------------------------------------- group 1: plain observation, every kind

def views_configs(tier):
    out = []
    kinds = ['l', 'g', 's', 'L', 'gl', 'ls', 'gls'] if tier == 'quick' else list(KINDS)
    for k in kinds:
        for pkg in (['A'] if tier == 'quick' else ['A', 'B', 'A3']):
            modes = ['pos+maybe', 'empty'] if tier == 'quick' else ['pos+maybe', 'empty', 'all-pos', 'all-maybe']
            for mode in modes:
                if mode == 'all-maybe' and (len(KINDS[k]) > 2 and not isinstance(KINDS[k], str) or pkg == 'A3' and not isinstance(KINDS[k], str)):
                    continue
                out.append({'name': f'kind={k};pkg={pkg};flows={mode}', 'kind': k, 'pkg': pkg, 'mode': mode, 'single': []})
    out.append({'name': 'kind=l;pkg=A;flows=all-pos;single-model-V=Water', 'kind': 'l', 'pkg': 'A', 'mode': 'all-pos', 'single': ['Water']})
    out.append({'name': 'kind=gl;pkg=A;flows=all-pos;single-model-V=Ethanol', 'kind': 'gl', 'pkg': 'A', 'mode': 'all-pos', 'single': ['Ethanol']})
    return out


FUNCS_VIEWS = ['thermosteam.indexer:ChemicalMolarFlowIndexer.by_mass', 'thermosteam.indexer:MolarFlowIndexer.by_mass',
               'thermosteam.indexer:ChemicalMolarFlowIndexer.by_volume', 'thermosteam.indexer:MolarFlowIndexer.by_volume',
               'thermosteam.base.dictionary_view:MassFlowDict.output', 'thermosteam.base.dictionary_view:VolumetricFlowDict.output',
               'thermosteam.base.dictionary_view:DictionaryView.get', 'thermosteam.base.dictionary_view:DictionaryView.values',
               'thermosteam._stream:Stream.mol', 'thermosteam._stream:Stream.mass', 'thermosteam._stream:Stream.vol',
               'thermosteam._stream:Stream.imass', 'thermosteam._stream:Stream.ivol',
               'thermosteam._stream:Stream.F_mol', 'thermosteam._stream:Stream.F_mass', 'thermosteam._stream:Stream.F_vol',
               'thermosteam._multi_stream:MultiStream.mol', 'thermosteam._multi_stream:MultiStream.mass',
               'thermosteam._multi_stream:MultiStream.vol', 'thermosteam._stream:Stream.get_flow',
               'thermosteam._multi_stream:MultiStream.get_flow', 'thermosteam._stream:Stream.get_total_flow',
               'thermosteam._stream:Stream._get_flow_name_and_factor']


@group('C11/views', configs=views_configs, functions=FUNCS_VIEWS, assumptions=ASSUME, loop_free=True)
def views(w, cfg):
    W.reset_caches()
    single = tuple(cfg['single'])
    s, _ = mk(w, 's', cfg['kind'], cfg['pkg'], cfg['mode'], single=single)
    observe(w, s, 'obs', single=single, units=('kmol/hr', 'mol/s', 'kg/hr', 'lb/hr', 'g/min', 'm3/hr', 'L/min', 'gal/min'),
            canary=True)
    # a second observation (now through the cached view objects) must give the same answers
    observe(w, s, 'obs2', single=single, units=())
