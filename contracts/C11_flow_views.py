# -*- coding: utf-8 -*-
"""
C11 — molar, mass and volumetric views and unit conversions of a stream always agree.

Contracts (sidecar) on the real functions of thermosteam; every `ensures` is a sentence of the
property, stated over the raw molar data of the stream (the sparse dicts) and the *live*
temperature, pressure and phase:

    mass_k  = MW_k * mol_k                 vol_k = 1000 * V_k(phase_now, T_now, P_now) * mol_k
    F_mol = sum mol, F_mass = sum mass, F_vol = sum vol
    write through a view in a unit, read back in the same unit   -> the written value
    read in another unit                                           -> written value * fixed factor
    set a total                                                    -> composition unchanged
    inconsistent dimension                                         -> rejected (and nothing changes)
    ... and all of it again after T=, P=, phase=, phases=, link_with, unlink, copy_like, _reset_thermo.

A-models: the pure-component molar volumes V_k(phase, T, P) are positive uninterpreted functions
planted on the real Chemical objects (`chem._V`, a real PhaseTPHandle of stub functions); the
mixture rule is the real IdealMixture built by the real `from_chemicals` from those chemicals.
A-pint: unit factors are the concrete floats of the real pint-backed `conversion_factor`
(compared once against textbook constants).  MW are the real floats.
"""
import os
import itertools
import numpy as np
import thermosteam as tmo
from thermosteam.base import PhaseTPHandle
from thermosteam.base.dictionary_view import MassFlowDict, VolumetricFlowDict
from thermosteam.mixture import IdealMixture
from thermosteam import units_of_measure as UofM
from engine.api import group
from engine.sx import tmo_world as W

A = ('Water', 'Ethanol')
B = ('Ethanol', 'Water')                    # same chemicals, other order (property-package reset)
A3 = ('Water', 'Ethanol', 'Octane')
B3 = ('Octane', 'Water', 'Ethanol')
PKG = {'A': A, 'B': B, 'A3': A3, 'B3': B3}
W.preload(list(PKG.values()))
# engine option (sym.Ctx.prove): discharge each VC first with a fresh one-shot solver (same formula, 100x faster here)
os.environ.setdefault('VERIF_PROVE_FRESH_MS', '5000')

KINDS = {'l': 'l', 'g': 'g', 's': 's', 'L': 'L', 'gl': ('g', 'l'), 'ls': ('l', 's'), 'gls': ('g', 'l', 's'),
         'lL': ('L', 'l')}

ASSUME = ['A-models: V_k(phase,T,P) positive uninterpreted functions of the live (T, P) per chemical and phase',
          'A-pint: unit factors are the floats returned by the real pint registry',
          'A-TPtol: two temperatures/pressures of one history are either the same value or differ by >= 1e-6 '
          '(ThermalCondition.in_equilibrium treats |dT|,|dP| < 1e-12 as equal)']

# fixed conversion factors (textbook constants) from the base units kmol/hr, kg/hr, m3/hr
TEXTBOOK = {
    'kmol/hr': ('mol', 1.), 'mol/s': ('mol', 1000. / 3600.), 'mol/hr': ('mol', 1000.), 'lbmol/hr': ('mol', 1. / 0.45359237),
    'kg/hr': ('mass', 1.), 'lb/hr': ('mass', 1. / 0.45359237), 'g/min': ('mass', 1000. / 60.), 'kg/s': ('mass', 1. / 3600.),
    'm3/hr': ('vol', 1.), 'm^3/hr': ('vol', 1.), 'L/min': ('vol', 1000. / 60.), 'gal/min': ('vol', 1. / 0.003785411784 / 60.),
    'm3/s': ('vol', 1. / 3600.),
}
BASE = {'mol': 'kmol/hr', 'mass': 'kg/hr', 'vol': 'm^3/hr'}
BAD_UNITS = ['kg', 'K', 'm', 'kg/m3', 'kmol', 'J/hr', 'hr']


def pint_factor(units):
    """(view name, factor) through the real pint-backed units objects, not through Stream._flow_cache."""
    name = TEXTBOOK[units][0]
    return name, UofM.AbsoluteUnitsOfMeasure(BASE[name]).conversion_factor(units)


# --------------------------------------------------------------------------- world

def _Vfn(w, ID, phase, single=False):
    return w.fn(f'V.{ID}' if single else f'V.{ID}.{phase.lower()}', positive=True)


def plant_V(w, chem, single=False):
    """chem.V becomes a *real* PhaseTPHandle whose s/l/g models are uninterpreted positive functions of (T, P)."""
    ID = chem.ID
    if single:
        f = _Vfn(w, ID, None, True)
        object.__setattr__(chem, '_V', lambda T, P=None: f(T, P))
        return

    def model(ph):
        f = _Vfn(w, ID, ph)
        return lambda T, P=None: f(T, P)
    object.__setattr__(chem, '_V', PhaseTPHandle('V', model('s'), model('l'), model('g'), None))


def package(w, pkg, single=()):
    """Real Thermo on the real compiled chemicals; V of every chemical stubbed; real ideal mixing rule."""
    th = W.thermo(PKG[pkg])
    for c in th.chemicals.tuple:
        plant_V(w, c, c.ID in single)
    mix = IdealMixture.from_chemicals(th.chemicals)
    return tmo.Thermo(th.chemicals, mixture=mix)


def V_expected(w, s, ID, phase, T, P, single=()):
    return _Vfn(w, ID, phase, ID in single)(T, P)


def present(pkg, rows, mode):
    IDs = PKG[pkg]
    if mode == 'all-maybe':
        return None
    p = {'default': 'zero'}
    for n, ph in enumerate(rows):
        if mode == 'pos+maybe':
            p[ph, IDs[0]] = 'pos'
            p[ph, IDs[-1]] = 'maybe' if n == 0 else 'pos'
        elif mode == 'all-pos':
            for ID in IDs: p[ph, ID] = 'pos'
        elif mode == 'first-pos':
            p[ph, IDs[0]] = 'pos'
        elif mode == 'diag':            # phase n holds chemical n (and the first phase also the last chemical)
            p[ph, IDs[n % len(IDs)]] = 'pos'
        elif mode == 'empty':
            pass
    return p


def mk(w, name, kind, pkg, mode, th=None, single=()):
    th = th or package(w, pkg, single)
    phases = KINDS[kind]
    rows = (phases,) if isinstance(phases, str) else tuple(sorted(phases))
    return W.stream_on(w, name, th, phases, present=present(pkg, rows, mode))


def distinct(w, xs):
    """A-TPtol for a list of leaves."""
    for a, b in itertools.combinations(xs, 2):
        w.assume(w.Or(w.ge(a - b, 1e-6), w.ge(b - a, 1e-6)))


# --------------------------------------------------------------------------- observation (the ensures of the property)

class Raised:
    def __init__(self, e): self.e = e
    def __repr__(self): return f'<raised {type(self.e).__name__}: {self.e}>'


def attempt(f):
    try:
        return f()
    except Exception as e:       # an exception while *reading* a view is never an allowed outcome
        return Raised(e)


def eq_or_fail(w, got, want):
    if isinstance(got, Raised):
        return w.And(False)
    return w.eq(got, want)


def observe(w, s, tag, single=(), units=('mol/s', 'lb/hr', 'L/min'), canary=False):
    """
    Full observation of one stream: every relation of the property between the raw molar data and
    what the mass / volumetric views, the totals and the unit-converting getters show *now*.
    """
    multi = isinstance(s, tmo.MultiStream)
    IDs = s.chemicals.IDs
    MW = s.chemicals.MW
    T = s._thermal_condition._T
    P = s._thermal_condition._P
    rows = W.rows_of(s)
    pre = W.snapshot(s)
    imass = attempt(lambda: s.imass)
    ivol = attempt(lambda: s.ivol)
    F = {'mol': 0., 'mass': 0., 'vol': 0.}
    per_chem = {ID: {'mol': 0., 'mass': 0., 'vol': 0.} for ID in IDs}
    exp = {}
    for ph, sv in rows:
        for k, ID in enumerate(IDs):
            n = sv.dct.get(k, 0.)
            m = float(MW[k]) * n
            v = 1000. * V_expected(w, s, ID, ph, T, P, single) * n if not _is_zero(n) else 0.
            exp[ph, ID] = (n, m, v)
            F['mol'] = F['mol'] + n; F['mass'] = F['mass'] + m; F['vol'] = F['vol'] + v
            c = per_chem[ID]
            c['mol'] = c['mol'] + n; c['mass'] = c['mass'] + m; c['vol'] = c['vol'] + v
    # structure of the views follows the stream
    if multi:
        w.ensure(f'{tag}: imass/ivol have the phases of the stream',
                 (not isinstance(imass, Raised)) and (not isinstance(ivol, Raised))
                 and tuple(imass.phases) == tuple(s.phases) == tuple(ivol.phases))
    # entries
    for (ph, ID), (n, m, v) in exp.items():
        key = (ph, ID) if multi else ID
        w.ensure(f'{tag}: imass[{ph},{ID}] = MW*mol', eq_or_fail(w, attempt(lambda: imass[key]), m))
        w.ensure(f'{tag}: ivol[{ph},{ID}] = 1000*V(phase,T,P)*mol', eq_or_fail(w, attempt(lambda: ivol[key]), v))
        w.ensure(f'{tag}: imol[{ph},{ID}] = molar data', eq_or_fail(w, attempt(lambda: s.imol[key]), n))
    # arrays mol / mass / vol (per chemical; total over phases for a MultiStream)
    mol = attempt(lambda: s.mol); mass = attempt(lambda: s.mass); vol = attempt(lambda: s.vol)
    for k, ID in enumerate(IDs):
        c = per_chem[ID]
        w.ensure(f'{tag}: mol[{ID}]', eq_or_fail(w, attempt(lambda: mol[k]), c['mol']))
        w.ensure(f'{tag}: mass[{ID}] = MW*mol', eq_or_fail(w, attempt(lambda: mass[k]), c['mass']))
        w.ensure(f'{tag}: vol[{ID}] = 1000*V*mol', eq_or_fail(w, attempt(lambda: vol[k]), c['vol']))
    # totals are the sums of the views
    F_mol = attempt(lambda: s.F_mol); F_mass = attempt(lambda: s.F_mass); F_vol = attempt(lambda: s.F_vol)
    w.ensure(f'{tag}: F_mol = sum mol', eq_or_fail(w, F_mol, F['mol']))
    w.ensure(f'{tag}: F_mass = sum MW*mol', eq_or_fail(w, F_mass, F['mass']))
    w.ensure(f'{tag}: F_vol = sum 1000*V*mol', eq_or_fail(w, F_vol, F['vol']))
    w.ensure(f'{tag}: mass.sum() = F_mass', eq_or_fail(w, attempt(lambda: s.mass.sum()), F['mass']))
    w.ensure(f'{tag}: vol.sum() = F_vol', eq_or_fail(w, attempt(lambda: s.vol.sum()), F['vol']))
    if multi:
        w.ensure(f'{tag}: imass.data.sum() = F_mass', eq_or_fail(w, attempt(lambda: s.imass.data.sum()), F['mass']))
        w.ensure(f'{tag}: ivol.data.sum() = F_vol', eq_or_fail(w, attempt(lambda: s.ivol.data.sum()), F['vol']))
    # unit-converting getters
    ph0, ID0 = next(iter(exp))
    key0 = (ph0, ID0) if multi else ID0
    for u in units:
        name, f = pint_factor(u)
        idx = {'mol': 0, 'mass': 1, 'vol': 2}[name]
        w.ensure(f'{tag}: get_flow({u})[{ph0},{ID0}] = factor*view',
                 eq_or_fail(w, attempt(lambda: s.get_flow(u, key0)), f * exp[ph0, ID0][idx]))
        w.ensure(f'{tag}: get_total_flow({u}) = factor*total', eq_or_fail(w, attempt(lambda: s.get_total_flow(u)), f * F[name]))
    # frame: observing changes nothing
    w.ensure(f'{tag}: observation leaves molar data, T, P unchanged',
             w.And(W.same_snapshot(w, pre, W.snapshot(s)), w.eq(s._thermal_condition._T, T), w.eq(s._thermal_condition._P, P)))
    if canary:
        w.canary(f'canary: F_mass = F_mol', eq_or_fail(w, F_mass, F['mol'] + 1.))
        w.canary(f'canary: vol = 1000*V*mol + 1', eq_or_fail(w, attempt(lambda: vol[0]), per_chem[IDs[0]]['vol'] + 1.))
    return {'F': F, 'exp': exp, 'per_chem': per_chem}


def _is_zero(x):
    return isinstance(x, (int, float)) and x == 0


# --------------------------------------------------------------------------- group 1: plain observation, every kind

def views_configs(tier):
    out = []
    kinds = ['l', 'g', 's', 'L', 'gl', 'ls', 'gls'] if tier == 'quick' else list(KINDS)
    for k in kinds:
        for pkg in (['A'] if tier == 'quick' else ['A', 'B', 'A3']):
            modes = ['pos+maybe', 'empty'] if tier == 'quick' else ['pos+maybe', 'empty', 'all-pos', 'all-maybe']
            for mode in modes:
                if mode == 'all-maybe' and (len(KINDS[k]) > 2 and not isinstance(KINDS[k], str) or pkg == 'A3' and not isinstance(KINDS[k], str)):
                    continue
                out.append({'name': f'kind={k};pkg={pkg};flows={mode}', 'kind': k, 'pkg': pkg, 'mode': mode, 'single': []})
    out.append({'name': 'kind=l;pkg=A;flows=all-pos;single-model-V=Water', 'kind': 'l', 'pkg': 'A', 'mode': 'all-pos', 'single': ['Water']})
    out.append({'name': 'kind=gl;pkg=A;flows=all-pos;single-model-V=Ethanol', 'kind': 'gl', 'pkg': 'A', 'mode': 'all-pos', 'single': ['Ethanol']})
    return out


FUNCS_VIEWS = ['thermosteam.indexer:ChemicalMolarFlowIndexer.by_mass', 'thermosteam.indexer:MolarFlowIndexer.by_mass',
               'thermosteam.indexer:ChemicalMolarFlowIndexer.by_volume', 'thermosteam.indexer:MolarFlowIndexer.by_volume',
               'thermosteam.base.dictionary_view:MassFlowDict.output', 'thermosteam.base.dictionary_view:VolumetricFlowDict.output',
               'thermosteam.base.dictionary_view:DictionaryView.get', 'thermosteam.base.dictionary_view:DictionaryView.values',
               'thermosteam._stream:Stream.mol', 'thermosteam._stream:Stream.mass', 'thermosteam._stream:Stream.vol',
               'thermosteam._stream:Stream.imass', 'thermosteam._stream:Stream.ivol',
               'thermosteam._stream:Stream.F_mol', 'thermosteam._stream:Stream.F_mass', 'thermosteam._stream:Stream.F_vol',
               'thermosteam._multi_stream:MultiStream.mol', 'thermosteam._multi_stream:MultiStream.mass',
               'thermosteam._multi_stream:MultiStream.vol', 'thermosteam._stream:Stream.get_flow',
               'thermosteam._multi_stream:MultiStream.get_flow', 'thermosteam._stream:Stream.get_total_flow',
               'thermosteam._stream:Stream._get_flow_name_and_factor']


@group('C11/views', configs=views_configs, functions=FUNCS_VIEWS, assumptions=ASSUME, loop_free=True)
def views(w, cfg):
    W.reset_caches()
    single = tuple(cfg['single'])
    s, _ = mk(w, 's', cfg['kind'], cfg['pkg'], cfg['mode'], single=single)
    observe(w, s, 'obs', single=single, units=('kmol/hr', 'mol/s', 'kg/hr', 'lb/hr', 'g/min', 'm3/hr', 'L/min', 'gal/min'),
            canary=True)
    # a second observation (now through the cached view objects) must give the same answers
    observe(w, s, 'obs2', single=single, units=())


# --------------------------------------------------------------------------- group 2: the dictionary views themselves (loop-free)

def dict_configs(tier):
    out = []
    for kind in ['mass', 'vol-fixed-phase', 'vol-phase-container']:
        for op in ['read', 'setitem', 'pop', 'popitem', 'delitem', 'clear', 'setdefault-missing', 'setdefault-present', 'update']:
            out.append({'name': f'{kind};op={op}', 'kind': kind, 'op': op, 'hist': 'fresh'})
    for hist in ['cached-same-TP', 'cached-then-T', 'cached-then-P', 'cached-then-phase', 'cached-then-T-and-back']:
        for op in ['read', 'setitem']:
            for kind in ['vol-fixed-phase', 'vol-phase-container']:
                if hist == 'cached-then-phase' and kind == 'vol-fixed-phase':
                    continue
                out.append({'name': f'{kind};op={op};hist={hist}', 'kind': kind, 'op': op, 'hist': hist})
    return out


FUNCS_DICT = ['thermosteam.base.dictionary_view:DictionaryView.' + m for m in
              ('__iter__', '__len__', '__bool__', '__contains__', '__delitem__', '__getitem__', '__setitem__', 'keys', 'items',
               'values', 'clear', 'copy', 'get', 'pop', 'popitem', 'setdefault', 'update')] + [
    'thermosteam.base.dictionary_view:MassFlowDict.input', 'thermosteam.base.dictionary_view:MassFlowDict.output',
    'thermosteam.base.dictionary_view:VolumetricFlowDict.input', 'thermosteam.base.dictionary_view:VolumetricFlowDict.output',
    'thermosteam._thermal_condition:ThermalCondition.in_equilibrium']


@group('C11/view_dicts', configs=dict_configs, functions=FUNCS_DICT, assumptions=ASSUME, loop_free=True)
def view_dicts(w, cfg):
    """
    `view[k]` is `factor_k * dct[k]` for every stored key at the moment of the call, where factor_k is MW_k resp.
    1000*V_k(phase_now, T_now, P_now); every dict method is the dict method of the molar dict seen through
    that factor; writes store value/factor_k; whatever was read before (per-index cache) must not matter.
    """
    from thermosteam._phase import Phase
    size = 4
    IDs = ['c0', 'c1', 'c2', 'c3']
    dct = {0: w.real('n0', nonzero=True), 2: w.real('n2', nonzero=True), 3: w.real('n3', nonzero=True)}
    T0 = w.real('T', lo=0, lo_strict=True); P0 = w.real('P', lo=0, lo_strict=True)
    Ts = [T0]; Ps = [P0]
    if cfg['kind'] == 'mass':
        MW = [w.real(f'MW{i}', lo=0, lo_strict=True) for i in range(size)]
        view = MassFlowDict(dct, MW)
        factor = lambda k: MW[k]
    else:
        class C: pass
        chems = []
        for i, ID in enumerate(IDs):
            c = C(); c.ID = ID
            plant_V(w, c, single=(i == 3))          # index 3: one phase-independent model (not a PhaseHandle)
            chems.append(c)
        TP = tmo.ThermalCondition(T0, P0)
        container = Phase('l')
        if cfg['kind'] == 'vol-fixed-phase':
            view = VolumetricFlowDict(dct, TP, [c._V for c in chems], 'g', None, {})
            phase_now = lambda: 'g'
        else:
            view = VolumetricFlowDict(dct, TP, [c._V for c in chems], None, container, {})
            phase_now = lambda: container._phase
        factor = lambda k: 1000. * _Vfn(w, IDs[k], phase_now(), k == 3)(TP._T, TP._P)
        hist = cfg['hist']
        if hist != 'fresh':
            for k in list(dct): view[k]                       # fills the per-index cache at (T0, P0, 'l')
            view[0] = w.real('m_prev', lo=0, lo_strict=True)    # and a write through the view
            if hist in ('cached-then-T', 'cached-then-T-and-back'):
                T1 = w.real('T1', lo=0, lo_strict=True); Ts.append(T1); distinct(w, Ts)
                TP._T = T1
                if hist == 'cached-then-T-and-back':
                    view[2]                                   # cache of index 2 now at T1, the others still at T0
                    TP._T = T0
            elif hist == 'cached-then-P':
                P1 = w.real('P1', lo=0, lo_strict=True); Ps.append(P1); distinct(w, Ps)
                TP._P = P1
            elif hist == 'cached-then-phase':
                container.phase = 'g'
    old = dict(dct)
    op = cfg['op']
    keys = sorted(old)

    def ok_others(skip=()):
        return w.And(set(dct) == set(old) - set(skip) | (set(dct) & set(skip)),
                     *[w.eq(dct[k], old[k]) for k in old if k not in skip and k in dct])

    if op == 'read':
        for k in keys:
            w.ensure(f'view[{k}] = factor*mol', w.eq(view[k], factor(k) * old[k]))
            w.ensure(f'get({k}) = factor*mol', w.eq(view.get(k), factor(k) * old[k]))
        w.ensure('get(missing) = default', view.get(1) is None and view.get(1, 0.) == 0.)
        try:
            view[1]; raised = False
        except KeyError:
            raised = True
        w.ensure('view[missing] raises KeyError', raised)
        w.ensure('iter/len/bool/contains/keys mirror the molar dict',
                 list(view) == keys and len(view) == 3 and bool(view) and (2 in view) and (1 not in view) and list(view.keys()) == keys)
        items = list(view.items()); values = list(view.values()); cp = view.copy()
        w.ensure('items() = (key, factor*mol)', w.And([k for k, _ in items] == keys, *[w.eq(v, factor(k) * old[k]) for k, v in items]))
        w.ensure('values() = factor*mol', w.And(len(values) == 3, *[w.eq(v, factor(k) * old[k]) for k, v in zip(keys, values)]))
        w.ensure('copy() = plain dict of factor*mol', w.And(type(cp) is dict and sorted(cp) == keys, *[w.eq(cp[k], factor(k) * old[k]) for k in keys]))
        w.ensure('reading leaves the molar dict unchanged', ok_others())
        w.canary('canary: view[0] = mol', w.eq(view[0], old[0]))
    elif op == 'setitem':
        m = w.real('m', lo=0, lo_strict=True)
        view[2] = m
        view[1] = m
        w.ensure('after view[k] = m: mol[k] = m / factor (stored key)', w.eq(dct[2] * factor(2), m))
        w.ensure('after view[k] = m: mol[k] = m / factor (new key)', w.And(1 in dct, w.eq(dct.get(1, 0.) * factor(1), m)))
        w.ensure('write then read returns the written value', w.And(w.eq(view[2], m), w.eq(view[1], m)))
        w.ensure('other entries unchanged', ok_others(skip=(1, 2)))
        w.canary('canary: mol[k] = m', w.eq(dct[2], m))
    elif op == 'pop':
        r = view.pop(2)
        w.ensure('pop(k) returns factor*mol and removes k', w.And(w.eq(r, factor(2) * old[2]), 2 not in dct))
        w.ensure('other entries unchanged', ok_others(skip=(2,)))
        w.canary('canary: pop returns mol', w.eq(r, old[2]))
    elif op == 'popitem':
        r = view.popitem()
        last = keys[-1]
        w.ensure('popitem() returns factor*mol of the removed (last) key', w.And(w.eq(r, factor(last) * old[last]), last not in dct))
        w.ensure('other entries unchanged', ok_others(skip=(last,)))
        w.canary('canary: popitem returns mol', w.eq(r, old[last]))
    elif op == 'delitem':
        del view[0]
        w.ensure('del view[k] removes k only', w.And(0 not in dct, ok_others(skip=(0,))))
        w.canary('canary: nothing deleted', 0 in dct)
    elif op == 'clear':
        view.clear()
        w.ensure('clear() empties the molar dict', len(dct) == 0 and not view)
        w.canary('canary: clear keeps entries', len(dct) == 3)
    elif op == 'setdefault-missing':
        m = w.real('m', lo=0, lo_strict=True)
        view.setdefault(1, m)
        w.ensure('setdefault(missing, m) writes m through the view', w.And(1 in dct, w.eq(dct.get(1, 0.) * factor(1), m), ok_others(skip=(1,))))
        w.canary('canary: stores m as mol', w.eq(dct.get(1, 0.), m))
    elif op == 'setdefault-present':
        m = w.real('m', lo=0, lo_strict=True)
        view.setdefault(2, m)
        w.ensure('setdefault(present, m) changes nothing', ok_others())
        w.canary('canary: overwrites', w.eq(dct[2] * factor(2), m))
    elif op == 'update':
        m1 = w.real('m1', lo=0, lo_strict=True); m2 = w.real('m2', lo=0, lo_strict=True)
        view.update({1: m1, 2: m2})
        w.ensure('update writes every item through the view',
                 w.And(w.eq(dct.get(1, 0.) * factor(1), m1), w.eq(dct[2] * factor(2), m2), w.eq(view[1], m1), w.eq(view[2], m2), ok_others(skip=(1, 2))))
        w.canary('canary: update stores mol', w.eq(dct[2], m2))
    if cfg['kind'] != 'mass':
        w.ensure('T, P not changed by the view', w.And(w.eq(TP._T, Ts[-1] if cfg['hist'] != 'cached-then-T-and-back' else T0), w.eq(TP._P, Ps[-1])))


# --------------------------------------------------------------------------- group 3: unit factors and rejected dimensions

def unit_configs(tier):
    return [{'name': f'kind={k}', 'kind': k} for k in (['l', 'gl'] if tier == 'quick' else ['l', 'g', 'gl', 'gls'])]


@group('C11/units', configs=unit_configs, assumptions=ASSUME, loop_free=True,
       functions=['thermosteam._stream:Stream._get_flow_name_and_factor', 'thermosteam.units_of_measure:AbsoluteUnitsOfMeasure.conversion_factor',
                  'thermosteam._stream:Stream.get_flow', 'thermosteam._stream:Stream.set_flow', 'thermosteam._stream:Stream.get_total_flow',
                  'thermosteam._stream:Stream.set_total_flow', 'thermosteam.indexer:Indexer.get_data', 'thermosteam.indexer:Indexer.set_data',
                  'thermosteam.indexer:Indexer.get_conversion_factor'])
def units(w, cfg):
    """Each supported unit maps to the right view with the fixed factor; other dimensions are rejected and nothing changes."""
    W.reset_caches()
    s, _ = mk(w, 's', cfg['kind'], 'A', 'all-pos')
    multi = isinstance(s, tmo.MultiStream)
    key = (s.phases[0], 'Water') if multi else 'Water'
    for u, (name, const) in TEXTBOOK.items():
        got_name, got = type(s)._get_flow_name_and_factor(u)
        again = type(s)._get_flow_name_and_factor(u)          # second call is served from Stream._flow_cache
        w.ensure(f'units {u}: view is {name}, factor is the fixed constant',
                 got_name == name and abs(got - const) <= 1e-9 * const and again == (got_name, got) and pint_factor(u) == (name, got))
    pre = W.snapshot(s); T, P = s.T, s.P
    x = w.real('x', lo=0, lo_strict=True)
    for u in BAD_UNITS:
        for what, f in (('get_flow', lambda: s.get_flow(u, key)), ('set_flow', lambda: s.set_flow(x, u, key)),
                        ('get_total_flow', lambda: s.get_total_flow(u)), ('set_total_flow', lambda: s.set_total_flow(x, u))):
            r = attempt(f)
            w.ensure(f'{what}({u!r}) is rejected', isinstance(r, Raised) and isinstance(r.e, (tmo.exceptions.DimensionError, ValueError, TypeError)),
                     got=repr(r))
    # the unit-aware indexer accessors reject units of another dimension as well
    for what, f in (('imass.get_data(kmol/hr)', lambda: s.imass.get_data('kmol/hr', key)), ('ivol.get_data(kg/hr)', lambda: s.ivol.get_data('kg/hr', key)),
                    ('imol.set_data(m3/hr)', lambda: s.imol.set_data(x, 'm3/hr', key)), ('imass.set_data(K)', lambda: s.imass.set_data(x, 'K', key))):
        r = attempt(f)
        w.ensure(f'{what} is rejected', isinstance(r, Raised), got=repr(r))
    w.ensure('rejected calls change nothing', w.And(W.same_snapshot(w, pre, W.snapshot(s)), w.eq(s.T, T), w.eq(s.P, P)))
    for u in ('lb/hr', 'L/min', 'mol/s'):
        name, f = pint_factor(u)
        ix = getattr(s, 'i' + name)
        w.ensure(f'i{name}.get_data({u}) = factor * view', w.eq(ix.get_data(u, key), f * ix[key]))
    w.canary('canary: get_flow(lb/hr) = get_flow(kg/hr)', w.eq(s.get_flow('lb/hr', key), s.get_flow('kg/hr', key)))


# --------------------------------------------------------------------------- group 4: write through a view, read back

WRITE_UNITS = ['kmol/hr', 'mol/s', 'kg/hr', 'lb/hr', 'g/min', 'm3/hr', 'L/min', 'gal/min']
SAME_DIM = {'kmol/hr': 'mol/s', 'mol/s': 'kmol/hr', 'kg/hr': 'lb/hr', 'lb/hr': 'g/min', 'g/min': 'kg/hr', 'm3/hr': 'gal/min',
            'L/min': 'm3/hr', 'gal/min': 'L/min'}


def write_configs(tier):
    out = []
    kinds = ['l', 'gl'] if tier == 'quick' else ['l', 'g', 'gl', 'gls']
    for k in kinds:
        for u in WRITE_UNITS:
            out.append({'name': f'kind={k};op=set_flow;units={u}', 'kind': k, 'op': 'set_flow', 'units': u})
            out.append({'name': f'kind={k};op=set_total_flow;units={u}', 'kind': k, 'op': 'set_total_flow', 'units': u})
        for op in ['imol[k]=', 'imass[k]=', 'ivol[k]=', 'imass[k]=new', 'ivol[k]=new', 'imass[k]=0', 'set_data(lb/hr)', 'set_data(L/min)',
                   'F_mol=', 'F_mass=', 'F_vol=', 'F_mass=0', 'F_mol= on empty', 'F_mass= on empty', 'F_vol= on empty',
                   'set_flow(array)', 'set_flow(2 IDs)']:
            out.append({'name': f'kind={k};op={op}', 'kind': k, 'op': op, 'units': None})
        if isinstance(KINDS[k], str):
            for op in ['mol=array', 'mass=array', 'vol=array']:
                out.append({'name': f'kind={k};op={op}', 'kind': k, 'op': op, 'units': None})
        else:
            for op in ["ms['l'].imass[k]=", "ms['l'].ivol[k]=", "ms['l'].F_mass=", "imass['l']=array"]:
                out.append({'name': f'kind={k};op={op}', 'kind': k, 'op': op, 'units': None})
    return out


FUNCS_WRITE = ['thermosteam._stream:Stream.set_flow', 'thermosteam._multi_stream:MultiStream.set_flow', 'thermosteam._stream:Stream.set_total_flow',
               'thermosteam._stream:Stream.F_mol', 'thermosteam._stream:Stream.F_mass', 'thermosteam._stream:Stream.F_vol',
               'thermosteam._stream:Stream.mol', 'thermosteam._stream:Stream.mass', 'thermosteam._stream:Stream.vol',
               'thermosteam.base.dictionary_view:DictionaryView.__setitem__', 'thermosteam.base.dictionary_view:MassFlowDict.input',
               'thermosteam.base.dictionary_view:VolumetricFlowDict.input', 'thermosteam.indexer:Indexer.set_data',
               'thermosteam.indexer:ChemicalIndexer.__setitem__', 'thermosteam.indexer:MaterialIndexer.__setitem__',
               'thermosteam._multi_stream:MultiStream.__getitem__']


@group('C11/write_read', configs=write_configs, functions=FUNCS_WRITE, assumptions=ASSUME)
def write_read(w, cfg):
    W.reset_caches()
    op = cfg['op']
    empty = 'on empty' in op
    s, _ = mk(w, 's', cfg['kind'], 'A', 'empty' if empty else 'diag')
    multi = isinstance(s, tmo.MultiStream)
    IDs = s.chemicals.IDs
    ph = 'l' if multi else s.phase
    key = (ph, 'Water') if multi else 'Water'      # 'diag': (first phase, Water) is stored; in 'gl' (l, Water) is a new entry
    if 'new' in op:
        key = (ph, 'Ethanol') if multi else 'Ethanol'
    kpos = IDs.index(key[1] if multi else key)
    observe(w, s, 'before', units=())               # fills every cache
    pre = W.snapshot(s); T, P = s.T, s.P
    old = observe_raw(s)
    x = w.real('x', lo=0, lo_strict=True)
    MW = s.chemicals.MW
    V = lambda p, ID: 1000. * V_expected(w, s, ID, p, T, P)
    rows = [p for p, _ in W.rows_of(s)]
    Fmol = w.total(old.values())
    Fmass = w.total(float(MW[IDs.index(ID)]) * n for (p, ID), n in old.items())
    Fvol = w.total(V(p, ID) * n for (p, ID), n in old.items() if not _is_zero(n))

    def now(p, ID):
        return observe_raw(s)[p, ID]

    def only_changed(keys):
        new = observe_raw(s)
        return w.And(*[w.eq(new[k], old[k]) for k in old if k not in keys])

    def composition_kept():
        new = observe_raw(s)
        # n_new / F_new = n_old / F_old, cross-multiplied
        return w.And(*[w.eq(new[k] * Fmol, old[k] * w.total(new.values())) for k in old])

    ckey = (ph, IDs[kpos])
    if op == 'set_flow':
        u = cfg['units']; name, f = pint_factor(u)
        s.set_flow(x, u, key)
        u2 = SAME_DIM[u]; f2 = pint_factor(u2)[1]
        w.ensure('read back in the same unit returns the written value', w.eq(s.get_flow(u, key), x))
        w.ensure('read back in another unit of the dimension returns value*factor', w.eq(s.get_flow(u2, key) * f, x * f2))
        per = {'mol': 1., 'mass': float(MW[kpos]), 'vol': V(*ckey)}[name]
        w.ensure('molar data = value / unit factor / (MW or 1000 V)', w.eq(now(*ckey) * per * f, x))
        w.ensure('other entries, T, P unchanged', w.And(only_changed({ckey}), w.eq(s.T, T), w.eq(s.P, P)))
        w.canary('canary: stored value = x', w.eq(now(*ckey), x + 1))
    elif op == 'set_total_flow':
        u = cfg['units']; name, f = pint_factor(u)
        s.set_total_flow(x, u)
        u2 = SAME_DIM[u]; f2 = pint_factor(u2)[1]
        w.ensure('total read back in the same unit returns the written value', w.eq(s.get_total_flow(u), x))
        w.ensure('total read back in another unit returns value*factor', w.eq(s.get_total_flow(u2) * f, x * f2))
        w.ensure('composition unchanged when a total is set', composition_kept())
        w.ensure('T, P unchanged', w.And(w.eq(s.T, T), w.eq(s.P, P)))
        if not (multi and name == 'vol'):     # (refuting needs a model of a nonlinear path condition; z3 gives up on some of these)
            w.canary('canary: total reads back as x + 1', w.eq(s.get_total_flow(u), x + 1))
    elif op in ('imol[k]=', 'imass[k]=', 'ivol[k]=', 'imass[k]=new', 'ivol[k]=new', 'imass[k]=0'):
        name = op[1:op.index('[')]
        val = 0. if op.endswith('=0') else x
        getattr(s, 'i' + name)[key] = val
        per = {'mol': 1., 'mass': float(MW[kpos]), 'vol': V(*ckey)}[name]
        w.ensure('read back returns the written value', w.eq(getattr(s, 'i' + name)[key], val))
        w.ensure('molar data = value / (MW or 1000 V)', w.eq(now(*ckey) * per, val))
        w.ensure('other entries, T, P unchanged', w.And(only_changed({ckey}), w.eq(s.T, T), w.eq(s.P, P)))
        w.canary('canary: stored value = x', w.eq(now(*ckey), x + 1))
    elif op.startswith('set_data'):
        u = op[9:-1]; name, f = pint_factor(u)
        ix = getattr(s, 'i' + name)
        ix.set_data(x, u, key)
        per = {'mol': 1., 'mass': float(MW[kpos]), 'vol': V(*ckey)}[name]
        w.ensure('get_data in the same unit returns the written value', w.eq(ix.get_data(u, key), x))
        w.ensure('molar data = value / unit factor / (MW or 1000 V)', w.eq(now(*ckey) * per * f, x))
        w.ensure('other entries, T, P unchanged', w.And(only_changed({ckey}), w.eq(s.T, T), w.eq(s.P, P)))
        w.canary('canary: stored value = x', w.eq(now(*ckey), x + 1))
    elif op in ('F_mol=', 'F_mass=', 'F_vol=', 'F_mass=0'):
        name = op[:-1].rstrip('=')
        val = 0. if op.endswith('=0') else x
        setattr(s, name, val)
        w.ensure('total read back returns the written value', w.eq(getattr(s, name), val))
        if val is x:
            w.ensure('composition unchanged when a total is set', composition_kept())
        else:
            w.ensure('a zero total empties the stream', w.And(*[w.eq(v, 0.) for v in observe_raw(s).values()]))
        w.ensure('T, P unchanged', w.And(w.eq(s.T, T), w.eq(s.P, P)))
        k0 = next(k for k, v in old.items() if not _is_zero(v))
        w.canary('canary: flows unchanged by setting a total', w.eq(now(*k0), old[k0]))
    elif empty:
        name = op.split('=')[0]
        r = attempt(lambda: setattr(s, name, x))
        w.ensure('a non-zero total on an empty stream is rejected (undefined composition)', isinstance(r, Raised) and isinstance(r.e, AttributeError), got=repr(r))
        w.ensure('and nothing changes', W.same_snapshot(w, pre, W.snapshot(s)))
        w.canary('canary: accepted', not isinstance(r, Raised))
    elif op in ('mol=array', 'mass=array', 'vol=array', 'set_flow(array)'):
        xs = [w.real(f'x{i}', lo=0, lo_strict=True) for i in range(len(IDs))]
        arr = np.array(xs, dtype=object if w.symbolic else float)
        if op == 'set_flow(array)':
            name = 'mass'; f = pint_factor('lb/hr')[1]
            # (a MultiStream is addressed by the phase alone: the documented key (phase, ...) raises TypeError in
            #  MaterialIndexer.__setitem__ for every view, an indexing defect outside this property; see report)
            if multi: s.set_flow(arr, 'lb/hr', ph)
            else: s.set_flow(arr, 'lb/hr')
            back = s.get_flow('lb/hr', ph) if multi else s.get_flow('lb/hr')
        else:
            name = op.split('=')[0]; f = 1.
            setattr(s, name, arr)
            back = getattr(s, name)
        for i, ID in enumerate(IDs):
            per = {'mol': 1., 'mass': float(MW[i]), 'vol': V(ph, ID)}[name]
            w.ensure(f'{ID}: read back returns the written value', w.eq(back[i], xs[i]))
            w.ensure(f'{ID}: molar data = value / factor', w.eq(now(ph, ID) * per * f, xs[i]))
        w.ensure('other phases, T, P unchanged', w.And(only_changed({(ph, ID) for ID in IDs}), w.eq(s.T, T), w.eq(s.P, P)))
        w.canary('canary: stored value = x', w.eq(now(ph, IDs[0]), xs[0] + 1))
    elif op == 'set_flow(2 IDs)':
        x2 = w.real('x2', lo=0, lo_strict=True)
        k2 = (ph, ('Water', 'Ethanol')) if multi else ('Water', 'Ethanol')
        s.set_flow([x, x2], 'gal/min', k2)
        f = pint_factor('gal/min')[1]
        back = s.get_flow('gal/min', k2)
        w.ensure('read back returns the written values', w.And(w.eq(back[0], x), w.eq(back[1], x2)))
        w.ensure('molar data = value / factor / 1000 V', w.And(w.eq(now(ph, 'Water') * V(ph, 'Water') * f, x), w.eq(now(ph, 'Ethanol') * V(ph, 'Ethanol') * f, x2)))
        w.ensure('other phases, T, P unchanged', w.And(only_changed({(ph, 'Water'), (ph, 'Ethanol')}), w.eq(s.T, T), w.eq(s.P, P)))
        w.canary('canary: stored value = x', w.eq(now(ph, 'Water'), x + 1))
    elif op in ("ms['l'].imass[k]=", "ms['l'].ivol[k]="):
        name = 'mass' if 'imass' in op else 'vol'
        sub = s['l']
        getattr(sub, 'i' + name)['Water'] = x
        per = {'mass': float(MW[kpos]), 'vol': V('l', 'Water')}[name]
        w.ensure('phase sub-stream: read back returns the written value', w.eq(getattr(sub, 'i' + name)['Water'], x))
        w.ensure('the multi-phase views show the value written through the phase sub-stream',
                 w.And(w.eq(getattr(s, 'i' + name)['l', 'Water'], x), w.eq(now('l', 'Water') * per, x)))
        w.ensure('other entries, T, P unchanged', w.And(only_changed({('l', 'Water')}), w.eq(s.T, T), w.eq(s.P, P)))
        observe(w, sub, 'sub-stream', units=('lb/hr',))
        w.canary('canary: stored value = x', w.eq(now('l', 'Water'), x + 1))
    elif op == "ms['l'].F_mass=":
        sub = s['l']
        sub.F_mass = x
        w.ensure('phase sub-stream: total read back', w.eq(sub.F_mass, x))
        w.ensure('the multi-phase mass view of that phase sums to the value', w.eq(s.imass['l'].sum(), x))
        w.ensure('other phases unchanged', only_changed({('l', ID) for ID in IDs}))
        observe(w, sub, 'sub-stream', units=('lb/hr',))
        w.canary('canary: total = x + 1', w.eq(sub.F_mass, x + 1))
    elif op == "imass['l']=array":
        xs = [w.real(f'x{i}', lo=0, lo_strict=True) for i in range(len(IDs))]
        s.imass['l'] = np.array(xs, dtype=object if w.symbolic else float)
        back = s.imass['l']
        for i, ID in enumerate(IDs):
            w.ensure(f'{ID}: read back returns the written value', w.eq(back[i], xs[i]))
            w.ensure(f'{ID}: molar data = value / MW', w.eq(now('l', ID) * float(MW[i]), xs[i]))
        w.ensure('other phases unchanged', only_changed({('l', ID) for ID in IDs}))
        w.canary('canary: stored value = x', w.eq(now('l', IDs[0]), xs[0] + 1))
    else:
        raise RuntimeError(op)
    observe(w, s, 'after', units=('mol/s', 'lb/hr', 'gal/min'))


def observe_raw(s):
    """{(phase, ID): molar flow} of the raw sparse rows (zero when not stored)."""
    IDs = s.chemicals.IDs
    return {(ph, ID): sv.dct.get(k, 0.) for ph, sv in W.rows_of(s) for k, ID in enumerate(IDs)}


# --------------------------------------------------------------------------- group 5: histories (the point of the property)

OPS_SINGLE = ['wmol', 'wmass', 'wvol', 'T', 'P', 'phase', 'phases', 'link', 'link_flow', 'unlink', 'copy_like', 'reset']
OPS_MULTI = ['wmol', 'wmass', 'wvol', 'wsub', 'T', 'P', 'phase', 'phases', 'expand', 'link', 'link_flow', 'unlink', 'copy_like', 'reset']
OPS_EXTRA = ['Tback', 'copy_likeB', 'copy_like_multi', 'F_mass', 'scale_vol', 'link_TP', 'link_phase']      # thorough only


def hist_configs(tier):
    out = []

    def add(start, seq, touch):
        out.append({'name': f'start={start};touch={touch};ops=' + '>'.join(seq), 'start': start, 'ops': list(seq), 'touch': touch})
    for start, ops in (('l', OPS_SINGLE), ('gl', OPS_MULTI)):
        if tier == 'quick':
            for n in (1, 2):
                for seq in itertools.product(ops, repeat=n):
                    add(start, seq, 'all')
            for seq in itertools.product(ops, repeat=2):
                if seq[0] in ('link', 'link_flow', 'phases', 'copy_like', 'reset', 'expand', 'unlink'):
                    add(start, seq, 'end')
            # selected longer histories: cache filled, structure changed, written through a view, conditions changed
            for seq in [('wvol', 'T', 'wvol'), ('link', 'wmass', 'unlink'), ('link', 'unlink', 'wvol'), ('phases', 'wvol', 'phase'),
                        ('reset', 'wmass', 'reset'), ('T', 'P', 'wvol'), ('copy_like', 'T', 'wvol'), ('link', 'T', 'wvol'),
                        ('phases', 'link', 'wmass'), ('reset', 'link', 'wvol'), ('unlink', 'reset', 'wvol'),
                        ('link_flow', 'wmass', 'unlink'), ('link_TP', 'T', 'wvol'), ('link_phase', 'phase', 'wvol'), ('link_TP', 'wvol'),
                        ('link_phase', 'wvol'), ('wvol', 'link_TP'), ('wmass', 'link_phase'),
                        # a phase sub-stream retrieved BEFORE a package reset and used again after it (seeded C11_6: the quick tier had
                        # only the pairs, in which the sub-stream is first retrieved after the reset)
                        ('wsub', 'reset', 'wsub'), ('subview', 'reset'), ('subview', 'reset', 'wsub'), ('subview', 'reset', 'reset', 'wmass'),
                        ('subview', 'wvol', 'reset', 'T')]:
                if 'subview' in seq and start != 'gl': continue
                add(start, seq, 'all')
        else:
            for n in (1, 2, 3):
                for seq in itertools.product(ops, repeat=n):
                    add(start, seq, 'all')
            for n in (1, 2):
                for seq in itertools.product(ops + OPS_EXTRA, repeat=n):
                    add(start, seq, 'end')
                    if any(o in OPS_EXTRA for o in seq):
                        add(start, seq, 'all')
            for seq in [('wvol', 'T', 'wvol', 'P', 'wmass'), ('link', 'wmass', 'T', 'unlink', 'wvol'), ('phases', 'wvol', 'phase', 'T', 'wvol'),
                        ('reset', 'wmass', 'link', 'reset', 'wvol'), ('copy_like', 'T', 'wvol', 'reset', 'wmass'),
                        ('link', 'phases', 'wvol', 'unlink', 'P'), ('T', 'Tback', 'wvol', 'T', 'Tback'), ('wvol', 'reset', 'phases', 'wvol'),
                        ('link', 'reset', 'unlink', 'wvol'), ('phases', 'reset', 'wvol', 'T')]:
                add(start, seq, 'all')
    if tier == 'thorough':
        for seq in itertools.product(OPS_SINGLE, repeat=2):
            out.append({'name': 'start=l3;touch=all;ops=' + '>'.join(seq), 'start': 'l3', 'ops': list(seq), 'touch': 'all'})
    return out


FUNCS_HIST = ['thermosteam._stream:Stream.T', 'thermosteam._stream:Stream.P', 'thermosteam._stream:Stream.phase', 'thermosteam._stream:Stream.phases',
              'thermosteam._multi_stream:MultiStream.phases', 'thermosteam._multi_stream:MultiStream.phase',
              'thermosteam._stream:Stream.link_with', 'thermosteam._stream:Stream.unlink', 'thermosteam._stream:Stream.copy_like',
              'thermosteam._multi_stream:MultiStream.copy_like', 'thermosteam._stream:Stream._reset_thermo',
              'thermosteam.indexer:ChemicalIndexer.reset_chemicals', 'thermosteam.indexer:MaterialIndexer.reset_chemicals',
              'thermosteam.indexer:MaterialIndexer._expand_phases', 'thermosteam.indexer:ChemicalIndexer.to_material_indexer',
              'thermosteam.indexer:MaterialIndexer.to_chemical_indexer', 'thermosteam.indexer:MaterialIndexer.to_material_indexer',
              'thermosteam._multi_stream:MultiStream.__getitem__'] + FUNCS_VIEWS + FUNCS_WRITE[-6:]


@group('C11/histories', configs=hist_configs, functions=FUNCS_HIST, assumptions=ASSUME)
def histories(w, cfg):
    """
    Any interleaving of view writes with changes of T, P, phase, phases, links, copies and package resets, followed by a
    full observation.  touch=all observes after every step as well (every cache is filled before the next change).
    """
    W.reset_caches()
    ops = cfg['ops']
    pkgA, pkgB = ('A3', 'B3') if cfg['start'] == 'l3' else ('A', 'B')
    kind = 'l' if cfg['start'] == 'l3' else cfg['start']
    thA = package(w, pkgA); thB = package(w, pkgB)
    s, _ = mk(w, 's', kind, pkgA, 'all-pos' if kind == 'l' else 'diag', th=thA)
    Ts = [s.T]; Ps = [s.P]
    T0 = s.T
    live = [('s', s)]
    others = {}

    def other(name):
        if name not in others:
            if name == 'o':        # link target: same class as the start
                o, _ = mk(w, 'o', kind, pkgA, 'first-pos', th=thA)
            elif name == 'og':     # copy source: a gas stream
                o, _ = mk(w, 'og', 'g', pkgA, 'first-pos', th=thA)
            elif name == 'ogB':    # copy source with another package (other chemical order)
                o, _ = mk(w, 'ogB', 'g', pkgB, 'first-pos', th=thB)
            elif name == 'ols':    # copy source with phases the stream may not have
                o, _ = mk(w, 'ols', 'ls', pkgA, 'diag', th=thA)
            elif name == 'os':     # a solid stream (mixing it in makes a MultiStream grow a phase)
                o, _ = mk(w, 'os', 's', pkgA, 'first-pos', th=thA)
            others[name] = o
            Ts.append(o.T); Ps.append(o.P)
        return others[name]
    for op in ops:   # all leaves of a path are created up-front, deterministically
        if op.startswith('link'): other('o')
        elif op == 'copy_like': other('og')
        elif op == 'copy_likeB': other('ogB')
        elif op == 'copy_like_multi': other('ols')
        elif op == 'expand': other('os')
    distinct(w, Ts); distinct(w, Ps)
    touch_all = cfg['touch'] == 'all'
    if touch_all:
        observe(w, s, 'step0', units=())
        for name, o in others.items():
            o.imass, o.ivol, o.vol.sum(), o.F_vol            # their caches are filled, too
    # vacuity canary: skipped in the few thorough-tier histories whose path condition is too nonlinear for z3 to find a model
    canary_done = any(o in ('scale_vol', 'F_mass') for o in ops)
    for n, op in enumerate(ops, 1):
        tag = f'step{n}({op})'
        multi = isinstance(s, tmo.MultiStream)
        ph = ('l' if 'l' in s.phases else s.phases[0])
        key = (ph, 'Water') if multi else 'Water'
        if op in ('wmol', 'wmass', 'wvol'):
            x = w.real(f'x{n}', lo=0, lo_strict=True)
            name = op[1:]
            getattr(s, 'i' + name)[key] = x
            kW = s.chemicals.IDs.index('Water')
            raw = observe_raw(s)[ph, 'Water']
            per = {'mol': 1., 'mass': float(s.chemicals.MW[kW]), 'vol': 1000. * V_expected(w, s, 'Water', ph, s.T, s.P)}[name]
            w.ensure(f'{tag}: write through the {name} view, read back the written value', eq_or_fail(w, attempt(lambda: getattr(s, 'i' + name)[key]), x))
            w.ensure(f'{tag}: molar data = value / (1, MW, 1000 V(phase,T,P) now)', w.eq(raw * per, x))
            if not canary_done:
                w.canary('canary: view write reads back as x + 1', w.eq(raw * per, x + 1)); canary_done = True
        elif op == 'wsub':
            x = w.real(f'x{n}', lo=0, lo_strict=True)
            if multi:
                s[ph].ivol['Water'] = x
                w.ensure(f'{tag}: volume written through the phase sub-stream shows in the multi-phase view', eq_or_fail(w, attempt(lambda: s.ivol[key]), x))
            else:
                s.vol[s.chemicals.IDs.index('Water')] = x
                w.ensure(f'{tag}: volume written through vol[k] reads back', eq_or_fail(w, attempt(lambda: s.ivol['Water']), x))
        elif op == 'subview':
            # the stream of one phase (ms[phase]) is retrieved now and observed, like every live stream, after every later step
            if multi and all(x_ is not s[ph] for _, x_ in live): live.append((f'sub[{ph}]', s[ph]))
        elif op == 'F_mass':
            x = w.real(f'x{n}', lo=0, lo_strict=True)
            s.F_mass = x
            w.ensure(f'{tag}: F_mass reads back', eq_or_fail(w, attempt(lambda: s.F_mass), x))
        elif op == 'scale_vol':
            x = w.real(f'x{n}', lo=0, lo_strict=True)
            s.set_total_flow(x, 'L/min')
            w.ensure(f'{tag}: total volumetric flow reads back', eq_or_fail(w, attempt(lambda: s.get_total_flow('L/min')), x))
        elif op in ('T', 'P'):
            v = w.real(f'{op}{n}', lo=0, lo_strict=True)
            lst = Ts if op == 'T' else Ps
            lst.append(v); distinct_from(w, v, lst[:-1])
            pre = W.snapshot(s)
            setattr(s, op, v)
            w.ensure(f'{tag}: molar data unchanged by a change of {op}', W.same_snapshot(w, pre, W.snapshot(s)))
        elif op == 'Tback':
            pre = W.snapshot(s)
            s.T = T0
            w.ensure(f'{tag}: molar data unchanged by a change of T', W.same_snapshot(w, pre, W.snapshot(s)))
        elif op == 'phase':
            if multi: s.phase = 'l'
            else: s.phase = 'g' if s.phase != 'g' else 'l'
        elif op == 'phases':
            if not multi: s.phases = tuple({'g', 'l', s.phase})      # (the new phases include the phase the material is in)
            elif 's' not in s.phases: s.phases = tuple(s.phases) + ('s',)
            else: s.phases = ('g', 'l', 's', 'L')
        elif op == 'expand':
            if multi:
                s.mix_from([s, other('os')], energy_balance=False)
            else:
                s.copy_like(other('os'))
        elif op.startswith('link'):
            o = other('o')
            if o._thermo is not s._thermo:         # requires of link_with: both streams use the same property package
                o._reset_thermo(s._thermo)         # (flow data are shared positionally)
            what = {'link': dict(), 'link_flow': dict(flow=True, phase=False, TP=False), 'link_TP': dict(flow=False, phase=False, TP=True),
                    'link_phase': dict(flow=False, phase=True, TP=False)}[op]
            r = attempt(lambda: s.link_with(o, **what))
            same_class = isinstance(o._imol, type(s._imol))
            if same_class:
                w.ensure(f'{tag}: link succeeds for streams of the same class', not isinstance(r, Raised), got=repr(r))
                if what.get('flow', True):
                    w.ensure(f'{tag}: linked flow data are the data of the other stream', W.same_snapshot(w, W.snapshot(o), W.snapshot(s))
                             if type(s) is type(o) and s.phases == o.phases else True)
                if ('o', o) not in live: live.append(('o', o))
            else:
                w.ensure(f'{tag}: link of different classes is rejected', isinstance(r, Raised) and isinstance(r.e, RuntimeError), got=repr(r))
        elif op == 'unlink':
            pre = W.snapshot(s); T_, P_ = s.T, s.P
            pre_others = [(x_, W.snapshot(x_)) for _, x_ in live[1:]]
            s.unlink()
            w.ensure(f'{tag}: molar data, T, P unchanged by unlink (this stream and its former partners)',
                     w.And(W.same_snapshot(w, pre, W.snapshot(s)), w.eq(s.T, T_), w.eq(s.P, P_),
                           *[W.same_snapshot(w, p_, W.snapshot(x_)) for x_, p_ in pre_others]))
        elif op == 'copy_like':
            s.copy_like(other('og'))
        elif op == 'copy_likeB':
            s.copy_like(other('ogB'))
        elif op == 'copy_like_multi':
            s.copy_like(other('ols'))
        elif op == 'reset':
            s._reset_thermo(thB if s._thermo is thA else thA)
        else:
            raise RuntimeError(op)
        if touch_all and n < len(ops):
            for name, x_ in live:
                observe(w, x_, f'{tag}:{name}', units=())
    for name, x_ in live:
        observe(w, x_, f'end:{name}', units=('mol/s', 'lb/hr', 'L/min') if name == 's' else ())
    if not canary_done:
        w.canary('canary: F_mass = F_mol + 1', w.eq(s.F_mass, s.F_mol + 1))


def distinct_from(w, v, xs):
    for a in xs:
        w.assume(w.Or(w.ge(a - v, 1e-6), w.ge(v - a, 1e-6)))


# --------------------------------------------------------------------------- group 6: temporary package switch and back

def switch_configs(tier):
    return [{'name': f'kind={k};edit={e};touch={t}', 'kind': k, 'edit': e, 'touch': t}
            for k in (['l', 'gl'] if tier == 'quick' else ['l', 'g', 'gl', 'gls']) for e in (False, True) for t in (True, False)]


@group('C11/package_switch', configs=switch_configs, assumptions=ASSUME,
       functions=['thermosteam.indexer:ChemicalIndexer.reset_chemicals', 'thermosteam.indexer:MaterialIndexer.reset_chemicals'] + FUNCS_VIEWS[:8])
def package_switch(w, cfg):
    """
    reset_chemicals(other package) followed by reset_chemicals(original package, container) -- what Reaction.__call__ /
    conversion do with a stream defined on other chemicals -- brings the stream back to its package; every view agrees
    with the molar data again (which are the data of the moment of the way back, matched by chemical).
    """
    W.reset_caches()
    thA = package(w, 'A'); thB = package(w, 'B3')
    s, _ = mk(w, 's', cfg['kind'], 'A', 'diag', th=thA)
    multi = isinstance(s, tmo.MultiStream)
    if cfg['touch']:
        observe(w, s, 'before', units=())
    old = observe_raw(s)
    T, P = s.T, s.P
    imol = s._imol
    container = imol.reset_chemicals(thB.chemicals)

    def raw_switched():      # the stream object still names package A; the indexer is on package B
        IDs = imol.chemicals.IDs
        rows = list(zip(imol._phases, imol.data.rows)) if multi else [(imol._phase._phase, imol.data)]
        return {(p, ID): sv.dct.get(k, 0.) for p, sv in rows for k, ID in enumerate(IDs)}
    sw = raw_switched()
    w.ensure('switched: flows carried over by chemical',
             w.And(imol.chemicals is thB.chemicals, *[w.eq(sw.get(k, 0.), v) for k, v in old.items()],
                   *[w.eq(v, 0.) for k, v in sw.items() if k not in old]))
    ph = s.phases[0] if multi else s.phase
    if cfg['edit']:
        x = w.real('x', lo=0, lo_strict=True)
        imol[(ph, 'Water') if multi else 'Water'] = x
        old[ph, 'Water'] = x
    imol.reset_chemicals(thA.chemicals, container)
    new = observe_raw(s)
    w.ensure('back: original chemicals, flows carried over by chemical',
             w.And(imol.chemicals is thA.chemicals, set(new) == set(old), *[w.eq(new.get(k, 0.), v) for k, v in old.items()]))
    w.ensure('T, P unchanged', w.And(w.eq(s.T, T), w.eq(s.P, P)))
    observe(w, s, 'after', units=('lb/hr', 'L/min'), canary=True)


# --------------------------------------------------------------------------- group 7: partial links between streams in DIFFERENT phases
# (added after the seeded change C11_1 / C13_1 was missed: link_with(flow=True, phase=False, TP=True) handing the cached
#  mass/volumetric views of the other stream - bound to the other stream's phase - to this one)

def link_partial_configs(tier):
    out = []
    for flow in (False, True):
        for phase in (False, True):
            for TP in (False, True):
                for first in ('a', 'b'):          # whose views are built first
                    out.append({'name': f'flow={flow};phase={phase};TP={TP};views-first={first}', 'flow': flow, 'phase': phase, 'TP': TP, 'first': first})
    return out


@group('C11/link_partial_views', configs=link_partial_configs, assumptions=ASSUME,
       functions=['thermosteam._stream:Stream.link_with', 'thermosteam.indexer:ChemicalMolarFlowIndexer.by_mass',
                  'thermosteam.indexer:ChemicalMolarFlowIndexer.by_volume', 'thermosteam.base.dictionary_view:VolumetricFlowDict.output'])
def link_partial_views(w, cfg):
    W.reset_caches()
    th = package(w, 'A')
    a, _ = mk(w, 'a', 'l', 'A', 'pos+maybe', th=th)
    b, _ = mk(w, 'b', 'g', 'A', 'pos+maybe', th=th)
    distinct(w, [a._thermal_condition._T, b._thermal_condition._T])
    distinct(w, [a._thermal_condition._P, b._thermal_condition._P])
    # views exist before linking (cached), then the link is made, then both streams are observed twice
    for s in ((a, b) if cfg['first'] == 'a' else (b, a)):
        attempt(lambda: (s.imass, s.ivol))
    a.link_with(b, flow=cfg['flow'], phase=cfg['phase'], TP=cfg['TP'])
    w.ensure('phase is shared iff selected', (a.phase == b.phase) == bool(cfg['phase']) or a.phase == b.phase == 'g')
    order = (a, b) if cfg['first'] == 'a' else (b, a)
    for n, s in enumerate(order + order):
        tag = f"{'a' if s is a else 'b'}#{n // 2}"
        observe(w, s, tag, canary=(n == 0))
        im = attempt(lambda: s.imass); iv = attempt(lambda: s.ivol)
        w.ensure(f'{tag}: the mass and volumetric views report the phase of their stream',
                 (not isinstance(im, Raised)) and (not isinstance(iv, Raised)) and im.phase == s.phase == iv.phase)


# --------------------------------------------------------------------------- group 8: single-phase streams joined into a multi-phase stream
# (added after the seeded change C11_4 was missed: a data link that REPLACES the thermal-condition object of a stream
#  while the stream keeps its indexer - and with it every view the indexer has cached for the old condition object)

JOIN_OPS = ['T@ms', 'P@last', 'T@last', 'wvol@last', 'wvol@first', 'wvol@ms', 'wmass@last', 'wmol@ms', 'L/min@last', 'phases@ms']
JOIN_OPS_EXTRA = ['F_vol@last']          # thorough only (the multi-phase total volume after scaling is expensive for z3)


def joined_configs(tier):
    out = []

    def add(order, touch, seq, flows=None):
        # flows of the streams after the first (which holds every chemical): 'maybe' = Water, and Ethanol present or not (a fork);
        # 'sparse' = Water only
        # (after a write through a view the later observations are quotients of V's; with the extra fork they cost z3 ~1 min each)
        flows = flows or ('maybe' if not any(o[0] in 'wLF' for o in seq) else 'sparse')
        out.append({'name': f"join={'+'.join(order)};touch={touch};flows={flows};ops=" + ('>'.join(seq) or '-'), 'order': list(order), 'touch': touch,
                    'ops': list(seq), 'flows': flows})
    if tier == 'quick':
        for order in (('g', 'l'), ('l', 'g')):
            for touch in ('views-before', 'none-before'):
                add(order, touch, ())
                for op in (JOIN_OPS if touch == 'views-before' else ['T@ms', 'wvol@last', 'wvol@ms']):
                    add(order, touch, (op,))
            for seq in [('T@ms', 'wvol@last'), ('wvol@last', 'P@last'), ('T@ms', 'L/min@last'), ('wvol@ms', 'T@last'), ('phases@ms', 'wvol@last')]:
                add(order, 'views-before', seq)
        add(('s', 'l', 'g'), 'views-before', ('T@ms',))
    else:
        for order in (('g', 'l'), ('l', 'g'), ('l', 's'), ('g', 'l', 's'), ('s', 'l', 'g')):
            for touch in ('views-before', 'none-before', 'views-before-and-touch-all'):
                for n in (0, 1, 2):
                    for seq in itertools.product(JOIN_OPS, repeat=n):
                        if n == 2 and (len(order) == 3 or touch == 'none-before'):
                            continue
                        if n < 2 and touch == 'views-before-and-touch-all':
                            continue
                        add(order, touch, seq)
                for seq in [('F_vol@last',), ('T@ms', 'F_vol@last'), ('F_vol@last', 'P@last')]:
                    add(order, touch, seq)
            if len(order) == 2 and 's' not in order:
                for op in JOIN_OPS:
                    if op[0] in 'wL':
                        add(order, 'views-before', (op,), flows='maybe')
    return out


FUNCS_JOIN = ['thermosteam._multi_stream:MultiStream.from_streams', 'thermosteam._multi_stream:MultiStream.__getitem__',
              'thermosteam._multi_stream:MultiStream.phases', 'thermosteam.indexer:MolarFlowIndexer.from_data',
              'thermosteam.indexer:MaterialIndexer.get_phase'] + FUNCS_VIEWS + FUNCS_WRITE[:11]


@group('C11/joined_streams', configs=joined_configs, functions=FUNCS_JOIN, assumptions=ASSUME)
def joined_streams(w, cfg):
    """
    Streams of different phases, each with its own temperature and pressure (and, for touch=views-before, with every view
    already built at that condition) are joined by MultiStream.from_streams: from then on they all live at the thermal
    condition of the first one.  Every relation of the property holds for every one of them and for the multi-phase
    stream, at the temperature and pressure the stream reports NOW, also after later changes of T / P through any of
    them and after writes through any view of any of them.
    """
    W.reset_caches()
    th = package(w, 'A')
    order = cfg['order']
    parts = []
    one_chemical_last = any(op.startswith('F_vol') for op in cfg['ops'])
    for n, ph in enumerate(order):
        # (a total is set on a stream of one chemical: with two, the scaled flows are a quotient of sums that z3 cannot decide in time)
        flows = 'all-pos' if n == 0 else 'first-pos' if (one_chemical_last and n == len(order) - 1) or cfg['flows'] == 'sparse' else 'pos+maybe'
        p, _ = mk(w, f'p{n}', ph, 'A', flows, th=th)
        parts.append(p)
    Ts = [p.T for p in parts]; Ps = [p.P for p in parts]
    distinct(w, Ts); distinct(w, Ps)
    touch = cfg['touch']
    if touch.startswith('views-before'):
        for n, p in enumerate(parts):
            observe(w, p, f'before:p{n}', units=())
    pre = [W.snapshot(p) for p in parts]
    ms = tmo.MultiStream.from_streams(list(parts))
    first, last = parts[0], parts[-1]
    w.ensure('join: all streams report the temperature and pressure of the first one; molar data unchanged',
             w.And(*[w.And(w.eq(p.T, Ts[0]), w.eq(p.P, Ps[0]), w.eq(ms.T, Ts[0]), w.eq(ms.P, Ps[0]), W.same_snapshot(w, q, W.snapshot(p)))
                     for p, q in zip(parts, pre)]))
    w.ensure('join: the multi-phase stream has one phase per stream', set(ms.phases) == set(order) and all(p.phase == ph for p, ph in zip(parts, order)))
    live = [(f'p{n}', p) for n, p in enumerate(parts)] + [('ms', ms)]

    def observe_all(tag, units=()):
        for name, x_ in live:
            observe(w, x_, f'{tag}:{name}', units=units if name != 'ms' else ())
    if cfg['ops'] or touch.endswith('touch-all'):
        observe_all('joined')
    for n, op in enumerate(cfg['ops'], 1):
        tag = f'step{n}({op})'
        what, _, where = op.partition('@')
        x_ = {'ms': ms, 'last': last, 'first': first}[where]
        multi = isinstance(x_, tmo.MultiStream)
        ph = last.phase if multi else x_.phase
        key = (ph, 'Water') if multi else 'Water'
        kW = x_.chemicals.IDs.index('Water')
        if what in ('T', 'P'):
            v = w.real(f'{what}{n}', lo=0, lo_strict=True)
            lst = Ts if what == 'T' else Ps
            lst.append(v); distinct_from(w, v, lst[:-1])
            snap = [W.snapshot(p) for p in parts]
            setattr(x_, what, v)
            w.ensure(f'{tag}: every joined stream reports the new {what}; molar data unchanged',
                     w.And(*[w.And(w.eq(getattr(p, what), v), W.same_snapshot(w, q, W.snapshot(p))) for p, q in zip(parts + [ms], snap + [W.snapshot(ms)])]))
        elif what in ('wmol', 'wmass', 'wvol'):
            x = w.real(f'x{n}', lo=0, lo_strict=True)
            name = what[1:]
            getattr(x_, 'i' + name)[key] = x
            per = {'mol': 1., 'mass': float(x_.chemicals.MW[kW]), 'vol': 1000. * V_expected(w, x_, 'Water', ph, x_.T, x_.P)}[name]
            raw = observe_raw(ms)[ph, 'Water']
            w.ensure(f'{tag}: write through the {name} view, read back the written value', eq_or_fail(w, attempt(lambda: getattr(x_, 'i' + name)[key]), x))
            w.ensure(f'{tag}: molar data = value / (1, MW, 1000 V(phase,T,P) now)', w.eq(raw * per, x))
            w.ensure(f'{tag}: the phase stream and the multi-phase stream show the same entry',
                     w.And(eq_or_fail(w, attempt(lambda: getattr(ms, 'i' + name)[ph, 'Water']), x),
                           eq_or_fail(w, attempt(lambda: getattr(ms[ph], 'i' + name)['Water']), x)))
        elif what == 'F_vol':
            x = w.real(f'x{n}', lo=0, lo_strict=True)
            old = observe_raw(x_); Fold = w.total(old.values())
            x_.F_vol = x
            new = observe_raw(x_)
            w.ensure(f'{tag}: total volumetric flow reads back', eq_or_fail(w, attempt(lambda: x_.F_vol), x))
            w.ensure(f'{tag}: composition unchanged when a total is set', w.And(*[w.eq(new[k] * Fold, old[k] * w.total(new.values())) for k in old]))
        elif what == 'L/min':
            x = w.real(f'x{n}', lo=0, lo_strict=True)
            f = pint_factor('L/min')[1]; f2 = pint_factor('gal/min')[1]
            x_.set_flow(x, 'L/min', key)
            raw = observe_raw(ms)[ph, 'Water']
            w.ensure(f'{tag}: read back in the same unit returns the written value', eq_or_fail(w, attempt(lambda: x_.get_flow('L/min', key)), x))
            w.ensure(f'{tag}: read back in another unit returns value*factor', eq_or_fail(w, attempt(lambda: x_.get_flow('gal/min', key) * f), x * f2))
            w.ensure(f'{tag}: molar data = value / unit factor / 1000 V(phase,T,P) now', w.eq(raw * 1000. * V_expected(w, x_, 'Water', ph, x_.T, x_.P) * f, x))
        elif what == 'phases':
            snap = {k: v for p in parts for k, v in observe_raw(p).items()}
            ms.phases = tuple(ms.phases) + tuple(p for p in ('s', 'L') if p not in ms.phases)[:1]
            now = {k: v for p in parts for k, v in observe_raw(p).items()}
            w.ensure(f'{tag}: molar data of the joined streams unchanged by new phases of the multi-phase stream',
                     w.And(set(now) == set(snap), *[w.eq(now[k], snap[k]) for k in snap]))
        else:
            raise RuntimeError(op)
        if n < len(cfg['ops']) and (touch.endswith('touch-all') or n == 1):
            observe_all(tag)
    observe_all('end', units=('mol/s', 'lb/hr', 'L/min'))
    w.canary('canary: the joined streams keep their own temperature', w.eq(last.T, Ts[len(parts) - 1]))
    w.canary('canary: vol = 1000*V*mol + 1 (last stream)', eq_or_fail(w, attempt(lambda: last.ivol['Water']), 1000. * V_expected(w, last, 'Water', last.phase, last.T, last.P) * observe_raw(last)[last.phase, 'Water'] + 1.))


# --------------------------------------------------------------------------- group 9: views used WHILE the indexer is on another package
# (added after the seeded change C11_3 was missed: reset_chemicals(other) ... reset_chemicals(original, container) with the mass /
#  volumetric views read or written in between - what Reaction.__call__ / force_reaction / conversion do for basis='wt')

SWITCH_DURING = ['read-mass', 'read-vol', 'read-both', 'write-mass', 'write-vol', 'mass.data[:]=']


def switch_view_configs(tier):
    out = []
    kinds = ['l', 'gl'] if tier == 'quick' else ['l', 'g', 'gl', 'gls']
    for k in kinds:
        for pkgB in ('B3', 'B'):
            for during in SWITCH_DURING:
                for touch in (True, False):
                    if tier == 'quick' and pkgB == 'B' and (during not in ('read-mass', 'write-vol') or not touch):
                        continue
                    out.append({'name': f'kind={k};other={pkgB};during={during};views-before={touch}', 'kind': k, 'pkgB': pkgB, 'during': during, 'touch': touch})
    return out


@group('C11/package_switch_views', configs=switch_view_configs, assumptions=ASSUME,
       functions=['thermosteam.indexer:ChemicalIndexer.reset_chemicals', 'thermosteam.indexer:MaterialIndexer.reset_chemicals',
                  'thermosteam.reaction._reaction:as_material_array'] + FUNCS_VIEWS[:8] + FUNCS_WRITE[9:12])
def package_switch_views(w, cfg):
    """
    The indexer of a stream is switched to another package, its mass / volumetric views are read or written there (they
    are views of the SWITCHED data: mass = MW * mol, vol = 1000 V(phase,T,P) * mol in the other package's order), and it is
    switched back with the container of the first switch.  Afterwards the stream is on its own package again and every view
    the stream hands out agrees with its molar data - now, after a later molar write, and for writes through the views.
    """
    W.reset_caches()
    thA = package(w, 'A'); thB = package(w, cfg['pkgB'])
    s, _ = mk(w, 's', cfg['kind'], 'A', 'diag', th=thA)
    multi = isinstance(s, tmo.MultiStream)
    if cfg['touch']:
        observe(w, s, 'before', units=())
    old = observe_raw(s)
    T, P = s.T, s.P
    imol = s._imol
    container = imol.reset_chemicals(thB.chemicals)
    IDsB = thB.chemicals.IDs; MWB = thB.chemicals.MW

    def raw_switched():
        rows = list(zip(imol._phases, imol.data.rows)) if multi else [(imol._phase._phase, imol.data)]
        return {(p, ID): sv.dct.get(k, 0.) for p, sv in rows for k, ID in enumerate(IDsB)}

    def switched_views_agree(tag):
        sw = raw_switched()
        mass = attempt(lambda: s.imass); vol = attempt(lambda: s.ivol)       # (as_material_array: `material.imass.data`)
        for (p, ID), n in sw.items():
            key = (p, ID) if multi else ID
            if 'vol' not in cfg['during']:
                w.ensure(f'{tag}: switched mass view [{p},{ID}] = MW*mol', eq_or_fail(w, attempt(lambda: mass[key]), float(MWB[IDsB.index(ID)]) * n))
            if 'mass' not in cfg['during']:
                v = 1000. * V_expected(w, s, ID, p, T, P) * n if not _is_zero(n) else 0.
                w.ensure(f'{tag}: switched volumetric view [{p},{ID}] = 1000*V(phase,T,P)*mol', eq_or_fail(w, attempt(lambda: vol[key]), v))
        return mass, vol
    ph = s.phases[0] if multi else s.phase
    key = (ph, 'Water') if multi else 'Water'
    during = cfg['during']
    mass, vol = switched_views_agree('switched')
    if during.startswith('write'):
        x = w.real('x', lo=0, lo_strict=True)
        name = during[6:]
        view = mass if name == 'mass' else vol
        view[key] = x
        per = float(MWB[IDsB.index('Water')]) if name == 'mass' else 1000. * V_expected(w, s, 'Water', ph, T, P)
        w.ensure(f'switched: write through the {name} view, read back the written value', eq_or_fail(w, attempt(lambda: view[key]), x))
        w.ensure(f'switched: molar data = value / (MW, 1000 V(phase,T,P))', w.eq(raw_switched()[ph, 'Water'] * per, x))
    elif during == 'mass.data[:]=':
        original = mass.data
        values = original.copy()
        x = w.real('x', lo=0, lo_strict=True)
        if multi: values[s.phases.index(ph), IDsB.index('Water')] = x
        else: values[IDsB.index('Water')] = x
        original[:] = values
        w.ensure('switched: the array written through the mass view reads back',
                 eq_or_fail(w, attempt(lambda: mass[key]), x))
        w.ensure('switched: molar data = value / MW', w.eq(raw_switched()[ph, 'Water'] * float(MWB[IDsB.index('Water')]), x))
    sw = raw_switched()
    for k_, v_ in sw.items():
        if k_ in old: old[k_] = v_
    imol.reset_chemicals(thA.chemicals, container)
    new = observe_raw(s)
    w.ensure('back: original chemicals, flows carried over by chemical',
             w.And(imol.chemicals is thA.chemicals, set(new) == set(old), *[w.eq(new.get(k, 0.), v) for k, v in old.items()]))
    w.ensure('T, P unchanged', w.And(w.eq(s.T, T), w.eq(s.P, P)))
    observe(w, s, 'after', units=('lb/hr', 'L/min'), canary=True)
    im = attempt(lambda: s.imass); iv = attempt(lambda: s.ivol)
    w.ensure('after: the mass and volumetric views are defined over the chemicals of the stream',
             (not isinstance(im, Raised)) and (not isinstance(iv, Raised)) and im.chemicals is s.chemicals and iv.chemicals is s.chemicals)
    # a later molar write shows in the views; writes through the views reach the molar data
    key2 = (ph, 'Ethanol') if multi else 'Ethanol'
    y = w.real('y', lo=0, lo_strict=True)
    s.imol[key2] = y
    observe(w, s, 'after molar write', units=())
    MW = s.chemicals.MW; IDs = s.chemicals.IDs
    for name in ('mass', 'vol'):
        z = w.real('z_' + name, lo=0, lo_strict=True)
        s.set_flow(z, BASE[name], key)
        per = float(MW[IDs.index('Water')]) if name == 'mass' else 1000. * V_expected(w, s, 'Water', ph, s.T, s.P)
        w.ensure(f'after: write through the {name} view, read back the written value', eq_or_fail(w, attempt(lambda: s.get_flow(BASE[name], key)), z))
        w.ensure(f'after: molar data = value / (MW, 1000 V(phase,T,P))', w.eq(observe_raw(s)[ph, 'Water'] * per, z))
    observe(w, s, 'after view writes', units=())


# --------------------------------------------------------------------------- group 10 (bounded): the real callers of the temporary package switch
# Reaction.__call__ / force_reaction / conversion on a stream of ANOTHER property package: as_material_array switches the indexer,
# (basis='wt') takes `stream.imass.data` there, and switches back.  Native runs with concrete numbers (the reaction arithmetic
# itself belongs to C05); every sentence is the full observation of the property on the stream afterwards.

def _b_tables():
    t = {}
    for n, ID in enumerate(A3):
        for m, ph in enumerate('slg'):
            t[f'V.{ID}.{ph}'] = {'entries': [], 'else': (1. + n) * (1e-5 if ph != 'g' else 2e-2) * (1. + 0.1 * m)}
    return t


def reacted_configs(tier):
    out = []
    vals = {'s.T': 330., 's.P': 2.5e5}
    for ph in 'gls':
        for n, ID in enumerate(A3):
            vals[f's.{ph}.{ID}'] = 3. + 2. * n + (7. if ph == 'g' else 0.)
    for kind in (['l', 'gl'] if tier == 'quick' else ['l', 'g', 'gl', 'gls']):
        for basis in ('wt', 'mol'):
            for how in ('call', 'force_reaction', 'conversion', 'call twice'):
                for touch in (True, False):
                    for flows in ('all-pos', 'diag'):
                        if tier == 'quick' and flows == 'diag' and (how != 'call' or not touch):
                            continue
                        out.append({'name': f'kind={kind};basis={basis};how={how};views-before={touch};flows={flows}', 'kind': kind, 'basis': basis, 'how': how,
                                    'touch': touch, 'flows': flows, 'values': dict(vals, x=11., y=5., z_mass=70., z_vol=0.9), 'tables': _b_tables()})
    return out


@group('C11/reacted_on_other_package', configs=reacted_configs, mode='B', assumptions=ASSUME,
       functions=['thermosteam.reaction._reaction:as_material_array', 'thermosteam.reaction._reaction:Reaction.__call__',
                  'thermosteam.reaction._reaction:Reaction.force_reaction', 'thermosteam.reaction._reaction:Reaction.conversion',
                  'thermosteam.indexer:ChemicalIndexer.reset_chemicals', 'thermosteam.indexer:MaterialIndexer.reset_chemicals'] + FUNCS_VIEWS[:8],
       notes='one stream per kind (l, gl; thorough: g, gls) on (Water, Ethanol, Octane) with fixed flows (every chemical, or one chemical per phase), '
             'T = 330 K, P = 2.5 bar, molar volumes = fixed positive functions of (T, P) per chemical and phase; one reaction R -> Octane (R = first chemical of the last '
             'phase; X = 0.4, by mass or by mol) defined on the package (Octane, Water, Ethanol); __call__ / force_reaction / conversion / two calls, '
             'with and without the views built before; followed by a molar write and writes through the mass and volumetric views')
def reacted_on_other_package(w, cfg):
    W.reset_caches()
    thA = package(w, 'A3'); thB = package(w, 'B3')
    s, _ = mk(w, 's', cfg['kind'], 'A3', cfg['flows'], th=thA)
    multi = isinstance(s, tmo.MultiStream)
    if cfg['touch']:
        observe(w, s, 'before', units=())
    ph, row = W.rows_of(s)[-1]
    IDs = s.chemicals.IDs
    R = next(ID for k, ID in enumerate(IDs) if k in row.dct)            # reactant: a chemical the phase holds
    Pd = 'Octane' if R != 'Octane' else 'Water'                          # product ('diag': a new entry of the phase)
    other = next(ID for ID in IDs if ID not in (R, Pd))
    if multi:
        rxn = tmo.Reaction({R: (ph, -1.), Pd: (ph, 1.)}, reactant=R, X=0.4, chemicals=thB.chemicals, basis=cfg['basis'], phases=tuple(s.phases))
    else:
        rxn = tmo.Reaction({R: -1., Pd: 1.}, reactant=R, X=0.4, chemicals=thB.chemicals, basis=cfg['basis'])
    w.ensure('precondition of the family: the reaction is defined on another package than the stream', rxn.chemicals is not s.chemicals)
    old = observe_raw(s)
    T, P = s.T, s.P
    how = cfg['how']
    for _ in range(2 if how == 'call twice' else 1):
        if how == 'force_reaction': rxn.force_reaction(s)
        elif how == 'conversion': rxn.conversion(s)
        else: rxn(s)
    new = observe_raw(s)
    w.ensure('the stream is on its own package again; T, P unchanged',
             w.And(s._imol.chemicals is s.chemicals, set(new) == set(old), w.eq(s.T, T), w.eq(s.P, P)))
    if how == 'conversion':
        w.ensure('conversion() leaves the molar data unchanged', w.And(*[w.eq(new[k], old[k]) for k in old]))
    observe(w, s, 'after', units=('lb/hr', 'L/min'))
    im = attempt(lambda: s.imass); iv = attempt(lambda: s.ivol)
    w.ensure('after: the mass and volumetric views are defined over the chemicals of the stream',
             (not isinstance(im, Raised)) and (not isinstance(iv, Raised)) and im.chemicals is s.chemicals and iv.chemicals is s.chemicals)
    key = (ph, R) if multi else R
    key2 = (ph, other) if multi else other
    y = w.real('y', lo=0, lo_strict=True)
    s.imol[key2] = y
    observe(w, s, 'after molar write', units=())
    MW = s.chemicals.MW
    for name in ('mass', 'vol'):
        z = w.real('z_' + name, lo=0, lo_strict=True)
        u = {'mass': 'lb/hr', 'vol': 'L/min'}[name]; f = pint_factor(u)[1]
        s.set_flow(z, u, key)
        per = float(MW[IDs.index(R)]) if name == 'mass' else 1000. * V_expected(w, s, R, ph, s.T, s.P)
        w.ensure(f'after: write through the {name} view in {u}, read back the written value', eq_or_fail(w, attempt(lambda: s.get_flow(u, key)), z))
        w.ensure(f'after: molar data = value / unit factor / (MW, 1000 V(phase,T,P))', w.eq(observe_raw(s)[ph, R] * per * f, z))
    observe(w, s, 'after view writes', units=())
    w.canary('canary (not evaluated in mode B)', w.eq(s.F_mass, s.F_mol))
