# -*- coding: utf-8 -*-
"""
C02 — stream energy balance: enthalpy is conserved and invertible in temperature.

Contracts (sidecar) on the real Stream / MultiStream / Mixture code; every top-level `ensures` is a sentence of the
property.  The pure-component models h_k, s_k are uninterpreted functions of (T, P) (A-models, `W.stub_thermo`), the
mixing rules (IdealTPMixtureModel, IdealEntropyModel, Mixture.H/S/xH/xS) and the getters with their cache are the real
code.  The temperature solves of the mixture obey A-root: a successful solve returns some T* > 0 with
property(T*) == target (fresh leaf; in `set_same_value` the engine's A-root-stay form: the start value itself if it is
a root); driven by the configuration the first n solves *raise*, which exercises the `except` fall-back branches of the
H/h/S setters (phase flip, second solve) and of `mix_from` (`self.phases = ...` retry).

Groups
  C02/set_value       assigning H, h, Hnet, S (Stream l/g/s, MultiStream gl/gls): reading back returns the assigned value
                      on every path incl. the fall-back; frame: flows, P (and phases when the solve succeeds)
  C02/set_same_value  assigning the value the stream already has leaves T unchanged (A-root-stay)
  C02/mix_from        energy_balance=True: H' = sum of inlet H (read before the call) + Q (keyword and/or heat objects),
                      P' = min P over the non-empty inlets; frame: inlets unchanged.  Receiver among the inlets,
                      possibly-empty inlets (single-inlet shortcut), other packages, multi-phase inlets/receiver,
                      conserve_phases, failing solves (1: setter fall-back, 2: mix_from fall-back)
  C02/separate_out    energy_balance=True: H' = H - H(other); flows' = flows - flows(other); frame: other unchanged
"""
import os
import thermosteam as tmo
from engine.api import group
from engine.sx import tmo_world as W

A = ('Water', 'Ethanol')
B = ('Ethanol', 'Water')
A3 = ('Water', 'Ethanol', 'Octane')
W.preload([A, B, A3])
PKG = {'A': A, 'B': B, 'A3': A3}
# VCs here are nonlinear ((sum n_k/N * h_k) * N = sum n_k * h_k): try a fresh one-shot solver first (engine opt-in, same verdicts)
os.environ.setdefault('VERIF_PROVE_FRESH_MS', '5000')
os.environ.setdefault('VERIF_PROVE_FRESH_ORDER', 'default,nlsat')   # the terms carry uninterpreted functions: nlsat second
if 'VERIF_BRANCH_TIMEOUT_MS' not in os.environ:
    # the incremental path solver either answers a branch-feasibility query at once or not at all on these terms;
    # hand over to the one-shot solver early (this process only)
    from engine.sx import sym as _sym
    _sym.BRANCH_TIMEOUT_MS = 400


class SolveFailed(RuntimeError):
    """What the stubbed temperature solver raises when the configuration says it fails."""


def _stub(w, pkg, fail=None, stay=False):
    """
    Stub package (A-models + A-root).  `fail` = {'HP': n, 'SP': n, 'xHP': n, 'xSP': n}: the first n calls of
    that solver raise SolveFailed (the target is not reachable in the present phase).
    stay=False: a successful solve returns *any* T* > 0 with property(T*) == target (fresh leaf; this includes the
    start value whenever that is a root, so it covers A-root-stay without a fork on "is the guess a root?").
    stay=True: the engine's stub, which returns the start value itself when it already satisfies the equation.
    Returns (thermo, log) where log lists the solver calls made [(kind, outcome)].
    """
    th = W.stub_thermo(w, PKG[pkg])
    mix = th.mixture
    base = type(mix)
    left = dict(fail or {})
    log = []

    def _root(self, kind, value_at, target, T_guess):
        T = w.real(f'root{len(self.roots)}.{kind}', lo=0., lo_strict=True)
        w.assume(w.eq(value_at(T), target))
        self.roots.append((kind, T))
        return T

    def wrap(kind, name):
        real = getattr(base, name)

        def solve(self, *args):
            if left.get(kind, 0) > 0:
                left[kind] -= 1
                log.append((kind, 'raise'))
                raise SolveFailed(f'{name}: no root in this phase (stub)')
            T = real(self, *args)
            log.append((kind, 'root'))
            return T
        solve.__name__ = name
        return solve

    Failing = type('FailingStubMixture', (base,), {
        '__slots__': (), **({} if stay else {'_root': _root}),
        'solve_T_at_HP': wrap('HP', 'solve_T_at_HP'), 'solve_T_at_SP': wrap('SP', 'solve_T_at_SP'),
        'xsolve_T_at_HP': wrap('xHP', 'xsolve_T_at_HP'), 'xsolve_T_at_SP': wrap('xSP', 'xsolve_T_at_SP')})
    mix.__class__ = Failing
    return th, log


def _present(pkg, phases, mode):
    rows = (phases,) if isinstance(phases, str) else phases
    p = {'default': 'zero'}
    IDs = PKG[pkg]
    for n, ph in enumerate(rows):
        if mode == 'pos':            # one chemical certainly there per row
            p[ph, IDs[0]] = 'pos'
        elif mode == 'pos+maybe':    # non-empty, second chemical may be absent
            p[ph, IDs[0]] = 'pos'
            p[ph, IDs[-1]] = 'maybe'
        elif mode == 'pos+pos':
            p[ph, IDs[0]] = 'pos'
            p[ph, IDs[-1]] = 'pos'
        elif mode == 'first-row-pos':  # multi-phase: first row non-empty, other rows may be empty
            p[ph, IDs[0]] = 'pos' if n == 0 else 'maybe'
            p[ph, IDs[-1]] = 'maybe' if n == 0 else 'zero'
        elif mode == 'maybe':        # stream may be empty
            p[ph, IDs[0]] = 'maybe'
        elif mode == 'empty':
            pass
        else:
            raise ValueError(mode)
    return p


KINDS = {'l': 'l', 'g': 'g', 's': 's', 'gl': ('g', 'l'), 'lL': ('l', 'L'), 'gls': ('g', 'l', 's')}


def _read_H(w, s, tag):
    """
    Read s.H through the public getter and state the model equation of DESIGN 4/C02,
        H(s) = sum over phases and chemicals of  n_k * h_k(phase, T, P)
    (h_k the uninterpreted pure-component models), as a lemma: once discharged it is what the balance clauses build on
    (the getter itself computes  N * sum_k (n_k / N) * h_k  from the normalised composition and a cache).
    """
    got = s.H
    IDs = s.chemicals.IDs
    T, P = s.T, s.P
    direct = 0.
    for phase, row in W.rows_of(s):
        for i, n in row.dct.items():
            direct = direct + n * w.fn(f'H.{IDs[i]}.{phase}')(T, P)
    w.lemma(f'{tag}: H getter = sum_k n_k h_k(phase, T, P)', w.eq(got, direct))
    return got


def _flows_equal(w, a, b):
    keys = set(a) | set(b)
    return w.And(*[w.eq(a.get(k, 0.), b.get(k, 0.)) for k in sorted(keys)])


# --------------------------------------------------------------------------- H / h / Hnet / S setters (Stream and MultiStream)

def _solver_kind(prop, kind):
    return ('x' if len(kind) > 1 else '') + ('SP' if prop == 'S' else 'HP')


def set_configs(tier):
    out = []
    quick = tier == 'quick'
    for prop in ['H', 'h', 'Hnet', 'S']:
        for kind in ['l', 'g', 's', 'gl', 'gls']:
            multi = len(kind) > 1
            if kind == 'gls' and quick:
                continue
            for fail in [0, 1]:
                if prop == 'S':
                    # the entropy of mixing brings log terms of the composition: keep the two-chemical case for the
                    # successful solve in the quick tier (the others run with one chemical per phase)
                    # (multi-phase with two chemicals per phase needs log(sum_j n_pj / N) = log(sum_j n_pj) - log N for a
                    # sum of quotients, which the engine's ground log axioms do not give: one chemical per phase there)
                    modes = ['pos'] + (['pos+maybe'] if not multi and (fail == 0 or not quick) else [])
                elif multi:
                    modes = ['first-row-pos'] + ([] if quick else ['pos+maybe'])
                else:
                    modes = ['pos+maybe'] + ([] if quick else ['pos+pos'])
                for mode in modes:
                    for pkg in (['A'] if quick or prop == 'S' else ['A', 'A3']):
                        out.append({'name': f'prop={prop};phases={kind};fail={fail};flows={mode};pkg={pkg}', 'prop': prop,
                                    'kind': kind, 'fail': fail, 'mode': mode, 'pkg': pkg})
    return out


@group('C02/set_value', configs=set_configs,
       functions=['thermosteam._stream:Stream.H', 'thermosteam._stream:Stream.h', 'thermosteam._stream:Stream.S',
                  'thermosteam._stream:Stream.Hnet', 'thermosteam._stream:Stream._get_property',
                  'thermosteam._multi_stream:MultiStream.H', 'thermosteam._multi_stream:MultiStream.h',
                  'thermosteam._multi_stream:MultiStream.S', 'thermosteam._multi_stream:MultiStream._get_property',
                  'thermosteam.mixture.mixture:Mixture.H', 'thermosteam.mixture.mixture:Mixture.S',
                  'thermosteam.mixture.mixture:Mixture.xH', 'thermosteam.mixture.mixture:Mixture.xS',
                  'thermosteam.mixture.ideal_mixture_model:IdealTPMixtureModel.__call__',
                  'thermosteam.mixture.ideal_mixture_model:IdealEntropyModel.__call__'],
       assumptions=['A-models', 'A-root'])
def set_value(w, cfg):
    """Assigning H/h/Hnet/S to a non-empty stream: reading it back returns the assigned value (every path, incl. fall-back)."""
    W.reset_caches()
    prop, kind = cfg['prop'], cfg['kind']
    phases = KINDS[kind]
    multi = len(kind) > 1
    th, log = _stub(w, cfg['pkg'], {_solver_kind(prop, kind): cfg['fail']})
    s, leaves = W.stream_on(w, 's', th, phases, present=_present(cfg['pkg'], phases, cfg['mode']))
    T0, P0 = s.T, s.P
    pre = W.total_by_CAS(s)
    pre_rows = W.snapshot(s)
    value = w.real('value')
    try:
        setattr(s, prop, value)
    except SolveFailed:
        # the solver's error may be passed on only when there is no other phase to try
        w.ensure('solver failure is passed on only where no other phase can be tried', multi or kind not in ('l', 'g'))
        w.ensure('failed assignment leaves T, P and the flows alone',
                 w.And(w.eq(s.T, T0), w.eq(s.P, P0), W.same_snapshot(w, pre_rows, W.snapshot(s))))
        w.canary('canary: failed assignment moved T', w.ne(s.T, T0))
        return
    if prop == 'H':
        back = _read_H(w, s, 'after')
    elif prop == 'Hnet':
        back = _read_H(w, s, 'after') + s.Hf
        w.ensure('Hnet getter = H + Hf', w.eq(s.Hnet, back))
    else:
        back = getattr(s, prop)
    w.ensure(f'reading {prop} back returns the assigned value', w.eq(back, value))
    w.ensure('flows unchanged', _flows_equal(w, pre, W.total_by_CAS(s)))
    w.ensure('P unchanged', w.eq(s.P, P0))
    if cfg['fail'] == 0:
        w.ensure('phases and per-phase flows unchanged when the solve succeeds', W.same_snapshot(w, pre_rows, W.snapshot(s)))
    else:
        w.ensure('fall-back flips l <-> g', (not multi) and s.phase == {'l': 'g', 'g': 'l'}.get(kind))
    w.canary('canary: T never moves', w.eq(s.T, T0))
    w.canary('canary: read-back is value + 1', w.eq(back, value + 1))
    w.note(T0=T0, T=s.T, back=back, log=list(log))


def same_configs(tier):
    quick = tier == 'quick'
    out = []
    for prop in ['H', 'h', 'Hnet', 'S']:
        for kind in ['l', 'g', 'gl'] + ([] if quick else ['s', 'gls']):
            for pkg in (['A'] if quick or prop == 'S' else ['A', 'A3']):
                mode = 'pos' if prop == 'S' and (quick or len(kind) > 1) else ('first-row-pos' if len(kind) > 1 else 'pos+maybe')
                out.append({'name': f'prop={prop};phases={kind};flows={mode};pkg={pkg}', 'prop': prop, 'kind': kind,
                            'pkg': pkg, 'mode': mode})
    return out


@group('C02/set_same_value', configs=same_configs,
       functions=['thermosteam._stream:Stream.H', 'thermosteam._stream:Stream.h', 'thermosteam._stream:Stream.S',
                  'thermosteam._stream:Stream.Hnet', 'thermosteam._multi_stream:MultiStream.H',
                  'thermosteam._multi_stream:MultiStream.h', 'thermosteam._multi_stream:MultiStream.S'],
       assumptions=['A-models', 'A-root', 'A-root-stay'])
def set_same_value(w, cfg):
    """Assigning the value the stream already has leaves the temperature unchanged."""
    W.reset_caches()
    prop, kind = cfg['prop'], cfg['kind']
    phases = KINDS[kind]
    th, log = _stub(w, cfg['pkg'], stay=True)
    s, leaves = W.stream_on(w, 's', th, phases, present=_present(cfg['pkg'], phases, cfg['mode']))
    T0, P0 = s.T, s.P
    pre = W.snapshot(s)
    current = getattr(s, prop)
    setattr(s, prop, current)
    w.ensure('assigning the current value leaves T unchanged', w.eq(s.T, T0))
    w.ensure('P, phases, flows unchanged', w.And(w.eq(s.P, P0), W.same_snapshot(w, pre, W.snapshot(s))))
    w.ensure('value still read back', w.eq(getattr(s, prop), current))
    w.canary('canary: T doubles', w.eq(s.T, 2 * T0))


# --------------------------------------------------------------------------- mix_from(energy_balance=True, Q)

class _Heat:
    """What `mix_from` treats as a heat/power object among `others`: anything (truthy) with a `.heat`."""
    def __init__(self, heat): self.heat = heat


def _inl(kind, pkg='A', mode='pos'):
    return [kind, pkg, mode]


def mix_configs(tier):
    quick = tier == 'quick'
    I = _inl
    base = [  # (inlets, receivers)
        ([I('l'), I('g')], ['l', 'g', 'gl']),
        ([I('l'), I('l', 'B')], ['l']),
        ([I('g', 'B'), I('l', mode='pos+maybe')], ['l', 'gl']),
        ([I('l'), I('l', 'B', 'maybe')], ['l', 'g', 'gl']),            # second inlet may be empty -> single-inlet shortcut
        ([I('l', mode='empty'), I('g', 'B')], ['l']),                    # exactly one non-empty inlet
        ([I('SELF'), I('l', 'B')], ['l', 'gl']),                         # the receiver is one of the inlets
        ([I('SELF'), I('g', mode='maybe')], ['l']),
        ([I('gl'), I('l', 'B')], ['l', 'gl']),                           # multi-phase inlet
        ([I('l'), I('g', 'B'), I('l', mode='maybe')], ['l']),
    ]
    if not quick:
        base += [
            ([I('l', mode='pos+maybe'), I('g', 'B', 'pos+maybe')], ['l', 'g', 'gl']),
            ([I('s'), I('l')], ['l', 's', 'gls']),
            ([I('l'), I('g', 'B'), I('l', 'B')], ['l', 'g', 'gl']),
            ([I('SELF'), I('l', 'B'), I('g')], ['l', 'gl']),
            ([I('SELF'), I('SELF')], ['l']),
            ([I('gl'), I('gl', 'B')], ['l', 'gl']),
            ([I('gl', mode='maybe'), I('l')], ['l', 'gl']),
            ([I('l', mode='maybe'), I('g', 'B', 'maybe'), I('l', 'B')], ['l']),
        ]
    out = []
    for inlets, recvs in base:
        for r in recvs:
            # ('kw+heat' - a heat object among the inlets AND the Q keyword in one call - moved into the quick tier after seeded change C02_9)
            for q in (['none', 'kw', 'heat', 'kw+heat'] if quick else ['none', 'kw', 'heat', 'kw+heat', 'falsy']):
                for opt in ['', 'conserve_phases']:
                    if opt and quick and q != 'kw' and not (q == 'heat' and inlets is base[0][0] and r != 'g'):
                        continue
                    nm = f"recv={r};in=" + '+'.join(f'{k}{p}:{m}' for k, p, m in inlets) + f';Q={q}' + (f';{opt}' if opt else '')
                    out.append({'name': nm, 'recv': r, 'inlets': inlets, 'Q': q, 'fail': 0, 'opt': opt})
    # failing temperature solves: 1 -> fall-back of the H setter (phase flip), 2 -> fall-back of mix_from (phases of the inlets)
    for inlets, recvs in base[:3] + base[5:6]:
        for r in recvs:
            for fail in [1, 2]:
                if len(r) > 1 and fail == 2: continue
                for q in ((['kw', 'heat'] if inlets is base[0][0] and r != 'g' else ['kw']) if quick else ['none', 'kw', 'heat']):
                    nm = f"recv={r};in=" + '+'.join(f'{k}{p}:{m}' for k, p, m in inlets) + f';Q={q};fail={fail}'
                    out.append({'name': nm, 'recv': r, 'inlets': inlets, 'Q': q, 'fail': fail, 'opt': ''})
    return out


def _min_of(w, value, candidates):
    return w.And(w.Or(*[w.eq(value, c) for c in candidates]), *[w.le(value, c) for c in candidates])


@group('C02/mix_from', configs=mix_configs,
       functions=['thermosteam._stream:Stream.mix_from', 'thermosteam._stream:Stream.H', 'thermosteam._multi_stream:MultiStream.H',
                  'thermosteam._stream:Stream.copy_like', 'thermosteam._stream:Stream._get_property',
                  'thermosteam._multi_stream:MultiStream._get_property', 'thermosteam._stream:Stream.phases',
                  'thermosteam.indexer:ChemicalIndexer.mix_from', 'thermosteam.indexer:MaterialIndexer.mix_from',
                  'thermosteam.mixture.mixture:Mixture.H', 'thermosteam.mixture.mixture:Mixture.xH',
                  'thermosteam.mixture.ideal_mixture_model:IdealTPMixtureModel.__call__'],
       assumptions=['A-models', 'A-root'])
def mix_from(w, cfg):
    """H(receiver') = sum of the inlets' H (read before the call) + Q;  P' = min P over the non-empty inlets."""
    W.reset_caches()
    rkind = cfg['recv']
    fail = cfg['fail']
    plans = {'A': ({'xHP': fail} if len(rkind) > 1 else {'HP': fail})}
    stubs = {}

    def th(pkg):
        if pkg not in stubs:
            stubs[pkg] = _stub(w, pkg, plans.get(pkg))
        return stubs[pkg][0]

    recv, _ = W.stream_on(w, 'r', th('A'), KINDS[rkind], present=_present('A', KINDS[rkind], 'pos'))
    inlets, frames = [], []
    for n, (k, p, m) in enumerate(cfg['inlets']):
        if k == 'SELF':
            inlets.append(recv)
        else:
            s, _ = W.stream_on(w, f'i{n}', th(p), KINDS[k], present=_present(p, KINDS[k], m))
            inlets.append(s)
            frames.append((n, s, W.snapshot(s), s.T, s.P))
    nonempty = [s for s in inlets if not s.isempty()]
    if not nonempty:
        return      # outside the quantifier (non-empty inlet sets)
    # pre-state: enthalpy flows of the inlets and pressures, read through the public getters before the call
    H_in = 0.
    for n, s in enumerate(inlets):
        H_in = H_in + _read_H(w, s, f'inlet {n} before')
    P_in = [s.P for s in nonempty]
    Q_kw = Q_heat = 0.
    others = list(inlets)
    kw = {}
    if 'kw' in cfg['Q']:
        Q_kw = w.real('Q')
        kw['Q'] = Q_kw
    if 'heat' in cfg['Q']:
        Q_heat = w.real('Q.heat')
        others.insert(1, _Heat(Q_heat))
    if cfg['Q'] == 'falsy':
        others.append(None)        # falsy non-stream entries are skipped
    if cfg['opt'] == 'conserve_phases':
        kw['conserve_phases'] = True
    recv.mix_from(others, energy_balance=True, **kw)
    H_out = _read_H(w, recv, 'receiver after')
    w.ensure("H(receiver') = sum of inlet H + Q", w.eq(H_out, H_in + Q_kw + Q_heat))
    w.ensure("P(receiver') = min P over the non-empty inlets", _min_of(w, recv.P, P_in))
    for n, s, snap, T, P in frames:
        w.ensure(f'inlet {n} unchanged (flows, phases, T, P)',
                 w.And(W.same_snapshot(w, snap, W.snapshot(s)), w.eq(s.T, T), w.eq(s.P, P)))
    w.canary('canary: receiver H ignores the inlets', w.eq(H_out, Q_kw + Q_heat + 1))
    w.canary("canary: P' = max", w.And(*[w.ge(recv.P, p) for p in P_in], w.gt(recv.P, P_in[0])) if len(P_in) > 1
             else w.ne(recv.P, P_in[0]))
    w.note(H_in=H_in, H_out=H_out, P=recv.P, phases=recv.phases, log=[l for _, lg in stubs.values() for l in lg])


# --------------------------------------------------------------------------- separate_out(energy_balance=True)

def sep_configs(tier):
    quick = tier == 'quick'
    out = []
    pairs = [('l', ('l', 'A')), ('l', ('l', 'B')), ('l', ('g', 'A')), ('gl', ('l', 'A')), ('gl', ('g', 'B')), ('g', ('g', 'B'))]
    if not quick:
        pairs += [('gl', ('gl', 'A')), ('l', ('gl', 'B')), ('s', ('s', 'A'))]
    for r, o in pairs:
        multi, omulti = len(r) > 1, len(o[0]) > 1
        for eb in [True, False]:
            if not eb and (omulti or (quick and (r, o) not in (('l', ('l', 'B')), ('gl', ('l', 'A'))))):
                continue
            # presence patterns (self, other); the number of possibly non-zero entries drives the cost of the nonlinear VCs
            if multi and omulti:
                modes = [('pos', 'pos')]
            elif multi:
                modes = [('first-row-pos', 'pos')] + ([('pos+maybe', 'pos')] if eb and not quick else [])
            else:
                modes = [('pos+maybe', 'pos')] + ([('pos+pos', 'pos+maybe')] if eb and not quick else [])
            for sm, om in modes:
                out.append({'name': f'self={r}:{sm};other={o[0]}{o[1]}:{om};eb={eb}', 'self': r, 'other': list(o), 'eb': eb,
                            'smode': sm, 'omode': om})
    return out


@group('C02/separate_out', configs=sep_configs,
       functions=['thermosteam._stream:Stream.separate_out', 'thermosteam._stream:Stream.H', 'thermosteam._multi_stream:MultiStream.H',
                  'thermosteam.indexer:ChemicalIndexer.separate_out', 'thermosteam.indexer:MaterialIndexer.separate_out'],
       assumptions=['A-models', 'A-root'])
def separate_out(w, cfg):
    """Separating a stream out with the energy balance on leaves the difference of the enthalpies."""
    W.reset_caches()
    stubs = {}

    def th(pkg):
        if pkg not in stubs:
            stubs[pkg] = _stub(w, pkg)
        return stubs[pkg][0]

    skind, (okind, opkg) = cfg['self'], cfg['other']
    s, sl = W.stream_on(w, 's', th('A'), KINDS[skind], present=_present('A', KINDS[skind], cfg['smode']))
    o, ol = W.stream_on(w, 'o', th(opkg), KINDS[okind], present=_present(opkg, KINDS[okind], cfg['omode']))
    # requires (non-empty remainder, no negative flows): the other stream holds less of every chemical, phase by phase
    # where the phase exists in `s`, else in total
    st, ot = W.total_by_CAS(s), W.total_by_CAS(o)
    if isinstance(KINDS[skind], tuple) and set(KINDS[okind]) <= set(KINDS[skind]):
        for ph in KINDS[okind]:
            a, b = W.row_by_CAS(s, ph), W.row_by_CAS(o, ph)
            for cas in b:
                w.assume(w.lt(b[cas], a.get(cas, 0.)) if not isinstance(b[cas], float) or b[cas] else True)
    else:
        for cas in ot:
            w.assume(w.lt(ot[cas], st.get(cas, 0.)) if not isinstance(ot[cas], float) or ot[cas] else True)
    H_s, H_o = _read_H(w, s, 'self before'), _read_H(w, o, 'other before')
    T0, P0 = s.T, s.P
    pre_o = (W.snapshot(o), o.T, o.P)
    s.separate_out(o, energy_balance=cfg['eb'])
    H_after = _read_H(w, s, 'self after')
    if cfg['eb']:
        w.ensure("H(self') = H(self) - H(other)", w.eq(H_after, H_s - H_o))
    else:
        w.ensure('without energy balance T is left alone', w.eq(s.T, T0))
    w.ensure('P unchanged', w.eq(s.P, P0))
    got = W.total_by_CAS(s)
    w.ensure("flows(self') = flows(self) - flows(other)",
             w.And(*[w.eq(got[cas], st[cas] - ot.get(cas, 0.)) for cas in st]))
    w.ensure('separated stream unchanged (flows, phases, T, P)',
             w.And(W.same_snapshot(w, pre_o[0], W.snapshot(o)), w.eq(o.T, pre_o[1]), w.eq(o.P, pre_o[2])))
    w.canary("canary: H(self') = H(self) + H(other)", w.eq(H_after, H_s + H_o + 1))
    w.note(H_s=H_s, H_o=H_o, H_after=H_after, T=s.T)
