# -*- coding: utf-8 -*-
"""
C02 — stream energy balance: enthalpy is conserved and invertible in temperature.

The enthalpy/entropy of a stream is the real IdealMixture code over pure-component models
that are uninterpreted functions (A-models).  The temperature solves of the mixture obey A-root
(`W.stub_thermo`): they return T* with property(T*) == target (fresh leaf), the start value if it
already satisfies the equation, or they *raise* (driven by the configuration) which exercises the
`except` fall-back branches of the setters and of `mix_from`.
"""
import thermosteam as tmo
from engine.api import group
from engine.sx import tmo_world as W

A = ('Water', 'Ethanol')
B = ('Ethanol', 'Water')
A3 = ('Water', 'Ethanol', 'Octane')
W.preload([A, B, A3])
PKG = {'A': A, 'B': B, 'A3': A3}


class SolveFailed(RuntimeError):
    """What the stubbed temperature solver raises when the configuration says it fails."""


def _stub(w, pkg, fail=None):
    """
    Stub package (A-models + A-root).  `fail` = {'HP': n, 'SP': n, 'xHP': n, 'xSP': n}: the first n calls of
    that solver raise SolveFailed (the target is not reachable in the present phase).
    Returns (thermo, log) where log lists the solver calls made [(kind, outcome)].
    """
    th = W.stub_thermo(w, PKG[pkg])
    mix = th.mixture
    base = type(mix)
    left = dict(fail or {})
    log = []

    def wrap(kind, name):
        real = getattr(base, name)

        def solve(self, *args):
            if left.get(kind, 0) > 0:
                left[kind] -= 1
                log.append((kind, 'raise'))
                raise SolveFailed(f'{name}: no root in this phase (stub)')
            T = real(self, *args)
            log.append((kind, 'root'))
            return T
        solve.__name__ = name
        return solve

    Failing = type('FailingStubMixture', (base,), {
        '__slots__': (),
        'solve_T_at_HP': wrap('HP', 'solve_T_at_HP'), 'solve_T_at_SP': wrap('SP', 'solve_T_at_SP'),
        'xsolve_T_at_HP': wrap('xHP', 'xsolve_T_at_HP'), 'xsolve_T_at_SP': wrap('xSP', 'xsolve_T_at_SP')})
    mix.__class__ = Failing
    return th, log


def _present(pkg, phases, mode):
    rows = (phases,) if isinstance(phases, str) else phases
    p = {'default': 'zero'}
    IDs = PKG[pkg]
    for n, ph in enumerate(rows):
        if mode == 'pos':            # one chemical certainly there per row
            p[ph, IDs[0]] = 'pos'
        elif mode == 'pos+maybe':    # non-empty, second chemical may be absent
            p[ph, IDs[0]] = 'pos'
            p[ph, IDs[-1]] = 'maybe'
        elif mode == 'pos+pos':
            p[ph, IDs[0]] = 'pos'
            p[ph, IDs[-1]] = 'pos'
        elif mode == 'first-row-pos':  # multi-phase: first row non-empty, other rows may be empty
            p[ph, IDs[0]] = 'pos' if n == 0 else 'maybe'
            p[ph, IDs[-1]] = 'maybe' if n == 0 else 'zero'
        elif mode == 'maybe':        # stream may be empty
            p[ph, IDs[0]] = 'maybe'
        elif mode == 'empty':
            pass
        else:
            raise ValueError(mode)
    return p


KINDS = {'l': 'l', 'g': 'g', 's': 's', 'gl': ('g', 'l'), 'lL': ('l', 'L'), 'gls': ('g', 'l', 's')}


def _flows_equal(w, a, b):
    keys = set(a) | set(b)
    return w.And(*[w.eq(a.get(k, 0.), b.get(k, 0.)) for k in sorted(keys)])


# --------------------------------------------------------------------------- Stream.H / h / Hnet / S setters

def set_single_configs(tier):
    out = []
    phases = ['l', 'g', 's']
    for prop in ['H', 'h', 'Hnet', 'S']:
        for ph in phases:
            for fail in [0, 1]:
                for mode in (['pos', 'pos+maybe'] if tier == 'quick' else ['pos+maybe', 'pos+pos']):
                    for pkg in (['A'] if tier == 'quick' else ['A', 'A3']):
                        out.append({'name': f'prop={prop};phase={ph};fail={fail};flows={mode};pkg={pkg}', 'prop': prop,
                                    'phase': ph, 'fail': fail, 'mode': mode, 'pkg': pkg})
    return out


def _getter(s, prop):
    return getattr(s, prop)


@group('C02/set_single', configs=set_single_configs,
       functions=['thermosteam._stream:Stream.H', 'thermosteam._stream:Stream.h', 'thermosteam._stream:Stream.S',
                  'thermosteam._stream:Stream.Hnet', 'thermosteam._stream:Stream._get_property',
                  'thermosteam.mixture.mixture:Mixture.H', 'thermosteam.mixture.mixture:Mixture.S',
                  'thermosteam.mixture.ideal_mixture_model:IdealTPMixtureModel.__call__',
                  'thermosteam.mixture.ideal_mixture_model:IdealEntropyModel.__call__'],
       assumptions=['A-models', 'A-root'])
def set_single(w, cfg):
    W.reset_caches()
    prop = cfg['prop']
    kind = 'SP' if prop == 'S' else 'HP'
    th, log = _stub(w, cfg['pkg'], {kind: cfg['fail']})
    s, leaves = W.stream_on(w, 's', th, cfg['phase'], present=_present(cfg['pkg'], cfg['phase'], cfg['mode']))
    T0, P0 = s.T, s.P
    pre = W.total_by_CAS(s)
    value = w.real('value')
    try:
        setattr(s, prop, value)
    except SolveFailed:
        # allowed only when there is no other phase to try (solid): the solver's error is passed on
        w.ensure('solver failure is passed on only for phases without alternative', cfg['phase'] not in ('l', 'g'))
        w.ensure('failed assignment leaves T, P and the flows alone',
                 w.And(w.eq(s.T, T0), w.eq(s.P, P0), _flows_equal(w, pre, W.total_by_CAS(s))))
        return
    back = _getter(s, prop)
    w.ensure(f'reading {prop} back returns the assigned value', w.eq(back, value))
    w.ensure('flows unchanged', _flows_equal(w, pre, W.total_by_CAS(s)))
    w.ensure('P unchanged', w.eq(s.P, P0))
    if cfg['fail'] == 0:
        w.ensure('phase unchanged when the solve succeeds', s.phase == cfg['phase'])
    else:
        w.ensure('fall-back flips l <-> g', s.phase == {'l': 'g', 'g': 'l'}.get(cfg['phase']))
    w.canary('canary: T never moves', w.eq(s.T, T0))
    w.canary('canary: read-back is value + 1', w.eq(back, value + 1))
    w.note(T0=T0, T=s.T, back=back, log=list(log))


def same_single_configs(tier):
    return [{'name': f'prop={prop};phase={ph};pkg={pkg}', 'prop': prop, 'phase': ph, 'pkg': pkg}
            for prop in ['H', 'h', 'Hnet', 'S'] for ph in ['l', 'g'] for pkg in (['A'] if tier == 'quick' else ['A', 'A3'])]


@group('C02/set_same_value', configs=same_single_configs,
       functions=['thermosteam._stream:Stream.H', 'thermosteam._stream:Stream.h', 'thermosteam._stream:Stream.S',
                  'thermosteam._stream:Stream.Hnet'],
       assumptions=['A-models', 'A-root', 'A-root-stay'])
def set_same_value(w, cfg):
    W.reset_caches()
    prop = cfg['prop']
    th, log = _stub(w, cfg['pkg'])
    s, leaves = W.stream_on(w, 's', th, cfg['phase'], present=_present(cfg['pkg'], cfg['phase'], 'pos+maybe'))
    T0, P0 = s.T, s.P
    pre = W.snapshot(s)
    current = _getter(s, prop)
    setattr(s, prop, current)
    w.ensure('assigning the current value leaves T unchanged', w.eq(s.T, T0))
    w.ensure('P, phase, flows unchanged', w.And(w.eq(s.P, P0), s.phase == cfg['phase'],
                                                 _flows_equal(w, pre['flows'], W.snapshot(s)['flows'])))
    w.ensure('value still read back', w.eq(_getter(s, prop), current))
    w.canary('canary: T doubles', w.eq(s.T, 2 * T0))
