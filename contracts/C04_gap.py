# -*- coding: utf-8 -*-
"""
C04 (gap round) — more of the real functions behind "a vapour-liquid flash honours its specifications and the equilibrium
conditions" under contract: histories on ONE stream / ONE VLE object (the object remembers the set of chemicals present,
the index list, the bubble/dew point objects, the single chemical and the last K, V, T, P), alternative entry points
(single-phase Stream.vle, MultiStream.vle on a stream that lacks a phase or whose phases were changed, a VLE object built by
hand, a copy), other chemical orders (locked chemicals first in the package), observation channels (phase proxies, read by
name / position, vapor_fraction), the T,H / T,S specification of a single chemical, the remaining specification pairs of the
scaling and ideal-package sentences, the second equilibrium solver (VLE.method = 'shgo').

Every top-level ensures clause is a sentence of C04 (helpers and tolerances of contracts/C04_flash_specifications.py).
Mode S:  C04/gap_history_boundary     T,P flashes in sequence on one stream: phase-boundary rule for EVERY call
         C04/gap_history_spec         all specification pairs in sequence, the user moves T, P in between: T' = T_spec, P' = P_spec;
                                      single chemical + V: vapour fraction met exactly at Psat / Tsat of the chemical present
         C04/gap_entry_points         Stream.vle (l, g, s), MultiStream.vle (phase added / phases changed), VLE by hand, copy;
                                      results read by name, position, phase proxy, raw rows
         C04/gap_TH_chemical, C04/gap_TS_chemical      T and H (S) specified, one volatile chemical: H (S) reproduced exactly
         C04/gap_PH_correction_order, C04/gap_PS_correction_order    the correction step with locked chemicals first in the package
         C04/gap_scaling_history      relational: flash m, refill the same stream with k*m, flash again
Mode B:  C04/gap_B_history            real solvers, 4-5 calls per stream with contents and specification pair changing
         C04/gap_B_ideal_specs        ideal package, (T,V), (P,H), (P,S), (T,H), (T,S): Raoult / Rachford-Rice agreement, H/S reproduced
         C04/gap_B_scaling_specs      scaling for (T,V), (P,S), (T,H), (T,S), (T,x), (P,y) and Stream.scale between two flashes
         C04/gap_B_method_shgo        VLE.method = 'shgo'
"""
import os
import sys
import numpy as np
import thermosteam as tmo
from thermosteam import equilibrium as eq
from engine.api import group, CheckAbort
from engine.sx import tmo_world as W
from contracts import C04_flash_specifications as B

Env, chem, pkg, CHEMS = B.Env, B.chem, B.pkg, B.CHEMS
NOT_NORMAL = B.NOT_NORMAL
vle_mod = B.vle_mod
_VLE = B._VLE
_iff = B._iff

for _k in ('WEM', 'NWE', 'XWE', 'NXWE', 'WE', 'WEN', 'WEX', 'XW'):
    pkg(_k)


# --------------------------------------------------------------------------- helpers

def clear_flows(s):
    """The user empties the stream (every stored entry of every phase row is removed)."""
    for ph, sv in W.rows_of(s):
        sv.dct.clear()


def replant(w, s, name, dist, keys):
    """
    The user replaces the contents of stream s between two calls.  dist: {chemical key: two characters for (g, l)}, '0' no
    entry, '+' leaf > 0, digit = that concrete amount.  Returns the pre-state {(phase, ID): leaf} (every phase, every ID).
    """
    clear_flows(s)
    rows = dict(W.rows_of(s))
    IDs = s.chemicals.IDs
    out = {(ph, ID): 0. for ph in rows for ID in IDs}
    for k in keys:
        pat = dist.get(k, '00')
        for ph, c in zip('gl', pat):
            if c == '0':
                continue
            ID = chem(k).ID
            v = float(c) if c in '123456789' else w.real(f'{name}.{ph}.{ID}', lo=0., lo_strict=True)
            rows[ph].dct[IDs.index(ID)] = v
            out[ph, ID] = v
    return out


def totals(leaves, IDs):
    out = {ID: 0. for ID in IDs}
    for (ph, ID), v in leaves.items():
        if ID in out and not (isinstance(v, float) and v == 0.):
            out[ID] = out[ID] + v
    return out


def is_zero(v):
    return isinstance(v, float) and v == 0.


def step_name(steps, keys):
    return '>'.join(f"{st['spec']}:{B._dist_name(st['dist'], [k for k in keys if k in st['dist']])}" for st in steps)


def install_point_stubs(env):
    """
    A-bubble/dew with a record of WHO was asked WHAT: the bubble / dew point objects are built for a tuple of chemicals
    (recorded) and return, for the call in progress, the dew / bubble pressure leaves of that call (env.rec['cur']) and a
    composition >= 0 that sums to 1.  Everything else as in B.install_vle_stubs.
    """
    w = env.w
    env.rec['asked'] = []

    class Point:
        def __init__(self, chemicals=(), thermo=None):
            self.chemicals = tuple(chemicals)
            self.IDs = tuple(c.ID for c in self.chemicals)
            n = len(self.chemicals)
            self.Psats = [(lambda T: 1e5) for _ in range(n)]
            self.pcf = lambda T, P, Psats: 1.0
            self.gamma = self.phi = None
            self.Tmin = env.pos('Tmin'); self.Tmax = env.pos('Tmax')
            self.Pmin = env.pos('Pmin'); self.Pmax = env.pos('Pmax')
            env.count('points built')

        def _ask(self, kind, z, X, value):
            env.count(kind)
            env.rec['asked'].append({'call': env.rec.get('call'), 'kind': kind, 'IDs': self.IDs, 'z': list(z), 'at': X, 'value': value})
            return value, env.simplex(kind[-2:], len(self.chemicals))

    class BubblePoint(Point):
        def solve_Py(self, z, T, liquid_conversion=None):
            cur = env.rec.get('cur')
            return self._ask('solve_Py', z, T, cur[1] if cur else env.pos('P_bubble'))

        def solve_Ty(self, z, P, liquid_conversion=None):
            return self._ask('solve_Ty', z, P, env.pos('T_bubble'))

    class DewPoint(Point):
        def solve_Px(self, z, T, gas_conversion=None):
            cur = env.rec.get('cur')
            return self._ask('solve_Px', z, T, cur[0] if cur else env.pos('P_dew'))

        def solve_Tx(self, z, P, gas_conversion=None):
            return self._ask('solve_Tx', z, P, env.pos('T_dew'))

    env.patch(vle_mod, 'BubblePoint', BubblePoint)
    env.patch(vle_mod, 'DewPoint', DewPoint)


def spec_kwargs(env, spec, tag):
    """Specification leaves with names unique per call (`tag`)."""
    kw = {}
    w = env.w
    for c in spec:
        if c in 'TP':
            kw[c] = w.real(f'{tag}.spec.{c}', lo=0., lo_strict=True)
        elif c == 'V':
            kw[c] = w.real(f'{tag}.spec.V', lo=0., hi=1.)
        elif c in 'HS':
            kw[c] = w.real(f'{tag}.spec.{c}')
        else:
            a = w.real(f'{tag}.spec.{c}0', lo=0., hi=1.)
            kw[c] = env.arr([a, 1.0 - a])
    return kw


def boundary_clauses(w, env, s, keys, before, T, P, P_dew, P_bubble, tag, read=None, vle=None):
    """
    The T,P sentences of C04 for one call (with respect to the contents `before` just before that call):
    T, P = specified; all vapour <=> P <= P_dew and no heavy chemical; all liquid <=> P >= P_bubble and no light chemical;
    otherwise the two-phase split of the equilibrium solver evaluated at the specified (T, P); the dew / bubble pressure is
    asked for the chemicals PRESENT, for the feed composition, at the specified T.  Single volatile chemical (nothing light
    or heavy): Psat(T) of THAT chemical decides.
    `read`: {(phase, ID): value} as observed (default: raw sparse rows); `vle`: the VLE object that made the call (default: s.vle).
    """
    all_IDs = s.chemicals.IDs
    now = read if read is not None else B.flows_now(s)
    tot = totals(before, all_IDs)
    w.ensure(tag + 'T, P after the flash = specified T, P', w.And(w.eq(s.T, T), w.eq(s.P, P)))
    vol = [chem(k).ID for k in keys if CHEMS[k][1] is None]
    present = [ID for ID in all_IDs if ID in vol and not is_zero(tot[ID])]      # in package order
    light_k = [k for k in keys if CHEMS[k][1] == 'g' and not is_zero(tot[chem(k).ID])]
    heavy_k = [k for k in keys if CHEMS[k][1] == 'l' and not is_zero(tot[chem(k).ID]) and (chem(k).N_solutes or 0)]
    if not present:
        return now
    all_vapour = w.And(*[w.And(w.eq(now['g', ID], tot[ID]), w.eq(now['l', ID], 0.)) for ID in present])
    all_liquid = w.And(*[w.And(w.eq(now['l', ID], tot[ID]), w.eq(now['g', ID], 0.)) for ID in present])
    if len(present) == 1 and not light_k and not heavy_k:
        Psat = w.fn(f'Psat.{present[0]}', positive=True)(T)
        w.ensure(tag + 'single chemical: P above Psat(T) of the chemical present => all liquid', w.Implies(w.gt(P, Psat + 1e-3), all_liquid))
        w.ensure(tag + 'single chemical: P below Psat(T) of the chemical present => all vapour', w.Implies(w.lt(P, Psat - 1e-3), all_vapour))
        return now
    cond_V = w.And(w.le(P, P_dew), not heavy_k)
    cond_L = w.And(w.ge(P, P_bubble), not light_k)
    w.ensure(tag + 'all vapour <=> P <= P_dew and no heavy (non-volatile) chemical', _iff(w, all_vapour, cond_V))
    w.ensure(tag + 'all liquid <=> P >= P_bubble and no light (non-condensable) chemical', _iff(w, all_liquid, cond_L))
    n = env.rec.get('call')
    asked = [a for a in env.rec['asked'] if a['call'] == n]
    ok = []
    for a in asked:
        # every chemical present is among those the object was built for; the composition asked is the feed composition
        # (a chemical that is listed but absent has fraction 0); at the specified T
        ok.append(set(present) <= set(a['IDs']) and len(a['z']) == len(a['IDs']))
        if len(a['z']) == len(a['IDs']):
            ok.append(w.eq(a['at'], T))
            ok += [w.eq(a['z'][i] * tot[a['IDs'][j]], a['z'][j] * tot[a['IDs'][i]])
                   for i in range(len(a['IDs'])) for j in range(i + 1, len(a['IDs']))]
    w.ensure(tag + 'dew / bubble pressure is asked for the chemicals present, for the feed composition, at the specified T',
             w.And(len(asked) >= 1, *ok), asked=[(a['kind'], a['IDs']) for a in asked], present=present)
    if 'v' in env.rec:
        v = env.rec['v']; vT, vP = env.rec['v_args']
        got = [all_IDs[i] for i in (vle if vle is not None else s.vle)._index]       # the VLE object that made the call
        split = [w.And(w.eq(now['g', ID], v[i]), w.eq(now['l', ID], tot[ID] - v[i])) for i, ID in enumerate(got)] \
            if len(got) == len(v) and set(present) <= set(got) else [False]
        w.ensure(tag + 'otherwise: the two-phase split of the equilibrium solver evaluated at the specified (T, P)',
                 w.Implies(w.Not(w.Or(cond_V, cond_L)), w.And(w.eq(vT, T), w.eq(vP, P), *split)))
    else:
        w.ensure(tag + 'otherwise: the two-phase split of the equilibrium solver evaluated at the specified (T, P)', w.Or(cond_V, cond_L))
    # locked chemicals end up in their phase
    for k in light_k:
        ID = chem(k).ID
        w.ensure(tag + f'non-condensable {ID} is all vapour', w.And(w.eq(now['g', ID], tot[ID]), w.eq(now['l', ID], 0.)))
    for k in keys:
        if CHEMS[k][1] == 'l' and not is_zero(tot[chem(k).ID]):
            ID = chem(k).ID
            w.ensure(tag + f'non-volatile {ID} is all liquid', w.And(w.eq(now['l', ID], tot[ID]), w.eq(now['g', ID], 0.)))
    return now


# =========================================================================== S: histories, T,P specified (phase-boundary rule)

def hist_boundary_configs(tier):
    fam = [
        # same number of chemicals in equilibrium, ANOTHER member: index list / bubble-dew objects of the first call are stale
        ('WEM', ['TP', 'TP'], [{'W': '+0', 'E': '0+'}, {'W': '0+', 'M': '+0'}]),
        # the same chemicals again, other amounts and distribution: remembered objects are reused, the composition is new
        ('WE', ['TP', 'TP'], [{'W': '+0', 'E': '0+'}, {'W': '0+', 'E': '++'}]),
        # one chemical -> another single chemical (the remembered single chemical)
        ('WE', ['TP', 'TP'], [{'W': '+0'}, {'E': '0+'}]),
        # locked chemicals first in the package: index list is not 0..n-1; a gas-locked chemical leaves
        ('NWE', ['TP', 'TP'], [{'N': '0+', 'W': '+0', 'E': '0+'}, {'W': '0+', 'E': '+0'}]),
        # a non-volatile solute arrives on the second call; liquid-locked chemical first in the package
        ('XWE', ['TP', 'TP'], [{'W': '+0', 'E': '0+'}, {'X': '+0', 'W': '+0', 'E': '0+'}]),
    ]
    if tier == 'thorough':
        fam += [
            ('WEM', ['TP', 'TP', 'TP'], [{'W': '+0', 'E': '0+', 'M': '++'}, {'E': '0+', 'M': '+0'}, {'W': '+0', 'E': '0+', 'M': '0+'}]),
            ('WE', ['TP', 'TP', 'TP'], [{'W': '++'}, {'W': '+0', 'E': '0+'}, {'E': '++'}]),
            ('NXWE', ['TP', 'TP'], [{'N': '0+', 'X': '+0', 'W': '+0', 'E': '0+'}, {'X': '0+', 'W': '0+', 'E': '+0'}]),
            ('NXWE', ['TP', 'TP'], [{'W': '+0', 'E': '0+'}, {'N': '+0', 'W': '+0'}]),
            ('WEM', ['TP', 'TP'], [{'W': '+0', 'E': '0+'}, {'E': '0+', 'M': '+0'}]),
        ]
    return [{'name': f"{keys}/{step_name([{'spec': sp, 'dist': d} for sp, d in zip(specs, dists)], keys)}", 'pkg': keys,
             'steps': [{'spec': sp, 'dist': d} for sp, d in zip(specs, dists)]} for keys, specs, dists in fam]


_A_HIST = ['A-bubble/dew: solve_Px / solve_Py return the dew / bubble pressure of the composition they are given (fresh leaves per call, '
           'P_dew < P_bubble) and a composition >= 0 summing to 1; the objects record the chemicals they were built for',
           'A-fixed-point: inside the two-phase region VLE._solve_v_fixed_point returns a split strictly between 0 and mol_vle',
           'A-models: Psat(T) of a single volatile chemical is a positive deterministic function of T (one function per chemical)']


@group('C04/gap_history_boundary', configs=hist_boundary_configs,
       functions=[_VLE + f for f in ('__call__', 'set_thermal_condition', '_set_thermal_condition_chemical', '_setup', '_solve_v')]
       + ['thermosteam.equilibrium.vle:set_flows', 'thermosteam._multi_stream:MultiStream.vle', 'thermosteam.utils.cache:Cache.retrieve',
          'thermosteam._chemicals:CompiledChemicals.get_vle_indices'],
       assumptions=_A_HIST)
def history_boundary(w, cfg):
    """
    Several T,P flashes on the SAME stream (hence the same VLE object); between the calls the user replaces the contents.
    The T,P sentences of C04 hold for EVERY call with respect to the contents just before that call.
    requires T below the critical temperature of a single volatile chemical.
    """
    W.reset_caches()
    env = Env(w, cfg)
    keys = cfg['pkg']
    try:
        B.install_vle_stubs(env, interior_v=True, solve_v='real')
        install_point_stubs(env)
        th = B.havoc_thermo(env, keys)
        s = tmo.MultiStream(None, phases=('g', 'l'), thermo=th)
        s.T = w.real('T0', lo=0., lo_strict=True); s.P = w.real('P0', lo=0., lo_strict=True)
        now = None
        for n, step in enumerate(cfg['steps']):
            before = replant(w, s, f'f{n}', step['dist'], keys)
            T = w.real(f'c{n}.spec.T', lo=0., lo_strict=True)
            P = w.real(f'c{n}.spec.P', lo=0., lo_strict=True)
            P_dew = w.real(f'c{n}.P_dew', lo=0., lo_strict=True)
            P_bubble = w.real(f'c{n}.P_bubble', lo=0., lo_strict=True)
            w.assume(w.lt(P_dew, P_bubble))
            present = [k for k in keys if k in step['dist'] and CHEMS[k][1] is None]
            if len(present) == 1:
                w.assume(w.lt(T, chem(present[0]).Tc))
            env.rec['call'] = n; env.rec['cur'] = (P_dew, P_bubble)
            env.rec.pop('v', None); env.rec.pop('v_args', None)
            try:
                s.vle(T=T, P=P)
            except NOT_NORMAL as e:
                w.note(outcome=f'call {n}: {type(e).__name__}')
                return
            now = boundary_clauses(w, env, s, keys, before, T, P, P_dew, P_bubble, f'call {n}: ')
        w.canary('canary: the last flash leaves P at the pressure of the first specification', w.eq(s.P, w.leaves['c0.spec.P']))
        w.note(calls=dict(env.calls), flows=now)
    finally:
        env.restore()


# =========================================================================== S: histories over the other specification pairs

def hist_spec_configs(tier):
    fam = [
        # the SAME specification values twice, the user moves T and P in between (a remembered T / P must not short-cut the write)
        ('WE', [('TV', {'W': '+0'}), ('TV', {'W': '0+', 'E': '+0'})], {'same_spec': True}),
        ('WE', [('PV', {'E': '0+'}), ('PV', {'W': '+0', 'E': '0+'})], {'same_spec': True}),
        ('WEM', [('TP', {'W': '+0', 'E': '0+'}), ('TP', {'W': '+0', 'M': '0+'})], {'same_spec': True}),
        # single chemical -> another single chemical: saturation pressure / temperature of the chemical PRESENT
        ('WE', [('PV', {'W': '+0'}), ('TV', {'E': '0+'}), ('PV', {'W': '0+'})], {}),
        # mixture <-> single chemical, locked chemicals first in the package
        ('NWE', [('TV', {'N': '+0', 'W': '+0', 'E': '0+'}), ('TV', {'E': '0+'})], {}),
        ('XWE', [('PV', {'W': '+0'}), ('PV', {'X': '0+', 'W': '+0'})], {}),
        # liquid / vapour composition specified after another member pair was flashed
        ('WEM', [('TP', {'W': '+0', 'E': '0+'}), ('Tx', {'E': '+0', 'M': '0+'})], {}),
        ('WEM', [('TP', {'W': '+0', 'M': '0+'}), ('Py', {'W': '+0', 'E': '0+'})], {}),
    ]
    if tier == 'thorough':
        fam += [
            ('WE', [('TP', {'W': '+0', 'E': '0+'}), ('PH', {'W': '0+', 'E': '+0'})], {}),
            ('WE', [('PV', {'W': '+0'}), ('PS', {'W': '0+', 'E': '+0'})], {}),
            ('WEM', [('TP', {'W': '+0', 'E': '0+'}), ('TH', {'W': '+0', 'M': '0+'})], {}),
            ('WEM', [('TV', {'E': '+0'}), ('TS', {'E': '+0', 'M': '0+'})], {}),
            ('WE', [('PH', {'W': '++'}), ('PH', {'E': '++'})], {}),
            ('WE', [('TH', {'W': '++'}), ('TS', {'E': '++'})], {}),
            ('WE', [('TV', {'W': '+0', 'E': '0+'}), ('TV', {'W': '0+', 'E': '+0'})], {'same_spec': True}),
            ('WE', [('PV', {'W': '+0', 'E': '0+'}), ('PV', {'W': '0+', 'E': '+0'})], {'same_spec': True}),
            ('WEM', [('PV', {'W': '+0', 'M': '0+'}), ('Py', {'W': '+0', 'E': '0+'})], {}),
            ('NXWE', [('TP', {'N': '+0', 'X': '0+', 'W': '+0', 'E': '0+'}), ('PV', {'X': '0+', 'W': '+0', 'E': '0+'})], {}),
            ('NXWE', [('TV', {'W': '+0'}), ('TP', {'N': '+0', 'W': '+0'})], {}),
        ]
    out = []
    for keys, steps, opts in fam:
        steps = [{'spec': sp, 'dist': d} for sp, d in steps]
        o = dict({'k': 0, 'same_spec': False}, **opts)
        out.append(dict(o, name=f"{keys}/{step_name(steps, keys)}/k={o['k']}" + ('/same values' if o['same_spec'] else ''), pkg=keys, steps=steps))
    return out


@group('C04/gap_history_spec', configs=hist_spec_configs, l0=True,
       functions=[_VLE + f for f in ('__call__', '_setup', 'set_thermal_condition', 'set_TV', 'set_PV', 'set_PH', 'set_PS', 'set_TH', 'set_TS',
                                     'set_Tx', 'set_Px', 'set_Ty', 'set_Py', '_lever_rule', '_set_TV_chemical', '_set_PV_chemical',
                                     '_set_PH_chemical', '_set_PS_chemical', '_set_TH_chemical', '_set_TS_chemical',
                                     '_V_err_at_P', '_V_err_at_T')]
       + ['thermosteam._multi_stream:MultiStream.vle', 'thermosteam.utils.cache:Cache.retrieve'],
       assumptions=B._A_VLE)
def history_spec(w, cfg):
    """
    Several flashes with different specification pairs on the SAME stream; between the calls the user replaces the contents
    and moves T and P.  For EVERY call that returns: T' = T_spec, P' = P_spec; single volatile chemical with V specified
    (0 < V < 1): the vapour fraction is met exactly at the saturation pressure (temperature) of the chemical present.
    """
    W.reset_caches()
    env = Env(w, cfg)
    keys = cfg['pkg']
    try:
        B.install_vle_stubs(env, solve_v='contract', interior_v=True)
        install_point_stubs(env)
        th = B.havoc_thermo(env, keys)
        s = tmo.MultiStream(None, phases=('g', 'l'), thermo=th)
        tc = s._thermal_condition
        first_kw = None
        all_IDs = s.chemicals.IDs
        for n, step in enumerate(cfg['steps']):
            before = replant(w, s, f'f{n}', step['dist'], keys)
            Tu = s.T = w.real(f'u{n}.T', lo=0., lo_strict=True)        # the user moves T and P
            Pu = s.P = w.real(f'u{n}.P', lo=0., lo_strict=True)
            spec = step['spec']
            if cfg['same_spec'] and first_kw is not None:
                kw = dict(first_kw)
            else:
                kw = spec_kwargs(env, spec, f'c{n}')
                if 'V' in kw:
                    w.assume(w.And(w.gt(kw['V'], 0.), w.lt(kw['V'], 1.)))
            if first_kw is None:
                first_kw = kw
            env.rec['call'] = n; env.rec['cur'] = None
            try:
                s.vle(**kw)
            except NOT_NORMAL as e:
                w.note(outcome=f'call {n}: {type(e).__name__}')
                return
            tag = f'call {n} ({spec}): '
            if 'T' in kw:
                w.ensure(tag + 'T after the flash = specified T', w.eq(s.T, kw['T']))
            if 'P' in kw:
                w.ensure(tag + 'P after the flash = specified P', w.eq(s.P, kw['P']))
            w.ensure(tag + 'frame: the stream keeps its thermal-condition object', s._thermal_condition is tc)
            tot = totals(before, all_IDs)
            present = [chem(k).ID for k in keys if k in step['dist']]
            if 'V' in kw and len(present) == 1 and CHEMS[[k for k in keys if k in step['dist']][0]][1] is None:
                ID = present[0]
                now = B.flows_now(s)
                w.ensure(tag + 'single chemical: the specified vapour fraction is met exactly',
                         w.And(w.eq(now['g', ID], kw['V'] * tot[ID]), w.eq(now['g', ID] + now['l', ID], tot[ID])))
                if 'T' in kw:
                    w.ensure(tag + 'single chemical: P = saturation pressure of the chemical present at the specified T',
                             w.eq(s.P, w.fn(f'Psat.{ID}', positive=True)(kw['T'])))
                else:
                    w.ensure(tag + 'single chemical: T = saturation temperature of the chemical present at the specified P',
                             w.eq(s.T, w.fn(f'Tsat.{ID}', positive=True)(kw['P'])))
        if 'T' in kw:
            w.canary('canary: the last flash leaves T where the user put it', w.eq(s.T, Tu))
        else:
            w.canary('canary: the last flash leaves P where the user put it', w.eq(s.P, Pu))
        w.note(calls=dict(env.calls), T=s.T, P=s.P)
    finally:
        env.restore()


# =========================================================================== S: alternative entry points and observation channels

def read_flows(s, channel):
    """{(phase, ID): value} for phases g, l observed through `channel`: raw sparse rows / by name through imol / through phase proxies."""
    IDs = s.chemicals.IDs
    if channel == 'raw':
        return B.flows_now(s)
    out = {}
    for ph in 'gl':
        for i, ID in enumerate(IDs):
            if channel == 'name':
                out[ph, ID] = s.imol[ph, ID]
            elif channel == 'proxy':
                out[ph, ID] = s[ph].imol[ID]
            else:       # by position in the dense image of the phase row
                out[ph, ID] = s.imol[ph][i]
    return out


def entry_configs(tier):
    fam = [
        ('stream:l', 'WE', {'W': '+', 'E': '+'}, 'name'),           # single-phase Stream.vle (liquid) -> becomes multi-phase
        ('stream:g', 'NWE', {'N': '+', 'W': '+', 'E': '+'}, 'proxy'),
        ('stream:s', 'WE', {'W': '+', 'E': '+'}, 'raw'),            # solid stream: material is moved to the liquid first
        ('multi:ls', 'WE', {'W': '+', 'E': '+'}, 'position'),       # MultiStream without a gas phase: the phase is added
        ('multi:gl>gls', 'WEM', {'W': '+', 'M': '+'}, 'name'),      # phases changed after a first flash: the VLE object follows the new data
        ('by hand', 'WE', {'W': '+', 'E': '+'}, 'proxy'),           # VLE(imol, thermal_condition, thermo) next to the stream's own
        ('copy', 'XWE', {'X': '+', 'W': '+', 'E': '+'}, 'name'),    # a copy of a stream that was flashed before
    ]
    if tier == 'thorough':
        fam += [('stream:l', 'W', {'W': '+'}, 'proxy'), ('stream:g', 'WEX', {'W': '+', 'E': '+', 'X': '+'}, 'raw'),
                ('multi:ls', 'NWE', {'N': '+', 'W': '+', 'E': '+'}, 'name'), ('by hand', 'WEM', {'W': '+', 'E': '+', 'M': '+'}, 'position'),
                ('copy', 'WEM', {'E': '+', 'M': '+'}, 'proxy')]
    return [{'name': f"{kind}/{keys}/{','.join(d)}/read by {ch}", 'kind': kind, 'pkg': keys, 'present': d, 'channel': ch} for kind, keys, d, ch in fam]


@group('C04/gap_entry_points', configs=entry_configs,
       functions=['thermosteam._stream:Stream.vle', 'thermosteam._multi_stream:MultiStream.vle', 'thermosteam._stream:Stream.phases',
                  'thermosteam._multi_stream:MultiStream.phases', 'thermosteam._multi_stream:MultiStream.reset_cache',
                  'thermosteam.utils.cache:Cache.retrieve', 'thermosteam.equilibrium.vle:VLE.__init__', 'thermosteam._stream:Stream.copy']
       + [_VLE + f for f in ('__call__', 'set_thermal_condition', '_set_thermal_condition_chemical', '_setup', '_solve_v')],
       assumptions=_A_HIST)
def entry_points(w, cfg):
    """
    The T,P sentences of C04 through the other ways of reaching the flash: the `vle` property of a single-phase Stream (liquid,
    gas, solid), of a MultiStream that lacks the gas phase, after the phases of a flashed stream were changed, a VLE object
    built by hand on the stream's data (as Stream.vlle does), a copy of a flashed stream; the result is read by name, by
    position, through the phase proxies and from the raw rows; T and P also through the phase proxies.
    """
    W.reset_caches()
    env = Env(w, cfg)
    keys = cfg['pkg']; kind = cfg['kind']
    try:
        B.install_vle_stubs(env, interior_v=True, solve_v='real')
        install_point_stubs(env)
        th = B.havoc_thermo(env, keys)
        T0 = w.real('T0', lo=0., lo_strict=True); P0 = w.real('P0', lo=0., lo_strict=True)
        IDs = th.chemicals.IDs

        def plant(s, phase, name, which):
            rows = dict(W.rows_of(s))
            out = {}
            for k in which:
                ID = chem(k).ID
                v = w.real(f'{name}.{phase}.{ID}', lo=0., lo_strict=True)
                rows[phase].dct[IDs.index(ID)] = v
                out[phase, ID] = v
            return out

        def leaves_call(n):
            T = w.real(f'c{n}.spec.T', lo=0., lo_strict=True); P = w.real(f'c{n}.spec.P', lo=0., lo_strict=True)
            P_dew = w.real(f'c{n}.P_dew', lo=0., lo_strict=True); P_bubble = w.real(f'c{n}.P_bubble', lo=0., lo_strict=True)
            w.assume(w.lt(P_dew, P_bubble))
            env.rec['call'] = n; env.rec['cur'] = (P_dew, P_bubble)
            env.rec.pop('v', None); env.rec.pop('v_args', None)
            return T, P, P_dew, P_bubble

        volatile = [k for k in cfg['present'] if CHEMS[k][1] is None]
        n = 0
        if kind.startswith('stream:'):
            ph = kind[-1]
            s = tmo.Stream(None, thermo=th, phase=ph)
            s.T = T0; s.P = P0
            before = plant(s, ph, 'f', cfg['present'])
            target = s
        elif kind == 'multi:ls':
            s = tmo.MultiStream(None, phases=('l', 's'), thermo=th)
            s.T = T0; s.P = P0
            before = plant(s, 'l', 'f', cfg['present'])
            target = s
        else:
            s = tmo.MultiStream(None, phases=('g', 'l'), thermo=th)
            s.T = T0; s.P = P0
            first = plant(s, 'l', 'f0', [k for k in keys if CHEMS[k][1] is None][:2])
            T, P, P_dew, P_bubble = leaves_call(0)
            try:
                s.vle(T=T, P=P)
            except NOT_NORMAL as e:
                w.note(outcome=f'call 0: {type(e).__name__}'); return
            n = 1
            if kind == 'multi:gl>gls':
                s.phases = ('g', 'l', 's')
                clear_flows(s)
                before = plant(s, 'l', 'f', cfg['present'])
                target = s
            elif kind == 'by hand':
                clear_flows(s)
                before = plant(s, 'g', 'f', cfg['present'])
                target = s
            else:
                clear_flows(s)
                before = plant(s, 'l', 'f', cfg['present'])
                target = s.copy()
        T, P, P_dew, P_bubble = leaves_call(n)
        if len(volatile) == 1:
            w.assume(w.lt(T, chem(volatile[0]).Tc))
        tc = target._thermal_condition
        vle = None
        try:
            if kind == 'by hand':
                vle = eq.VLE(target.imol, target._thermal_condition, target._thermo)
                vle(T=T, P=P)
            else:
                target.vle(T=T, P=P)
        except NOT_NORMAL as e:
            w.note(outcome=f'call {n}: {type(e).__name__}'); return
        s = target
        w.ensure('frame: the stream has a gas and a liquid phase to hold the result and keeps its thermal-condition object',
                 isinstance(s, tmo.MultiStream) and 'g' in s.phases and 'l' in s.phases and s._thermal_condition is tc)
        observed = read_flows(s, cfg['channel'])
        # material that started in another phase of the stream counts as feed of the flash
        feed = {}
        for (ph, ID), v in before.items():
            feed['l' if ph not in 'gl' else ph, ID] = v
        full = {(ph, ID): feed.get((ph, ID), 0.) for ph in 'gl' for ID in IDs}
        boundary_clauses(w, env, s, keys, full, T, P, P_dew, P_bubble, '', read=observed, vle=vle)
        w.ensure('T, P read through the phase proxies = specified T, P',
                 w.And(w.eq(s['g'].T, T), w.eq(s['l'].T, T), w.eq(s['g'].P, P), w.eq(s['l'].P, P)))
        w.canary('canary: the flash leaves T as it was', w.eq(s.T, T0))
        w.note(calls=dict(env.calls), phases=str(s.phases))
    finally:
        env.restore()


def on_explored_path(body):
    """
    Native runs of a solver model only (cross-check / replay with floats; nothing changes in the symbolic run): when the float
    run does not ask for every leaf of the model, a rounding-level tie sent it down ANOTHER path than the explored one (e.g. the
    A-root stub found its start value "already a root" within the float tolerance, so the root leaf of the model is never drawn);
    such a run says nothing about the explored path and is skipped (reported by the engine as `cross_checks_skipped_rounding`).
    """
    def guarded(w, cfg):
        body(w, cfg)
        values = getattr(w, 'values', None)
        if not w.symbolic and isinstance(values, dict) and '__sample__' not in values:
            w.assume(all(k in w.leaves for k in values))
    guarded.__name__ = body.__name__
    guarded.__doc__ = body.__doc__
    return guarded


# =========================================================================== S: T and H (S) specified, single volatile chemical

def th_chem_configs(var):
    def configs(tier):
        fam = [('W', {'W': '++'}, None), ('WE', {'E': '0+'}, None)]
        if var == 'H' or tier == 'thorough':
            fam += [('WE', {'E': '+0'}, {'W': '0+'})]          # history: another single chemical was flashed before (P, H / P, S)
        if tier == 'thorough':
            fam += [('WEM', {'M': '++'}, {'E': '0+'}), ('WE', {'W': '03'}, None)]
        return [{'name': f"{keys}/{B._dist_name(d, keys)}" + (f"/after {B._dist_name(h, keys)}" if h else ''), 'pkg': keys, 'dist': d, 'hist': h}
                for keys, d, h in fam]
    return configs


def th_chem_body(var):
    def body(w, cfg):
        """
        T and H (S) specified, one volatile chemical, H (S) between the saturated-liquid and saturated-vapour values (outside
        that range the call raises).  ensures: the enthalpy (entropy) of the resulting stream, mixture.xH (xS) of the final
        flows at the final T, P, equals the specification; T = specified T; P = saturation pressure of the chemical present;
        the flows stay in range and add up to the feed.  Pure-component H/S models are uninterpreted functions of (T, P)
        combined by the REAL mixing rule.
        """
        from thermosteam.mixture import ideal_mixture_model as imm
        W.reset_caches()
        B._branch_timeout(w, 400)
        env = Env(w, cfg)
        keys = cfg['pkg']
        try:
            B.install_vle_stubs(env, solve_v='contract', interior_v=True)
            IDs = tuple(chem(k).ID for k in keys)
            th = W.stub_thermo(w, IDs)
            if var == 'S':     # A-linear-S (one chemical per phase: the entropy of mixing vanishes anyway)
                th.mixture._S = imm.IdealTPMixtureModel(th.mixture._S.models, 'S')
            T0 = w.real('T0', lo=0., lo_strict=True)
            P0 = w.real('P0', lo=0., lo_strict=True)
            s = tmo.MultiStream(None, phases=('g', 'l'), thermo=th)
            s.T = T0; s.P = P0
            if cfg['hist']:
                replant(w, s, 'h', cfg['hist'], keys)
                try:
                    s.vle(P=w.real('h.spec.P', lo=0., lo_strict=True), **{var: w.real(f'h.spec.{var}')})
                except NOT_NORMAL as e:
                    w.note(outcome=f'first call: {type(e).__name__}')
                    return
            before = replant(w, s, 'f', cfg['dist'], keys)
            T = w.real('spec.T', lo=0., lo_strict=True)
            X = w.real(f'spec.{var}')
            tot = totals(before, IDs)
            try:
                s.vle(T=T, **{var: X})
            except NOT_NORMAL as e:
                w.note(outcome=type(e).__name__)
                return
            mix = th.mixture
            got = (mix.xH if var == 'H' else mix.xS)(s._imol, s.T, s.P)
            if w.symbolic:
                reproduced = w.eq(got, X)
            else:
                models = (mix._H if var == 'H' else mix._S).models
                scale = sum(abs(v) * abs(models[i](ph, s.T, s.P)) for ph, sv in W.rows_of(s) for i, v in sv.dct.items())
                reproduced = abs(got - X) <= 1e-7 * max(scale, abs(X)) + 1e-9
            w.ensure(f'{var} of the resulting stream = specified {var}', reproduced)
            w.ensure('T after the flash = specified T', w.eq(s.T, T))
            ID = [chem(k).ID for k in keys if k in cfg['dist']][0]
            w.ensure('P after the flash = saturation pressure of the chemical present at the specified T',
                     w.eq(s.P, w.fn(f'Psat.{ID}', positive=True)(T)))
            now = B.flows_now(s)
            for i in IDs:
                w.ensure(f'flows of {i} stay in range and add up to the feed',
                         w.And(w.ge(now['g', i], 0.), w.ge(now['l', i], 0.), w.eq(now['g', i] + now['l', i], tot[i])))
            w.canary('canary: all of the chemical ends up in the vapour', w.eq(now['l', ID], 0.))
            w.note(P=s.P, roots=[k for k, _ in mix.roots])
        finally:
            env.restore()
    body.__name__ = f'T{var}_chemical'
    return body


_A_TH = ['A-models: pure-component H, S are uninterpreted deterministic functions of (T, P); Psat(T), Tsat(P) positive deterministic functions '
         '(one per chemical); the mixing rule is the real one', 'A-root: xsolve_T_at_HP / xsolve_T_at_SP return T* with xH(T*) = H (first call of the histories)']
group('C04/gap_TH_chemical', configs=th_chem_configs('H'), l0=True,
      functions=[_VLE + f for f in ('__call__', 'set_TH', '_set_TH_chemical', '_setup', 'set_PH', '_set_PH_chemical')] + ['thermosteam.mixture.mixture:Mixture.xH'],
      assumptions=_A_TH)(on_explored_path(th_chem_body('H')))
group('C04/gap_TS_chemical', configs=th_chem_configs('S'), l0=True,
      functions=[_VLE + f for f in ('__call__', 'set_TS', '_set_TS_chemical', '_setup', 'set_PS', '_set_PS_chemical')] + ['thermosteam.mixture.mixture:Mixture.xS'],
      assumptions=_A_TH + ['A-linear-S: the entropy model is linear in the flows (one chemical per phase: no entropy of mixing)'])(on_explored_path(th_chem_body('S')))


# =========================================================================== S (relational): scaling on ONE stream object

def scaling_hist_configs(tier):
    fam = [('WE', {'W': '0+', 'E': '+0'}, None)]
    if tier == 'thorough':      # (a history before the two runs multiplies the paths: ~230 paths, minutes)
        fam += [('WEM', {'W': '0+', 'M': '+0'}, {'W': '+0', 'E': '0+'}), ('XWE', {'X': '0+', 'W': '0+', 'E': '+0'}, None),
                ('NWE', {'N': '+0', 'W': '0+', 'E': '0+'}, None)]
    return [{'name': f"TP/{keys}/{B._dist_name(d, [k for k in keys if k in d])}" + (f"/after {B._dist_name(h, [k for k in keys if k in h])}" if h else '') + '/same stream',
             'spec': 'TP', 'pkg': keys, 'dist': d, 'hist': h, 'k': 0, 'kguess': 'floor'} for keys, d, h in fam]


def install_scaling_stubs(env, tape):
    """
    The assumed contracts of B.install_scaling_stubs (bubble / dew point solvers, Psat_i, the fixed-point driver flx.aitken, the
    initial K guess of _refresh_K and flx.IQ_interpolation are deterministic functions of their intensive arguments), for two
    runs on ONE VLE object: building a bubble / dew point object is not a solver call (its bounds are not taped), and the
    second run may leave out calls whose results the object remembers from the first run (the tape is searched forward for the
    next call of the same solver); a call that the first run did not make is a mismatch.
    """
    w = env.w
    tape.skipped = []

    def rec(name, inputs, make):
        inputs = B._numeric(inputs)
        if not tape.replaying:
            out = make()
            tape.items.append((name, inputs, out))
            return out
        j = tape.pos
        while j < len(tape.items) and not (tape.items[j][0] == name and len(tape.items[j][1]) == len(inputs)):
            j += 1
        if j >= len(tape.items):
            tape.mismatch.append(name)
            return make()
        tape.skipped += [i[0] for i in tape.items[tape.pos:j]]
        nm, inp, out = tape.items[j]
        tape.pos = j + 1
        tape.conds.append((name, w.all_eq(inputs, inp)))
        return out

    class _Gamma:
        f = None
        args = ()

    class StubPoint:
        def __init__(self, chemicals=(), thermo=None):
            self.chemicals = tuple(chemicals)
            self.IDs = tuple(c.ID for c in self.chemicals)
            n = self.n = len(self.chemicals)
            self.Psats = [(lambda T, i=i: rec(f'Psat{i}', [T], lambda: env.pos('Psat'))) for i in range(n)]
            self.pcf = lambda T, P, Psats: 1.0
            self.gamma = _Gamma()
            self.phi = None
            self.Tmin, self.Tmax, self.Pmin, self.Pmax = env.pos('Tmin'), env.pos('Tmax'), env.pos('Pmin'), env.pos('Pmax')

        def _solve(self, name, z, X, tag):
            out = rec(name, list(z) + [X], lambda: [env.pos(tag)] + list(env.simplex(tag + '.c', self.n)))
            return out[0], env.arr(out[1:])

    class StubBubblePoint(StubPoint):
        def solve_Py(self, z, T, liquid_conversion=None): return self._solve('solve_Py', z, T, 'P_bubble')
        def solve_Ty(self, z, P, liquid_conversion=None): return self._solve('solve_Ty', z, P, 'T_bubble')

    class StubDewPoint(StubPoint):
        def solve_Px(self, z, T, gas_conversion=None): return self._solve('solve_Px', z, T, 'P_dew')
        def solve_Tx(self, z, P, gas_conversion=None): return self._solve('solve_Tx', z, P, 'T_dew')

    class StubFlx:
        @staticmethod
        def aitken(f, x0, xtol=None, args=(), **kw):
            n = (len(x0) - 1) // 2
            inputs = list(x0[:n + 1]) + list(args)

            def make():
                return [env.pos(f'x{i}') for i in range(n)] + [env.unit('V')] + [env.pos(f'K{i}') for i in range(n)]
            out = rec('aitken', inputs, make)
            return env.arr(out[:n + 1] + [B._log(K) for K in out[n + 1:]])

        @staticmethod
        def IQ_interpolation(f, x0, x1, y0=None, y1=None, x=None, xtol=0., ytol=5e-8, args=(), **kw):
            rs = rec('IQ', [x0, x1, y0, y1, xtol, ytol], lambda: [env.pos('iq_x') for _ in range(env.k + 1)])
            for r in rs[:-1]:
                f(r, *args)
            return rs[-2] if env.k else rs[-1]

        def __getattr__(self, name):
            raise AssertionError(f'unexpected flexsolve call in vle.py: {name}')

    def refresh_K(self, V, y_bubble, x_dew, dz_bubble=None, dz_dew=None):
        n = len(self._index)
        self._V = V
        lo = 1e-16 if env.cfg.get('kguess', 'floor') == 'floor' else 0.
        self._K = env.arr(rec('refresh_K', [V], lambda: [env.leaf(f'Kguess{i}', lo=lo, lo_strict=True) for i in range(n)]))

    env.patch(vle_mod, 'BubblePoint', StubBubblePoint)
    env.patch(vle_mod, 'DewPoint', StubDewPoint)
    env.patch(vle_mod, 'flx', StubFlx())
    env.patch(vle_mod.VLE, '_refresh_K', refresh_K)


@group('C04/gap_scaling_history', configs=scaling_hist_configs,
       functions=[_VLE + f for f in ('__call__', '_setup', 'set_thermal_condition', '_solve_v', '_solve_v_fixed_point')]
       + ['thermosteam.equilibrium.vle:set_flows', 'thermosteam.equilibrium.vle:xy', 'thermosteam._multi_stream:MultiStream.vle'],
       assumptions=['A-deterministic: bubble/dew solvers, Psat, the fixed-point driver flx.aitken, the initial K guess and flx.IQ_interpolation '
                    'are deterministic functions of their intensive arguments (the equality of these arguments in the two runs is itself an obligation)'])
def scaling_history(w, cfg):
    """
    The scaling sentence on ONE stream: flash feed m, then the user replaces the contents by k*m (k > 0) and flashes again with
    the same specification (optionally the stream was flashed with other chemicals before, ending all vapour).  ensures: every product flow of
    the second run is k times that of the first, T and P agree, the second run makes the same solver calls with equal
    intensive arguments (what the VLE object remembers from the first run must not change the second).
    """
    W.reset_caches()
    env = Env(w, cfg)
    keys = cfg['pkg']
    tape = B.Tape()
    try:
        install_scaling_stubs(env, tape)
        th = B.havoc_thermo(env, keys)
        s = tmo.MultiStream(None, phases=('g', 'l'), thermo=th)
        s.T = w.real('T0', lo=0., lo_strict=True); s.P = w.real('P0', lo=0., lo_strict=True)
        if cfg['hist']:
            replant(w, s, 'h', cfg['hist'], keys)
            try:
                s.vle(T=w.real('h.spec.T', lo=0., lo_strict=True), P=w.real('h.spec.P', lo=0., lo_strict=True))
            except NOT_NORMAL:
                pass
            # bound of the history family (keeps the number of paths linear): the earlier flash ended all vapour
            if any(sv.dct for ph, sv in W.rows_of(s) if ph == 'l'):
                raise CheckAbort
            tape.items = []; tape.pos = 0
        kw = B.spec_kwargs(env, cfg['spec'])
        k = w.real('k', lo=0., lo_strict=True)
        m = replant(w, s, 'a', cfg['dist'], keys)
        IDs = s.chemicals.IDs
        outcome = []; flows = []
        for run in (0, 1):
            if run:
                clear_flows(s)
                rows = dict(W.rows_of(s))
                for (ph, ID), v in m.items():
                    if not is_zero(v):
                        rows[ph].dct[IDs.index(ID)] = k * v
                tape.replaying = True
            try:
                s.vle(**kw)
                outcome.append('returns')
            except NOT_NORMAL as e:
                outcome.append(type(e).__name__)
            flows.append(B.flows_now(s))
            if not run: TP1 = (s.T, s.P)
        w.ensure('both runs end the same way', outcome[0] == outcome[1])
        w.ensure('the scaled run makes no solver call that the first run did not make', not tape.mismatch,
                 mismatch=tape.mismatch, calls=[i[0] for i in tape.items], left_out=tape.skipped)
        seen = set()
        for name, cond in tape.conds:
            n = sum(1 for s_ in seen if s_.startswith(name + '#'))
            seen.add(f'{name}#{n}')
            w.ensure(f'intensive arguments of solver call {name}#{n} are unchanged by scaling', cond)
        if outcome[0] != 'returns':
            return
        fa, fb = flows
        for key in sorted(fa):
            w.ensure(f'product flow{list(key)} of the scaled feed = k * product flow of the feed', w.eq(fb[key], k * fa[key]))
        w.ensure('T and P of the two results agree', w.And(w.eq(TP1[0], s.T), w.eq(TP1[1], s.P)))
        k0 = [chem(q).ID for q in keys if q in cfg['dist'] and CHEMS[q][1] is None][0]
        w.canary('canary: scaling the feed leaves the product flows unchanged', w.And(w.eq(fb['g', k0], fa['g', k0]), w.eq(fb['l', k0], fa['l', k0])))
        w.note(calls=[i[0] for i in tape.items])
    finally:
        env.restore()


# =========================================================================== mode B: the real solvers, histories on ONE stream
#
# Bounded stand-in (never counted as proved).  Families and tolerances are those of contracts/C04_flash_specifications.py
# (ALC = C1-C4 alcohols, HC = hexane/heptane/octane/benzene/toluene, mole fractions >= 0.02, T 280-450 K, P 2e4-1e6 Pa,
# V in (0.02, 0.98), H/S between the all-liquid and all-vapour values; H/S 1e-6, V 2e-6, T 1e-7 K, P 1 Pa, fugacity 1e-5,
# Raoult 1e-6, scaling 1e-7).

ALC, HC = B.ALC, B.HC
HC4 = ('Hexane', 'Heptane', 'Octane', 'Toluene')       # (benzene: known finding F-C04-5 on P,S flashes)
WORG = ('Water', 'Ethanol', 'Propanol', 'Hexane', 'Toluene')
for _ID in WORG:
    B.b_chem(_ID)


def fresh(package, ideal, IDs, z, F=100., phase='l', extras=None):
    """A fresh two-phase stream on the FULL package (all chemicals of the family) that holds only `IDs` (+ extras)."""
    th = B.b_thermo(tuple(package), ideal)
    s = tmo.MultiStream(None, T=298.15, P=101325., phases=('g', 'l'), thermo=th)
    refill(s, IDs, z, F, phase, extras)
    return s


def refill(s, IDs, z, F=100., phase='l', extras=None):
    """The user replaces the contents of the stream."""
    s.empty()
    for ID, x in zip(IDs, z):
        s.imol[phase, ID] = F * x
    for ID, frac in (extras or {}).items():
        s.imol['g' if ID == 'N2' else 'l', ID] = F * frac


def ref_P(package, ideal, IDs, z, T, theta):
    """Pressure between the reference dew and bubble pressure (single chemical: Psat); None outside 2e4..1e6 Pa."""
    if len(IDs) == 1:
        P = B.b_chem(IDs[0]).Psat(T)
    elif ideal:
        Psats = np.array([B.b_chem(i).Psat(T) for i in IDs]); zz = np.asarray(z, float)
        Pb = float((zz * Psats).sum()); Pd = float(1. / (zz / Psats).sum())
        P = Pd + theta * (Pb - Pd)
    else:
        Pb, Pd = B.ref_bubble_dew_P(IDs, z, T)
        P = Pd + theta * (Pb - Pd)
    return P if 2e4 <= P <= 1e6 else None


def reference_state(package, ideal, IDs, z, T, theta, extras=None):
    """Independent reference (a FRESH stream): the T,P flash at P between dew and bubble; returns P, V, H, S or None."""
    P = ref_P(package, ideal, IDs, z, T, theta)
    if P is None:
        return None
    r = fresh(package, ideal, IDs, z, extras=extras)
    if len(IDs) == 1 and not extras:
        B.flash(r, V=theta, P=P)        # single chemical: the vapour fraction is free at (T, Psat)
    else:
        B.flash(r, T=T, P=P)
    return {'P': P, 'T': T, 'V': r.vapor_fraction, 'H': r.H, 'S': r.S}


def hs_scale(package, ideal, IDs, z, extras, fixed, value, var, X):
    """max(|spec|, all-vapour - all-liquid value) at the fixed P (T): the scale the H/S tolerance is relative to."""
    vals = []
    for V in (0., 1.):
        r = fresh(package, ideal, IDs, z, extras=extras)
        B.flash(r, **{'V': V, fixed: value})
        vals.append(getattr(r, var))
    return max(abs(X), abs(vals[1] - vals[0]))


def raoult_mismatch(s, IDs, F):
    """|flows - independent Raoult / Rachford-Rice flows at the stream's (T, P)| / F  (ideal package, volatile chemicals only)."""
    tot = s.imol['g', IDs] + s.imol['l', IDs]
    z = tot / tot.sum()
    V_ref, y_ref, x_ref = B.raoult_flash([B.b_chem(i).Psat(s.T) for i in IDs], z, s.P)
    Fv = tot.sum()
    return float(max(np.abs(s.imol['g', IDs] - Fv * V_ref * y_ref).max(), np.abs(s.imol['l', IDs] - Fv * (1. - V_ref) * x_ref).max()) / F), V_ref


def step_clauses(w, s, tag, package, ideal, IDs, z, spec, ref, kw, extras, F=100.):
    """The sentences of C04 for one call with specification pair `spec` whose values `kw` were taken from the reference state."""
    single = len(IDs) == 1 and not extras
    for c in spec:
        if c in 'TP':
            w.ensure(tag + f'{c} after the flash = specified {c}', getattr(s, c) == kw[c], got=getattr(s, c), spec=kw[c])
    tot = s.imol['g', IDs] + s.imol['l', IDs]
    w.ensure(tag + 'frame: total of every chemical unchanged', bool(np.allclose(tot, F * np.asarray(z), rtol=1e-12, atol=0.)))
    Vr = s.vapor_fraction
    if 'V' in spec:
        near = abs(s.T - ref['T']) <= B.T_RES if 'P' in spec else abs(s.P - ref['P']) <= B.P_RES
        w.ensure(tag + 'specified vapour fraction met (within V_tol, or T / P within the solver resolution of the point where it is)',
                 abs(Vr - kw['V']) <= B.V_TOL or near, V_result=Vr, V=kw['V'], T=s.T, P=s.P, T_ref=ref['T'], P_ref=ref['P'])
    for var in 'HS':
        if var in spec:
            fixed = spec[0]
            scale = hs_scale(package, ideal, IDs, z, extras, fixed, kw[fixed], var, kw[var])
            got = getattr(s, var)
            w.ensure(tag + f'specified {var} reproduced by the resulting stream', abs(got - kw[var]) <= B.H_REL_TOL * scale,
                     got=got, spec=kw[var], rel=(got - kw[var]) / scale, T=s.T, P=s.P, V=Vr)
    if spec == 'TP' and not single and not extras:
        w.ensure(tag + 'between dew and bubble pressure: two phases', 0. < Vr < 1., V=Vr, P=s.P)
    if single and 'V' in spec:
        w.ensure(tag + 'single chemical: the other variable is the saturation value',
                 abs(s.T - ref['T']) <= 1e-6 * ref['T'] and abs(s.P - ref['P']) <= 1e-6 * ref['P'], T=s.T, P=s.P, T_ref=ref['T'], Psat=ref['P'])
    if not single and spec in ('TP', 'PV', 'TV'):
        two = bool(s.imol['l', IDs].sum() > 0. and s.imol['g', IDs].sum() > 0.)
        if ideal:
            err, V_ref = raoult_mismatch(s, IDs, F)
            w.ensure(tag + 'ideal package: the split agrees with the independent Raoult / Rachford-Rice solution at the resulting T, P',
                     err <= (B.RAOULT_TOL if spec == 'TP' else 10 * B.RAOULT_TOL), err=err, V=Vr, V_ref=V_ref)
        elif two and 'Glucose' not in (extras or {}):
            mis = B.fugacity_mismatch(s, IDs)
            w.ensure(tag + 'liquid and vapour fugacities of every chemical agree', mis <= B.FUG_REL_TOL, mismatch=mis, V=Vr)


def spec_values(spec, ref):
    return {c: ref[c] for c in spec}


# a step: (chemicals present, composition, specification pair, T of the reference ('last' = where the stream is), theta, phase the
# new contents are put in, extras)
def b_history_configs(tier):
    A, H4, WO = 'ALC', 'HC4', 'WORG'
    M, E, Pr, Bu = ALC
    fam = [
        # another member pair with the SAME number of chemicals, re-flashed at the temperature the stream is at
        ('same count, same T', A, False, [((M, E), [.4, .6], 'PV', 340., .5, 'l', None), ((M, Pr), [.5, .5], 'TP', 'last', .4, 'l', None),
                                            ((E, Bu), [.3, .7], 'TV', 'last', .6, 'g', None), ((M, E), [.4, .6], 'TP', 'last', .5, 'l', None)]),
        # the number of chemicals changes; single chemical <-> mixture
        ('count changes', A, False, [((M, E, Pr), [.3, .3, .4], 'TP', 350., .3, 'l', None), ((E,), [1.], 'PV', 350., .4, 'g', None),
                                      ((E, Bu), [.5, .5], 'TV', 'last', .5, 'l', None), ((Pr,), [1.], 'PH', 'last', .3, 'l', None),
                                      ((M, E, Pr, Bu), [.25] * 4, 'PH', 360., .6, 'g', None)]),
        # the same chemicals, another composition / specification pair every time
        ('same chemicals', A, False, [((M, E), [.3, .7], 'TP', 345., .5, 'l', None), ((M, E), [.8, .2], 'TP', 'last', .5, 'g', None),
                                       ((M, E), [.8, .2], 'PS', 'last', .3, 'l', None), ((M, E), [.5, .5], 'TH', 'last', .7, 'l', None),
                                       ((M, E), [.5, .5], 'TS', 330., .2, 'g', None)]),
        ('hydrocarbons', H4, False, [(('Hexane', 'Octane'), [.5, .5], 'PH', 380., .4, 'l', None), (('Heptane', 'Toluene'), [.6, .4], 'TP', 'last', .5, 'l', None),
                                      (('Hexane', 'Heptane', 'Octane', 'Toluene'), [.25] * 4, 'PV', 400., .5, 'g', None),
                                      (('Hexane', 'Toluene'), [.02, .98], 'TS', 'last', .5, 'l', None)]),
        # ideal package, water with organics
        ('ideal', WO, True, [(('Water', 'Ethanol'), [.5, .5], 'PV', 350., .5, 'l', None), (('Water', 'Propanol'), [.4, .6], 'TP', 'last', .4, 'l', None),
                              (('Ethanol', 'Hexane', 'Toluene'), [.3, .3, .4], 'TV', 'last', .5, 'g', None), (('Water', 'Ethanol'), [.5, .5], 'TP', 'last', .6, 'l', None),
                              (('Water', 'Ethanol', 'Propanol', 'Hexane', 'Toluene'), [.2] * 5, 'PH', 340., .5, 'l', None)]),
        # a non-condensable gas / a non-volatile solute comes and goes
        ('extras come and go', A + '+N2+Glucose', False,
         [((M, E), [.5, .5], 'PH', 340., .5, 'l', {'N2': 0.01}), ((M, E), [.5, .5], 'TP', 'last', .5, 'l', None),
          ((E, Pr), [.5, .5], 'PS', 350., .4, 'l', {'Glucose': 0.01}), ((E, Pr), [.5, .5], 'TH', 'last', .5, 'g', {'N2': 0.005}),
          ((M, Bu), [.6, .4], 'PV', 355., .5, 'l', None)]),
    ]
    if tier == 'thorough':
        fam += [
            ('same count, same T (3)', A, False, [((M, E, Pr), [.3, .3, .4], 'PV', 345., .5, 'l', None), ((M, E, Bu), [.3, .3, .4], 'TP', 'last', .5, 'l', None),
                                                  ((E, Pr, Bu), [.3, .3, .4], 'TH', 'last', .5, 'l', None), ((M, Pr, Bu), [.3, .3, .4], 'TS', 'last', .5, 'g', None)]),
            ('ideal alcohols', A, True, [((M, E), [.4, .6], 'TV', 340., .5, 'l', None), ((M, Pr), [.5, .5], 'TP', 'last', .4, 'l', None),
                                          ((Pr, Bu), [.5, .5], 'PS', 'last', .5, 'l', None), ((M, E, Pr, Bu), [.25] * 4, 'TS', 'last', .5, 'l', None)]),
            ('hydrocarbons (2)', H4, False, [(('Hexane', 'Heptane'), [.5, .5], 'TV', 360., .4, 'l', None), (('Octane', 'Toluene'), [.6, .4], 'TP', 'last', .5, 'l', None),
                                              (('Hexane', 'Toluene'), [.5, .5], 'TH', 'last', .5, 'g', None), (('Heptane',), [1.], 'TS', 'last', .5, 'l', None)]),
        ]
    out = []
    for name, pk, ideal, steps in fam:
        out.append({'name': name, 'package': pk, 'ideal': ideal,
                    'steps': [{'IDs': list(i), 'z': z, 'spec': sp, 'T': T, 'theta': th, 'phase': ph, 'extras': ex or {}} for i, z, sp, T, th, ph, ex in steps]})
    return out


PACKAGES = {'ALC': ALC, 'HC4': HC4, 'WORG': WORG, 'ALC+N2+Glucose': ALC + ('N2', 'Glucose')}


@group('C04/gap_B_history', configs=b_history_configs, mode='B',
       functions=[_VLE + f for f in ('__call__', '_setup', 'set_thermal_condition', 'set_TV', 'set_PV', 'set_PH', 'set_PS', 'set_TH', 'set_TS',
                                     '_solve_v', '_solve_v_fixed_point', '_refresh_K', '_set_PV_chemical', '_set_PH_chemical', '_set_TS_chemical')]
       + ['thermosteam.equilibrium.bubble_point:BubblePoint.__new__', 'thermosteam.equilibrium.dew_point:DewPoint.__new__',
          'thermosteam._multi_stream:MultiStream.vle', 'thermosteam._stream:Stream.empty'],
       notes='real solvers; ONE stream on the full package of the family (C1-C4 alcohols; hexane/heptane/octane/toluene; ideal package: water, '
             'ethanol, propanol, hexane, toluene; alcohols + N2 + glucose); 4-5 calls per history, between the calls the contents are replaced '
             '(other members with the same or another number of chemicals, other composition, single chemical, 0.5-1 % N2 / 1 % glucose) and the '
             'specification pair changes (TP, PV, TV, PH, PS, TH, TS); the specification values of every call come from an independent reference '
             '(fresh stream, T,P flash at P_dew + theta (P_bubble - P_dew)), with T = the temperature the stream is at where noted; tolerances of C04/B_*')
def B_history(w, cfg):
    """Every call of the history satisfies the sentences of C04 with respect to the contents and specification of THAT call."""
    B.b_warm()
    package = PACKAGES[cfg['package']]; ideal = cfg['ideal']
    s = fresh(package, ideal, cfg['steps'][0]['IDs'], cfg['steps'][0]['z'])
    vle0 = s.vle
    for n, st in enumerate(cfg['steps']):
        IDs, z, spec, extras = st['IDs'], st['z'], st['spec'], st['extras']
        T = s.T if st['T'] == 'last' else st['T']
        tag = f"call {n} ({spec} on {'+'.join(IDs + list(extras))}): "
        try:
            ref = reference_state(package, ideal, IDs, z, T, st['theta'], extras)
        except NOT_NORMAL as e:
            w.note(**{f'no reference for call {n}': repr(e)}); continue
        if ref is None or (len(IDs) > 1 and not 0.02 < ref['V'] < 0.98):
            w.note(**{f'call {n} outside the family': str(ref)}); continue
        refill(s, IDs, z, phase=st['phase'], extras=extras)
        kw = spec_values(spec, ref)
        try:
            B.flash(s, **kw)
        except NOT_NORMAL as e:
            w.note(**{f'skipped call {n}': repr(e)}); continue
        step_clauses(w, s, tag, package, ideal, IDs, z, spec, ref, kw, extras)
    w.note(same_VLE_object_throughout=s.vle is vle0)
    w.canary('canary: T stays at 298.15 K', s.T == 298.15)


# --------------------------------------------------------------------------- B: ideal package, the other specification pairs

def b_ideal_specs_configs(tier):
    out = []
    sets = list(B.IDEAL_SETS) + [ALC, HC4]      # (benzene: known finding F-C04-5 on P,S flashes)
    if tier == 'quick':
        sets = [B.IDEAL_SETS[0], B.IDEAL_SETS[1], B.IDEAL_SETS[2], HC4]
    sets = [i for i in sets if 'Benzene' not in i]
    for IDs in sets:
        n = len(IDs)
        comps = [[1. / n] * n] + ([[0.02] * (n - 1) + [1. - 0.02 * (n - 1)], [1. - 0.02 * (n - 1)] + [0.02] * (n - 1)] if tier != 'quick' or n <= 2 else [])
        for ci, z in enumerate(comps):
            for T in (320., 400.) if tier == 'quick' else (300., 340., 380., 420.):
                for theta in (0.3, 0.7) if tier == 'quick' else B.THETAS:
                    out.append({'name': f"ideal {'+'.join(IDs)};z{ci};T={T:g};theta={theta:g}", 'IDs': list(IDs), 'z': z, 'T': T, 'theta': theta})
    return out


@group('C04/gap_B_ideal_specs', configs=b_ideal_specs_configs, mode='B',
       functions=[_VLE + f for f in ('__call__', 'set_TV', 'set_PH', 'set_PS', 'set_TH', 'set_TS', '_V_err_at_P', '_H_hat_err_at_T', '_S_hat_err_at_T',
                                     '_H_hat_err_at_P', '_S_hat_err_at_P', '_solve_v_fixed_point')],
       notes='real solvers, ideal property package (thermo.ideal()): water with organics and the two families; equimolar (two chemicals: also corner) '
             'compositions; reference = T,P flash of a fresh stream at P = P_dew + theta (P_bubble - P_dew) of Raoult\'s law, 2e4 <= P <= 1e6, '
             '0.02 < V < 0.98; then (T,V), (P,H), (P,S), (T,H), (T,S) are specified with the values of the reference: T / P as specified, H / S '
             'reproduced within 1e-6, and the split agrees with an independent Raoult / Rachford-Rice solution (scipy brentq) at the resulting T, P '
             'within 1e-5 of the feed (1e-6 for T,V: independent flash at the returned P has the specified vapour fraction within 2e-6)')
def B_ideal_specs(w, cfg):
    B.b_warm()
    IDs = cfg['IDs']; z = cfg['z']; T = cfg['T']
    ref = reference_state(IDs, True, IDs, z, T, cfg['theta'])
    if ref is None or not 0.02 < ref['V'] < 0.98:
        return
    for n, spec in enumerate(('TV', 'PH', 'PS', 'TH', 'TS')):
        s = fresh(IDs, True, IDs, z, phase='lg'[n % 2])
        kw = spec_values(spec, ref)
        try:
            B.flash(s, **kw)
        except NOT_NORMAL as e:
            w.note(**{f'skipped {spec}': repr(e)}); continue
        tag = f'{spec}: '
        step_clauses(w, s, tag, IDs, True, IDs, z, spec, ref, kw, None)
        err, V_ref = raoult_mismatch(s, IDs, 100.)
        w.ensure(tag + 'ideal package: the split agrees with the independent Raoult / Rachford-Rice solution at the resulting T, P',
                 err <= 10 * B.RAOULT_TOL, err=err, V=s.vapor_fraction, V_ref=V_ref, T=s.T, P=s.P)
        if spec == 'TV':
            w.ensure(tag + 'the independent flash at the returned P has the specified vapour fraction',
                     abs(V_ref - kw['V']) <= B.V_TOL or abs(s.P - ref['P']) <= B.P_RES, V_at_P=V_ref, V=kw['V'], P=s.P, P_ref=ref['P'])
    w.canary('canary: reference vapour fraction is 1/2', ref['V'] == 0.5)


# --------------------------------------------------------------------------- B: scaling, the other specification pairs and in place

def b_scaling_specs_configs(tier):
    out = []
    mixes = [(('Methanol', 'Ethanol'), {}), (('Hexane', 'Octane', 'Toluene'), {}), (('Ethanol',), {}), (('Methanol', 'Propanol'), {'N2': 0.01}),
             (('Heptane', 'Toluene'), {'Glucose': 0.01})]
    if tier == 'thorough':
        mixes += [(ALC, {}), (HC4, {}), (('Water',), {}), (('Methanol', 'Ethanol', 'Butanol'), {'N2': 0.005, 'Glucose': 0.01})]
    for IDs, extras in mixes:
        n = len(IDs)
        for T in (350.,) if tier == 'quick' else (320., 350., 400.):
            out.append({'name': f"{'+'.join(IDs)}+{'+'.join(extras) or 'none'};z0;T={T:g}", 'IDs': list(IDs), 'z': [1. / n] * n, 'T': T, 'extras': extras})
    return out


@group('C04/gap_B_scaling_specs', configs=b_scaling_specs_configs, mode='B',
       functions=[_VLE + f for f in ('__call__', '_setup', 'set_TV', 'set_PS', 'set_TH', 'set_TS', 'set_Tx', 'set_Py', '_lever_rule', 'set_thermal_condition', 'set_PV', 'set_PH')]
       + ['thermosteam.equilibrium.vle:set_flows', 'thermosteam._stream:Stream.scale'],
       notes='real solvers; feed of 100 mol/hr vs the same feed times k in {1e-3, 7.3, 1e3}: (a) fresh streams, specifications (T,V), (P,S), (T,H), (T,S) '
             '(H, S scaled by k) and, for two chemicals, (T,x), (P,y); (b) ONE stream: flash, Stream.scale(k), flash again with (T,P), (P,V), (P,H); every '
             'product flow / k within 1e-7 of the feed total of the unscaled result (entropy specified: 2e-6 = 2 V_tol, and alcohols only: the noisy liquid '
             'entropies of the hydrocarbons make the temperature search end at rounding-dependent points, cf. F-C04-5), T and P within 1e-7 relative')
def B_scaling_specs(w, cfg):
    B.b_warm()
    IDs = cfg['IDs']; z = cfg['z']; T = cfg['T']; extras = cfg.get('extras') or {}
    package = tuple(IDs) + tuple(extras)
    ref = reference_state(package, False, IDs, z, T, 0.5, extras)
    if ref is None:
        return
    if len(IDs) == 1 and extras:
        return
    F = 100.
    all_IDs = list(package)
    # entropy specified: alcohols only (the liquid entropies of the hydrocarbons supplied by the dependency are noisy at the 1e-3 J/mol/K
    # level, cf. F-C04-5, so the temperature search ends at a rounding-dependent point 1e-5 K / 1e-6 in vapour fraction apart)
    specs = ['TV', 'PS', 'TH', 'TS'] if not set(IDs) & set(HC) else ['TV', 'TH']
    if len(IDs) == 2 and not extras:
        specs += ['Tx', 'Py']

    def values(spec, k, base=None):
        kw = {}
        for c in spec:
            if c in 'TPV': kw[c] = ref[c]
            elif c in 'HS': kw[c] = ref[c] * k
            elif c == 'x': kw[c] = np.array(xy[0])
            else: kw[c] = np.array(xy[1])
        return kw

    # liquid / vapour compositions of the reference state (two chemicals)
    r = fresh(package, False, IDs, z, extras=extras)
    try:
        B.flash(r, T=T, P=ref['P'])
    except NOT_NORMAL:
        return
    if len(IDs) == 2:
        l = r.imol['l', IDs]; g = r.imol['g', IDs]
        xy = (l / l.sum(), g / g.sum()) if l.sum() > 0 and g.sum() > 0 else None
        if xy is None: specs = [s_ for s_ in specs if s_ not in ('Tx', 'Py')]

    def compare(tag, s, base, k, tol=B.SCALE_TOL):
        err = float(max(np.abs(s.imol['g', all_IDs] / k - base['g']).max(), np.abs(s.imol['l', all_IDs] / k - base['l']).max()) / F)
        w.ensure(tag + 'all product flows are k times those of the unscaled feed', err <= tol, err=err, V=s.vapor_fraction, V0=base['V'])
        w.ensure(tag + 'T and P agree with the unscaled result',
                 abs(s.T - base['T']) <= 1e-7 * base['T'] and abs(s.P - base['P']) <= 1e-7 * base['P'], T=s.T, T0=base['T'], P=s.P, P0=base['P'])

    def state(s):
        return {'g': s.imol['g', all_IDs].copy(), 'l': s.imol['l', all_IDs].copy(), 'V': s.vapor_fraction, 'T': s.T, 'P': s.P}

    for spec in specs:
        try:
            s0 = fresh(package, False, IDs, z, F=F, extras=extras)
            B.flash(s0, **values(spec, 1.))
        except NOT_NORMAL as e:
            w.note(**{f'skipped {spec}': repr(e)}); continue
        base = state(s0)
        for k in (1e-3, 7.3, 1e3):
            try:
                s = fresh(package, False, IDs, z, F=F * k, extras=extras)
                B.flash(s, **values(spec, k))
            except NOT_NORMAL as e:
                w.note(**{f'skipped {spec} k={k:g}': repr(e)}); continue
            # entropy specified: the temperature search stops at a rounding-dependent point within the solver's resolution (2 V_tol)
            compare(f'{spec} k={k:g}: ', s, base, k, tol=B.V_TOL if 'S' in spec else B.SCALE_TOL)
    # (b) one stream, scaled in place between two flashes
    for spec in ('TP', 'PV', 'PH'):
        for k in (7.3, 1e-3):
            try:
                s = fresh(package, False, IDs, z, F=F, extras=extras)
                B.flash(s, **values(spec, 1.))
                base = state(s)
                s.scale(k)
                B.flash(s, **values(spec, k))
            except NOT_NORMAL as e:
                w.note(**{f'skipped in place {spec} k={k:g}': repr(e)}); continue
            compare(f'{spec} in place k={k:g}: ', s, base, k)
    w.canary('canary: reference vapour fraction is 1/2', ref['V'] == 0.5)


# --------------------------------------------------------------------------- B: the other equilibrium solver of VLE._solve_v

def b_shgo_configs(tier):
    fam = [(('Methanol', 'Ethanol'), [.3, .7], 350., .4), (('Hexane', 'Octane', 'Toluene'), [1. / 3] * 3, 380., .7)]
    if tier == 'thorough':
        fam += [(ALC, [.25] * 4, 330., .3), (HC, [.2] * 5, 380., .7), (('Ethanol', 'Propanol'), [.02, .98], 360., .5),
                (('Methanol', 'Ethanol'), [.3, .7], 350., 'above'), (('Methanol', 'Ethanol'), [.3, .7], 350., 'below')]
    return [{'name': f"{'+'.join(IDs)};T={T:g};theta={th}", 'IDs': list(IDs), 'z': z, 'T': T, 'theta': th} for IDs, z, T, th in fam]


@group('C04/gap_B_method_shgo', configs=b_shgo_configs, mode='B',
       functions=[_VLE + '_solve_v', _VLE + 'set_thermal_condition', 'thermosteam.equilibrium.vle:solve_vle_vapor_mol_shgo',
                  'thermosteam.equilibrium.vle:vle_objective_function', 'thermosteam.equilibrium.vle:liquid_fugacity',
                  'thermosteam.equilibrium.vle:vapor_fugacity', 'thermosteam.equilibrium.vle:gibbs_free_energy'],
       notes='real solvers, configuration VLE.method = "shgo" (Gibbs-energy minimisation instead of the fixed-point iteration); near-ideal families, '
             'T, P specified at P = P_dew + theta (P_bubble - P_dew) (thorough: also 2 P_bubble, 0.5 P_dew); tolerances of C04/B_TP')
def B_method_shgo(w, cfg):
    """T and P specified, the other solver: T, P as specified; two phases with equal fugacities between dew and bubble pressure."""
    IDs = cfg['IDs']; z = cfg['z']; T = cfg['T']
    Pb, Pd = B.ref_bubble_dew_P(IDs, z, T)
    P = 2. * Pb if cfg['theta'] == 'above' else 0.5 * Pd if cfg['theta'] == 'below' else Pd + cfg['theta'] * (Pb - Pd)
    if not 2e4 <= P <= 1e6:
        return
    s = B.b_stream(IDs, z)
    s.vle.method = 'shgo'
    before = B.totals_of(s)
    try:
        B.flash(s, T=T, P=P)
    except NOT_NORMAL as e:
        w.note(skipped=repr(e)); return
    V = s.vapor_fraction
    w.ensure('T, P after the flash = specified T, P', s.T == T and s.P == P, T=s.T, P=s.P)
    w.ensure('frame: total of every chemical unchanged', bool(np.allclose(B.totals_of(s), before, rtol=1e-9, atol=0.)))
    if cfg['theta'] == 'above':
        w.ensure('at or above the bubble pressure: all liquid', V == 0., V=V)
    elif cfg['theta'] == 'below':
        w.ensure('at or below the dew pressure: all vapour', V == 1., V=V)
    else:
        two = 0. < V < 1.
        w.ensure('between dew and bubble pressure: two phases', two, V=V, P=P, P_dew=Pd, P_bubble=Pb)
        if two:
            mis = B.fugacity_mismatch(s, IDs)
            w.ensure('liquid and vapour fugacities of every chemical agree', mis <= B.FUG_REL_TOL, mismatch=mis, V=V)
    w.canary('canary: vapour fraction is 1/2', V == 0.5)


# =========================================================================== S: P and H (S) specified, other chemical orders

def corr_order_configs(var):
    def configs(tier):
        # locked chemicals FIRST in the package (the index list of the chemicals in equilibrium is not 0..n-1), concrete feed amounts
        # (entropy: ~3 x the time of the enthalpy variant; one small configuration in the quick tier)
        fam = [('NWE', {'N': '10', 'W': '03', 'E': '50'}, 0, 'interior'), ('XWE', {'X': '01', 'W': '30', 'E': '05'}, 0, 'interior')] \
            if var == 'H' or tier == 'thorough' else [('XW', {'X': '01', 'W': '30'}, 0, 'interior')]
        if tier == 'thorough':
            fam += [('NXWE', {'N': '10', 'X': '01', 'W': '03', 'E': '50'}, 0, 'interior'), ('NWE', {'N': '10', 'W': '03', 'E': '50'}, 1, 'interior')]
        return [{'name': f'{keys}/{B._dist_name(d, keys)}/k={k}/v={v}', 'pkg': keys, 'dist': d, 'k': k, 'v': v} for keys, d, k, v in fam]
    return configs


group('C04/gap_PH_correction_order', configs=corr_order_configs('H'), l0=True,
      functions=[_VLE + f for f in ('__call__', 'set_PH', '_H_hat_err_at_T', '_setup')] + ['thermosteam.mixture.mixture:Mixture.xH'],
      assumptions=B._A_CORR)(on_explored_path(B.corr_body('H')))
group('C04/gap_PS_correction_order', configs=corr_order_configs('S'), l0=True,
      functions=[_VLE + f for f in ('__call__', 'set_PS', '_S_hat_err_at_T', '_setup')] + ['thermosteam.mixture.mixture:Mixture.xS'],
      assumptions=B._A_CORR + ['A-linear-S: in the correction step the entropy model is linear in the flows'])(on_explored_path(B.corr_body('S')))
