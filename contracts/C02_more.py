# -*- coding: utf-8 -*-
"""
C02 — bounded stand-in on the REAL temperature solvers (mode B; planned in DESIGN 4/C02 as "A-root sampled on real models";
added after the seeded change C02_2 - a refactored Mixture.solve_T_at_HP that leaves state behind with an equation-of-state
mixture - was missed by the mode-S groups, which replace the solvers by their A-root contract).
"""
import thermosteam as tmo
from engine.api import group

_CH = None


def _chemicals():
    global _CH
    if _CH is None:
        _CH = tmo.Chemicals(['Water', 'Ethanol', 'Propane'], cache=True)
    return _CH


def configs(tier):
    out = []
    Ts = (300., 400., 450.) if tier == 'quick' else (260., 300., 350., 400., 450., 490.)
    Ps = (1e5, 2e5) if tier == 'quick' else (1e4, 1e5, 1e6, 1e7)
    comps = ((20., 10., 5.), (5., 30., 0.)) if tier == 'quick' else ((20., 10., 5.), (5., 30., 0.), (1., 0., 0.), (0., 0., 3.), (1e-3, 2e3, 1.))
    # 'ideal+excess': the ideal mixture with include_excess_energies=True (added after seeded change C02_10: a solver that iterates on
    # another entropy function than the one the stream reports)
    for pkg in ('ideal', 'PR', 'ideal+excess'):
        for phase in ('g', 'l'):
            if pkg == 'ideal+excess' and phase == 'l': continue      # liquid entropies of the real models are noisy (F-C02-K1)
            for T in Ts:
                for P in Ps:
                    for z in comps:
                        out.append({'name': f'{pkg};{phase};T={T:g};P={P:g};z={z}', 'pkg': pkg, 'phase': phase, 'T': T, 'P': P, 'z': list(z)})
    return out


def reachable(stream, name, target, lo=250., hi=500.):
    """The quantifier of C02 ("every reachable target ... between the stream's values at the ends of that temperature
    range"), decided independently of the solvers under contract: bisection of property(T) = target on [250, 500] K on a
    copy.  With an equation of state the liquid root disappears above some T and H(T) jumps to the vapour branch; a target
    inside the jump is not the enthalpy of any temperature and is outside the quantifier."""
    c = stream.copy()
    f = lambda T: (setattr(c, 'T', T), getattr(c, name))[1] - target
    try:
        flo, fhi = f(lo), f(hi)
    except Exception:
        return False
    if not (flo <= 0. <= fhi): return False
    for _ in range(60):
        mid = 0.5 * (lo + hi)
        try: fm = f(mid)
        except Exception: return False
        if fm <= 0.: lo = mid
        else: hi = mid
    return abs(f(lo)) <= 1e-3 + 1e-6 * abs(target) or abs(f(hi)) <= 1e-3 + 1e-6 * abs(target)


@group('C02/B_real_solvers', configs=configs, mode='B',
       functions=['thermosteam.mixture.mixture:Mixture.solve_T_at_HP', 'thermosteam.mixture.mixture:Mixture.solve_T_at_SP',
                  'thermosteam._stream:Stream.H (setter)', 'thermosteam._stream:Stream.S (setter)', 'thermosteam._stream:Stream.mix_from',
                  'thermosteam._stream:Stream.separate_out'],
       notes='real Aitken/secant solvers and real property models: {ideal, Peng-Robinson EOS, ideal with excess energies (gas only)} mixture x phase l/g x T grid x P grid x compositions of Water/Ethanol/Propane; '
             'read-back within 1e-6 relative (+1e-3 absolute), T unchanged within 1e-4 K when the current value is assigned; calls that raise and targets that no temperature in 250-500 K attains (bisection on a copy) are skipped')
def real_solvers(w, cfg):
    ch = _chemicals()
    mixture = (None if cfg['pkg'] == 'ideal' else tmo.PRMixture.from_chemicals(ch) if cfg['pkg'] == 'PR'
               else tmo.IdealMixture.from_chemicals(ch, include_excess_energies=True))
    tmo.settings.set_thermo(ch, mixture=mixture)
    flows = dict(zip(('Water', 'Ethanol', 'Propane'), cfg['z']))
    close = lambda a, b: abs(a - b) <= 1e-3 + 1e-6 * max(abs(a), abs(b))
    try:
        s = tmo.Stream(None, T=cfg['T'], P=cfg['P'], phase=cfg['phase'], **flows)
        H0, S0, T0 = s.H, s.S, s.T
    except Exception:
        return                              # property models not defined here: outside the quantifier
    for name, getter, delta in (('H', lambda: s.H, 0.02 * abs(H0) + 1e3), ('S', lambda: s.S, 0.01 * abs(S0) + 1.)):
        try:
            setattr(s, name, getter())       # assigning the current value
            w.ensure(f'assigning the current {name} leaves T unchanged', abs(s.T - T0) <= 1e-4, T_before=T0, T_after=s.T)
            target = getter() + delta
            if not reachable(s, name, target): s.T = T0; continue
            setattr(s, name, target)
        except Exception:
            s.T = T0
            continue
        w.ensure(f'reading {name} back returns the assigned value', close(getter(), target), assigned=target, read=getter(), T=s.T)
        s.T = T0
    # mixing with energy balance and separating out, same package
    try:
        a = tmo.Stream(None, T=cfg['T'], P=cfg['P'], phase=cfg['phase'], **flows)
        Tb = cfg['T'] + 25. if cfg['T'] + 25. <= 500. else cfg['T'] - 25.     # both inlets inside 250-500 K
        b = tmo.Stream(None, T=Tb, P=cfg['P'] * 1.5, phase=cfg['phase'], Water=3., Ethanol=4.)
        Q = 1.5e4
        H_in = a.H + b.H + Q
        m = tmo.Stream(None, phase=cfg['phase'])
        m.mix_from([a, b], Q=Q)
        Hm = m.H
    except Exception:
        return
    if reachable(m, 'H', H_in):
        w.ensure('mix_from: H = sum of inlet H + Q', close(Hm, H_in), got=Hm, expected=H_in)
    w.ensure('mix_from: P = lowest inlet pressure', m.P == min(a.P, b.P))
    try:
        H_diff = m.H - b.H
        m.separate_out(b, energy_balance=True)
        Hs = m.H
    except Exception:
        return
    if reachable(m, 'H', H_diff):
        w.ensure('separate_out: H = H - H(other)', close(Hs, H_diff), got=Hs, expected=H_diff)
