# -*- coding: utf-8 -*-
"""
C15 — liquid-liquid and solid-liquid splits meet their equilibrium and labelling rules.

Mode S (symbolic, DESIGN 4/C15 "S" bullets): the REAL bookkeeping of `LLE.__call__`
(normalisation, the use_cache decision, the cached Rachford-Rice branch, the top-chemical
swap, the stored K/phi/T/z, multiplying back by the total flow) and of `SLE.__call__` /
`SLE._setup` / `SLE._update_solubility` / `SLE._solve_x` / `SLE._x_iter` is executed on real
MultiStreams whose flows, temperatures and solver outputs are symbolic leaves.  Only the numerical
dependencies are contracts:

  A-opt     LLE.solve_lle_liquid_mol returns 0 <= mol_L <= mol and is a deterministic FUNCTION of
            (chemicals, normalised composition, T): equal arguments (decided by the solver under the path
            condition) give the same leaves, other arguments fresh ones.
  A-phase-fraction (only in the cache-DECISION group) phase_fraction returns a value in [0, 1].
  A-models / A-iter (SLE)  solubility_eutectic, Cn.l/Cn.s, activity coefficients return arbitrary values,
            flx.aitken only evaluates its callback k times at arbitrary arguments.

Every `ensures` is a sentence of the property:
  * reuse of the remembered coefficients happens only for the same chemicals, temperature and composition
    (within the solver's tolerances), and gives the same split as forbidding it;
  * flows are proportional to the feed when the feed is scaled;
  * a named top chemical has a mass fraction in 'L' at least as high as in 'l';
  * SLE moves only the named solute, never dissolves more than the solubility it was given / computed
    allows nor more than is present, and puts a pure solute entirely in the liquid above Tm, in the solid below;
  * LLECache / SLECache keep one solver per stream until reset_cache.
plus frames (phases the calculation does not own, P, chemicals other than the solute are untouched).

Mode B (bounded, REAL solvers; never counted as proved): equal activities x*gamma in both phases at the
returned split, proportionality, the top-chemical rule and history independence on the partially miscible
families of the quantifier.
"""
import os
import sys
import itertools

os.environ.setdefault('VERIF_PROVE_FRESH_MS', '5000')
os.environ.setdefault('VERIF_BRANCH_NLSAT_MS', '2000')

import numpy as np
import thermosteam as tmo
from thermosteam import equilibrium as eq
from thermosteam.exceptions import NoEquilibrium, InfeasibleRegion
from engine.api import group, CheckAbort, _close
from engine.sx import tmo_world as W

lle_mod = sys.modules['thermosteam.equilibrium.lle']
sle_mod = sys.modules['thermosteam.equilibrium.sle']

# --------------------------------------------------------------------------- packages (S part)

WO = ('Water', 'Octanol')
WOE = ('Water', 'Octanol', 'Ethanol')
EOW = ('Ethanol', 'Octanol', 'Water')          # other order of the same chemicals
WT = ('Water', 'Tetradecanol')                   # SLE: Tetradecanol has Tm = 312.65 K and a heat of fusion
WMT = ('Water', 'Methanol', 'Tetradecanol')
PKGS = {'WO': WO, 'WOE': WOE, 'EOW': EOW, 'WT': WT, 'WMT': WMT}
W.preload(list(PKGS.values()))

_MISSING = object()


class Env:
    """Per-path registry of patches (undone in `finally`) and source of numbered havoc leaves."""

    def __init__(self, w, cfg):
        self.w = w
        self.cfg = cfg
        self.n = 0
        self.saved = []
        self.calls = {}
        self.k = cfg.get('k', 1)

    def leaf(self, tag, **kw):
        self.n += 1
        return self.w.real(f'hv{self.n}.{tag}', **kw)

    def pos(self, tag):
        return self.leaf(tag, lo=0., lo_strict=True)

    def arr(self, xs):
        return np.array(list(xs), dtype=object if self.w.symbolic else float)

    def count(self, what):
        self.calls[what] = self.calls.get(what, 0) + 1

    def patch(self, obj, name, value):
        self.saved.append((obj, name, obj.__dict__.get(name, _MISSING) if hasattr(obj, '__dict__') else getattr(obj, name, _MISSING)))
        setattr(obj, name, value)

    def restore(self):
        for obj, name, old in reversed(self.saved):
            if old is _MISSING:
                try:
                    delattr(obj, name)
                except AttributeError:
                    pass
            else:
                setattr(obj, name, old)
        self.saved = []


def same(w, a, b):
    """Are two real values equal?  Symbolically: decided by the solver under the path condition (forks if both are possible)."""
    if w.symbolic:
        return bool(W._as_symbool(w, w.eq(a, b)))
    return _close(a, b)


def flows_now(s):
    """{(phase, ID): value} for every phase and chemical, read from the raw sparse dicts."""
    IDs = s.chemicals.IDs
    out = {}
    for ph, sv in W.rows_of(s):
        for i, ID in enumerate(IDs):
            out[ph, ID] = sv.dct.get(i, 0.)
    return out


def rep_ok(w, s):
    if w.symbolic:
        return W.rep_ok(w, s)
    return all(v != 0 and 0 <= i < sv.size for ph, sv in W.rows_of(s) for i, v in sv.dct.items())


def plant(w, s, name, dist):
    """
    Plant flows: dist = {ID: string with one character per phase of s.phases-as-given}, '0' no entry,
    '+' stored leaf > 0, '?' leaf >= 0 whose presence is forked.  Existing entries are removed first.
    """
    for ph, sv in W.rows_of(s):
        sv.dct.clear()
    phases = [ph for ph, _ in W.rows_of(s)]
    present = {'default': 'zero'}
    for ID, pat in dist.items():
        for ph, c in pat.items():
            present[ph, ID] = {'0': 'zero', '+': 'pos', '?': 'maybe'}[c]
    return W.plant_flows(w, s, name, present=present)


def totals(flows, IDs, phases):
    return {ID: w_total([flows.get((ph, ID), 0.) for ph in phases]) for ID in IDs}


def w_total(xs):
    t = 0.
    for x in xs:
        t = t + x
    return t


# --------------------------------------------------------------------------- A-opt: the LLE solver as a deterministic function

class SolverStub:
    """
    Contract of LLE.solve_lle_liquid_mol (A-opt): the result lies in the box 0 <= mol_L <= mol (the bounds handed to
    shgo / differential_evolution; x*(1-phi) <= z for phi in [0, 1] in the pseudo-equilibrium method) and depends only
    on (chemicals, normalised composition, T).  mode 'interior': 0 < mol_L < mol (two non-empty phases containing every
    chemical), 'box': the closed box, 'havoc': the closed box, fresh leaves on every call (no determinism needed).
    """

    def __init__(self, env, mode='box'):
        self.env = env
        self.mode = mode
        self.memo = []
        self.calls = 0
        self.args = []
        self.preset = None

    def __call__(self, lle, mol, T, lle_chemicals, single_loop):
        w = self.env.w
        self.calls += 1
        IDs = tuple(c.ID for c in lle_chemicals)
        self.args.append((IDs, list(mol), T))
        if self.mode == 'preset' and not self.memo:
            # the caller of install_solver chose the leaves so that `preset` lies in the box of this very problem
            self.memo.append((IDs, list(mol), T, list(self.preset)))
            return self.env.arr(self.preset)
        if self.mode != 'havoc':
            for IDs0, z0, T0, out in self.memo:
                if IDs0 == IDs and same(w, T0, T) and all(same(w, a, b) for a, b in zip(z0, mol)):
                    return self.env.arr(out)
        n = len(self.memo)
        out = []
        interior = self.mode == 'interior'
        for i, ID in enumerate(IDs):
            v = w.real(f'sol{n}.molL.{ID}', lo=0., lo_strict=interior)
            w.assume(w.lt(v, mol[i]) if interior else w.le(v, mol[i]))
            if not w.symbolic:
                v = min(max(v, 0.), float(mol[i]))
            out.append(v)
        self.memo.append((IDs, list(mol), T, out))
        return self.env.arr(out)


def install_solver(env, mode):
    stub = SolverStub(env, mode)

    def solve_lle_liquid_mol(self, mol, T, lle_chemicals, single_loop):
        return stub(self, mol, T, lle_chemicals, single_loop)

    env.patch(lle_mod.LLE, 'solve_lle_liquid_mol', solve_lle_liquid_mol)
    return stub


def install_phase_fraction_havoc(env):
    """A-phase-fraction: a value in [0, 1] (as_valid_fraction)."""
    def phase_fraction(zs, Ks, guess=None, za=0., zb=0.):
        env.count('phase_fraction')
        return env.leaf('phi', lo=0., hi=1.)
    env.patch(lle_mod, 'phase_fraction', phase_fraction)


def lle_stream(w, name, pkg, phases, dist):
    th = W.thermo(PKGS[pkg])
    s = tmo.MultiStream(None, phases=tuple(phases), thermo=th)
    leaves = plant(w, s, name, dist)
    return s, leaves


def dist_of(pkg, phases, pattern):
    """pattern: {ID: 'chars per phase in the order of `phases`'} -> {ID: {phase: char}}"""
    return {ID: dict(zip(phases, pat)) for ID, pat in pattern.items()}


def MW_of(s):
    return dict(zip(s.chemicals.IDs, [float(i) for i in s.chemicals.MW]))


def ensure_lle_material(w, s, before, now, tag, owned=('l', 'L')):
    """Conservation, sign and frame (C03's sentences, kept here as the frame of every C15 clause)."""
    IDs = s.chemicals.IDs
    phases = [ph for ph, _ in W.rows_of(s)]
    t0 = totals(before, IDs, phases)
    t1 = totals(now, IDs, phases)
    for ID in IDs:
        w.ensure(f'{tag}total[{ID}] over l+L unchanged', w.eq(t1[ID], t0[ID]))
        for ph in phases:
            if ph in owned:
                w.ensure(f'{tag}flow[{ph},{ID}] >= 0', w.ge(now[ph, ID], 0.))
            else:
                w.ensure(f'{tag}frame: flow[{ph},{ID}] untouched', w.eq(now[ph, ID], before.get((ph, ID), 0.)))
    w.ensure(f'{tag}rep_ok (no stored zero)', rep_ok(w, s))


def top_rule(w, s, now, top):
    """Both liquids non-empty  =>  mass fraction of `top` in 'L' >= mass fraction in 'l' (cross-multiplied, masses > 0)."""
    IDs = s.chemicals.IDs
    return mass_fraction_rule(w, [now['L', ID] for ID in IDs], [now['l', ID] for ID in IDs], IDs.index(top), [MW_of(s)[ID] for ID in IDs])


def decide(w, cond):
    """Case split of the contract on a condition (symbolically: one branch decision, both outcomes explored if feasible)."""
    if w.symbolic:
        return bool(W._as_symbool(w, cond))
    return bool(cond)


def mass_fraction_rule(w, aL, al, k, MWs):
    """Both phases have mass  =>  m_L[k]/M_L >= m_l[k]/M_l  (case split on 'both phases have mass', then the quotients exist)."""
    mL = [a * m for a, m in zip(aL, MWs)]
    ml = [a * m for a, m in zip(al, MWs)]
    ML = w_total(mL)
    Ml = w_total(ml)
    if decide(w, w.And(w.gt(ML, 0.), w.gt(Ml, 0.))):
        return w.ge(mL[k] / ML, ml[k] / Ml)
    return w.And()


def remembered_state(w, lle, L, l, sIDs, z, T):
    """
    Exit state of LLE.__call__ (entry state of the reuse branch, C15/lle_reuse_step): when both liquids are non-empty the
    remembered K_i is x_L,i / x_l,i (for mole fractions outside the clamp), phi the fraction of the feed labelled 'L', and
    T, z, chemicals are those of this call.  L, l: amounts per unit of feed under their final labels.
    """
    cs = [w.eq(lle._T, T), w.And([c.ID for c in lle._lle_chemicals] == list(sIDs))]
    cs += [w.eq(a, b) for a, b in zip(lle._z_mol, z)]
    FL = w_total(L)
    Fl = w_total(l)
    if decide(w, w.And(w.gt(FL, 0.), w.gt(Fl, 0.))):
        cs.append(w.eq(lle._phi * (FL + Fl), FL))
        for i in range(len(sIDs)):
            x_l = l[i] / Fl
            x_L = L[i] / FL
            if decide(w, w.ge(x_l, 1e-16)):
                cs.append(w.eq(lle._K[i] * x_l, x_L))
    return w.And(*cs)


def top_rule_per_unit_feed(w, s, now, top, sIDs, z, molL, F):
    """
    The same sentence written on the amounts per unit of feed (mass fractions do not change when both phases are
    multiplied by the total flow F > 0): the outcome is the solver's split or its mirror image, and in either case
    the phase that ended up as 'L' has the larger mass fraction of `top`.
    """
    MWs = [MW_of(s)[ID] for ID in sIDs]
    k = sIDs.index(top)
    a = list(molL)
    b = [z[i] - molL[i] for i in range(len(sIDs))]
    straight = w.And(*[w.And(w.eq(now['L', ID], a[i] * F), w.eq(now['l', ID], b[i] * F)) for i, ID in enumerate(sIDs)])
    mirror = w.And(*[w.And(w.eq(now['l', ID], a[i] * F), w.eq(now['L', ID], b[i] * F)) for i, ID in enumerate(sIDs)])
    return w.Or(w.And(straight, mass_fraction_rule(w, a, b, k, MWs)), w.And(mirror, mass_fraction_rule(w, b, a, k, MWs)))


# --------------------------------------------------------------------------- C15/lle_call: one call (labelling, split = the solver's, frame)

def lle_call_configs(tier):
    fam = [
        # pkg, phases, pattern, top, solver mode
        ('WO', 'lL', {'Water': '+0', 'Octanol': '0+'}, None, 'box'),
        ('WO', 'lL', {'Water': '+0', 'Octanol': '0+'}, 'Octanol', 'box'),
        ('WO', 'lL', {'Water': '++', 'Octanol': '+0'}, 'Water', 'box'),
        ('WO', 'glL', {'Water': '++0', 'Octanol': '?0+'}, 'Octanol', 'interior'),
        ('WOE', 'lL', {'Water': '+0', 'Octanol': '0+', 'Ethanol': '+0'}, 'Octanol', 'interior'),
        ('WOE', 'lL', {'Water': '+0', 'Octanol': '0+', 'Ethanol': '+0'}, 'Ethanol', 'interior'),
        ('EOW', 'lL', {'Water': '+0', 'Octanol': '0+', 'Ethanol': '0+'}, 'Water', 'interior'),
        ('WOE', 'lL', {'Water': '+0', 'Octanol': '0+'}, 'Ethanol', 'box'),       # named top chemical absent: no rule, no crash
        ('WOE', 'lL', {'Water': '+0'}, 'Water', 'box'),                           # fewer than two chemicals: nothing to split
    ]
    if tier == 'thorough':
        fam += [
            ('WO', 'lL', {'Water': '??', 'Octanol': '??'}, 'Octanol', 'box'),
            ('WOE', 'lL', {'Water': '+0', 'Octanol': '0+', 'Ethanol': '+0'}, None, 'box'),
            ('WOE', 'lL', {'Water': '+0', 'Octanol': '0+', 'Ethanol': '+0'}, 'Octanol', 'box'),
            ('WOE', 'lL', {'Water': '+0', 'Octanol': '0+', 'Ethanol': '+0'}, 'Water', 'box'),
            ('EOW', 'lLs', {'Water': '+00', 'Octanol': '0+?', 'Ethanol': '?+0'}, 'Ethanol', 'interior'),
        ]
    out = []
    for pkg, phases, pat, top, mode in fam:
        nm = f"{pkg}/{phases}/" + ','.join(f'{k[0]}{v}' for k, v in pat.items()) + f"/top={top}/solver={mode}"
        # the two-chemical configurations state the top-chemical rule directly on the outlet flows (products, no quotients),
        # the larger ones on the amounts per unit of feed (see top_rule_per_unit_feed)
        out.append({'name': nm, 'pkg': pkg, 'phases': phases, 'pattern': pat, 'top': top, 'solver': mode, 'per_unit': pkg != 'WO'})
    return out


LLE_FUNCS = ['thermosteam.equilibrium.lle:LLE.__call__', 'thermosteam.equilibrium.lle:LLE.get_liquid_mol_data']
A_OPT = 'A-opt: LLE.solve_lle_liquid_mol returns 0 <= mol_L <= mol and is a function of (chemicals, normalised composition, T)'


@group('C15/lle_call', configs=lle_call_configs, functions=LLE_FUNCS, assumptions=[A_OPT])
def lle_call(w, cfg):
    """One call on a fresh solver: the split is the solver's (or its mirror image), labelled by the top-chemical rule."""
    W.reset_caches()
    env = Env(w, cfg)
    try:
        stub = install_solver(env, cfg['solver'])
        phases = cfg['phases']
        s, leaves = lle_stream(w, 'f', cfg['pkg'], phases, dist_of(cfg['pkg'], phases, cfg['pattern']))
        before = flows_now(s)
        T = w.real('T', lo=285., hi=355.)
        P0 = s.P
        top = cfg['top']
        s.lle(T, top_chemical=top)
        now = flows_now(s)
        ensure_lle_material(w, s, before, now, '')
        w.ensure('T is the requested temperature', w.eq(s.T, T))
        w.ensure('frame: P unchanged when not given', w.eq(s.P, P0))
        IDs = s.chemicals.IDs
        if stub.calls:
            # the split handed out is the solver's split (scaled back by the total flow) or its mirror image
            sIDs, z, _ = stub.args[0]
            molL = stub.memo[0][3]
            F = w_total([before['l', ID] + before['L', ID] for ID in sIDs])
            straight = w.And(*[w.And(w.eq(now['L', ID], molL[i] * F), w.eq(now['l', ID], (z[i] - molL[i]) * F)) for i, ID in enumerate(sIDs)])
            mirror = w.And(*[w.And(w.eq(now['l', ID], molL[i] * F), w.eq(now['L', ID], (z[i] - molL[i]) * F)) for i, ID in enumerate(sIDs)])
            w.ensure('split = solver result x total flow (or its mirror image)', w.Or(straight, mirror))
            if top is None:
                w.ensure('no top chemical: solver labelling kept', straight)
            for i, ID in enumerate(sIDs):
                w.ensure(f'solver saw the normalised feed z[{ID}]', w.eq(z[i] * F, before['l', ID] + before['L', ID]))
            a = list(molL)
            b = [z[i] - molL[i] for i in range(len(sIDs))]
            lle = s.lle
            w.ensure('remembered state describes the returned split (K = x_L/x_l, phi = L fraction, T, z, chemicals)',
                     w.Or(w.And(straight, remembered_state(w, lle, a, b, sIDs, z, T)), w.And(mirror, remembered_state(w, lle, b, a, sIDs, z, T))))
        if top is not None and top in IDs and stub.calls:
            if top in sIDs and cfg.get('per_unit', True):
                w.ensure(f'top chemical {top}: mass fraction in L >= in l', top_rule_per_unit_feed(w, s, now, top, list(sIDs), z, molL, F))
            else:
                w.ensure(f'top chemical {top}: mass fraction in L >= in l', top_rule(w, s, now, top))
            other = next(i for i in IDs if i != top)
            w.canary(f'canary: {other} also has its larger mass fraction in L', top_rule(w, s, now, other))
        else:
            w.canary('canary: L stays empty', w.eq(w_total([now['L', ID] for ID in IDs]), 0.))
        w.note(solver_calls=stub.calls, flows=now)
    finally:
        env.restore()


# --------------------------------------------------------------------------- C15/lle_scaling: flows proportional to the feed

def lle_scaling_configs(tier):
    fam = [
        ('WO', {'Water': '+0', 'Octanol': '0+'}, None, 'box'),
        ('WO', {'Water': '+0', 'Octanol': '0+'}, 'Octanol', 'box'),
        ('WO', {'Water': '++', 'Octanol': '0+'}, 'Water', 'interior'),
        ('WOE', {'Water': '+0', 'Octanol': '0+', 'Ethanol': '+0'}, 'Octanol', 'interior'),
    ]
    if tier == 'thorough':
        fam += [
            ('WO', {'Water': '+?', 'Octanol': '?+'}, 'Octanol', 'box'),
            ('WOE', {'Water': '+0', 'Octanol': '0+', 'Ethanol': '+0'}, None, 'box'),
            ('EOW', {'Water': '+0', 'Octanol': '0+', 'Ethanol': '0+'}, 'Water', 'box'),
        ]
    return [{'name': f"{pkg}/" + ','.join(f'{k[0]}{v}' for k, v in pat.items()) + f"/top={top}/solver={mode}",
             'pkg': pkg, 'pattern': pat, 'top': top, 'solver': mode} for pkg, pat, top, mode in fam]


@group('C15/lle_scaling', configs=lle_scaling_configs, functions=LLE_FUNCS, assumptions=[A_OPT])
def lle_scaling(w, cfg):
    """Relational: the same calculation on `feed` and on `k * feed` (two streams, one solver contract): every outlet flow is k times."""
    W.reset_caches()
    env = Env(w, cfg)
    try:
        stub = install_solver(env, cfg['solver'])
        phases = 'lL'
        a, la = lle_stream(w, 'f', cfg['pkg'], phases, dist_of(cfg['pkg'], phases, cfg['pattern']))
        k = w.real('k', lo=1e-3, hi=1e3)
        b = tmo.MultiStream(None, phases=tuple(phases), thermo=a.thermo)
        IDs = a.chemicals.IDs
        rows_b = dict(W.rows_of(b))
        for (ph, ID), v in la.items():
            if isinstance(v, float) and v == 0.:
                continue
            if decide(w, w.ne(v, 0.)):
                rows_b[ph].dct[IDs.index(ID)] = k * v
        T = w.real('T', lo=285., hi=355.)
        top = cfg['top']
        a.lle(T, top_chemical=top)
        now_a = flows_now(a)
        b.lle(T, top_chemical=top)
        now_b = flows_now(b)
        for key in sorted(now_a):
            w.ensure(f'flow{list(key)} of k*feed = k * flow of feed', w.eq(now_b[key], k * now_a[key]))
        after = flows_now(a)
        w.ensure('frame: the other stream is untouched', w.And(*[w.eq(after[key], now_a[key]) for key in sorted(now_a)]))
        w.ensure('rep_ok', w.And(rep_ok(w, a), rep_ok(w, b)))
        key = ('L', IDs[0])
        w.canary('canary: k*feed gives the flows of feed', w.eq(now_b[key], now_a[key] + 1))
        w.note(solver_calls=stub.calls, distinct_problems=len(stub.memo))
    finally:
        env.restore()


# --------------------------------------------------------------------------- C15/lle_cache_decision: when may the remembered K be reused

class _Stop(Exception):
    """Ends the second call right after the reuse decision has been observed (the rest of the call is covered by the other groups)."""


def lle_cache_decision_configs(tier):
    fam = [
        # pkg, chemicals present at the first call, at the second call, top
        ('WO', ['Water', 'Octanol'], ['Water', 'Octanol'], None),
        ('WOE', ['Water', 'Octanol'], ['Water', 'Octanol'], 'Octanol'),
        ('WOE', ['Water', 'Octanol'], ['Water', 'Ethanol'], None),              # same number of chemicals, another pair
        ('WOE', ['Water', 'Octanol'], ['Water', 'Octanol', 'Ethanol'], None),   # one chemical more
        ('WOE', ['Water', 'Octanol', 'Ethanol'], ['Water', 'Octanol', 'Ethanol'], None),
    ]
    if tier == 'thorough':
        fam += [
            ('EOW', ['Water', 'Octanol', 'Ethanol'], ['Water', 'Octanol', 'Ethanol'], 'Water'),
            ('EOW', ['Water', 'Octanol', 'Ethanol'], ['Octanol', 'Ethanol'], None),
            ('WOE', ['Octanol', 'Ethanol'], ['Water', 'Octanol'], 'Octanol'),
        ]
    return [{'name': f"{pkg}/first={'+'.join(i[0] for i in c1)}/second={'+'.join(i[0] for i in c2)}/top={top}",
             'pkg': pkg, 'first': c1, 'second': c2, 'top': top} for pkg, c1, c2, top in fam]


@group('C15/lle_cache_decision', configs=lle_cache_decision_configs, functions=['thermosteam.equilibrium.lle:LLE.__call__'],
       assumptions=['A-opt (box only): LLE.solve_lle_liquid_mol returns 0 <= mol_L <= mol',
                    'A-phase-fraction: binary_phase_fraction.phase_fraction returns a value in [0, 1]'])
def lle_cache_decision(w, cfg):
    """
    A call never returns the equilibrium of an earlier temperature or composition: the remembered coefficients are
    reused only if the chemicals are the same and temperature and every mole fraction agree with the remembered
    ones within the solver's own tolerances (both directions).
    """
    W.reset_caches()
    env = Env(w, cfg)
    try:
        stub = install_solver(env, 'interior')      # what the first call returned is irrelevant for the decision under check
        seen = {'second': False, 'reused': None}

        def phase_fraction(zs, Ks, guess=None, za=0., zb=0.):
            if seen['second']:
                seen['reused'] = True
                raise _Stop()
            return env.leaf('phi', lo=0., hi=1.)

        real_stub = lle_mod.LLE.solve_lle_liquid_mol

        def solve(self, mol, T, lle_chemicals, single_loop):
            if seen['second']:
                seen['reused'] = False
                raise _Stop()
            return real_stub(self, mol, T, lle_chemicals, single_loop)

        env.patch(lle_mod, 'phase_fraction', phase_fraction)
        env.patch(lle_mod.LLE, 'solve_lle_liquid_mol', solve)
        pkg = cfg['pkg']
        top = cfg['top']
        s, l1 = lle_stream(w, 'f', pkg, 'lL', {ID: {'l': '+', 'L': '0'} for ID in cfg['first']})
        lle = s.lle
        T0 = w.real('T0', lo=285., hi=355.)
        lle(T0, top_chemical=top)
        F0 = w_total([l1['l', ID] for ID in cfg['first']])
        z0 = {ID: l1['l', ID] / F0 for ID in cfg['first']}
        l2 = plant(w, s, 'g', {ID: {'l': '+', 'L': '+'} for ID in cfg['second']})
        F1 = w_total([l2['l', ID] + l2['L', ID] for ID in cfg['second']])
        z1 = {ID: (l2['l', ID] + l2['L', ID]) / F1 for ID in cfg['second']}
        T1 = w.real('T1', lo=285., hi=355.)
        seen['second'] = True
        try:
            lle(T1, top_chemical=top, use_cache=True)
        except _Stop:
            pass
        reused = seen['reused']
        if reused is None:
            raise AssertionError('the second call neither solved nor reused (contract harness out of date)')
        tolT = lle.temperature_cache_tolerance
        tolz = lle.composition_cache_tolerance
        if reused:
            same_chems = sorted(cfg['first']) == sorted(cfg['second'])
            w.ensure('reuse only for the same chemicals', w.And(same_chems))
            w.ensure('reuse only at the remembered temperature (|T - T_last| < tolerance)',
                     w.And(w.lt(T1 - T0, tolT), w.lt(T0 - T1, tolT)))
            if same_chems:
                for ID in cfg['first']:
                    w.ensure(f'reuse only at the remembered composition (|z - z_last| < tolerance) [{ID}]',
                             w.And(w.lt(z1[ID] - z0[ID], tolz), w.lt(z0[ID] - z1[ID], tolz)))
        else:
            w.ensure('solving anew is always allowed', w.And())
        if sorted(cfg['first']) == sorted(cfg['second']):
            w.canary('canary: the remembered coefficients are never reused', w.And(not reused))
        else:
            w.canary('canary: the second call is at the first temperature', w.eq(T1, T0))
        w.note(reused=reused, T0=T0, T1=T1)
    finally:
        env.restore()


# --------------------------------------------------------------------------- C15/lle_reuse: reuse allowed == reuse forbidden

def lle_reuse_configs(tier):
    fam = [('WO', None)]
    return [{'name': f'{pkg}/top={top}', 'pkg': pkg, 'top': top} for pkg, top in fam]


REUSE_FUNCS = LLE_FUNCS + ['thermosteam.equilibrium.binary_phase_fraction:phase_fraction',
                           'thermosteam.equilibrium.binary_phase_fraction:compute_phase_fraction_2N']
REUSE_REQ = ('requires: two liquids of different composition (every partition coefficient differs from 1 by more than 1e-6), '
             'every mole fraction >= 1e-16 (no clamping of the stored K)')


@group('C15/lle_reuse', configs=lle_reuse_configs, functions=REUSE_FUNCS, assumptions=[A_OPT, REUSE_REQ + '; total feed 1 mol'])
def lle_reuse(w, cfg):
    """
    End to end, no top chemical: same stream, same temperature, same composition, two calls: the first solves (reuse
    impossible), the second is allowed to reuse the remembered partition coefficients.  It must give the same split (same
    flows under the same labels) as the call that could not reuse anything.  The Rachford-Rice step of the reuse branch is
    the REAL two-component closed form.

    Leaves: the solver's answer is parametrised by the fraction `beta` of the feed it puts in its first phase and the mole
    fraction of the first chemical in each of its two phases (xa, xb); the feed is z = beta*xa + (1-beta)*xb, 1 - z (every
    feed with every interior solver answer is of this form, and the terms stay small).
    """
    W.reset_caches()
    env = Env(w, cfg)
    try:
        stub = install_solver(env, 'preset')
        pkg = cfg['pkg']
        top = cfg['top']
        s, l1 = lle_stream(w, 'f', pkg, 'lL', {})
        beta = w.real('beta', lo=0., hi=1., lo_strict=True, hi_strict=True)
        xa = w.real('xa', lo=1e-16, hi=1. - 1e-16)
        xb = w.real('xb', lo=1e-16, hi=1. - 1e-16)
        for p_, q_ in ((xa, xb), (1. - xa, 1. - xb)):
            w.assume(w.Or(w.ge(p_, (1 + 1e-6) * q_), w.le(p_, (1 - 1e-6) * q_)))
        a = [beta * xa, beta * (1. - xa)]
        z0 = a[0] + (1. - beta) * xb
        row = dict(W.rows_of(s))['l']
        row.dct[0] = z0
        row.dct[1] = 1. - z0
        stub.preset = a
        lle = s.lle
        T0 = w.real('T0', lo=285., hi=355.)
        lle(T0, top_chemical=top)
        snap1 = flows_now(s)
        calls = stub.calls
        lle(T0, top_chemical=top, use_cache=True)
        snap2 = flows_now(s)
        for key in sorted(snap1):
            w.ensure(f'reuse allowed: flow{list(key)} same as in the call that had nothing to reuse', w.eq(snap2[key], snap1[key]))
        w.ensure('T is the requested temperature', w.eq(s.T, T0))
        w.canary('canary: the reuse branch is never taken', w.And(stub.calls != calls))
        w.note(solver_calls=stub.calls, reused=stub.calls == calls, snap1=snap1, snap2=snap2)
    finally:
        env.restore()


# --------------------------------------------------------------------------- C15/lle_reuse_step: the reuse branch from a consistent remembered state

def lle_reuse_step_configs(tier):
    fam = [('WO', None, 'unit'), ('WO', 'Octanol', 'unit'), ('WO', 'Water', 'unit')]
    if tier == 'thorough':
        fam += [('WO', None, 'any'), ('WO', 'Octanol', 'any'), ('WO', 'Water', 'any')]
    return [{'name': f'{pkg}/top={top}/feed={feed}', 'pkg': pkg, 'top': top, 'feed': feed} for pkg, top, feed in fam]


@group('C15/lle_reuse_step', configs=lle_reuse_step_configs, functions=REUSE_FUNCS,
       assumptions=[REUSE_REQ, 'entry state: the remembered (K, phi, T, z, chemicals) describe a two-liquid split of the present feed at the '
                               "present temperature (this is the exit state of LLE.__call__ proved as clause 'remembered state' in C15/lle_call) "
                               'whose labels already obey the top-chemical rule'])
def lle_reuse_step(w, cfg):
    """
    Modular form of 'reuse allowed == reuse forbidden' (also with a top chemical): ENTRY STATE = what a previous call at this
    temperature and composition left behind (K_i = x_L,i / x_l,i, phi = fraction of the feed in 'L'); under A-opt a call that
    may not reuse it returns exactly that split.  The reuse branch (real Rachford-Rice closed form for two chemicals, real
    top-chemical swap, real bookkeeping) must hand out the same flows under the same labels.
    """
    W.reset_caches()
    env = Env(w, cfg)
    try:
        stub = install_solver(env, 'havoc')
        pkg = cfg['pkg']
        top = cfg['top']
        IDs = PKGS[pkg]
        s, _ = lle_stream(w, 'f', pkg, 'lL', {})
        MWs = [MW_of(s)[ID] for ID in IDs]
        phi = w.real('phi', lo=0., hi=1., lo_strict=True, hi_strict=True)
        xl0 = w.real('xl', lo=1e-16, hi=1. - 1e-16)
        xL0 = w.real('xL', lo=1e-16, hi=1. - 1e-16)
        xl = [xl0, 1. - xl0]
        xL = [xL0, 1. - xL0]
        for p_, q_ in zip(xL, xl):
            w.assume(w.Or(w.ge(p_, (1 + 1e-6) * q_), w.le(p_, (1 - 1e-6) * q_)))
        if top is not None:
            k = IDs.index(top)
            # the remembered labels obey the rule for this top chemical, strictly (a tie leaves the labelling open)
            ML = w_total([x * m for x, m in zip(xL, MWs)]); Ml = w_total([x * m for x, m in zip(xl, MWs)])
            w.assume(w.gt(xL[k] * MWs[k] * Ml, xl[k] * MWs[k] * ML))
        F = 1. if cfg['feed'] == 'unit' else w.real('F', lo=1e-3, hi=1e3)
        z = [phi * p_ + (1. - phi) * q_ for p_, q_ in zip(xL, xl)]
        T0 = w.real('T0', lo=285., hi=355.)
        lle = s.lle
        lle._K = env.arr([p_ / q_ for p_, q_ in zip(xL, xl)])
        lle._phi = phi
        lle._T = T0
        lle._z_mol = env.arr(z)
        lle._lle_chemicals = [s.chemicals[ID] for ID in IDs]
        # the present feed: the remembered split itself, or everything in one phase
        rows = dict(W.rows_of(s))
        for i in range(2):
            rows['L'].dct[i] = F * (phi * xL[i])
            rows['l'].dct[i] = F * ((1. - phi) * xl[i])
        before = flows_now(s)
        lle(T0, top_chemical=top, use_cache=True)
        now = flows_now(s)
        for i, ID in enumerate(IDs):
            w.ensure(f"reuse allowed: flow['L', {ID}] is the remembered split's (= what forbidding reuse returns)", w.eq(now['L', ID], F * (phi * xL[i])))
            w.ensure(f"reuse allowed: flow['l', {ID}] is the remembered split's (= what forbidding reuse returns)", w.eq(now['l', ID], F * ((1. - phi) * xl[i])))
        w.ensure('T is the requested temperature', w.eq(s.T, T0))
        w.canary('canary: the reuse branch is never taken', w.And(stub.calls != 0))
        w.note(solver_calls=stub.calls, now=now)
    finally:
        env.restore()
