# -*- coding: utf-8 -*-
"""
C15 — liquid-liquid and solid-liquid splits meet their equilibrium and labelling rules.

Mode S (symbolic, DESIGN 4/C15 "S" bullets): the REAL bookkeeping of `LLE.__call__`
(normalisation, the use_cache decision, the cached Rachford-Rice branch, the top-chemical
swap, the stored K/phi/T/z, multiplying back by the total flow) and of `SLE.__call__` /
`SLE._setup` / `SLE._update_solubility` / `SLE._solve_x` / `SLE._x_iter` is executed on real
MultiStreams whose flows, temperatures and solver outputs are symbolic leaves.  Only the numerical
dependencies are contracts:

  A-opt     LLE.solve_lle_liquid_mol returns 0 <= mol_L <= mol and is a deterministic FUNCTION of
            (chemicals, normalised composition, T): equal arguments (decided by the solver under the path
            condition) give the same leaves, other arguments fresh ones.
  A-phase-fraction (only in the cache-DECISION group) phase_fraction returns a value in [0, 1].
  A-models / A-iter (SLE)  solubility_eutectic, Cn.l/Cn.s, activity coefficients return arbitrary values,
            flx.aitken only evaluates its callback k times at arbitrary arguments.

Every `ensures` is a sentence of the property:
  * reuse of the remembered coefficients happens only for the same chemicals, temperature and composition
    (within the solver's tolerances), and gives the same split as forbidding it;
  * flows are proportional to the feed when the feed is scaled;
  * a named top chemical has a mass fraction in 'L' at least as high as in 'l';
  * SLE moves only the named solute, never dissolves more than the solubility it was given / computed
    allows nor more than is present, and puts a pure solute entirely in the liquid above Tm, in the solid below;
  * LLECache / SLECache keep one solver per stream until reset_cache.
plus frames (phases the calculation does not own, P, chemicals other than the solute are untouched).

Mode B (bounded, REAL solvers; never counted as proved): equal activities x*gamma in both phases at the
returned split, proportionality, the top-chemical rule and history independence on the partially miscible
families of the quantifier.
"""
import os
import sys
import itertools

os.environ.setdefault('VERIF_PROVE_FRESH_MS', '5000')
os.environ.setdefault('VERIF_BRANCH_NLSAT_MS', '2000')

import numpy as np
import thermosteam as tmo
from thermosteam import equilibrium as eq
from thermosteam.exceptions import NoEquilibrium, InfeasibleRegion
from engine.api import group, CheckAbort, _close
from engine.sx import tmo_world as W

lle_mod = sys.modules['thermosteam.equilibrium.lle']
sle_mod = sys.modules['thermosteam.equilibrium.sle']

# --------------------------------------------------------------------------- packages (S part)

WO = ('Water', 'Octanol')
WOE = ('Water', 'Octanol', 'Ethanol')
EOW = ('Ethanol', 'Octanol', 'Water')          # other order of the same chemicals
WT = ('Water', 'Tetradecanol')                   # SLE: Tetradecanol has Tm = 312.65 K and a heat of fusion
WMT = ('Water', 'Methanol', 'Tetradecanol')
PKGS = {'WO': WO, 'WOE': WOE, 'EOW': EOW, 'WT': WT, 'WMT': WMT}
W.preload(list(PKGS.values()))

_MISSING = object()


class Env:
    """Per-path registry of patches (undone in `finally`) and source of numbered havoc leaves."""

    def __init__(self, w, cfg):
        self.w = w
        self.cfg = cfg
        self.n = 0
        self.saved = []
        self.calls = {}
        self.k = cfg.get('k', 1)

    def leaf(self, tag, **kw):
        self.n += 1
        return self.w.real(f'hv{self.n}.{tag}', **kw)

    def pos(self, tag):
        return self.leaf(tag, lo=0., lo_strict=True)

    def arr(self, xs):
        return np.array(list(xs), dtype=object if self.w.symbolic else float)

    def count(self, what):
        self.calls[what] = self.calls.get(what, 0) + 1

    def patch(self, obj, name, value):
        self.saved.append((obj, name, obj.__dict__.get(name, _MISSING) if hasattr(obj, '__dict__') else getattr(obj, name, _MISSING)))
        setattr(obj, name, value)

    def restore(self):
        for obj, name, old in reversed(self.saved):
            if old is _MISSING:
                try:
                    delattr(obj, name)
                except AttributeError:
                    pass
            else:
                setattr(obj, name, old)
        self.saved = []


def same(w, a, b):
    """Are two real values equal?  Symbolically: decided by the solver under the path condition (forks if both are possible)."""
    if w.symbolic:
        return bool(W._as_symbool(w, w.eq(a, b)))
    return _close(a, b)


def flows_now(s):
    """{(phase, ID): value} for every phase and chemical, read from the raw sparse dicts."""
    IDs = s.chemicals.IDs
    out = {}
    for ph, sv in W.rows_of(s):
        for i, ID in enumerate(IDs):
            out[ph, ID] = sv.dct.get(i, 0.)
    return out


def rep_ok(w, s):
    if w.symbolic:
        return W.rep_ok(w, s)
    return all(v != 0 and 0 <= i < sv.size for ph, sv in W.rows_of(s) for i, v in sv.dct.items())


def plant(w, s, name, dist):
    """
    Plant flows: dist = {ID: string with one character per phase of s.phases-as-given}, '0' no entry,
    '+' stored leaf > 0, '?' leaf >= 0 whose presence is forked.  Existing entries are removed first.
    """
    for ph, sv in W.rows_of(s):
        sv.dct.clear()
    phases = [ph for ph, _ in W.rows_of(s)]
    present = {'default': 'zero'}
    for ID, pat in dist.items():
        for ph, c in pat.items():
            present[ph, ID] = {'0': 'zero', '+': 'pos', '?': 'maybe'}[c]
    return W.plant_flows(w, s, name, present=present)


def totals(flows, IDs, phases):
    return {ID: w_total([flows.get((ph, ID), 0.) for ph in phases]) for ID in IDs}


def w_total(xs):
    t = 0.
    for x in xs:
        t = t + x
    return t


# --------------------------------------------------------------------------- A-opt: the LLE solver as a deterministic function

class SolverStub:
    """
    Contract of LLE.solve_lle_liquid_mol (A-opt): the result lies in the box 0 <= mol_L <= mol (the bounds handed to
    shgo / differential_evolution; x*(1-phi) <= z for phi in [0, 1] in the pseudo-equilibrium method) and depends only
    on (chemicals, normalised composition, T).  mode 'interior': 0 < mol_L < mol (two non-empty phases containing every
    chemical), 'box': the closed box, 'havoc': the closed box, fresh leaves on every call (no determinism needed).
    """

    def __init__(self, env, mode='box'):
        self.env = env
        self.mode = mode
        self.memo = []
        self.calls = 0
        self.args = []

    def __call__(self, lle, mol, T, lle_chemicals, single_loop):
        w = self.env.w
        self.calls += 1
        IDs = tuple(c.ID for c in lle_chemicals)
        self.args.append((IDs, list(mol), T))
        if self.mode != 'havoc':
            for IDs0, z0, T0, out in self.memo:
                if IDs0 == IDs and same(w, T0, T) and all(same(w, a, b) for a, b in zip(z0, mol)):
                    return self.env.arr(out)
        n = len(self.memo)
        out = []
        interior = self.mode == 'interior'
        for i, ID in enumerate(IDs):
            v = w.real(f'sol{n}.molL.{ID}', lo=0., lo_strict=interior)
            w.assume(w.lt(v, mol[i]) if interior else w.le(v, mol[i]))
            if not w.symbolic:
                v = min(max(v, 0.), float(mol[i]))
            out.append(v)
        self.memo.append((IDs, list(mol), T, out))
        return self.env.arr(out)


def install_solver(env, mode):
    stub = SolverStub(env, mode)

    def solve_lle_liquid_mol(self, mol, T, lle_chemicals, single_loop):
        return stub(self, mol, T, lle_chemicals, single_loop)

    env.patch(lle_mod.LLE, 'solve_lle_liquid_mol', solve_lle_liquid_mol)
    return stub


def install_phase_fraction_havoc(env):
    """A-phase-fraction: a value in [0, 1] (as_valid_fraction)."""
    def phase_fraction(zs, Ks, guess=None, za=0., zb=0.):
        env.count('phase_fraction')
        return env.leaf('phi', lo=0., hi=1.)
    env.patch(lle_mod, 'phase_fraction', phase_fraction)


def lle_stream(w, name, pkg, phases, dist):
    th = W.thermo(PKGS[pkg])
    s = tmo.MultiStream(None, phases=tuple(phases), thermo=th)
    leaves = plant(w, s, name, dist)
    return s, leaves


def dist_of(pkg, phases, pattern):
    """pattern: {ID: 'chars per phase in the order of `phases`'} -> {ID: {phase: char}}"""
    return {ID: dict(zip(phases, pat)) for ID, pat in pattern.items()}


def MW_of(s):
    return dict(zip(s.chemicals.IDs, [float(i) for i in s.chemicals.MW]))


def ensure_lle_material(w, s, before, now, tag, owned=('l', 'L')):
    """Conservation, sign and frame (C03's sentences, kept here as the frame of every C15 clause)."""
    IDs = s.chemicals.IDs
    phases = [ph for ph, _ in W.rows_of(s)]
    t0 = totals(before, IDs, phases)
    t1 = totals(now, IDs, phases)
    for ID in IDs:
        w.ensure(f'{tag}total[{ID}] over l+L unchanged', w.eq(t1[ID], t0[ID]))
        for ph in phases:
            if ph in owned:
                w.ensure(f'{tag}flow[{ph},{ID}] >= 0', w.ge(now[ph, ID], 0.))
            else:
                w.ensure(f'{tag}frame: flow[{ph},{ID}] untouched', w.eq(now[ph, ID], before.get((ph, ID), 0.)))
    w.ensure(f'{tag}rep_ok (no stored zero)', rep_ok(w, s))


def top_rule(w, s, now, top):
    """Both liquids non-empty  =>  mass fraction of `top` in 'L' >= mass fraction in 'l' (cross-multiplied, masses > 0)."""
    MW = MW_of(s)
    ML = w_total([now['L', ID] * MW[ID] for ID in s.chemicals.IDs])
    Ml = w_total([now['l', ID] * MW[ID] for ID in s.chemicals.IDs])
    return w.Implies(w.And(w.gt(ML, 0.), w.gt(Ml, 0.)),
                     w.ge(now['L', top] * MW[top] * Ml, now['l', top] * MW[top] * ML))


# --------------------------------------------------------------------------- C15/lle_call: one call (labelling, split = the solver's, frame)

def lle_call_configs(tier):
    fam = [
        # pkg, phases, pattern, top, solver mode
        ('WO', 'lL', {'Water': '+0', 'Octanol': '0+'}, None, 'box'),
        ('WO', 'lL', {'Water': '+0', 'Octanol': '0+'}, 'Octanol', 'box'),
        ('WO', 'lL', {'Water': '++', 'Octanol': '+0'}, 'Water', 'box'),
        ('WO', 'glL', {'Water': '++0', 'Octanol': '?0+'}, 'Octanol', 'interior'),
        ('WOE', 'lL', {'Water': '+0', 'Octanol': '0+', 'Ethanol': '+0'}, 'Octanol', 'interior'),
        ('WOE', 'lL', {'Water': '+0', 'Octanol': '0+', 'Ethanol': '+0'}, 'Ethanol', 'interior'),
        ('EOW', 'lL', {'Water': '+0', 'Octanol': '0+', 'Ethanol': '0+'}, 'Water', 'interior'),
        ('WOE', 'lL', {'Water': '+0', 'Octanol': '0+'}, 'Ethanol', 'box'),       # named top chemical absent: no rule, no crash
        ('WOE', 'lL', {'Water': '+0'}, 'Water', 'box'),                           # fewer than two chemicals: nothing to split
    ]
    if tier == 'thorough':
        fam += [
            ('WO', 'lL', {'Water': '??', 'Octanol': '??'}, 'Octanol', 'box'),
            ('WOE', 'lL', {'Water': '+0', 'Octanol': '0+', 'Ethanol': '+0'}, None, 'box'),
            ('WOE', 'lL', {'Water': '+0', 'Octanol': '0+', 'Ethanol': '+0'}, 'Octanol', 'box'),
            ('WOE', 'lL', {'Water': '+0', 'Octanol': '0+', 'Ethanol': '+0'}, 'Water', 'box'),
            ('EOW', 'lLs', {'Water': '+00', 'Octanol': '0+?', 'Ethanol': '?+0'}, 'Ethanol', 'interior'),
        ]
    out = []
    for pkg, phases, pat, top, mode in fam:
        nm = f"{pkg}/{phases}/" + ','.join(f'{k[0]}{v}' for k, v in pat.items()) + f"/top={top}/solver={mode}"
        out.append({'name': nm, 'pkg': pkg, 'phases': phases, 'pattern': pat, 'top': top, 'solver': mode})
    return out


LLE_FUNCS = ['thermosteam.equilibrium.lle:LLE.__call__', 'thermosteam.equilibrium.lle:LLE.get_liquid_mol_data']
A_OPT = 'A-opt: LLE.solve_lle_liquid_mol returns 0 <= mol_L <= mol and is a function of (chemicals, normalised composition, T)'


@group('C15/lle_call', configs=lle_call_configs, functions=LLE_FUNCS, assumptions=[A_OPT])
def lle_call(w, cfg):
    """One call on a fresh solver: the split is the solver's (or its mirror image), labelled by the top-chemical rule."""
    W.reset_caches()
    env = Env(w, cfg)
    try:
        stub = install_solver(env, cfg['solver'])
        phases = cfg['phases']
        s, leaves = lle_stream(w, 'f', cfg['pkg'], phases, dist_of(cfg['pkg'], phases, cfg['pattern']))
        before = flows_now(s)
        T = w.real('T', lo=285., hi=355.)
        P0 = s.P
        top = cfg['top']
        s.lle(T, top_chemical=top)
        now = flows_now(s)
        ensure_lle_material(w, s, before, now, '')
        w.ensure('T is the requested temperature', w.eq(s.T, T))
        w.ensure('frame: P unchanged when not given', w.eq(s.P, P0))
        IDs = s.chemicals.IDs
        if stub.calls:
            # the split handed out is the solver's split (scaled back by the total flow) or its mirror image
            sIDs, z, _ = stub.args[0]
            molL = stub.memo[0][3]
            F = w_total([before['l', ID] + before['L', ID] for ID in sIDs])
            straight = w.And(*[w.And(w.eq(now['L', ID], molL[i] * F), w.eq(now['l', ID], (z[i] - molL[i]) * F)) for i, ID in enumerate(sIDs)])
            mirror = w.And(*[w.And(w.eq(now['l', ID], molL[i] * F), w.eq(now['L', ID], (z[i] - molL[i]) * F)) for i, ID in enumerate(sIDs)])
            w.ensure('split = solver result x total flow (or its mirror image)', w.Or(straight, mirror))
            if top is None:
                w.ensure('no top chemical: solver labelling kept', straight)
            for i, ID in enumerate(sIDs):
                w.ensure(f'solver saw the normalised feed z[{ID}]', w.eq(z[i] * F, before['l', ID] + before['L', ID]))
        if top is not None and top in IDs and stub.calls:
            w.ensure(f'top chemical {top}: mass fraction in L >= in l', top_rule(w, s, now, top))
            other = next(i for i in IDs if i != top)
            w.canary(f'canary: {other} also has its larger mass fraction in L', top_rule(w, s, now, other))
        else:
            w.canary('canary: L stays empty', w.eq(w_total([now['L', ID] for ID in IDs]), 0.))
        w.note(solver_calls=stub.calls, flows=now)
    finally:
        env.restore()
