# -*- coding: utf-8 -*-
"""
C15 — liquid-liquid and solid-liquid splits meet their equilibrium and labelling rules.

Mode S (symbolic, DESIGN 4/C15 "S" bullets): the REAL bookkeeping of `LLE.__call__`
(normalisation, the use_cache decision, the cached Rachford-Rice branch, the top-chemical
swap, the stored K/phi/T/z, multiplying back by the total flow) and of `SLE.__call__` /
`SLE._setup` / `SLE._update_solubility` / `SLE._solve_x` / `SLE._x_iter` is executed on real
MultiStreams whose flows, temperatures and solver outputs are symbolic leaves.  Only the numerical
dependencies are contracts:

  A-opt     LLE.solve_lle_liquid_mol returns 0 <= mol_L <= mol and is a deterministic FUNCTION of
            (chemicals, normalised composition, T): equal arguments (decided by the solver under the path
            condition) give the same leaves, other arguments fresh ones.
  A-phase-fraction (only in the cache-DECISION group) phase_fraction returns a value in [0, 1].
  A-models / A-iter (SLE)  solubility_eutectic, Cn.l/Cn.s, activity coefficients return arbitrary values,
            flx.aitken only evaluates its callback k times at arbitrary arguments.

Every `ensures` is a sentence of the property:
  * reuse of the remembered coefficients happens only for the same chemicals, temperature and composition
    (within the solver's tolerances), and gives the same split as forbidding it;
  * flows are proportional to the feed when the feed is scaled;
  * a named top chemical has a mass fraction in 'L' at least as high as in 'l';
  * SLE moves only the named solute, never dissolves more than the solubility it was given / computed
    allows nor more than is present, and puts a pure solute entirely in the liquid above Tm, in the solid below;
  * LLECache / SLECache keep one solver per stream until reset_cache.
plus frames (phases the calculation does not own, P, chemicals other than the solute are untouched).

Mode B (bounded, REAL solvers; never counted as proved): equal activities x*gamma in both phases at the
returned split, proportionality, the top-chemical rule and history independence on the partially miscible
families of the quantifier.
"""
import os
import sys

os.environ.setdefault('VERIF_PROVE_FRESH_MS', '5000')
os.environ.setdefault('VERIF_BRANCH_NLSAT_MS', '2000')

# numba's on-disk cache (`@njit(cache=True)` in thermosteam) is redirected away from the working tree under check: the mode-B
# groups compile lle_objective_function / liquid_activities / psuedo_equilibrium_inner_loop once per process (their cache key
# contains the first-class function argument f_gamma, i.e. a per-process object, so entries never hit), every process appends
# to the cache index, and re-pickling index entries of earlier processes raises "ReferenceError: underlying object has
# vanished" (the "TODO: SUBMIT ISSUE TO NUMBA" of lle.py).  A private directory keeps /repo/**/__pycache__ untouched, and the
# lle.* entries in it are purged at start-up and whenever that error shows up (see b_call).
if 'numba' not in sys.modules:
    import tempfile
    os.environ.setdefault('NUMBA_CACHE_DIR', os.path.join(tempfile.gettempdir(), 'verif_numba_cache_C15'))


def purge_lle_numba_cache():
    root = os.environ.get('NUMBA_CACHE_DIR')
    if not root or not os.path.isdir(root) or 'verif_numba_cache' not in root:
        return
    for d, _, files in os.walk(root):
        for f in files:
            if f.startswith('lle.') and f.endswith(('.nbi', '.nbc')):
                try:
                    os.remove(os.path.join(d, f))
                except OSError:
                    pass


purge_lle_numba_cache()

import numpy as np
import thermosteam as tmo
from thermosteam import equilibrium as eq
from thermosteam.exceptions import NoEquilibrium, InfeasibleRegion
from engine.api import group, _close
from engine.sx import tmo_world as W

lle_mod = sys.modules['thermosteam.equilibrium.lle']
sle_mod = sys.modules['thermosteam.equilibrium.sle']

# --------------------------------------------------------------------------- packages (S part)

WO = ('Water', 'Octanol')
WOE = ('Water', 'Octanol', 'Ethanol')
EOW = ('Ethanol', 'Octanol', 'Water')          # other order of the same chemicals
WT = ('Water', 'Tetradecanol')                   # SLE: Tetradecanol has Tm = 312.65 K and a heat of fusion
WMT = ('Water', 'Methanol', 'Tetradecanol')
PKGS = {'WO': WO, 'WOE': WOE, 'EOW': EOW, 'WT': WT, 'WMT': WMT}
W.preload(list(PKGS.values()))

_MISSING = object()


class Env:
    """Per-path registry of patches (undone in `finally`) and source of numbered havoc leaves."""

    def __init__(self, w, cfg):
        self.w = w
        self.cfg = cfg
        self.n = 0
        self.saved = []
        self.calls = {}
        self.k = cfg.get('k', 1)

    def leaf(self, tag, **kw):
        self.n += 1
        return self.w.real(f'hv{self.n}.{tag}', **kw)

    def pos(self, tag):
        return self.leaf(tag, lo=0., lo_strict=True)

    def arr(self, xs):
        return np.array(list(xs), dtype=object if self.w.symbolic else float)

    def count(self, what):
        self.calls[what] = self.calls.get(what, 0) + 1

    def patch(self, obj, name, value):
        self.saved.append((obj, name, obj.__dict__.get(name, _MISSING) if hasattr(obj, '__dict__') else getattr(obj, name, _MISSING)))
        setattr(obj, name, value)

    def restore(self):
        for obj, name, old in reversed(self.saved):
            if old is _MISSING:
                try:
                    delattr(obj, name)
                except AttributeError:
                    pass
            else:
                setattr(obj, name, old)
        self.saved = []


def same(w, a, b):
    """Are two real values equal?  Symbolically: decided by the solver under the path condition (forks if both are possible)."""
    if w.symbolic:
        return bool(W._as_symbool(w, w.eq(a, b)))
    return _close(a, b)


def native_guard(w):
    """
    Native replay of a path model only: paths through the 1e-16 clamp of LLE.__call__ have models whose leaves span 16+
    orders of magnitude, where IEEE doubles are not reals (A-real) and the replay says nothing.  Such a replay is marked
    'skipped' (counted by the engine as cross_checks_skipped_rounding), never as passed.  No effect on the symbolic run.
    """
    if w.symbolic:
        return
    vals = [abs(float(v)) for n, v in w.leaves.items() if n.startswith(('f.', 'sol')) and float(v) != 0.]   # flows and solver answers
    if vals and (max(vals) > 1e9 * min(vals)):
        w.assume(False)


def flows_now(s):
    """{(phase, ID): value} for every phase and chemical, read from the raw sparse dicts."""
    IDs = s.chemicals.IDs
    out = {}
    for ph, sv in W.rows_of(s):
        for i, ID in enumerate(IDs):
            out[ph, ID] = sv.dct.get(i, 0.)
    return out


def rep_ok(w, s):
    if w.symbolic:
        return W.rep_ok(w, s)
    return all(v != 0 and 0 <= i < sv.size for ph, sv in W.rows_of(s) for i, v in sv.dct.items())


def plant(w, s, name, dist):
    """
    Plant flows: dist = {ID: string with one character per phase of s.phases-as-given}, '0' no entry,
    '+' stored leaf > 0, '?' leaf >= 0 whose presence is forked.  Existing entries are removed first.
    """
    for ph, sv in W.rows_of(s):
        sv.dct.clear()
    phases = [ph for ph, _ in W.rows_of(s)]
    present = {'default': 'zero'}
    for ID, pat in dist.items():
        for ph, c in pat.items():
            present[ph, ID] = {'0': 'zero', '+': 'pos', '?': 'maybe'}[c]
    return W.plant_flows(w, s, name, present=present)


def totals(flows, IDs, phases):
    return {ID: w_total([flows.get((ph, ID), 0.) for ph in phases]) for ID in IDs}


def w_total(xs):
    t = 0.
    for x in xs:
        t = t + x
    return t


# --------------------------------------------------------------------------- A-opt: the LLE solver as a deterministic function

class SolverStub:
    """
    Contract of LLE.solve_lle_liquid_mol (A-opt): the result lies in the box 0 <= mol_L <= mol (the bounds handed to
    shgo / differential_evolution; x*(1-phi) <= z for phi in [0, 1] in the pseudo-equilibrium method) and depends only
    on (chemicals, normalised composition, T).  mode 'interior': 0 < mol_L < mol (two non-empty phases containing every
    chemical), 'box': the closed box, 'havoc': the closed box, fresh leaves on every call (no determinism needed).
    """

    def __init__(self, env, mode='box'):
        self.env = env
        self.mode = mode
        self.memo = []
        self.calls = 0
        self.args = []
        self.preset = None

    def __call__(self, lle, mol, T, lle_chemicals, single_loop):
        w = self.env.w
        self.calls += 1
        IDs = tuple(c.ID for c in lle_chemicals)
        self.args.append((IDs, list(mol), T))
        if self.mode == 'preset' and not self.memo:
            # the caller of install_solver chose the leaves so that `preset` lies in the box of this very problem
            self.memo.append((IDs, list(mol), T, list(self.preset)))
            return self.env.arr(self.preset)
        if self.mode != 'havoc':
            for IDs0, z0, T0, out in self.memo:
                if IDs0 == IDs and same(w, T0, T) and all(same(w, a, b) for a, b in zip(z0, mol)):
                    return self.env.arr(out)
        n = len(self.memo)
        out = []
        interior = self.mode == 'interior'
        for i, ID in enumerate(IDs):
            v = w.real(f'sol{n}.molL.{ID}', lo=0., lo_strict=interior)
            w.assume(w.lt(v, mol[i]) if interior else w.le(v, mol[i]))
            if not w.symbolic:
                v = min(max(v, 0.), float(mol[i]))
            out.append(v)
        self.memo.append((IDs, list(mol), T, out))
        return self.env.arr(out)


def install_solver(env, mode):
    stub = SolverStub(env, mode)

    def solve_lle_liquid_mol(self, mol, T, lle_chemicals, single_loop):
        return stub(self, mol, T, lle_chemicals, single_loop)

    env.patch(lle_mod.LLE, 'solve_lle_liquid_mol', solve_lle_liquid_mol)
    return stub


def lle_stream(w, name, pkg, phases, dist):
    th = W.thermo(PKGS[pkg])
    s = tmo.MultiStream(None, phases=tuple(phases), thermo=th)
    leaves = plant(w, s, name, dist)
    return s, leaves


def dist_of(pkg, phases, pattern):
    """pattern: {ID: 'chars per phase in the order of `phases`'} -> {ID: {phase: char}}"""
    return {ID: dict(zip(phases, pat)) for ID, pat in pattern.items()}


def MW_of(s):
    return dict(zip(s.chemicals.IDs, [float(i) for i in s.chemicals.MW]))


def ensure_lle_material(w, s, before, now, tag, owned=('l', 'L')):
    """Conservation, sign and frame (C03's sentences, kept here as the frame of every C15 clause)."""
    IDs = s.chemicals.IDs
    phases = [ph for ph, _ in W.rows_of(s)]
    t0 = totals(before, IDs, phases)
    t1 = totals(now, IDs, phases)
    for ID in IDs:
        w.ensure(f'{tag}total[{ID}] over l+L unchanged', w.eq(t1[ID], t0[ID]))
        for ph in phases:
            if ph in owned:
                w.ensure(f'{tag}flow[{ph},{ID}] >= 0', w.ge(now[ph, ID], 0.))
            else:
                w.ensure(f'{tag}frame: flow[{ph},{ID}] untouched', w.eq(now[ph, ID], before.get((ph, ID), 0.)))
    w.ensure(f'{tag}rep_ok (no stored zero)', rep_ok(w, s))


def top_rule(w, s, now, top):
    """Both liquids non-empty  =>  mass fraction of `top` in 'L' >= mass fraction in 'l' (cross-multiplied, masses > 0)."""
    IDs = s.chemicals.IDs
    return mass_fraction_rule(w, [now['L', ID] for ID in IDs], [now['l', ID] for ID in IDs], IDs.index(top), [MW_of(s)[ID] for ID in IDs])


def gt_exact(w, a, b):
    """a > b as a case-split condition: exact float comparison natively (the toleranced w.ge/w.le are for clauses)."""
    return w.gt(a, b) if w.symbolic else float(a) > float(b)


def ge_exact(w, a, b):
    return w.ge(a, b) if w.symbolic else float(a) >= float(b)


def decide(w, cond):
    """Case split of the contract on a condition (symbolically: one branch decision, both outcomes explored if feasible)."""
    if w.symbolic:
        return bool(W._as_symbool(w, cond))
    return bool(cond)


def mass_fraction_rule(w, aL, al, k, MWs):
    """Both phases have mass  =>  m_L[k]/M_L >= m_l[k]/M_l  (case split on 'both phases have mass', then the quotients exist)."""
    mL = [a * m for a, m in zip(aL, MWs)]
    ml = [a * m for a, m in zip(al, MWs)]
    ML = w_total(mL)
    Ml = w_total(ml)
    if decide(w, w.And(gt_exact(w, ML, 0.), gt_exact(w, Ml, 0.))):
        return w.ge(mL[k] / ML, ml[k] / Ml)
    return w.And()


def remembered_state(w, lle, L, l, sIDs, z, T):
    """
    Exit state of LLE.__call__ (entry state of the reuse branch, C15/lle_reuse_step): when both liquids are non-empty the
    remembered K_i is x_L,i / x_l,i (for mole fractions outside the clamp), phi the fraction of the feed labelled 'L', and
    T, z, chemicals are those of this call.  L, l: amounts per unit of feed under their final labels.
    """
    cs = [w.eq(lle._T, T), w.And([c.ID for c in lle._lle_chemicals] == list(sIDs))]
    cs += [w.eq(a, b) for a, b in zip(lle._z_mol, z)]
    FL = w_total(L)
    Fl = w_total(l)
    if decide(w, w.And(gt_exact(w, FL, 0.), gt_exact(w, Fl, 0.))):
        cs.append(w.eq(lle._phi * (FL + Fl), FL))
        for i in range(len(sIDs)):
            x_l = l[i] / Fl
            x_L = L[i] / FL
            if decide(w, ge_exact(w, x_l, 1e-16)):
                cs.append(w.eq(lle._K[i] * x_l, x_L))
    return w.And(*cs)


def top_rule_per_unit_feed(w, s, now, top, sIDs, z, molL, F):
    """
    The same sentence written on the amounts per unit of feed (mass fractions do not change when both phases are
    multiplied by the total flow F > 0): the outcome is the solver's split or its mirror image, and in either case
    the phase that ended up as 'L' has the larger mass fraction of `top`.
    """
    MWs = [MW_of(s)[ID] for ID in sIDs]
    k = sIDs.index(top)
    a = list(molL)
    b = [z[i] - molL[i] for i in range(len(sIDs))]
    straight = w.And(*[w.And(w.eq(now['L', ID], a[i] * F), w.eq(now['l', ID], b[i] * F)) for i, ID in enumerate(sIDs)])
    mirror = w.And(*[w.And(w.eq(now['l', ID], a[i] * F), w.eq(now['L', ID], b[i] * F)) for i, ID in enumerate(sIDs)])
    return w.Or(w.And(straight, mass_fraction_rule(w, a, b, k, MWs)), w.And(mirror, mass_fraction_rule(w, b, a, k, MWs)))


# --------------------------------------------------------------------------- C15/lle_call: one call (labelling, split = the solver's, frame)

def lle_call_configs(tier):
    fam = [
        # pkg, phases, pattern, top, solver mode
        ('WO', 'lL', {'Water': '+0', 'Octanol': '0+'}, None, 'box'),
        ('WO', 'lL', {'Water': '+0', 'Octanol': '0+'}, 'Octanol', 'box'),
        ('WO', 'lL', {'Water': '++', 'Octanol': '+0'}, 'Water', 'box'),
        ('WO', 'glL', {'Water': '++0', 'Octanol': '?0+'}, 'Octanol', 'interior'),
        ('WO', 'lL', {'Water': '+0', 'Octanol': '0+'}, None, 'interior'),
        ('WO', 'lL', {'Water': '+0', 'Octanol': '0+'}, 'Water', 'interior'),
        ('WOE', 'lL', {'Water': '+0', 'Octanol': '0+', 'Ethanol': '+0'}, 'Octanol', 'interior'),
        ('WOE', 'lL', {'Water': '+0', 'Octanol': '0+', 'Ethanol': '+0'}, 'Ethanol', 'interior'),
        ('EOW', 'lL', {'Water': '+0', 'Octanol': '0+', 'Ethanol': '0+'}, 'Water', 'interior'),
        ('WOE', 'lL', {'Water': '+0', 'Octanol': '0+'}, 'Ethanol', 'box'),       # named top chemical absent: no rule, no crash
        ('WOE', 'lL', {'Water': '+0'}, 'Water', 'box'),                           # fewer than two chemicals: nothing to split
    ]
    if tier == 'thorough':
        fam += [
            ('WO', 'lL', {'Water': '??', 'Octanol': '??'}, 'Octanol', 'box'),
            ('WOE', 'lL', {'Water': '+0', 'Octanol': '0+', 'Ethanol': '+0'}, None, 'box'),
            ('WOE', 'lL', {'Water': '+0', 'Octanol': '0+', 'Ethanol': '+0'}, 'Octanol', 'box'),
            ('WOE', 'lL', {'Water': '+0', 'Octanol': '0+', 'Ethanol': '+0'}, 'Water', 'box'),
            ('EOW', 'lLs', {'Water': '+00', 'Octanol': '0+?', 'Ethanol': '?+0'}, 'Ethanol', 'interior'),
        ]
    out = []
    for pkg, phases, pat, top, mode in fam:
        nm = f"{pkg}/{phases}/" + ','.join(f'{k[0]}{v}' for k, v in pat.items()) + f"/top={top}/solver={mode}"
        # the two-chemical configurations state the top-chemical rule directly on the outlet flows (products, no quotients),
        # the larger ones on the amounts per unit of feed (see top_rule_per_unit_feed)
        # 'state': also check the remembered state (entry state of the reuse branch); expensive for three chemicals
        out.append({'name': nm, 'pkg': pkg, 'phases': phases, 'pattern': pat, 'top': top, 'solver': mode, 'per_unit': pkg != 'WO',
                    'state': mode == 'interior' and (pkg == 'WO' or (tier == 'thorough' and phases == 'lL' and top == 'Octanol'))})
    return out


LLE_FUNCS = ['thermosteam.equilibrium.lle:LLE.__call__', 'thermosteam.equilibrium.lle:LLE.get_liquid_mol_data']
A_OPT = 'A-opt: LLE.solve_lle_liquid_mol returns 0 <= mol_L <= mol and is a function of (chemicals, normalised composition, T)'


@group('C15/lle_call', configs=lle_call_configs, functions=LLE_FUNCS, assumptions=[A_OPT])
def lle_call(w, cfg):
    """One call on a fresh solver: the split is the solver's (or its mirror image), labelled by the top-chemical rule."""
    W.reset_caches()
    env = Env(w, cfg)
    try:
        stub = install_solver(env, cfg['solver'])
        phases = cfg['phases']
        s, leaves = lle_stream(w, 'f', cfg['pkg'], phases, dist_of(cfg['pkg'], phases, cfg['pattern']))
        before = flows_now(s)
        T = w.real('T', lo=285., hi=355.)
        P0 = s.P
        top = cfg['top']
        s.lle(T, top_chemical=top)
        now = flows_now(s)
        ensure_lle_material(w, s, before, now, '')
        w.ensure('T is the requested temperature', w.eq(s.T, T))
        w.ensure('frame: P unchanged when not given', w.eq(s.P, P0))
        IDs = s.chemicals.IDs
        if stub.calls:
            # the split handed out is the solver's split (scaled back by the total flow) or its mirror image
            sIDs, z, _ = stub.args[0]
            molL = stub.memo[0][3]
            F = w_total([before['l', ID] + before['L', ID] for ID in sIDs])
            straight = w.And(*[w.And(w.eq(now['L', ID], molL[i] * F), w.eq(now['l', ID], (z[i] - molL[i]) * F)) for i, ID in enumerate(sIDs)])
            mirror = w.And(*[w.And(w.eq(now['l', ID], molL[i] * F), w.eq(now['L', ID], (z[i] - molL[i]) * F)) for i, ID in enumerate(sIDs)])
            w.ensure('split = solver result x total flow (or its mirror image)', w.Or(straight, mirror))
            for i, ID in enumerate(sIDs):
                w.ensure(f'solver saw the normalised feed z[{ID}]', w.eq(z[i] * F, before['l', ID] + before['L', ID]))
            a = list(molL)
            b = [z[i] - molL[i] for i in range(len(sIDs))]
            lle = s.lle
            if cfg['state']:
                # case split of the contract: which of the solver's phases ended up as 'L'
                if decide(w, straight):
                    w.ensure('remembered state describes the returned split (K = x_L/x_l, phi = L fraction, T, z, chemicals)',
                             remembered_state(w, lle, a, b, sIDs, z, T))
                else:
                    w.ensure('remembered state describes the returned split (K = x_L/x_l, phi = L fraction, T, z, chemicals)',
                             w.And(mirror, remembered_state(w, lle, b, a, sIDs, z, T)))
        if top is not None and top in IDs and stub.calls:
            if top in sIDs and cfg.get('per_unit', True):
                w.ensure(f'top chemical {top}: mass fraction in L >= in l', top_rule_per_unit_feed(w, s, now, top, list(sIDs), z, molL, F))
            else:
                w.ensure(f'top chemical {top}: mass fraction in L >= in l', top_rule(w, s, now, top))
            other = next(i for i in IDs if i != top)
            w.canary(f'canary: {other} also has its larger mass fraction in L', top_rule(w, s, now, other))
        else:
            w.canary('canary: L stays empty', w.eq(w_total([now['L', ID] for ID in IDs]), 0.))
        w.note(solver_calls=stub.calls, flows=now)
        native_guard(w)
    finally:
        env.restore()


# --------------------------------------------------------------------------- C15/lle_scaling: flows proportional to the feed

def lle_scaling_configs(tier):
    fam = [
        ('WO', {'Water': '+0', 'Octanol': '0+'}, None, 'box'),
        ('WO', {'Water': '+0', 'Octanol': '0+'}, 'Octanol', 'box'),
        ('WO', {'Water': '++', 'Octanol': '0+'}, 'Water', 'interior'),
        ('WOE', {'Water': '+0', 'Octanol': '0+', 'Ethanol': '+0'}, 'Octanol', 'interior'),
    ]
    if tier == 'thorough':
        fam += [
            ('WO', {'Water': '+?', 'Octanol': '?+'}, 'Octanol', 'box'),
            ('WOE', {'Water': '+0', 'Octanol': '0+', 'Ethanol': '+0'}, None, 'box'),
            ('EOW', {'Water': '+0', 'Octanol': '0+', 'Ethanol': '0+'}, 'Water', 'box'),
        ]
    return [{'name': f"{pkg}/" + ','.join(f'{k[0]}{v}' for k, v in pat.items()) + f"/top={top}/solver={mode}",
             'pkg': pkg, 'pattern': pat, 'top': top, 'solver': mode} for pkg, pat, top, mode in fam]


@group('C15/lle_scaling', configs=lle_scaling_configs, functions=LLE_FUNCS, assumptions=[A_OPT])
def lle_scaling(w, cfg):
    """Relational: the same calculation on `feed` and on `k * feed` (two streams, one solver contract): every outlet flow is k times."""
    W.reset_caches()
    env = Env(w, cfg)
    try:
        stub = install_solver(env, cfg['solver'])
        phases = 'lL'
        a, la = lle_stream(w, 'f', cfg['pkg'], phases, dist_of(cfg['pkg'], phases, cfg['pattern']))
        k = w.real('k', lo=1e-3, hi=1e3)
        b = tmo.MultiStream(None, phases=tuple(phases), thermo=a.thermo)
        IDs = a.chemicals.IDs
        rows_b = dict(W.rows_of(b))
        for (ph, ID), v in la.items():
            if isinstance(v, float) and v == 0.:
                continue
            if decide(w, w.ne(v, 0.) if w.symbolic else v != 0.):
                rows_b[ph].dct[IDs.index(ID)] = k * v
        T = w.real('T', lo=285., hi=355.)
        top = cfg['top']
        a.lle(T, top_chemical=top)
        now_a = flows_now(a)
        b.lle(T, top_chemical=top)
        now_b = flows_now(b)
        for key in sorted(now_a):
            w.ensure(f'flow{list(key)} of k*feed = k * flow of feed', w.eq(now_b[key], k * now_a[key]))
        after = flows_now(a)
        w.ensure('frame: the other stream is untouched', w.And(*[w.eq(after[key], now_a[key]) for key in sorted(now_a)]))
        w.ensure('rep_ok', w.And(rep_ok(w, a), rep_ok(w, b)))
        key = ('L', IDs[0])
        w.canary('canary: k*feed gives the flows of feed', w.eq(now_b[key], now_a[key] + 1))
        w.note(solver_calls=stub.calls, distinct_problems=len(stub.memo))
        native_guard(w)
    finally:
        env.restore()


# --------------------------------------------------------------------------- C15/lle_cache_decision: when may the remembered K be reused

class _Stop(Exception):
    """Ends the second call right after the reuse decision has been observed (the rest of the call is covered by the other groups)."""


def lle_cache_decision_configs(tier):
    WO_, WE_, WOE_ = ['Water', 'Octanol'], ['Water', 'Ethanol'], ['Water', 'Octanol', 'Ethanol']
    fam = [
        # pkg, chemicals present at each call (the decision of the LAST call is observed; the earlier ones run in full), top
        ('WO', [WO_, WO_], None),
        ('WOE', [WO_, WO_], 'Octanol'),
        ('WOE', [WO_, WE_], None),               # same number of chemicals, another pair
        ('WOE', [WO_, WOE_], None),              # one chemical more
        ('WOE', [WOE_, WOE_], None),
        ('WO', [WO_, WO_, WO_], None),           # two earlier calls: the remembered T / z must be those of the LAST call
        ('WOE', [WO_, WE_, WO_], 'Octanol'),     # ... and the remembered chemicals as well
    ]
    if tier == 'thorough':
        fam += [
            ('EOW', [WOE_, WOE_], 'Water'),
            ('EOW', [WOE_, ['Octanol', 'Ethanol']], None),
            ('WOE', [['Octanol', 'Ethanol'], WO_], 'Octanol'),
            ('WO', [WO_, WO_, WO_], 'Octanol'),
            ('WOE', [WOE_, WO_, WOE_], None),
        ]
    return [{'name': f"{pkg}/calls=" + '>'.join('+'.join(i[0] for i in c) for c in calls) + f"/top={top}",
             'pkg': pkg, 'calls': calls, 'top': top} for pkg, calls, top in fam]


@group('C15/lle_cache_decision', configs=lle_cache_decision_configs, functions=['thermosteam.equilibrium.lle:LLE.__call__'],
       assumptions=['A-opt (box only): LLE.solve_lle_liquid_mol returns 0 < mol_L < mol',
                    'A-phase-fraction: binary_phase_fraction.phase_fraction returns a value in [0, 1]'])
def lle_cache_decision(w, cfg):
    """
    A call never returns the equilibrium of an earlier temperature or composition: the remembered coefficients are
    reused only if the chemicals are the same and temperature and every mole fraction agree with those of the PREVIOUS
    call within the solver's own tolerances (both directions).  The earlier calls (1 or 2, each with new flows and a new
    temperature) run in full; the last call is stopped as soon as it has either asked the solver or the Rachford-Rice step.
    """
    W.reset_caches()
    env = Env(w, cfg)
    try:
        stub = install_solver(env, 'interior')      # what the earlier calls returned is irrelevant for the decision under check
        seen = {'observing': False, 'reused': None, 'guesses': [], 'call': 0}

        def phase_fraction(zs, Ks, guess=None, za=0., zb=0.):
            if seen['observing']:
                seen['reused'] = True
                raise _Stop()
            return env.leaf('phi', lo=0., hi=1.)

        real_stub = lle_mod.LLE.solve_lle_liquid_mol

        def solve(self, mol, T, lle_chemicals, single_loop):
            # what the solver is handed as its starting point (LLE._K / _phi: the pseudo-equilibrium method iterates from them)
            # and for which chemicals it was remembered (LLE._lle_chemicals is only replaced at the end of a call)
            seen['guesses'].append((seen['call'], self._K is None and self._phi is None,
                                    None if self._lle_chemicals is None else [c.ID for c in self._lle_chemicals],
                                    [c.ID for c in lle_chemicals]))
            if seen['observing']:
                seen['reused'] = False
                raise _Stop()
            return real_stub(self, mol, T, lle_chemicals, single_loop)

        env.patch(lle_mod, 'phase_fraction', phase_fraction)
        env.patch(lle_mod.LLE, 'solve_lle_liquid_mol', solve)
        pkg = cfg['pkg']
        top = cfg['top']
        calls = cfg['calls']
        s, _ = lle_stream(w, 'f', pkg, 'lL', {})
        lle = s.lle
        zs, Ts = [], []
        for n, present in enumerate(calls):
            if len(calls) > 2 and n < len(calls) - 1:
                # histories of two earlier calls: the flows of the earlier calls are fixed numbers (their temperatures, the
                # solver answers and the whole last call stay symbolic); keeps the path condition small
                plant(w, s, f'f{n}', {})
                IDs_all = s.chemicals.IDs
                leaves = {}
                for j, ID in enumerate(present):
                    leaves['l', ID] = float(1 + (j + 2 * n) % 3)
                    leaves['L', ID] = 0.
                    dict(W.rows_of(s))['l'].dct[IDs_all.index(ID)] = leaves['l', ID]
            else:
                leaves = plant(w, s, f'f{n}', {ID: {'l': '+', 'L': '+' if n else '0'} for ID in present})
            F = w_total([leaves['l', ID] + leaves['L', ID] for ID in present])
            zs.append({ID: (leaves['l', ID] + leaves['L', ID]) / F for ID in present})
            Ts.append(w.real(f'T{n}', lo=285., hi=355.))
            if n == len(calls) - 1:
                seen['observing'] = True
            seen['call'] = n
            try:
                lle(Ts[n], top_chemical=top, use_cache=True)
            except _Stop:
                pass
            except ZeroDivisionError:
                if n == len(calls) - 1:
                    raise
                w.note(outcome='ZeroDivisionError in an earlier call (arbitrary phase fraction)')
                return
        reused = seen['reused']
        if reused is None:
            raise AssertionError('the last call neither solved nor reused (contract harness out of date)')
        tolT = lle.temperature_cache_tolerance
        tolz = lle.composition_cache_tolerance
        last, prev = calls[-1], calls[-2]
        T1, T0, z1, z0 = Ts[-1], Ts[-2], zs[-1], zs[-2]
        same_chems = sorted(last) == sorted(prev)
        if reused:
            w.ensure('reuse only for the chemicals of the previous call', w.And(same_chems))
            w.ensure('reuse only at the temperature of the previous call (|T - T_last| < tolerance)',
                     w.And(w.lt(T1 - T0, tolT), w.lt(T0 - T1, tolT)))
            if same_chems:
                for ID in last:
                    w.ensure(f'reuse only at the composition of the previous call (|z - z_last| < tolerance) [{ID}]',
                             w.And(w.lt(z1[ID] - z0[ID], tolz), w.lt(z0[ID] - z1[ID], tolz)))
        else:
            w.ensure('solving anew is always allowed', w.And())
        # ... nor does a call START from the coefficients of an earlier composition: whenever the solver is asked (requires of
        # A-opt: its answer is a function of the chemicals, composition and temperature of THIS call), the coefficients /
        # phase fraction it finds remembered were stored for exactly the chemicals now in equilibrium, or nothing is remembered
        # (coefficient i of another list of chemicals belongs to another chemical, whatever the length of the list)
        for n, nothing, remembered_for, asked_for in seen['guesses']:
            if n == 0:
                w.ensure('call 0: a new solver remembers nothing', w.And(nothing, remembered_for is None))
                continue
            mine = [ID for ID in PKGS[pkg] if ID in calls[n]]
            earlier = [ID for ID in PKGS[pkg] if ID in calls[n - 1]]
            w.ensure(f'call {n}: the solver is asked about the chemicals present', w.And(asked_for == mine))
            w.ensure(f'call {n}: the solver starts from remembered coefficients only if they were stored for the chemicals now in equilibrium',
                     w.And(nothing or (remembered_for == asked_for and earlier == mine)))
        if same_chems:
            w.canary('canary: the remembered coefficients are never reused', w.And(not reused))
        else:
            w.canary('canary: the last call is at the temperature of the previous call', w.eq(T1, T0))
        w.note(reused=reused, Ts=Ts)
    finally:
        env.restore()


# --------------------------------------------------------------------------- C15/lle_reuse: reuse allowed == reuse forbidden

def lle_reuse_configs(tier):
    fam = [('WO', None)]
    return [{'name': f'{pkg}/top={top}', 'pkg': pkg, 'top': top} for pkg, top in fam]


# two liquids "of different composition": every K_i = x_L,i/x_l,i differs from 1 by more than this margin (the closed-form
# Rachford-Rice solution divides by (K1-1)(K2-1): nearer to 1 the float cross-check of a path is dominated by rounding)
K_MARGIN = 1e-3
REUSE_FUNCS = LLE_FUNCS + ['thermosteam.equilibrium.binary_phase_fraction:phase_fraction',
                           'thermosteam.equilibrium.binary_phase_fraction:compute_phase_fraction_2N']
REUSE_REQ = ('requires: two liquids of different composition (every partition coefficient differs from 1 by more than 1e-3), '
             'every mole fraction >= 1e-16 (no clamping of the stored K)')


@group('C15/lle_reuse', configs=lle_reuse_configs, functions=REUSE_FUNCS, assumptions=[A_OPT, REUSE_REQ + '; total feed 1 mol'])
def lle_reuse(w, cfg):
    """
    End to end, no top chemical: same stream, same temperature, same composition, two calls: the first solves (reuse
    impossible), the second is allowed to reuse the remembered partition coefficients.  It must give the same split (same
    flows under the same labels) as the call that could not reuse anything.  The Rachford-Rice step of the reuse branch is
    the REAL two-component closed form.

    Leaves: the solver's answer is parametrised by the fraction `beta` of the feed it puts in its first phase and the mole
    fraction of the first chemical in each of its two phases (xa, xb); the feed is z = beta*xa + (1-beta)*xb, 1 - z (every
    feed with every interior solver answer is of this form, and the terms stay small).
    """
    W.reset_caches()
    env = Env(w, cfg)
    try:
        stub = install_solver(env, 'preset')
        pkg = cfg['pkg']
        top = cfg['top']
        s, l1 = lle_stream(w, 'f', pkg, 'lL', {})
        beta = w.real('beta', lo=0., hi=1., lo_strict=True, hi_strict=True)
        xa = w.real('xa', lo=1e-16, hi=1. - 1e-16)
        xb = w.real('xb', lo=1e-16, hi=1. - 1e-16)
        for p_, q_ in ((xa, xb), (1. - xa, 1. - xb)):
            w.assume(w.Or(w.ge(p_, (1 + K_MARGIN) * q_), w.le(p_, (1 - K_MARGIN) * q_)))
        a = [beta * xa, beta * (1. - xa)]
        z0 = a[0] + (1. - beta) * xb
        row = dict(W.rows_of(s))['l']
        row.dct[0] = z0
        row.dct[1] = 1. - z0
        stub.preset = a
        lle = s.lle
        T0 = w.real('T0', lo=285., hi=355.)
        lle(T0, top_chemical=top)
        snap1 = flows_now(s)
        calls = stub.calls
        lle(T0, top_chemical=top, use_cache=True)
        snap2 = flows_now(s)
        for key in sorted(snap1):
            w.ensure(f'reuse allowed: flow{list(key)} same as in the call that had nothing to reuse', w.eq(snap2[key], snap1[key]))
        w.ensure('T is the requested temperature', w.eq(s.T, T0))
        w.canary('canary: the reuse branch is never taken', w.And(stub.calls != calls))
        w.note(solver_calls=stub.calls, reused=stub.calls == calls, snap1=snap1, snap2=snap2)
    finally:
        env.restore()


# --------------------------------------------------------------------------- C15/lle_reuse_step: the reuse branch from a consistent remembered state

def lle_reuse_step_configs(tier):
    fam = [('WO', None, 'unit'), ('WO', 'Octanol', 'unit'), ('WO', 'Water', 'unit')]
    if tier == 'thorough':
        fam += [('WO', None, 'any'), ('WO', 'Octanol', 'any'), ('WO', 'Water', 'any')]
    return [{'name': f'{pkg}/top={top}/feed={feed}', 'pkg': pkg, 'top': top, 'feed': feed} for pkg, top, feed in fam]


@group('C15/lle_reuse_step', configs=lle_reuse_step_configs, functions=REUSE_FUNCS,
       assumptions=[REUSE_REQ, 'entry state: the remembered (K, phi, T, z, chemicals) describe a two-liquid split of the present feed at the '
                               "present temperature (this is the exit state of LLE.__call__ proved as clause 'remembered state' in C15/lle_call) "
                               'whose labels already obey the top-chemical rule'])
def lle_reuse_step(w, cfg):
    """
    Modular form of 'reuse allowed == reuse forbidden' (also with a top chemical): ENTRY STATE = what a previous call at this
    temperature and composition left behind (K_i = x_L,i / x_l,i, phi = fraction of the feed in 'L'); under A-opt a call that
    may not reuse it returns exactly that split.  The reuse branch (real Rachford-Rice closed form for two chemicals, real
    top-chemical swap, real bookkeeping) must hand out the same flows under the same labels.
    """
    W.reset_caches()
    env = Env(w, cfg)
    try:
        stub = install_solver(env, 'havoc')
        pkg = cfg['pkg']
        top = cfg['top']
        IDs = PKGS[pkg]
        s, _ = lle_stream(w, 'f', pkg, 'lL', {})
        MWs = [MW_of(s)[ID] for ID in IDs]
        phi = w.real('phi', lo=0., hi=1., lo_strict=True, hi_strict=True)
        xl0 = w.real('xl', lo=1e-16, hi=1. - 1e-16)
        xL0 = w.real('xL', lo=1e-16, hi=1. - 1e-16)
        xl = [xl0, 1. - xl0]
        xL = [xL0, 1. - xL0]
        for p_, q_ in zip(xL, xl):
            w.assume(w.Or(w.ge(p_, (1 + K_MARGIN) * q_), w.le(p_, (1 - K_MARGIN) * q_)))
        if top is not None:
            k = IDs.index(top)
            # the remembered labels obey the rule for this top chemical, strictly (a tie leaves the labelling open)
            ML = w_total([x * m for x, m in zip(xL, MWs)]); Ml = w_total([x * m for x, m in zip(xl, MWs)])
            w.assume(w.gt(xL[k] * MWs[k] * Ml, xl[k] * MWs[k] * ML))
        F = 1. if cfg['feed'] == 'unit' else w.real('F', lo=1e-3, hi=1e3)
        z = [phi * p_ + (1. - phi) * q_ for p_, q_ in zip(xL, xl)]
        T0 = w.real('T0', lo=285., hi=355.)
        lle = s.lle
        lle._K = env.arr([p_ / q_ for p_, q_ in zip(xL, xl)])
        lle._phi = phi
        lle._T = T0
        lle._z_mol = env.arr(z)
        lle._lle_chemicals = [s.chemicals[ID] for ID in IDs]
        # the present feed: the remembered split itself, or everything in one phase
        rows = dict(W.rows_of(s))
        for i in range(2):
            rows['L'].dct[i] = F * (phi * xL[i])
            rows['l'].dct[i] = F * ((1. - phi) * xl[i])
        before = flows_now(s)
        lle(T0, top_chemical=top, use_cache=True)
        now = flows_now(s)
        for i, ID in enumerate(IDs):
            w.ensure(f"reuse allowed: flow['L', {ID}] is the remembered split's (= what forbidding reuse returns)", w.eq(now['L', ID], F * (phi * xL[i])))
            w.ensure(f"reuse allowed: flow['l', {ID}] is the remembered split's (= what forbidding reuse returns)", w.eq(now['l', ID], F * ((1. - phi) * xl[i])))
        w.ensure('T is the requested temperature', w.eq(s.T, T0))
        w.canary('canary: the reuse branch is never taken', w.And(stub.calls != 0))
        w.note(solver_calls=stub.calls, now=now)
    finally:
        env.restore()


# --------------------------------------------------------------------------- SLE

SOLUTE = 'Tetradecanol'
NOT_NORMAL = (NoEquilibrium, InfeasibleRegion, RuntimeError, ZeroDivisionError)


class StubGamma(eq.ActivityCoefficients):
    """A-models: activity coefficients are arbitrary positive numbers."""
    __slots__ = ('env',)
    env_now = None

    def __init__(self, chemicals):
        self._chemicals = tuple(chemicals)
        self.env = StubGamma.env_now

    def __call__(self, x, T):
        return self.env.arr([self.env.pos('gamma') for _ in self._chemicals])

    f = None
    args = ()


class _StubCn:
    def __init__(self, env): self.env = env
    def l(self, T, *a): return self.env.pos('Cn.l')
    def s(self, T, *a): return self.env.pos('Cn.s')
    def g(self, T, *a): return self.env.pos('Cn.g')
    def __call__(self, phase, T, *a): return self.env.pos('Cn')


def install_sle_stubs(env, IDs):
    """
    A-models: solubility_eutectic, Cn.l/Cn.s, activity coefficients return arbitrary values;
    A-iter:   flx.aitken evaluates its callback k times at arbitrary arguments and returns an arbitrary value.
    The solubility the real SLE._solve_x hands back is recorded (instrumentation only: the wrapper calls the real method).
    """
    class StubFlx:
        @staticmethod
        def aitken(f, x, xtol=None, args=(), maxiter=50, **kw):
            env.count('aitken')
            r = env.leaf('aitken_x')
            for _ in range(env.k):
                r = env.leaf('aitken_x')
                f(r, *args)
            return r

        def __getattr__(self, name):
            raise AssertionError(f'unexpected flexsolve call in sle.py: {name}')

    env.patch(sle_mod, 'flx', StubFlx())
    env.patch(sle_mod, 'solubility_eutectic', lambda *a, **kw: env.leaf('x_eutectic'))
    for ID in IDs:
        env.patch(W.chemical(ID), '_Cn', _StubCn(env))
    StubGamma.env_now = env
    computed = []
    real_solve_x = sle_mod.SLE._solve_x

    def _solve_x(self, T):
        x = real_solve_x(self, T)
        computed.append(x)
        return x

    env.patch(sle_mod.SLE, '_solve_x', _solve_x)
    return computed


def sle_configs(tier):
    fam = [
        # pkg, phases, pattern (chars per phase), calls, gamma, k
        ('WT', 'ls', {'Water': '+0', SOLUTE: '?+'}, ['T'], 'stub', 1),
        ('WT', 'ls', {'Water': '+0', SOLUTE: '+?'}, ['T'], 'ideal', 0),
        ('WT', 'ls', {'Water': '+0', SOLUTE: '+?'}, ['T', 'Tx'], 'ideal', 0),
        ('WT', 'ls', {'Water': '00', SOLUTE: '??'}, ['T'], 'stub', 0),               # pure solute
        ('WT', 'gls', {'Water': '?+0', SOLUTE: '0+?'}, ['T'], 'stub', 1),            # frame: the gas phase
        ('WMT', 'ls', {'Water': '+0', 'Methanol': '+0', SOLUTE: '0+'}, ['T'], 'stub', 1),
        ('WMT', 'ls', {'Water': '+0', 'Methanol': '?0', SOLUTE: '+0'}, ['T', 'Tx'], 'ideal', 0),
    ]
    if tier == 'thorough':
        fam += [
            ('WT', 'ls', {'Water': '+?', SOLUTE: '??'}, ['T'], 'stub', 2),
            ('WT', 'ls', {'Water': '?0', SOLUTE: '?+'}, ['T', 'T'], 'stub', 1),         # pure or mixed, two calls
            ('WT', 'ls', {'Water': '+0', SOLUTE: '++'}, ['T', 'Tx', 'Tx'], 'stub', 1),
            ('WMT', 'ls', {'Water': '+?', 'Methanol': '?+', SOLUTE: '++'}, ['T'], 'stub', 2),
            ('WMT', 'ls', {'Water': '00', 'Methanol': '00', SOLUTE: '?+'}, ['T'], 'ideal', 0),
        ]
    out = []
    for pkg, phases, pat, calls, gamma, k in fam:
        nm = f"{pkg}/{phases}/" + ','.join(f'{i[0]}{v}' for i, v in pat.items()) + f"/{'+'.join(calls)}/gamma={gamma}/k={k}"
        out.append({'name': nm, 'pkg': pkg, 'phases': phases, 'pattern': pat, 'calls': calls, 'gamma': gamma, 'k': k})
    # histories in which the solute amount changes BETWEEN calls (added after seeded change C15_2: a call with a given solubility
    # that works with the amount remembered from an earlier call)
    for edit in ('add-solid', 'scale', 'remove-some'):
        for calls in (['T', 'Tx'], ['Tx', 'Tx']):
            if calls == ['Tx', 'Tx'] and edit != 'add-solid' and tier == 'quick': continue
            nm = f"WT/ls/W+0,T++/{'+'.join(calls)}/gamma=ideal/k=0/edit={edit}"
            out.append({'name': nm, 'pkg': 'WT', 'phases': 'ls', 'pattern': {'Water': '+0', SOLUTE: '++'}, 'calls': calls, 'gamma': 'ideal', 'k': 0, 'edit': edit})
    return out


@group('C15/sle', configs=sle_configs,
       functions=['thermosteam.equilibrium.sle:SLE.__call__', 'thermosteam.equilibrium.sle:SLE._setup',
                  'thermosteam.equilibrium.sle:SLE._update_solubility', 'thermosteam.equilibrium.sle:SLE._solve_x',
                  'thermosteam.equilibrium.sle:SLE._x_iter'],
       assumptions=['A-models: solubility_eutectic, Cn, activity coefficients return arbitrary values',
                    'A-iter: flx.aitken only evaluates its callback (k times, arbitrary arguments)'])
def sle(w, cfg):
    """
    Calls: 'T' = sle(solute, T=T) (solubility computed), 'Tx' = sle(solute, T=T, solubility=x) (given).
    Only the named solute moves, no more dissolves than the solubility (computed or given) allows nor than is present;
    a pure solute is all liquid above its melting point and all solid below.
    """
    W.reset_caches()
    env = Env(w, cfg)
    IDs = PKGS[cfg['pkg']]
    try:
        computed = install_sle_stubs(env, IDs)
        chems = W.thermo(IDs).chemicals
        th = tmo.Thermo(chems, Gamma=StubGamma if cfg['gamma'] == 'stub' else eq.IdealActivityCoefficients)
        phases = cfg['phases']
        s = tmo.MultiStream(None, phases=tuple(phases), thermo=th)
        plant(w, s, 'f', dist_of(cfg['pkg'], phases, cfg['pattern']))
        Tm = float(chems[SOLUTE].Tm)
        sle_obj = s.sle
        now = None
        P0 = s.P
        for n, call in enumerate(cfg['calls']):
            tag = f'call {n}: '
            if n and cfg.get('edit'):
                # the stream is edited between the calls: the next call must work with what is present NOW
                i_sol = chems.index(SOLUTE)
                rows = dict(W.rows_of(s))
                if cfg['edit'] == 'add-solid':
                    rows['s'].dct[i_sol] = rows['s'].dct.get(i_sol, 0.) + w.real(f'added{n}', lo=0., lo_strict=True)
                elif cfg['edit'] == 'scale':
                    s.scale(w.real(f'scale{n}', lo=1e-3, hi=1e3))
                elif cfg['edit'] == 'remove-some':
                    frac = w.real(f'keep{n}', lo=0., hi=1., lo_strict=True, hi_strict=True)
                    for ph in 'ls':
                        if i_sol in rows[ph].dct: rows[ph].dct[i_sol] = rows[ph].dct[i_sol] * frac
            T = w.real(f'T{n}', lo=250., hi=450.)
            kw = {'T': T}
            if call == 'Tx':
                kw['solubility'] = w.real(f'x{n}')
            pre = flows_now(s)
            others_present = any(i != chems.index(SOLUTE) for ph, sv in W.rows_of(s) if ph in 'ls' for i in sv.dct)
            del computed[:]
            try:
                sle_obj(SOLUTE, **kw)
            except NOT_NORMAL as e:
                w.note(outcome=type(e).__name__)
                return
            now = flows_now(s)
            total = pre['l', SOLUTE] + pre['s', SOLUTE]
            for (ph, ID), v in sorted(now.items()):
                if ID != SOLUTE or ph not in 'ls':
                    w.ensure(f'{tag}frame: only the solute moves (between l and s), flow[{ph},{ID}] unchanged', w.eq(v, pre[ph, ID]))
            w.ensure(f'{tag}solute conserved over l+s', w.eq(now['l', SOLUTE] + now['s', SOLUTE], total))
            w.ensure(f'{tag}no more dissolved than present, nothing negative',
                     w.And(w.ge(now['l', SOLUTE], 0.), w.le(now['l', SOLUTE], total), w.ge(now['s', SOLUTE], 0.)))
            w.ensure(f'{tag}T is the requested temperature', w.eq(s.T, T))
            w.ensure(f'{tag}frame: P unchanged', w.eq(s.P, P0))
            w.ensure(f'{tag}rep_ok (no stored zero)', rep_ok(w, s))
            x = kw.get('solubility', computed[-1] if computed else None)
            if x is not None:
                other_liquid = w_total([now['l', ID] for ID in IDs if ID != SOLUTE])
                dissolved = now['l', SOLUTE]
                w.ensure(f'{tag}no more dissolved than the solubility allows (mole fraction of the solute in the liquid <= x)',
                         w.Or(w.And(w.lt(x, 0.), w.eq(dissolved, 0.)),
                              w.And(w.ge(x, 0.), w.lt(x, 1.), w.le(dissolved * (1. - x), x * other_liquid)),
                              w.ge(x, 1.)))
            if not others_present:
                w.ensure(f'{tag}pure solute: all liquid above the melting point, all solid below',
                         w.And(w.Implies(w.gt(T, Tm), w.And(w.eq(now['l', SOLUTE], total), w.eq(now['s', SOLUTE], 0.))),
                               w.Implies(w.lt(T, Tm), w.And(w.eq(now['s', SOLUTE], total), w.eq(now['l', SOLUTE], 0.)))))
            elif x is None:
                raise AssertionError('mixture, but no solubility was computed or given (contract harness out of date)')
        w.canary('canary: the solid solute is what it was + 1', w.eq(now['s', SOLUTE], pre['s', SOLUTE] + 1))
        w.note(calls=dict(env.calls), flows=now)
    finally:
        env.restore()
        StubGamma.env_now = None


# --------------------------------------------------------------------------- C15/sle_history: one remembered solver, changing contents / solutes

SOLUTE2 = 'Hexadecanol'                               # Tm = 322.65 K (Tetradecanol: 312.65 K), both with a heat of fusion
WTH = ('Water', SOLUTE, SOLUTE2)
PKGS['WTH'] = WTH
W.preload([WTH])
_SHORT = {'Water': 'W', SOLUTE: 'T', SOLUTE2: 'H', 'Methanol': 'M'}


def sle_history_configs(tier):
    """
    A history is a list of steps on ONE stream (hence one remembered SLE solver): (contents, solute, call).  contents: None =
    what the previous call left, otherwise the stream is emptied and refilled ({ID: chars for the phases 'l','s'}); call 'T' =
    solubility computed, 'Tx' = given.  Every call is held to the sentences of the property for the solute IT names and
    the contents it finds.
    """
    pT, pH = {SOLUTE: '+?'}, {SOLUTE2: '?+'}
    mT, mH = {'Water': '+0', SOLUTE: '++'}, {'Water': '+0', SOLUTE2: '++'}
    both = {'Water': '+0', SOLUTE: '+0', SOLUTE2: '0+'}
    fam = [
        # two pure solutes one after the other: each is melted / frozen at ITS melting point
        ('pureT>pureH', [(pT, SOLUTE, 'T'), (pH, SOLUTE2, 'T')], 'stub', 0),
        ('pureH>pureT', [(pH, SOLUTE2, 'T'), (pT, SOLUTE, 'T')], 'stub', 0),
        # a pure solute, then the same solute in a solvent (and back): the mixture needs a solubility, the pure solute none
        ('pureT>mixT', [(pT, SOLUTE, 'T'), (mT, SOLUTE, 'T')], 'stub', 1),
        ('mixT>pureT>mixT', [(mT, SOLUTE, 'T'), ({SOLUTE: '++'}, SOLUTE, 'T'), (mT, SOLUTE, 'T')], 'ideal', 0),
        ('pureT>mixT.given', [(pT, SOLUTE, 'T'), (mT, SOLUTE, 'Tx')], 'ideal', 0),
        # another solute in the same solvent / two solutes present, named in turn without refilling
        ('mixT>mixH', [(mT, SOLUTE, 'T'), (mH, SOLUTE2, 'T')], 'stub', 1),
        ('both:T>H', [(both, SOLUTE, 'T'), (None, SOLUTE2, 'T')], 'ideal', 0),
        ('both:T.given>H', [(both, SOLUTE, 'Tx'), (None, SOLUTE2, 'T')], 'stub', 1),
    ]
    if tier == 'thorough':
        fam += [
            ('pureT>pureH>pureT', [(pT, SOLUTE, 'T'), (pH, SOLUTE2, 'T'), (pT, SOLUTE, 'T')], 'stub', 0),
            ('pureH>pureH>pureT>pureH', [(pH, SOLUTE2, 'T'), (None, SOLUTE2, 'T'), (pT, SOLUTE, 'T'), (pH, SOLUTE2, 'T')], 'ideal', 0),
            ('mixH>pureT>pureH', [(mH, SOLUTE2, 'T'), (pT, SOLUTE, 'T'), (pH, SOLUTE2, 'T')], 'stub', 1),
            ('pureH>mixH>mixT', [(pH, SOLUTE2, 'T'), (mH, SOLUTE2, 'T'), (mT, SOLUTE, 'T')], 'stub', 1),
            ('mixT.given>pureH>mixH.given', [(mT, SOLUTE, 'Tx'), (pH, SOLUTE2, 'T'), (mH, SOLUTE2, 'Tx')], 'ideal', 0),
            ('both:H>T>H', [(both, SOLUTE2, 'T'), (None, SOLUTE, 'T'), (None, SOLUTE2, 'Tx')], 'stub', 1),
            ('maybe-pure:T>H', [({'Water': '?0', SOLUTE: '+?'}, SOLUTE, 'T'), ({'Water': '?0', SOLUTE2: '?+'}, SOLUTE2, 'T')], 'stub', 1),
        ]
    return [{'name': f'WTH/{nm}/gamma={gamma}/k={k}', 'pkg': 'WTH', 'gamma': gamma, 'k': k,
             'steps': [{'fill': fill, 'solute': sol, 'call': call} for fill, sol, call in steps]} for nm, steps, gamma, k in fam]


@group('C15/sle_history', configs=sle_history_configs,
       functions=['thermosteam.equilibrium.sle:SLE.__call__', 'thermosteam.equilibrium.sle:SLE._setup',
                  'thermosteam.equilibrium.sle:SLE._update_solubility', 'thermosteam.equilibrium.sle:SLE._solve_x',
                  'thermosteam.equilibrium.sle:SLE._x_iter'],
       assumptions=['A-models: solubility_eutectic, Cn, activity coefficients return arbitrary values',
                    'A-iter: flx.aitken only evaluates its callback (k times, arbitrary arguments)'])
def sle_history(w, cfg):
    """
    The sentences of C15/sle after a history on the same stream in which the contents and / or the named solute change: only
    the solute named in THIS call moves, no more of it dissolves than the solubility computed / given in THIS call allows nor
    than is present NOW, and a solute that is pure NOW is all liquid above ITS melting point and all solid below; a solute
    that is in a solvent NOW is split by a solubility (it is not melted / frozen as a pure substance).
    """
    W.reset_caches()
    env = Env(w, cfg)
    IDs = PKGS[cfg['pkg']]
    try:
        computed = install_sle_stubs(env, IDs)
        chems = W.thermo(IDs).chemicals
        th = tmo.Thermo(chems, Gamma=StubGamma if cfg['gamma'] == 'stub' else eq.IdealActivityCoefficients)
        s = tmo.MultiStream(None, phases=('l', 's'), thermo=th)
        sle_obj = s.sle
        P0 = s.P
        now = pre = solute = None
        for n, step in enumerate(cfg['steps']):
            tag = f'call {n}: '
            if step['fill'] is not None:
                plant(w, s, f'f{n}', dist_of(cfg['pkg'], 'ls', step['fill']))       # emptied and refilled
            solute = step['solute']
            i_sol = chems.index(solute)
            Tm = float(chems[solute].Tm)
            T = w.real(f'T{n}', lo=250., hi=450.)
            kw = {'T': T}
            if step['call'] == 'Tx':
                kw['solubility'] = w.real(f'x{n}')
            pre = flows_now(s)
            others_present = any(i != i_sol for ph, sv in W.rows_of(s) for i in sv.dct)
            del computed[:]
            try:
                sle_obj(solute, **kw)
            except NOT_NORMAL as e:
                w.note(outcome=type(e).__name__, at_call=n)
                return
            w.ensure(f'{tag}the same solver serves every call on the stream', w.And(s.sle is sle_obj))
            now = flows_now(s)
            total = pre['l', solute] + pre['s', solute]
            for (ph, ID), v in sorted(now.items()):
                if ID != solute:
                    w.ensure(f'{tag}frame: only the named solute moves, flow[{ph},{ID}] unchanged', w.eq(v, pre[ph, ID]))
            w.ensure(f'{tag}solute conserved over l+s', w.eq(now['l', solute] + now['s', solute], total))
            w.ensure(f'{tag}no more dissolved than present, nothing negative',
                     w.And(w.ge(now['l', solute], 0.), w.le(now['l', solute], total), w.ge(now['s', solute], 0.)))
            w.ensure(f'{tag}T is the requested temperature', w.eq(s.T, T))
            w.ensure(f'{tag}frame: P unchanged', w.eq(s.P, P0))
            w.ensure(f'{tag}rep_ok (no stored zero)', rep_ok(w, s))
            x = kw.get('solubility', computed[-1] if computed else None)
            if x is not None:
                other_liquid = w_total([now['l', ID] for ID in IDs if ID != solute])
                dissolved = now['l', solute]
                w.ensure(f'{tag}no more dissolved than the solubility allows (mole fraction of the solute in the liquid <= x)',
                         w.Or(w.And(w.lt(x, 0.), w.eq(dissolved, 0.)),
                              w.And(w.ge(x, 0.), w.lt(x, 1.), w.le(dissolved * (1. - x), x * other_liquid)),
                              w.ge(x, 1.)))
            if not others_present:
                w.ensure(f'{tag}pure solute: all liquid above ITS melting point, all solid below',
                         w.And(w.Implies(w.gt(T, Tm), w.And(w.eq(now['l', solute], total), w.eq(now['s', solute], 0.))),
                               w.Implies(w.lt(T, Tm), w.And(w.eq(now['s', solute], total), w.eq(now['l', solute], 0.)))))
            else:
                w.ensure(f'{tag}solute in a solvent: split by a solubility computed or given in this call (not melted / frozen as a pure substance)',
                         w.And(x is not None))
        w.canary('canary: the solid solute is what it was + 1', w.eq(now['s', solute], pre['s', solute] + 1))
        w.note(calls=dict(env.calls), flows=now)
    finally:
        env.restore()
        StubGamma.env_now = None


# --------------------------------------------------------------------------- C15/solver_cache: one solver per stream until reset_cache

def cache_configs(tier):
    return [{'name': f'{kind}/{which}', 'kind': kind, 'which': which} for kind in ('stream', 'multistream') for which in ('lle', 'sle')]


@group('C15/solver_cache', configs=cache_configs,
       functions=['thermosteam.utils.cache:Cache.retrieve', 'thermosteam.utils.cache:Cache.__call__',
                  'thermosteam._multi_stream:MultiStream.reset_cache', 'thermosteam._multi_stream:MultiStream.lle',
                  'thermosteam._multi_stream:MultiStream.sle', 'thermosteam._stream:Stream.lle', 'thermosteam._stream:Stream.sle'])
def solver_cache(w, cfg):
    """LLECache / SLECache: a stream keeps one solver (bound to ITS flows and thermal condition) until reset_cache; streams never share one."""
    W.reset_caches()
    which = cfg['which']
    pkg = 'WO' if which == 'lle' else 'WT'
    phases = ('l', 'L') if which == 'lle' else ('l', 's')

    def make(name):
        if cfg['kind'] == 'stream':
            s, _ = W.make_stream(w, name, PKGS[pkg], 'l', present={'default': 'pos'})
        else:
            s, _ = W.make_stream(w, name, PKGS[pkg], phases, present={'default': 'zero', ('l', 'Water'): 'pos', ('l', PKGS[pkg][1]): 'pos'})
        return s
    a = make('a')
    b = make('b')
    before = W.total_by_CAS(a)
    A1 = getattr(a, which)
    A2 = getattr(a, which)
    B1 = getattr(b, which)
    cls = eq.LLE if which == 'lle' else eq.SLE
    w.ensure('the solver is of the advertised class', w.And(type(A1) is cls, type(B1) is cls))
    w.ensure('one solver per stream: asking twice gives the same object', w.And(A1 is A2))
    w.ensure('two streams never share a solver', w.And(A1 is not B1))
    w.ensure('the solver works on the flows and thermal condition of its stream',
             w.And(A1.imol is a.imol, A1.thermal_condition is a._thermal_condition, B1.imol is b.imol,
                   B1.thermal_condition is b._thermal_condition, A1.thermo is a.thermo))
    w.ensure('asking for the solver moves no material', w.all_eq(W.total_by_CAS(a).values(), before.values()))
    if which == 'lle':
        A1._K = 'remembered'          # a mark in the remembered state
    else:
        A1._x = 'remembered'
    a.reset_cache()
    A3 = getattr(a, which)
    w.ensure('reset_cache: a new solver', w.And(A3 is not A1, type(A3) is cls))
    w.ensure('reset_cache: nothing remembered', w.And((A3._K is None and A3._phi is None and A3._lle_chemicals is None) if which == 'lle' else A3._x is None))
    w.ensure('reset_cache: still one solver per stream', w.And(getattr(a, which) is A3, A3.imol is a.imol, A3.thermal_condition is a._thermal_condition))
    w.ensure('reset_cache of one stream leaves the other stream its solver', w.And(getattr(b, which) is B1))
    # the cache object itself: same arguments -> same value, other arguments -> a fresh value for those arguments
    cache = a._lle_cache if which == 'lle' else a._sle_cache
    v1 = cache(*cache.args)
    w.ensure('Cache.__call__ with the same arguments returns the kept solver', w.And(v1 is A3))
    v2 = cache(b._imol, b._thermal_condition, b._thermo)
    w.ensure('Cache.__call__ with other arguments loads a solver for those', w.And(v2 is not A3, v2.imol is b._imol, cache.retrieve() is v2))
    w.canary('canary: both streams share one solver', w.And(A1 is B1))


# =========================================================================== mode B: the REAL solvers (bounded, never counted as proved)

B_FAMILIES = {
    'WOcE': ('Water', 'Octanol', 'Ethanol'),
    'WBu': ('Water', 'Butanol'),
    'WHxE': ('Water', 'Hexane', 'Ethanol'),
    'WEaE': ('Water', 'EthylAcetate', 'Ethanol'),
}
B_FEEDS = {
    'WOcE': [(100., 100., 20.), (60., 140., 35.), (150., 40., 10.)],
    'WBu': [(100., 50.), (70., 90.), (40., 15.)],
    'WHxE': [(100., 100., 30.), (50., 120., 20.), (120., 30., 45.)],
    'WEaE': [(100., 100., 10.), (80., 60., 15.), (40., 120., 5.)],
}
B_METHODS = {'pseudo': 'pseudo equilibrium', 'shgo': 'shgo', 'de': 'differential evolution'}
# equal-activity tolerance per solver (relative): the fixed-point method iterates to xtol 1e-9 / 1e-12,
# the two optimisers minimise the Gibbs energy to f_tol / tol 1e-6
ACT_TOL = {'pseudo': 1e-3, 'shgo': 2e-2, 'de': 2e-2}
SPLIT_RTOL = 1e-3           # "same split": every flow within 1e-3 of the total feed
W.preload(list(B_FAMILIES.values()))
# ReferenceError: numba cache-index problem (see the top of this file); b_call retries once, a second failure is "no result"
B_ERRORS = (NoEquilibrium, InfeasibleRegion, ZeroDivisionError, FloatingPointError, RuntimeError, ReferenceError)


def b_stream(fam, flows, scale=1.):
    s = tmo.MultiStream(None, phases=('l', 'L'), thermo=W.thermo(B_FAMILIES[fam]))
    b_set_feed(s, flows, scale)
    return s


def b_set_feed(s, flows, scale=1.):
    s.imol['L'] = 0
    s.imol['l'] = np.asarray(flows, dtype=float) * scale


def b_call(s, T, method, top, use_cache=True):
    lle = s.lle
    lle.method = B_METHODS[method]
    try:
        lle(T, top_chemical=top, use_cache=use_cache)
    except ReferenceError:
        # numba cache-index problem described at the top of this file (raised while SAVING a freshly compiled function, i.e.
        # before the solver ran: the call has only pooled l+L in 'L' and set T, which the repeated call does again):
        # start from an empty index and repeat the call
        purge_lle_numba_cache()
        lle(T, top_chemical=top, use_cache=use_cache)


def b_flows(s):
    n = len(s.chemicals.IDs)
    out = {}
    for ph, sv in W.rows_of(s):
        out[ph] = np.array([float(sv.dct.get(i, 0.)) for i in range(n)])
    return out


def b_activities(s, fl):
    gamma = s.thermo.Gamma(s.chemicals.tuple)
    acts = {}
    for ph in ('l', 'L'):
        x = fl[ph] / fl[ph].sum()
        acts[ph] = x * gamma(x, s.T)
    return acts


def b_same_split(fa, fb, F, rtol=SPLIT_RTOL):
    return all(abs(float(fa[ph][i]) - float(fb[ph][i])) <= rtol * F for ph in ('l', 'L') for i in range(len(fa[ph])))


def b_round(fl):
    return {ph: [round(float(v), 5) for v in a] for ph, a in fl.items()}


def _b_tops(fam, tier):
    IDs = B_FAMILIES[fam]
    return [None, IDs[1]] if tier == 'quick' else [None] + list(IDs)


def _b_Ts(tier):
    return [290., 350.] if tier == 'quick' else [285., 295., 305., 315., 325., 335., 345., 355.]


def _seeded_feeds(fam, n):
    """Extra pseudo-random compositions (deterministic: derived from VERIF_SEED)."""
    import random
    rnd = random.Random(f"C15/{fam}/{os.environ.get('VERIF_SEED', '0') or 0}")
    k = len(B_FAMILIES[fam])
    return [tuple(round(rnd.uniform(20., 150.), 1) if i < 2 else round(rnd.uniform(2., 40.), 1) for i in range(k)) for _ in range(n)]


def _b_feeds(fam, tier):
    return B_FEEDS[fam][:1] if tier == 'quick' else B_FEEDS[fam] + _seeded_feeds(fam, 2)


def real_split_configs(tier):
    out = []
    for fam in B_FAMILIES:
        for fi, feed in enumerate(_b_feeds(fam, tier)):
            for T in _b_Ts(tier):
                for m in B_METHODS:
                    for top in _b_tops(fam, tier):
                        out.append({'name': f'{fam}/feed{fi}/T={T:g}/method={m}/top={top}', 'fam': fam, 'feed': list(feed), 'T': T,
                                    'method': m, 'top': top, 'scales': [1e-3, 1e3] if tier == 'quick' else [1e-3, 0.37, 21., 1e3]})
    return out


B_NOTES = ('families Water/Octanol/Ethanol, Water/Butanol, Water/Hexane/Ethanol, Water/EthylAcetate/Ethanol; quick: 1 feed x T in {290,350} K; '
           'thorough: 5 feeds (2 seeded by VERIF_SEED) x T 285..355 K step 10; methods pseudo equilibrium / shgo / differential evolution; '
           'top chemical None or each chemical; scale factors 1e-3..1e3; equal-activity tolerance 1e-3 (pseudo equilibrium) / 2e-2 (optimisers)')


@group('C15/real_split', configs=real_split_configs, mode='B', notes=B_NOTES,
       functions=['thermosteam.equilibrium.lle:LLE.__call__', 'thermosteam.equilibrium.lle:LLE.solve_lle_liquid_mol',
                  'thermosteam.equilibrium.lle:pseudo_equilibrium', 'thermosteam.equilibrium.lle:psuedo_equilibrium_inner_loop',
                  'thermosteam.equilibrium.lle:lle_objective_function'])
def real_split(w, cfg):
    """Fresh stream, real solver: equal activities in both liquids, top-chemical rule, conservation, proportionality under scaling."""
    W.reset_caches()
    fam, feed, T, m, top = cfg['fam'], cfg['feed'], cfg['T'], cfg['method'], cfg['top']
    IDs = B_FAMILIES[fam]
    F = sum(feed)
    s = b_stream(fam, feed)
    try:
        b_call(s, T, m, top)
    except B_ERRORS as e:
        w.note(outcome=type(e).__name__)
        return
    fl = b_flows(s)
    for i, ID in enumerate(IDs):
        w.ensure(f'total[{ID}] over l+L unchanged', abs(fl['l'][i] + fl['L'][i] - feed[i]) <= 1e-9 * F and fl['l'][i] >= 0. and fl['L'][i] >= 0.)
    two = fl['l'].sum() > 1e-9 * F and fl['L'].sum() > 1e-9 * F
    w.note(flows=b_round(fl), two_liquids=bool(two))
    if two:
        acts = b_activities(s, fl)
        for i, ID in enumerate(IDs):
            al, aL = float(acts['l'][i]), float(acts['L'][i])
            w.ensure(f'two liquids: equal activity x*gamma of {ID} in both', abs(al - aL) <= ACT_TOL[m] * max(abs(al), abs(aL)),
                     activity_l=al, activity_L=aL, flows=b_round(fl))
        if top is not None:
            MW = s.chemicals.MW
            k = IDs.index(top)
            wL = fl['L'][k] * MW[k] / (fl['L'] * MW).sum()
            wl = fl['l'][k] * MW[k] / (fl['l'] * MW).sum()
            w.ensure(f'top chemical {top}: mass fraction in L >= in l', wL >= wl - 1e-12, w_L=float(wL), w_l=float(wl))
    w.canary('canary (not evaluated in mode B): the whole feed ends up in one liquid', fl['l'].sum() == 0. or fl['L'].sum() == 0.)
    for k in cfg['scales']:
        s2 = b_stream(fam, feed, k)
        try:
            b_call(s2, T, m, top)
        except B_ERRORS as e:
            w.ensure(f'scaled by {k:g}: returns as the unscaled call does', False, outcome=type(e).__name__)
            continue
        f2 = b_flows(s2)
        w.ensure(f'scaled by {k:g}: flows proportional to the feed',
                 all(abs(f2[ph][i] - k * fl[ph][i]) <= 1e-6 * k * F for ph in ('l', 'L') for i in range(len(IDs))),
                 flows=b_round(fl), scaled=b_round({ph: a / k for ph, a in f2.items()}))


# --------------------------------------------------------------------------- histories on the same stream

def _histories(tier):
    """name -> list of earlier calls (dT relative to the target temperature, feed: 'same' or 'other')."""
    h = {
        'hotter': [(+40., 'same')],
        'colder': [(-40., 'same')],
        'same': [(0., 'same')],
        'hotter-otherz+colder': [(+30., 'other'), (-30., 'same')],
    }
    if tier == 'thorough':
        h.update({
            'otherz': [(0., 'other')],
            'colder+hotter': [(-30., 'same'), (+30., 'same')],
            'same+same': [(0., 'same'), (0., 'same')],
            'same+hotter': [(0., 'same'), (+30., 'same')],      # the remembered T / z must be those of the LAST call
            'same+otherz': [(0., 'same'), (0., 'other')],
            'otherz+same': [(0., 'other'), (0., 'same')],
            'hotter+colder+same': [(+30., 'same'), (-30., 'same'), (0., 'same')],
            'otherz+hotter-otherz+colder': [(0., 'other'), (+25., 'other'), (-25., 'same')],
            'colder+colder2+hotter+otherz': [(-10., 'same'), (-20., 'same'), (+15., 'same'), (0., 'other')],
        })
    return h


def real_history_configs(tier):
    out = []
    Ts = [320.] if tier == 'quick' else [300., 320., 340.]
    for fam in B_FAMILIES:
        feeds = B_FEEDS[fam]
        for T in Ts:
            for m in B_METHODS:
                for top in _b_tops(fam, tier):
                    for hname, hist in _histories(tier).items():
                        out.append({'name': f'{fam}/T={T:g}/method={m}/top={top}/hist={hname}', 'fam': fam, 'feed': list(feeds[0]),
                                    'other': list(feeds[1]), 'T': T, 'method': m, 'top': top, 'hist': [list(i) for i in hist]})
    return out


@group('C15/real_history', configs=real_history_configs, mode='B',
       notes=B_NOTES + '; histories of 1-4 earlier calls at other temperatures (+-10..40 K) / another composition on the same stream, '
                       'compared with a fresh stream and with reuse of the remembered coefficients allowed / forbidden; same split = every flow within 1e-3 of the total feed',
       functions=['thermosteam.equilibrium.lle:LLE.__call__', 'thermosteam.equilibrium.lle:LLE.solve_lle_liquid_mol',
                  'thermosteam.equilibrium.lle:pseudo_equilibrium', 'thermosteam.utils.cache:Cache.retrieve'])
def real_history(w, cfg):
    """A call never returns the equilibrium of an earlier temperature or composition: after any history the split is the fresh stream's."""
    W.reset_caches()
    fam, feed, other, T, m, top = cfg['fam'], cfg['feed'], cfg['other'], cfg['T'], cfg['method'], cfg['top']
    F = sum(feed)
    fresh = b_stream(fam, feed)
    try:
        b_call(fresh, T, m, top)
    except B_ERRORS as e:
        w.note(outcome=type(e).__name__)
        return
    f0 = b_flows(fresh)
    results = {}
    for use_cache in (True, False):
        s = b_stream(fam, feed)
        try:
            for dT, which in cfg['hist']:
                b_set_feed(s, feed if which == 'same' else other)
                b_call(s, T + dT, m, top)
            b_set_feed(s, feed)
            b_call(s, T, m, top, use_cache=use_cache)
        except B_ERRORS as e:
            w.note(**{f'outcome_reuse_{use_cache}': type(e).__name__})
            continue
        results[use_cache] = b_flows(s)
    w.note(fresh=b_round(f0), **{f'reuse_{k}': b_round(v) for k, v in results.items()})
    w.canary('canary (not evaluated in mode B): the fresh stream stays one liquid', f0['l'].sum() == 0. or f0['L'].sum() == 0.)
    if True in results:
        w.ensure('after the history, reuse allowed: same split as a fresh stream', b_same_split(results[True], f0, F),
                 fresh=b_round(f0), got=b_round(results[True]))
    if False in results:
        w.ensure('after the history, reuse forbidden: same split as a fresh stream', b_same_split(results[False], f0, F),
                 fresh=b_round(f0), got=b_round(results[False]))
    if True in results and False in results:
        w.ensure('after the history: reuse allowed gives the same split as reuse forbidden', b_same_split(results[True], results[False], F),
                 allowed=b_round(results[True]), forbidden=b_round(results[False]))


# --------------------------------------------------------------------------- histories on the same stream with OTHER chemicals

# "another composition" of the quantifier also means another list of chemicals: the stream is emptied and refilled.  One package
# with six chemicals (partially miscible pairs water/alcohol, water/ester, water/hydrocarbon); a feed names the chemicals present.
B_CHEM_PKG = ('Water', 'Ethanol', 'Octane', 'Butanol', 'Hexane', 'EthylAcetate')
W.preload([B_CHEM_PKG])
B_CHEM_FEEDS = {
    'WEO': {'Water': 30., 'Ethanol': 3., 'Octane': 10.},
    'WEB': {'Water': 30., 'Ethanol': 3., 'Butanol': 10.},
    'WO': {'Water': 50., 'Octane': 10.},
    'WB': {'Water': 50., 'Butanol': 20.},
    'WHE': {'Water': 20., 'Hexane': 5., 'Ethanol': 2.},
    'WEaE': {'Water': 20., 'EthylAcetate': 15., 'Ethanol': 2.},
    'WEOH': {'Water': 30., 'Ethanol': 3., 'Octane': 10., 'Hexane': 1.},
    'WBEa': {'Water': 40., 'Butanol': 12., 'EthylAcetate': 8.},
}
# target feed -> earlier contents: the same NUMBER of chemicals (coefficient vectors of equal length), fewer, more
B_CHEM_OTHERS = {
    'WEB': ['WEO', 'WO', 'WEOH'],
    'WB': ['WO', 'WEaE'],
    'WEaE': ['WHE', 'WB', 'WEOH'],
    'WEO': ['WEB', 'WBEa', 'WB'],
    'WEOH': ['WEB', 'WB'],
    'WBEa': ['WHE', 'WEO'],
}


def real_history_chemicals_configs(tier):
    out = []
    quick = tier == 'quick'
    targets = ['WEB', 'WB', 'WEaE', 'WEO'] if quick else list(B_CHEM_OTHERS)
    for tname in targets:
        target = B_CHEM_FEEDS[tname]
        others = B_CHEM_OTHERS[tname]
        tops = [None, list(target)[-2 if tname == 'WEaE' else -1]] if quick else [None] + list(target)
        # histories: list of (feed, dT); the LAST earlier call always has another list of chemicals than the target
        hists = {f'{others[0]}': [(others[0], 0.)],
                 f'{others[1]}.hot+{others[0]}.cold': [(others[1], +30.), (others[0], -20.)]}
        if not quick:
            hists.update({f'{o}.hot': [(o, +25.)] for o in others})
            hists.update({f'{tname}+{others[0]}': [(tname, 0.), (others[0], 0.)],                       # the target itself, then other chemicals
                          f'{others[0]}+{tname}.cold+{others[-1]}+{others[0]}.hot': [(others[0], 0.), (tname, -15.), (others[-1], 0.), (others[0], +10.)]})
        for T in ([300.] if quick else [290., 320., 350.]):
            for m in B_METHODS:
                for top in tops:
                    if quick and m != 'pseudo' and top is None: continue
                    for hname, hist in hists.items():
                        out.append({'name': f'{tname}/T={T:g}/method={m}/top={top}/hist={hname}', 'target': tname, 'T': T, 'method': m,
                                    'top': top, 'hist': [list(i) for i in hist]})
    return out


def b_fill(s, flows):
    """Empty both liquids and refill 'l' with {ID: mol}."""
    for ph, sv in W.rows_of(s):
        sv.dct.clear()
    IDs = s.chemicals.IDs
    row = dict(W.rows_of(s))['l']
    for ID, v in flows.items():
        row.dct[IDs.index(ID)] = float(v)


@group('C15/real_history_chemicals', configs=real_history_chemicals_configs, mode='B',
       notes='one package Water/Ethanol/Octane/Butanol/Hexane/EthylAcetate; target feeds of 2-4 of them; histories of 1-4 earlier calls on the same '
             'stream after which it is emptied and refilled, the last earlier call always with ANOTHER list of chemicals (the same number of them, '
             'fewer or more) at T, T-20..T+30 K; quick: T = 300 K, thorough: 290/320/350 K; methods pseudo equilibrium / shgo / differential '
             'evolution; top chemical None or one of the chemicals; compared with a new stream of identical contents, reuse of the remembered '
             'coefficients allowed / forbidden; same split = every flow within 1e-3 of the total feed',
       functions=['thermosteam.equilibrium.lle:LLE.__call__', 'thermosteam.equilibrium.lle:LLE.solve_lle_liquid_mol',
                  'thermosteam.equilibrium.lle:LLE.get_liquid_mol_data', 'thermosteam.equilibrium.lle:pseudo_equilibrium',
                  'thermosteam.utils.cache:Cache.retrieve'])
def real_history_chemicals(w, cfg):
    """
    A call never returns the equilibrium of an earlier composition, also when the earlier composition was one of OTHER chemicals:
    after any such history the split is the one a new stream with the same contents gets, with reuse allowed and forbidden.
    """
    W.reset_caches()
    T, m, top = cfg['T'], cfg['method'], cfg['top']
    target = B_CHEM_FEEDS[cfg['target']]
    F = sum(target.values())
    th = W.thermo(B_CHEM_PKG)
    fresh = tmo.MultiStream(None, phases=('l', 'L'), thermo=th)
    b_fill(fresh, target)
    try:
        b_call(fresh, T, m, top)
    except B_ERRORS as e:
        w.note(outcome=type(e).__name__)
        return
    f0 = b_flows(fresh)
    IDs = th.chemicals.IDs
    for i, ID in enumerate(IDs):
        w.ensure(f'new stream: total[{ID}] over l+L unchanged', abs(f0['l'][i] + f0['L'][i] - target.get(ID, 0.)) <= 1e-9 * F)
    results = {}
    for use_cache in (True, False):
        s = tmo.MultiStream(None, phases=('l', 'L'), thermo=th)
        try:
            for feed, dT in cfg['hist']:
                b_fill(s, B_CHEM_FEEDS[feed])
                b_call(s, T + dT, m, top if top in B_CHEM_FEEDS[feed] else None)
            b_fill(s, target)
            b_call(s, T, m, top, use_cache=use_cache)
        except B_ERRORS as e:
            w.note(**{f'outcome_reuse_{use_cache}': type(e).__name__})
            continue
        results[use_cache] = b_flows(s)
    w.note(fresh=b_round(f0), **{f'reuse_{k}': b_round(v) for k, v in results.items()})
    w.canary('canary (not evaluated in mode B): the new stream stays one liquid', f0['l'].sum() == 0. or f0['L'].sum() == 0.)
    for use_cache, word in ((True, 'allowed'), (False, 'forbidden')):
        if use_cache in results:
            got = results[use_cache]
            w.ensure(f'after a history with other chemicals, reuse {word}: every chemical conserved, nothing of the earlier contents left',
                     all(abs(got['l'][i] + got['L'][i] - target.get(ID, 0.)) <= 1e-9 * F for i, ID in enumerate(IDs)), got=b_round(got))
            w.ensure(f'after a history with other chemicals, reuse {word}: same split as a new stream', b_same_split(got, f0, F),
                     fresh=b_round(f0), got=b_round(got))
    if True in results and False in results:
        w.ensure('after a history with other chemicals: reuse allowed gives the same split as reuse forbidden',
                 b_same_split(results[True], results[False], F), allowed=b_round(results[True]), forbidden=b_round(results[False]))
