# -*- coding: utf-8 -*-
"""
C08 — gap groups: functions, entry points, histories and input families of property C08 that the groups of
`C08_bubble_dew.py` do not look at.

Coverage matrix (claim x code path x channel) that produced the work list ("old" = exercised by C08_bubble_dew.py):

  claim                               | code path                                                            | group
  ------------------------------------+----------------------------------------------------------------------+---------------------------
  equation / normalised fractions,    | BubblePoint.solve_Ty/Py, DewPoint.solve_Tx/Px, __call__ (arrays)     | old (S) + old grid (B)
  single component, k*z, permutation  | Stream.bubble_point_at_T/P, dew_point_at_T/P (get_bubble_point,      | C08/gap_stream_entry (S)
                                      |   get_dew_point, vle_chemicals, get_vle_indices, get_normalized_mol, | C08/gap_stream_real (B)
                                      |   MultiStream.get_normalized_mol / mol), default T / P of the stream, |
                                      |   explicit IDs in another order, chemicals at zero flow, second call |
                                      |   on the same stream (instance cache hit), frame of the stream       |
                                      | __call__ with the documented tuple / list / integer compositions     | C08/gap_call_forms (S)
                                      | reactive variants (_T_error_reactive, _P_error_reactive, Reactive*-  | C08/gap_reactive (S)
                                      |   Values) with a conversion that is zero / arbitrary                 |
                                      | 5 chemicals, several permutations (old grid stops at 4, reversed)    | C08/gap_grid_5 (B)
                                      | BubblePointBeta (sibling class): single-component shortcut           | C08/gap_beta_single (B)
  single component = Tsat / Psat,     | Chemical.Tsat itself (old: uninterpreted in S, only sampled in B):   | C08/gap_Tsat (S)
  T <-> P inverse (single component)  |   bracketing / secant branch, Tb missing, check_validity,            |
                                      |   solve_Ty -> solve_Py and back on a single positive component       |
  "T within every chemical's vapour-  | vle_domain + __new__ on chemicals with ARBITRARY Psat ranges, the    | C08/gap_domain (S)
  pressure range" is inside the       |   clip of T in solve_Py (old: concrete ranges of three chemicals,    |
  solver object's domain              |   domain compared with vle_domain itself)                            |
  bubble T <= dew T, dew P <= bubble P| through the stream entry points, 5 chemicals                         | gap_stream_real, gap_grid_5
  results do not remember earlier     | result objects of an earlier call after later calls on the same      | gap_stream_real
  calls / earlier contents            |   solver objects / stream; the same stream after its flows changed   |
                                      |   (chemicals emptied / filled) against a fresh stream                |

Defect found (clause stays): C08/gap_beta_single, BubblePointBeta.solve_Py on a single positive component raises
UnboundLocalError (reproducer /tmp/gap/C08_defect_1.py, proposed patch /tmp/gap/C08_defect_1.diff).

Not covered here (and why): BubblePointBeta's multi-component branch (needs `settings.flasher()`, which raises
AttributeError inside the thermo-package adapter of this environment: the class cannot be built without handing it a flasher);
VLE.set_Tx/Px/Ty/Py and the dew/bubble bounds inside VLE (C03/C04 run them); Dortmund mixtures with a miscibility gap
(F-C08-K1) and the unconverged inner Wegstein iteration (F-C08-K2*): the bounded groups here keep to the families on which
the old grid is clean.
"""
import os
import sys

import numpy as np
import thermosteam as tmo
from thermosteam import equilibrium as eq
from engine.api import group
from engine.sx import tmo_world as W
from contracts.C08_bubble_dew import (Env, Harness, StubPsat, StubGamma, StubPhi, StubPCF, StubFlx, RESIDUALS, SOLVERS, OTHER,
                                      _observed, _tsat_stub, _total, _vec, ufn, ge_exact, check_point, plant_z, spec_leaf,
                                      ideal_thermo, b_thermo, bp_mod, dp_mod, _A, _warm_up, grid_real_solvers,
                                      _bubble_terms, _dew_terms, _close_arr, T_ATOL, P_RTOL, X_ATOL, RES_TOL, B_CHEMS)

chem_mod = sys.modules['thermosteam._chemical']
dom_mod = sys.modules['thermosteam.equilibrium.domain']

WE = ('Water', 'Ethanol'); WEM = ('Water', 'Ethanol', 'Methanol'); Wt = ('Water',)
IDEAL = dict(gamma='ideal', phi='ideal', pcf='mock')


class PointHarness(Harness):
    """The Harness of C08_bubble_dew around a solver object that the code under check built itself (Stream.get_bubble_point,
    BubblePoint.__new__ on stubbed chemicals): same stubs, same observation of the residual methods."""

    def __init__(self, env, cfg, kind, point, flx=None):
        self.env = env
        self.kind = kind
        self.point = pt = point
        self.IDs = tuple(pt.IDs)
        self.chems = chems = tuple(pt.chemicals)
        cls = type(pt)
        for c in chems:
            if not isinstance(c._Psat, StubPsat):
                env.patch(c, '_Psat', StubPsat(env, c.ID, c._Psat, floor=(kind == 'dew')))
        pt.Psats = [c.Psat for c in chems]
        if not getattr(env, 'tsat_patched', False):
            env.patch(tmo.Chemical, 'Tsat', _tsat_stub(env))
            env.tsat_patched = True
        if kind not in getattr(env, 'observed', ()):
            env.observed = getattr(env, 'observed', ()) + (kind,)
            for nm in RESIDUALS:
                if nm in cls.__dict__: env.patch(cls, nm, _observed(env, nm, cls.__dict__[nm]))
        if cfg.get('gamma', 'stub') == 'stub': pt.gamma = env.gamma_stub = StubGamma(env, self.IDs)
        if cfg.get('phi', 'stub') == 'stub': pt.phi = StubPhi(env, self.IDs)
        if cfg.get('pcf', 'stub') == 'stub': pt.pcf = StubPCF(env, self.IDs)
        self.frame0 = self._frame()
        self.flx = flx
        self.install(flx)


class QuietFlx(StubFlx):
    """StubFlx without the extra vacuity canary of the bracket-requires clause: that clause and its canary are obligations of
    the old groups at the same call sites (_Ty_ideal / _Tx_ideal and the four fall-back brackets); here they would only be
    additional satisfiability queries on the longest paths (wall-clock solver budget), the requires clause itself stays."""

    def _bracket_requires(self, f, x0, x1, y0, y1, args):
        w = self.env.w
        canary = w.canary
        w.canary = lambda *a, **k: None
        try: StubFlx._bracket_requires(self, f, x0, x1, y0, y1, args)
        finally: w.canary = canary


def _saved():
    return (bp_mod.flx, dp_mod.flx, dp_mod.gamma_iter, chem_mod.IQ_interpolation, chem_mod.aitken_secant)


def _restore(saved, env):
    bp_mod.flx, dp_mod.flx, dp_mod.gamma_iter, chem_mod.IQ_interpolation, chem_mod.aitken_secant = saved
    env.restore()
    W.reset_caches()


# --------------------------------------------------------------------------- Chemical.Tsat (mode S)

def tsat_configs(tier):
    out = []

    def add(ID, what, Tb='data', via='Tsat', IDs=None, z='+'):
        out.append({'name': f'{ID};{what};Tb={Tb};via={via}', 'ID': ID, 'what': what, 'Tb': Tb, 'via': via,
                    'IDs': list(IDs or (ID,)), 'z': z, 'gamma': 'ideal', 'phi': 'ideal', 'pcf': 'mock', 'secant': 'ok', 'k': 0})
    add('Water', 'root'); add('Ethanol', 'root', Tb='none'); add('Ethanol', 'root', Tb='none+guess')
    add('Ethanol', 'validity')
    for s in ('Ty', 'Tx', 'Py', 'Px'):
        add('Ethanol', 'inverse', via=s, IDs=WE, z='0+')
    if tier == 'thorough':
        add('Water', 'validity'); add('Methanol', 'root', Tb='none')
        for s in ('Ty', 'Tx', 'Py', 'Px'):
            add('Water', 'inverse', via=s, IDs=WEM, z='+00'); add('Ethanol', 'inverse', via=s, IDs=WE, z='0+', Tb='none')
    return out


@group('C08/gap_Tsat', configs=tsat_configs,
       functions=['thermosteam._chemical:Chemical.Tsat', 'thermosteam.equilibrium.bubble_point:BubblePoint.solve_Ty',
                  'thermosteam.equilibrium.bubble_point:BubblePoint.solve_Py', 'thermosteam.equilibrium.dew_point:DewPoint.solve_Tx',
                  'thermosteam.equilibrium.dew_point:DewPoint.solve_Px'],
       assumptions=[_A[0], 'A-models: Psat_k(T) uninterpreted positive function (no monotonicity assumed)',
                    'requires: P in [5e3, 3e6] Pa (validity configuration: up to 3e7 Pa), T in [260, 480] K; inverse: the computed T lies '
                    'in [260, 480] K (quantifier of the property)',
                    'A-root gives no uniqueness: "solving for T at the P obtained from T returns T" is proved as "the original T is '
                    'accepted by the root finder of the second problem (its residual there is 0)"'])
def gap_Tsat(w, cfg):
    """
    The REAL Chemical.Tsat (old groups: an uninterpreted function) with its two flexsolve calls under A-root:
      root      Psat(Tsat(P)) = P  ("that chemical's saturation temperature"), bracket residuals are the callback's values
      validity  ValueError exactly when check_validity and P >= Pc
      inverse   single positive component: solve_T(z, P) -> T with Psat(T) = P, then solve_P(z, T) returns P  (and P -> T -> P)
    """
    W.reset_caches()
    env = Env(w, cfg)
    saved = _saved()
    try:
        flx = StubFlx(env)
        chem_mod.IQ_interpolation = flx.IQ_interpolation; chem_mod.aitken_secant = flx.aitken_secant
        c = W.chemical(cfg['ID'])
        if cfg['Tb'].startswith('none'): env.patch(c, '_Tb', None)
        what = cfg['what']
        if what in ('root', 'validity'):
            env.patch(c, '_Psat', StubPsat(env, c.ID, c._Psat, floor=False))
            P = w.real('spec.P', lo=5e3, hi=3e6 if what == 'root' else 3e7)
            kw = {'Tguess': w.real('Tguess', lo=200., hi=600.)} if cfg['Tb'].endswith('guess') else {}
            try:
                T = c.Tsat(P, check_validity=(what == 'validity'), **kw)
            except ValueError:
                w.ensure('ValueError only when validity is checked and P >= Pc', w.And(what == 'validity', w.ge(P, c.Pc)))
                w.canary('canary: ValueError below the critical pressure', w.lt(P, c.Pc))
                return
            if what == 'validity':
                w.ensure('no answer at or above the critical pressure when validity is checked', w.lt(P, c.Pc))
            w.ensure('saturation temperature: Psat(Tsat(P)) = P', w.eq(c.Psat(T), P))
            w.ensure('saturation temperature is positive', w.gt(T, 0.))
            w.canary('canary: Psat(Tsat(P)) = 2 P', w.eq(c.Psat(T), 2. * P))
            w.note(T=T, flx_calls=dict(flx.counts))
            return
        # single positive component through the solver objects, REAL Tsat underneath
        solver = cfg['via']; kind, meth, which = SOLVERS[solver]
        env.tsat_patched = True                         # keep the real Chemical.Tsat
        h = Harness(env, cfg, kind, flx=flx)
        zvals = plant_z(w, cfg['z'])
        k = [bool(v > 0.) for v in zvals].index(True)
        ch = h.chems[k]
        S = _total(zvals); zbar = [v / S for v in zvals]
        given = spec_leaf(w, h, which)
        res1, comp1 = getattr(h.point, meth)(env.arr(zvals), given)
        T, P = (res1, given) if which == 'P' else (given, res1)
        if which == 'P':
            w.assume(w.And(w.ge(T, 260.), w.le(T, 480.)))      # the computed point lies inside the quantifier of the property
        else:
            w.assume(w.And(w.ge(P, 5e3), w.le(P, 3e6)))
        w.ensure('single component: the point lies on that chemical\'s saturation curve, Psat(T) = P', w.eq(h.point.Psats[k](T), P))
        w.ensure('single component: returned fractions = zbar', w.Implies(ge_exact(w, S, 1e-16), w.all_eq(list(comp1), zbar)))
        flx2 = StubFlx(env, script={'IQ_interpolation#0': given, 'aitken_secant#0': given}, tag='second problem: ')
        chem_mod.IQ_interpolation = flx2.IQ_interpolation; chem_mod.aitken_secant = flx2.aitken_secant
        h.install(flx2)
        res2, comp2 = getattr(h.point, SOLVERS[OTHER[solver]][1])(env.arr(zvals), res1)
        w.ensure('single component: solving back returns the original specification', w.eq(res2, given))
        w.ensure('single component: solving back returns the same fractions', w.all_eq(list(comp2), list(comp1)))
        w.ensure('frame: solver object unchanged', h.frame_ok())
        w.canary('canary: solving back returns the specification + 1', w.eq(res2, given + 1.))
        w.note(first=res1, second=res2, calls_first=dict(flx.counts), calls_second=dict(flx2.counts))
    finally:
        _restore(saved, env)


# --------------------------------------------------------------------------- vle_domain / __new__ / clip of T (mode S)

class RangePsat(StubPsat):
    """StubPsat whose validity range [Tmin, Tmax] is arbitrary (two leaves)."""

    def __init__(self, env, ID, real):
        StubPsat.__init__(self, env, ID, real, floor=False)
        w = env.w
        self.Tmin = w.real(f'Psat.{ID}.Tmin', lo=1., hi=2000.)
        self.Tmax = w.real(f'Psat.{ID}.Tmax', lo=1., hi=2000.)
        w.assume(w.lt(self.Tmin, self.Tmax))


def domain_configs(tier):
    out = [{'name': f"{what};{'+'.join(IDs)}", 'what': what, 'IDs': list(IDs), 'z': '+' * len(IDs), 'secant': 'ok', 'k': 0, **IDEAL}
           for what, IDs in (('domain', Wt), ('domain', WE), ('solve_Py', WE))]
    if tier == 'thorough':
        out += [{'name': f"{what};{'+'.join(IDs)}", 'what': what, 'IDs': list(IDs), 'z': '+' * len(IDs), 'secant': 'ok', 'k': 0, **IDEAL}
                for what, IDs in (('domain', WEM), ('solve_Py', Wt))]
    return out


DOMAIN_MARGIN = 1e-2        # vle_domain documents a 1e-2 K inset of the range


@group('C08/gap_domain', configs=domain_configs,
       functions=['thermosteam.equilibrium.domain:vle_domain', 'thermosteam.equilibrium.bubble_point:BubblePoint.__new__',
                  'thermosteam.equilibrium.dew_point:DewPoint.__new__', 'thermosteam.equilibrium.bubble_point:BubblePoint.solve_Py'],
       assumptions=[_A[0], _A[1],
                    'requires: every chemical\'s vapour-pressure range [Tmin_k, Tmax_k] is arbitrary (1 <= Tmin_k < Tmax_k <= 2000 K); '
                    'T lies within every chemical\'s range by the 1e-2 K inset that vle_domain applies and inside its 50-1000 K limits'])
def gap_domain(w, cfg):
    """A temperature within every chemical's vapour-pressure range is inside the domain of the solver objects (so that the
    point is computed AT that temperature), and the domain does not depend on the order of the chemical list."""
    W.reset_caches()
    env = Env(w, cfg)
    saved = _saved()
    try:
        IDs = tuple(cfg['IDs'])
        chems = W.thermo(IDs).chemicals.tuple
        for c in chems:
            env.patch(c, '_Psat', RangePsat(env, c.ID, c._Psat))
        T = w.real('spec.T', lo=260., hi=480.)
        for c in chems:
            w.assume(w.And(w.ge(T, c._Psat.Tmin + DOMAIN_MARGIN), w.le(T, c._Psat.Tmax - DOMAIN_MARGIN)))
        if cfg['what'] == 'domain':
            Tmin, Tmax = dom_mod.vle_domain(chems)
            w.ensure('a temperature within every chemical\'s vapour-pressure range is inside the domain', w.And(w.le(Tmin, T), w.le(T, Tmax)))
            r = dom_mod.vle_domain(tuple(reversed(chems)))
            w.ensure('the domain does not depend on the order of the chemical list', w.all_eq(list(r), [Tmin, Tmax]))
            for cls in (bp_mod.BubblePoint, dp_mod.DewPoint):
                cls._cached.clear()
                pt = cls(chems, ideal_thermo(IDs))
                w.ensure(f'{cls.__name__}: a temperature within every chemical\'s vapour-pressure range is inside the solver object\'s domain',
                         w.And(w.le(pt.Tmin, T), w.le(T, pt.Tmax)))
            w.canary('canary: the temperature is the upper end of the domain', w.eq(T, Tmax))
            return
        flx = QuietFlx(env)
        bp_mod.BubblePoint._cached.clear()
        pt = bp_mod.BubblePoint(chems, ideal_thermo(IDs))       # real __new__ on the arbitrary ranges
        h = PointHarness(env, cfg, 'bubble', pt, flx=flx)
        zvals = plant_z(w, cfg['z'])
        z = env.arr(zvals)
        P, y = pt.solve_Py(z, T)
        if len(IDs) == 1:
            w.assume(w.le(T, chems[0].Tc))
        check_point(w, h, zvals, T, 'T', P, y)
        w.ensure('frame: the caller\'s z is unchanged', w.all_eq(list(z), zvals))
        w.canary('canary: returned composition sums to two', w.eq(_total(list(y)), 2.))
    finally:
        _restore(saved, env)


# --------------------------------------------------------------------------- the stream entry points (mode S)

ENTRIES = {'bubble_point_at_T': ('bubble', 'T'), 'bubble_point_at_P': ('bubble', 'P'),
           'dew_point_at_T': ('dew', 'T'), 'dew_point_at_P': ('dew', 'P')}


def stream_configs(tier):
    out = []

    def add(entry, IDs, flows, phases='l', ids=None, spec='arg', twice=False, gamma='ideal', phi='ideal', pcf='mock'):
        """flows: {ID: token or [token per phase]}; token '+' leaf > 0, '?' leaf >= 0, '0' zero, number c: c * (one leaf s > 0)."""
        ph = [phases] if isinstance(phases, str) else list(phases)
        fl = {ID: (list(v) if isinstance(v, (list, tuple)) else [v] * len(ph)) for ID, v in flows.items()}
        scaled = any(not isinstance(t, str) for v in fl.values() for t in v)
        nm = (f"{entry};{'+'.join(i[:3] for i in IDs)};{'/'.join(ph)};"
              + ','.join(''.join(str(t) for t in fl[i]) for i in IDs)
              + (f";IDs={'+'.join(i[:3] for i in ids)}" if ids else '') + f';spec={spec}' + (';twice' if twice else '')
              + f';gamma={gamma};phi={phi};pcf={pcf}')
        out.append({'name': nm, 'entry': entry, 'IDs': list(IDs), 'phases': phases if isinstance(phases, str) else list(phases),
                    'flows': fl, 'ids': list(ids) if ids else None, 'spec': spec, 'twice': twice,
                    'z': 's*(' if scaled else '+', 'gamma': gamma, 'phi': phi, 'pcf': pcf, 'secant': 'ok', 'k': 0})
    GL = ('g', 'l')
    for entry, (kind, which) in ENTRIES.items():
        bubble = kind == 'bubble'
        two = {'Water': '+', 'Ethanol': '+'} if bubble else {'Water': 0.3, 'Ethanol': 0.7}
        split = {'Water': ['+', '+'], 'Ethanol': ['0', '+']} if bubble else {'Water': [0.1, 0.2], 'Ethanol': [0., 0.7]}
        add(entry, WE, two)                                                       # Stream, specification handed over
        add(entry, WE, two, spec='default')                                       # T / P of the stream
        add(entry, WEM, dict(two, Methanol='0'))                                  # a chemical of the package at zero flow
        add(entry, WE, split, phases=GL)                                          # MultiStream: material spread over phases
        add(entry, WE, two, ids=('Ethanol', 'Water'))                             # explicit IDs in another order
        add(entry, WEM, {'Water': '0', 'Ethanol': '+', 'Methanol': '0'})          # single component present
        add(entry, WE, two, twice=True)                                           # second call on the same stream
        if bubble:
            add(entry, WE, two, gamma='stub')
            add(entry, WE, {'Water': '+', 'Ethanol': '?'})
        if tier == 'thorough':
            add(entry, WEM, dict(two, Methanol='0'), ids=('Methanol', 'Water', 'Ethanol'))     # zero-flow chemical named explicitly
            add(entry, WEM, {'Water': ['0', '+'], 'Ethanol': ['+', '0'], 'Methanol': ['0', '0']} if bubble else
                {'Water': [0., 0.2], 'Ethanol': [0.8, 0.], 'Methanol': [0., 0.]}, phases=GL, spec='default')
            add(entry, WE, two, phi='stub', pcf='stub')
            add(entry, WEM, {'Water': '+', 'Ethanol': '+', 'Methanol': '+'} if bubble else {'Water': 0.2, 'Ethanol': 0.3, 'Methanol': 0.5})
            add(entry, WE, split, phases=GL, twice=True, ids=('Ethanol', 'Water'))
            if not bubble: add(entry, WE, two, gamma='stub')
    return out


def _plant_stream(w, cfg):
    IDs = cfg['IDs']; th = ideal_thermo(IDs); phases = cfg['phases']
    s = tmo.Stream(None, thermo=th, phase=phases) if isinstance(phases, str) else tmo.MultiStream(None, phases=tuple(phases), thermo=th)
    scale = None
    totals = {ID: 0. for ID in IDs}
    for j, (phase, sv) in enumerate(W.rows_of(s)):
        for i, ID in enumerate(IDs):
            tok = cfg['flows'][ID][j]
            if tok == '0' or tok == 0.: continue
            if tok == '+': v = w.real(f's.{phase}.{ID}', lo=0., lo_strict=True)
            elif tok == '?': v = w.real(f's.{phase}.{ID}', lo=0.)
            else:
                if scale is None: scale = w.real('s.scale', lo=0., lo_strict=True)
                v = scale * float(tok)
            totals[ID] = totals[ID] + v
            if tok != '?' or v: sv.dct[i] = v
    return s, totals


STREAM_FUNCS = ['thermosteam._stream:Stream.bubble_point_at_T', 'thermosteam._stream:Stream.bubble_point_at_P',
                'thermosteam._stream:Stream.dew_point_at_T', 'thermosteam._stream:Stream.dew_point_at_P',
                'thermosteam._stream:Stream.get_bubble_point', 'thermosteam._stream:Stream.get_dew_point',
                'thermosteam._stream:Stream.vle_chemicals', 'thermosteam._stream:Stream.get_normalized_mol',
                'thermosteam._multi_stream:MultiStream.get_normalized_mol', 'thermosteam._multi_stream:MultiStream.mol',
                'thermosteam._chemicals:CompiledChemicals.get_vle_indices',
                'thermosteam.equilibrium.bubble_point:BubblePoint.__new__', 'thermosteam.equilibrium.dew_point:DewPoint.__new__',
                'thermosteam.equilibrium.bubble_point:BubblePoint.__call__', 'thermosteam.equilibrium.dew_point:DewPoint.__call__',
                'thermosteam.equilibrium.bubble_point:BubblePointValues.__init__', 'thermosteam.equilibrium.dew_point:DewPointValues.__init__']


@group('C08/gap_stream_entry', configs=stream_configs, functions=STREAM_FUNCS, assumptions=_A)
def gap_stream_entry(w, cfg):
    """
    The sentences of C08 for the point a STREAM reports (Stream.bubble_point_at_T / _at_P, dew_point_at_T / _at_P): the
    composition is the stream's total molar composition over the chemicals of the result (zero-flow chemicals of the package
    do not take part, material may be spread over phases, the total flow is arbitrary), the specification is the argument or
    the stream's own T / P.  Frame: the stream is unchanged.
    """
    W.reset_caches()
    env = Env(w, cfg)
    saved = _saved()
    try:
        entry = cfg['entry']; kind, which = ENTRIES[entry]
        flx = QuietFlx(env, fixed_point_positive=(kind == 'dew'))
        s, totals = _plant_stream(w, cfg)
        ids = cfg['ids']
        pt = (s.get_bubble_point if kind == 'bubble' else s.get_dew_point)(ids)      # real __new__ on real data (concrete domain)
        h = PointHarness(env, cfg, kind, pt, flx=flx)
        given = spec_leaf(w, h, which)
        other = w.real('s.other', lo=5e3, hi=3e6) if which == 'T' else w.real('s.other', lo=260., hi=480.)
        decoy = w.real('s.decoy', lo=5e3, hi=3e6) if which == 'P' else w.real('s.decoy', lo=260., hi=480.)
        if cfg['spec'] == 'default':
            s.T, s.P = (given, other) if which == 'T' else (other, given)
            args = ()
        else:
            s.T, s.P = (decoy, other) if which == 'T' else (other, decoy)
            args = (given,)
        T0, P0 = s.T, s.P
        snap = W.snapshot(s)
        present = [ID for ID in cfg['IDs'] if any(cfg['IDs'].index(ID) in sv.dct for _, sv in W.rows_of(s))]

        def one(tag):
            vals = getattr(s, entry)(*args, **({'IDs': ids} if ids else {}))
            rIDs = tuple(vals.IDs)
            w.ensure(f'{tag}result object: chemicals are the ones asked for / every chemical present in the stream',
                     (rIDs == tuple(ids)) if ids else (set(rIDs) >= set(present) and len(set(rIDs)) == len(rIDs)))
            zvals = [totals[ID] for ID in rIDs]
            S = _total(zvals)
            res = vals.P if which == 'T' else vals.T
            comp = vals.y if kind == 'bubble' else vals.x
            w.ensure(f'{tag}result object: the specification is handed back, z is the stream\'s normalised composition',
                     w.And(w.eq(vals.T if which == 'T' else vals.P, given), w.all_eq(list(vals.z), [v / S for v in zvals]),
                           (vals.x if kind == 'bubble' else vals.y) is vals.z))
            hh = h if rIDs == h.IDs else None
            w.ensure(f'{tag}the solver object asked for beforehand is the one that answered (same chemical list)', hh is not None)
            if hh is None: return None
            check_point(w, hh, zvals, given, 'P' if which == 'P' else 'T', res, comp, tag=tag)
            w.ensure(f'{tag}returned value is positive', w.gt(res, 0.))
            return vals, res, list(comp)
        first = one('')
        if cfg['twice'] and first is not None:
            keep = (first[0].T, first[0].P, list(first[0].z), list(first[2]))
            one('second call: ')
            v = first[0]
            w.ensure('the first result object is unchanged by the second call',
                     w.And(w.eq(v.T, keep[0]), w.eq(v.P, keep[1]), w.all_eq(list(v.z), keep[2]),
                           w.all_eq(list(v.y if kind == 'bubble' else v.x), keep[3])))
        w.ensure('frame: flows of the stream unchanged', W.same_snapshot(w, snap, W.snapshot(s)))
        w.ensure('frame: T and P of the stream unchanged', w.And(w.eq(s.T, T0), w.eq(s.P, P0)))
        w.ensure('frame: domain fields / models of the solver object unchanged', h.frame_ok())
        if first is not None:
            w.canary('canary: returned composition sums to two', w.eq(_total(first[2]), 2.))
            w.note(result=first[1], composition=first[2], IDs=list(first[0].IDs), flx_calls=dict(flx.counts))
    finally:
        _restore(saved, env)


# --------------------------------------------------------------------------- __call__ with the documented input forms (mode S)

def call_form_configs(tier):
    out = []
    for solver, (kind, meth, which) in SOLVERS.items():
        for form in ('tuple', 'list', 'int') + (('int-single',) if tier == 'thorough' else ()):
            z = '++' if (kind == 'bubble' or form.startswith('int')) else 's*(0.3,0.7)'
            out.append({'name': f'{solver};{form}', 'solver': solver, 'form': form, 'IDs': list(WE), 'z': z, 'secant': 'ok', 'k': 0, **IDEAL})
    return out


@group('C08/gap_call_forms', configs=call_form_configs,
       functions=['thermosteam.equilibrium.bubble_point:BubblePoint.__call__', 'thermosteam.equilibrium.dew_point:DewPoint.__call__',
                  'thermosteam.equilibrium.bubble_point:BubblePointValues.__init__', 'thermosteam.equilibrium.dew_point:DewPointValues.__init__'],
       assumptions=_A)
def gap_call_forms(w, cfg):
    """BubblePoint(z, T= | P=) / DewPoint(z, T= | P=) with the composition written as in the class documentation: a tuple or
    list of numbers, whole numbers included (the old groups hand over float arrays only)."""
    W.reset_caches()
    env = Env(w, cfg)
    saved = _saved()
    try:
        kind, meth, which = SOLVERS[cfg['solver']]
        flx = QuietFlx(env, fixed_point_positive=(kind == 'dew'))
        h = Harness(env, cfg, kind, flx=flx)
        form = cfg['form']
        if form.startswith('int'):
            zin = (0, 3) if form == 'int-single' else (1, 3)
            zvals = [float(v) for v in zin]
        else:
            zvals = plant_z(w, cfg['z'])
            zin = tuple(zvals) if form == 'tuple' else list(zvals)
        given = spec_leaf(w, h, which)
        vals = h.point(zin, **{which: given})
        res = vals.T if which == 'P' else vals.P
        comp = vals.y if kind == 'bubble' else vals.x
        w.ensure('result object: the specification is handed back, IDs and z are those of the call',
                 w.And(w.eq(vals.P if which == 'P' else vals.T, given), vals.IDs == h.point.IDs, w.all_eq(list(vals.z), zvals),
                       (vals.x if kind == 'bubble' else vals.y) is vals.z))
        check_point(w, h, zvals, given, which, res, comp)
        w.ensure('frame: the caller\'s z is unchanged', w.And(w.all_eq(list(zin), zvals), type(zin) is (list if form == 'list' else tuple)))
        w.ensure('returned value is positive', w.gt(res, 0.))
        w.canary('canary: returned composition sums to two', w.eq(_total(list(comp)), 2.))
    finally:
        _restore(saved, env)


# --------------------------------------------------------------------------- reactive variants (mode S)

def reactive_configs(tier):
    out = []

    def add(solver, conv, z, via='solve', secant='ok', gamma='ideal', phi='ideal', pcf='mock', IDs=WE):
        nm = f"{solver};conversion={conv};{'+'.join(i[:3] for i in IDs)};z={z};gamma={gamma};phi={phi};pcf={pcf};secant={secant}" + (';via=__call__' if via == 'call' else '')
        out.append({'name': nm, 'solver': solver, 'conv': conv, 'IDs': list(IDs), 'z': z, 'via': via, 'secant': secant, 'k': 0,
                    'gamma': gamma, 'phi': phi, 'pcf': pcf})
    SC = 's*(0.3,0.7)'
    for solver, (kind, meth, which) in SOLVERS.items():
        bubble = kind == 'bubble'
        z = '++' if bubble else SC
        add(solver, 'none', z); add(solver, 'none', z, via='call'); add(solver, 'none', z, secant='raise')
        add(solver, 'none', z, phi='stub', pcf='stub')
        if bubble:
            add(solver, 'any', z, gamma='stub'); add(solver, 'none', '+0+', IDs=WEM)
        if tier == 'thorough':
            add(solver, 'none', z, gamma='stub', phi='stub', pcf='stub')
            add(solver, 'none', '+++' if bubble else 's*(0.2,0.3,0.5)', IDs=WEM)
            if bubble:
                add(solver, 'any', z, secant='raise'); add(solver, 'any', z, gamma='stub', phi='stub', pcf='stub', via='call')
    return out


@group('C08/gap_reactive', configs=reactive_configs,
       functions=['thermosteam.equilibrium.bubble_point:BubblePoint.solve_Ty', 'thermosteam.equilibrium.bubble_point:BubblePoint.solve_Py',
                  'thermosteam.equilibrium.bubble_point:BubblePoint._T_error_reactive', 'thermosteam.equilibrium.bubble_point:BubblePoint._P_error_reactive',
                  'thermosteam.equilibrium.bubble_point:BubblePoint.__call__', 'thermosteam.equilibrium.bubble_point:ReactiveBubblePointValues.__init__',
                  'thermosteam.equilibrium.dew_point:DewPoint.solve_Tx', 'thermosteam.equilibrium.dew_point:DewPoint.solve_Px',
                  'thermosteam.equilibrium.dew_point:DewPoint._T_error_reactive', 'thermosteam.equilibrium.dew_point:DewPoint._P_error_reactive',
                  'thermosteam.equilibrium.dew_point:DewPoint.__call__', 'thermosteam.equilibrium.dew_point:ReactiveDewPointValues.__init__'],
       assumptions=_A + ['conversion callback: deterministic function of (z, T, P, phase) returning the change dz of the normalised composition; '
                         '"none": dz = 0 (the reactive variant is then asked for an ordinary bubble / dew point); "any": arbitrary values with '
                         'z + dz > 0 componentwise'])
def gap_reactive(w, cfg):
    """
    The solver variants taken when a conversion callback is handed over (reactive bubble / dew point).  With a conversion that is
    identically zero the returned point is a bubble (dew) point of z: every sentence of C08 is claimed for it.  With an arbitrary
    conversion the returned phase compositions (x, y) still are a bubble point of the returned liquid x (bubble) — Raoult fractions
    of x sum to one and are the returned y — and x is the composition that the callback's answer AT the returned point implies.
    """
    W.reset_caches()
    env = Env(w, cfg)
    saved = _saved()
    try:
        kind, meth, which = SOLVERS[cfg['solver']]
        bubble = kind == 'bubble'
        flx = QuietFlx(env, fail=('aitken_secant#0',) if cfg['secant'] == 'raise' else (), fixed_point_positive=not bubble)
        h = Harness(env, cfg, kind, flx=flx)
        zvals = plant_z(w, cfg['z'])
        n = len(zvals)
        S = _total(zvals); zbar = [v / S for v in zvals]
        given = spec_leaf(w, h, which)
        calls = []

        def conversion(z, T, P, phase):
            zs = list(z)
            if cfg['conv'] == 'none':
                dz = [0.] * n
            else:
                dz = [w.fn(f'dz.{ID}')(*zs, T, P) for ID in h.IDs]
                for a, b in zip(zs, dz): w.assume(w.gt(a + b, 0.))
            calls.append((zs, T, P, phase, dz))
            return env.arr(dz)
        z = env.arr(zvals)
        key = 'liquid_conversion' if bubble else 'gas_conversion'
        if cfg['via'] == 'call':
            vals = h.point(z, **{which: given, key: conversion})
            res = vals.T if which == 'P' else vals.P
            dz, y, x = vals.dz, vals.y, vals.x
            w.ensure('result object: the specification is handed back, IDs and feed are those of the call',
                     w.And(w.eq(vals.P if which == 'P' else vals.T, given), vals.IDs == h.point.IDs, w.all_eq(list(vals.z0), zvals)))
        else:
            res, dz, y, x = getattr(h.point, meth)(z, given, conversion)
        T, P = (res, given) if which == 'P' else (given, res)
        feed, comp = (list(x), list(y)) if bubble else (list(y), list(x))       # the phase that reacts / the incipient phase
        w.ensure('the conversion is only asked about the phase that is present', all(c[3] == ('l' if bubble else 'g') for c in calls) and bool(calls))
        if cfg['conv'] == 'none':
            w.ensure('no reaction: the reacting phase has the normalised composition z, dz = 0',
                     w.And(w.all_eq(feed, zbar), w.all_eq(list(dz), [0.] * n)))
            check_point(w, h, zvals, given, which, res, comp)
        else:
            alts = []
            for zs, Tc, Pc, ph, d in calls:
                tot = _total([a + b for a, b in zip(zs, d)])
                alts.append(w.And(w.eq(Tc, T), w.eq(Pc, P), w.all_eq(zs, zbar), w.all_eq(list(dz), d),
                                  w.all_eq(feed, [(a + b) / tot for a, b in zip(zs, d)])))
            w.ensure('reaction: the reacting phase is the normalised z plus the conversion at the returned point, normalised', w.Or(*alts, False))
            # the sentences of C08 for the liquid x as returned (bubble variants only; no second normalisation: x already is one)
            terms = h.spec_terms(feed, T, P, comp)
            w.ensure('reacted phase: Raoult fractions at the returned point sum to one', w.eq(_total(terms), 1.))
            w.ensure('reacted phase: returned y are the Raoult fractions', w.all_eq(comp, terms))
            w.ensure('reacted phase: returned y sums to one', w.eq(_total(comp), 1.))
        w.ensure('frame: the caller\'s z is unchanged', w.all_eq(list(z), zvals))
        w.ensure('frame: domain fields / models of the solver object unchanged', h.frame_ok())
        w.ensure('returned value is positive', w.gt(res, 0.))
        w.canary('canary: returned composition sums to two', w.eq(_total(comp), 2.))
        w.note(result=res, composition=comp, flx_calls=dict(flx.counts))
    finally:
        _restore(saved, env)


# --------------------------------------------------------------------------- mode B: five chemicals, several permutations

def grid5_configs(tier):
    _warm_up()
    fams = [(('Water', 'Ethanol', 'Methanol', 'Propanol', 'Butanol'), ('ideal', 'dortmund')),
            (('Hexane', 'Heptane', 'Octane', 'Benzene', 'Toluene'), ('ideal', 'dortmund')),
            (('Methanol', 'Ethanol', 'Propanol', 'Benzene', 'Toluene'), ('ideal',))]
    zs = [[0.2] * 5, [0.05, 0.1, 0.15, 0.3, 0.4], [1e-6, 0.25, 0.25, 0.25, 0.25], [0., 0.5, 0., 0.3, 0.2], [0., 0., 0., 0., 3.]]
    perms = [[4, 3, 2, 1, 0], [1, 2, 3, 4, 0], [2, 0, 4, 1, 3]]
    Ps, Ts, ks = [2e4, 101325., 5e5], [300., 350., 420.], [2.]
    if tier == 'thorough':
        fams += [(('Water', 'Methanol', 'Ethanol', 'Propanol', 'Toluene'), ('ideal',)), (('Butanol', 'Propanol', 'Octane', 'Heptane', 'Benzene'), ('ideal',))]
        zs += [[1., 2., 3., 4., 5.], [0.3, 0.3, 0.3, 0.1, 1e-9], [0.4, 0., 0., 0., 0.6]]
        perms += [[0, 1, 2, 4, 3], [3, 4, 0, 1, 2], [4, 0, 1, 2, 3]]
        Ps, Ts, ks = [5e3, 2e4, 101325., 5e5, 2e6, 3e6], [260., 300., 350., 400., 450., 480.], [0.5, 7., 1e3]
    out = []
    for IDs, pkgs in fams:
        for pkg in pkgs:
            for z in zs:
                npos = sum(1 for v in z if v > 0)
                out.append({'name': f"{pkg};{'single' if npos == 1 else 'miscible'};{'+'.join(IDs)};z={','.join(f'{v:g}' for v in z)}",
                            'IDs': list(IDs), 'pkg': pkg, 'z': z, 'Ps': Ps, 'Ts': Ts, 'ks': ks, 'perms': perms})
    return out


group('C08/gap_grid_5', configs=grid5_configs, mode='B',
      functions=['thermosteam.equilibrium.bubble_point:BubblePoint.__call__', 'thermosteam.equilibrium.dew_point:DewPoint.__call__',
                 'thermosteam.equilibrium.bubble_point:BubblePoint.solve_Ty', 'thermosteam.equilibrium.bubble_point:BubblePoint.solve_Py',
                 'thermosteam.equilibrium.dew_point:DewPoint.solve_Tx', 'thermosteam.equilibrium.dew_point:DewPoint.solve_Px',
                 'thermosteam._chemical:Chemical.Tsat'],
      notes='the contract body of C08/grid_real_solvers (real flexsolve solvers, real property data) on FIVE chemicals: 3 (thorough 5) '
            'families without an LLE-prone pair, ideal package and Dortmund (alcohol/water and hydrocarbon families), 5 (8) compositions '
            'incl. trace, zeros (3 of 5 present), a single component and unnormalised ones, 3 (6) permutations of the chemical list that '
            'are not the reversal only (cyclic shift, shuffle), P in {2e4, 101325, 5e5} ({5e3..3e6}) Pa, T in {300, 350, 420} ({260..480}) K, '
            'k in {2} ({0.5, 7, 1e3}); skips and tolerances as in C08/grid_real_solvers')(grid_real_solvers)


# --------------------------------------------------------------------------- mode B: the stream entry points on real data

def stream_real_configs(tier):
    _warm_up()
    out = []

    def add(IDs, flows, pkg='ideal', frac_g=None):
        frac_g = frac_g or [((7 * i + 3) % 10) / 10. for i in range(len(IDs))]
        out.append({'name': f"{pkg};{'+'.join(IDs)};flows={','.join(f'{v:g}' for v in flows)}", 'IDs': list(IDs), 'pkg': pkg,
                    'flows': [float(v) for v in flows], 'frac_g': frac_g,
                    'Ps': [2e4, 101325., 5e5] if tier == 'quick' else [5e3, 2e4, 101325., 5e5, 2e6, 3e6],
                    'Ts': [300., 350., 420.] if tier == 'quick' else [260., 300., 350., 400., 450., 480.], 'k': 3.5})
    W5 = ('Water', 'Ethanol', 'Methanol', 'Propanol', 'Butanol'); H5 = ('Hexane', 'Heptane', 'Octane', 'Benzene', 'Toluene')
    for pkg in ('ideal', 'dortmund'):
        add(('Water', 'Ethanol'), [20., 10.], pkg); add(('Water', 'Ethanol'), [0., 4.], pkg)
        add(('Water', 'Ethanol', 'Methanol'), [5., 0., 15.], pkg); add(('Ethanol', 'Water', 'Methanol'), [1e-5, 30., 12.], pkg)
        add(W5, [10., 20., 30., 25., 15.], pkg); add(H5, [3., 0., 1., 0., 6.], pkg)
    add(('Benzene', 'Toluene', 'Heptane', 'Ethanol'), [1., 2., 0., 0.], 'ideal')
    add(W5, [0., 0., 0., 7., 0.], 'ideal')
    if tier == 'thorough':
        for pkg in ('ideal', 'dortmund'):
            add(H5, [1., 2., 3., 4., 5.], pkg); add(W5, [1e-6, 1., 0., 1., 1.], pkg); add(('Propanol', 'Butanol'), [0.2, 0.8], pkg)
            add(('Ethanol', 'Propanol', 'Butanol', 'Water'), [4., 3., 2., 1.], pkg)
        # Dortmund + methanol with aromatics is left to the old grid: dew points at 1.3-3 MPa reproduce F-C08-K2 (residual 5e-5 at 3 MPa,
        # a second root 124 K away at 1.29 MPa) through these entry points as well
        add(('Methanol', 'Ethanol', 'Benzene'), [1., 1., 1.], 'ideal')
    return out


@group('C08/gap_stream_real', configs=stream_real_configs, mode='B', functions=STREAM_FUNCS,
       notes='real flexsolve solvers and real property data through Stream.bubble_point_at_T/P and dew_point_at_T/P: 14 (24) streams over '
             '2-5 chemicals of which 1-5 flow (zero and trace flows included), ideal and Dortmund packages (no LLE-prone pair), P in '
             '{2e4, 101325, 5e5} ({5e3..3e6}) Pa, T in {300, 350, 420} ({260..480}) K; every point is compared with: the solver object asked '
             'directly with the normalised composition, the stream scaled by 3.5, a MultiStream with the same material spread over g and l, '
             'the stream\'s own T / P as specification, explicit IDs in reversed order, a stream on the package with the reversed chemical '
             'list; a specification is skipped when a solver raises RuntimeError or the computed T / P leaves the quantifier range; '
             'tolerances as in C08/grid_real_solvers')
def gap_stream_real(w, cfg):
    IDs = list(cfg['IDs']); pkg = cfg['pkg']
    flows = np.array(cfg['flows'], dtype=float); fg = np.array(cfg['frac_g'], dtype=float)
    th = b_thermo(IDs, pkg)
    rIDs = list(reversed(IDs)); th_r = b_thermo(rIDs, pkg)

    def single(thermo, ids, f, k=1.):
        s = tmo.Stream(None, thermo=thermo, phase='l', T=311., P=77777.)
        for i, v in zip(ids, f):
            if v: s.imol[i] = k * v
        return s
    s = single(th, IDs, flows)
    sk = single(th, IDs, flows, cfg['k'])
    sr = single(th_r, IDs, flows)
    m = tmo.MultiStream(None, phases=('g', 'l'), thermo=th, T=322., P=88888.)
    for i, v, g in zip(IDs, flows, fg):
        if v:
            if g: m.imol['g', i] = v * g
            if g < 1.: m.imol['l', i] = v * (1. - g)
    pIDs = tuple(i for i, v in zip(IDs, flows) if v > 0)
    zb = {i: v / flows.sum() for i, v in zip(IDs, flows)}
    single_comp = len(pIDs) == 1
    mol0 = s.mol.to_array() if hasattr(s.mol, 'to_array') else np.array(s.mol)
    kept = []
    evaluated = skipped = 0

    def by_name(vals, comp):
        return {i: float(c) for i, c in zip(vals.IDs, comp)}

    def same(tag, what, which, ref, other, exact=False):
        """`other` reports the point `ref` (value and fractions by chemical NAME)."""
        a, b = ((ref.T, other.T) if which == 'P' else (ref.P, other.P))
        ok = (a == b) if exact else ((abs(a - b) <= T_ATOL) if which == 'P' else (abs(a / b - 1.) <= P_RTOL))
        for kind in ('y', 'x'):
            ca, cb = by_name(ref, getattr(ref, kind)), by_name(other, getattr(other, kind))
            ok = ok and set(ca) == set(cb) and all(abs(ca[i] - cb[i]) <= (0. if exact else X_ATOL) for i in ca)
        w.ensure(f'{tag}{what}', ok, reference=a, other=b)

    for which, specs in (('P', cfg['Ps']), ('T', cfg['Ts'])):
        for spec in specs:
            tag = f'{which}={spec:g}: '
            bub = (lambda st, *a, **k: st.bubble_point_at_P(*a, **k)) if which == 'P' else (lambda st, *a, **k: st.bubble_point_at_T(*a, **k))
            dew = (lambda st, *a, **k: st.dew_point_at_P(*a, **k)) if which == 'P' else (lambda st, *a, **k: st.dew_point_at_T(*a, **k))
            BP = s.get_bubble_point(); DP = s.get_dew_point()
            Tlo, Thi = max(260., BP.Tmin), min(480., BP.Tmax)
            if which == 'T' and not (Tlo <= spec <= Thi):
                skipped += 1; continue
            direct = {}
            try:        # the solver objects asked directly with the normalised composition of the chemicals that flow
                for nm, cls in (('bubble', eq.BubblePoint), ('dew', eq.DewPoint)):
                    direct[nm] = cls([th.chemicals[i] for i in pIDs], th)(np.array([zb[i] for i in pIDs]), **{which: spec})
            except RuntimeError:
                skipped += 1; continue      # the real solver gives up on this input: nothing is claimed
            b = bub(s, spec); d = dew(s, spec)
            w.ensure(f'{tag}result objects: specification handed back, chemicals are the ones that flow, z is the normalised composition',
                     ((b.P, d.P) == (spec, spec) if which == 'P' else (b.T, d.T) == (spec, spec))
                     and set(b.IDs) == set(pIDs) == set(d.IDs) and len(b.IDs) == len(pIDs) == len(d.IDs)
                     and all(abs(v - zb[i]) <= 1e-12 for i, v in zip(b.IDs, b.z)) and all(abs(v - zb[i]) <= 1e-12 for i, v in zip(d.IDs, d.z)))
            rb, rd = (b.T, d.T) if which == 'P' else (b.P, d.P)
            if not ((Tlo <= rb <= Thi and Tlo <= rd <= Thi) if which == 'P' else (5e3 <= rb <= 3e6 and 5e3 <= rd <= 3e6)):
                skipped += 1; continue
            evaluated += 1
            kept.append((b, (b.T, b.P, tuple(b.IDs), b.z.copy(), b.y.copy())))
            kept.append((d, (d.T, d.P, tuple(d.IDs), d.z.copy(), d.x.copy())))
            w.ensure(f'{tag}bubble: y sums to one', abs(b.y.sum() - 1.) <= 1e-9)
            w.ensure(f'{tag}dew: x sums to one', abs(d.x.sum() - 1.) <= 1e-9)
            if single_comp:
                c = th.chemicals[pIDs[0]]
                if which == 'P' and spec <= c.Pc:
                    Ts = c.Tsat(spec, check_validity=False)
                    w.ensure(f'{tag}single component gives Tsat', b.T == Ts == d.T and list(b.y) == [1.] == list(d.x), Tb=b.T, Td=d.T, Tsat=Ts)
                if which == 'T' and spec <= c.Tc:
                    Ps = c.Psat(spec)
                    w.ensure(f'{tag}single component gives Psat', b.P == Ps == d.P and list(b.y) == [1.] == list(d.x), Pb=b.P, Pd=d.P, Psat=Ps)
            else:
                z_b = np.array([zb[i] for i in b.IDs]); z_d = np.array([zb[i] for i in d.IDs])
                tb = _bubble_terms(BP, z_b, b.T, b.P, b.y); td = _dew_terms(DP, z_d, d.T, d.P, d.x)
                w.ensure(f'{tag}bubble: Raoult fractions sum to one (residual)', tuple(BP.IDs) == tuple(b.IDs) and abs(1. - tb.sum()) <= RES_TOL, residual=1. - tb.sum())
                w.ensure(f'{tag}bubble: y are the Raoult fractions', _close_arr(b.y, tb), y=b.y, raoult=tb)
                w.ensure(f'{tag}dew: Raoult fractions sum to one (residual)', tuple(DP.IDs) == tuple(d.IDs) and abs(1. - td.sum()) <= RES_TOL, residual=1. - td.sum())
                w.ensure(f'{tag}dew: x are the Raoult fractions', _close_arr(d.x, td), x=d.x, raoult=td)
            if which == 'P':
                w.ensure(f'{tag}bubble T <= dew T', b.T <= d.T + T_ATOL, Tb=b.T, Td=d.T)
            else:
                w.ensure(f'{tag}dew P <= bubble P', d.P <= b.P * (1. + P_RTOL), Pb=b.P, Pd=d.P)
            # T <-> P through the stream
            try:
                if which == 'P':
                    back_b = s.bubble_point_at_T(b.T).P; back_d = s.dew_point_at_T(d.T).P
                    w.ensure(f'{tag}P(T(P)) = P', abs(back_b / spec - 1.) <= 10 * P_RTOL and abs(back_d / spec - 1.) <= 10 * P_RTOL, bubble=back_b, dew=back_d)
                else:
                    back_b = s.bubble_point_at_P(b.P).T; back_d = s.dew_point_at_P(d.P).T
                    w.ensure(f'{tag}T(P(T)) = T', abs(back_b - spec) <= 10 * T_ATOL and abs(back_d - spec) <= 10 * T_ATOL, bubble=back_b, dew=back_d)
            except RuntimeError:
                pass
            for nm, f, ref in (('bubble', bub, b), ('dew', dew, d)):
                same(tag, f'{nm}: the stream reports the point of its normalised composition', which, ref, direct[nm], exact=True)
                same(tag, f'{nm}: same point for the stream scaled by k', which, ref, f(sk, spec))
                same(tag, f'{nm}: same point for the same material spread over two phases', which, ref, f(m, spec))
                if which == 'P': s.P = spec
                else: s.T = spec
                same(tag, f'{nm}: the stream\'s own T / P is the default specification', which, ref, f(s), exact=True)
                s.T = 311.; s.P = 77777.
                same(tag, f'{nm}: same point for explicit IDs in reversed order', which, ref, f(s, spec, IDs=tuple(reversed(ref.IDs))))
                same(tag, f'{nm}: same point on the package with the reversed chemical list', which, ref, f(sr, spec))
                same(tag, f'{nm}: asking again gives the same answer', which, ref, f(s, spec), exact=True)
    ok = True
    for v, (T, P, ids, z, c) in kept:
        comp = v.y if hasattr(type(v), 'x') and type(v).__name__.startswith('Bubble') else v.x
        ok = ok and v.T == T and v.P == P and tuple(v.IDs) == ids and bool(np.all(v.z == z)) and bool(np.all(comp == c))
    w.ensure('earlier result objects are unchanged by later calls', ok)
    mol1 = s.mol.to_array() if hasattr(s.mol, 'to_array') else np.array(s.mol)
    w.ensure('frame: the stream is unchanged', bool(np.all(mol0 == mol1)) and s.T == 311. and s.P == 77777. and s.phase == 'l')
    # history: the flows of the SAME stream change (chemicals emptied / filled): it reports what a fresh stream with those flows reports
    if len(IDs) > 1:
        flows2 = flows[::-1] * (1. + np.arange(len(IDs)))
        for st in (s, m):
            st.empty()
        for i, v, g in zip(IDs, flows2, fg):
            if v:
                s.imol[i] = v
                m.imol['g', i] = v * (1. - g); m.imol['l', i] = v * g
        fresh = single(th, IDs, flows2)
        for which, spec in (('P', 101325.), ('T', 350.)):
            for nm in ('bubble', 'dew'):
                f = lambda st: getattr(st, f'{nm}_point_at_{which}')(spec)
                try: ref = f(fresh)
                except RuntimeError:
                    skipped += 1; continue
                same(f'{which}={spec:g}: ', f'{nm}: after its flows changed the stream reports the point of its new composition', which, ref, f(s), exact=True)
                same(f'{which}={spec:g}: ', f'{nm}: after its flows changed the multi-phase stream reports the point of its new composition', which, ref, f(m))
    w.note(evaluated=evaluated, skipped=skipped)


# --------------------------------------------------------------------------- mode B: BubblePointBeta, single-component shortcut

def beta_configs(tier):
    out = []
    for IDs, z in ((('Water', 'Ethanol'), [0., 2.]), (('Water',), [1.])) + (((('Water', 'Ethanol', 'Methanol'), [0.5, 0., 0.]),) if tier == 'thorough' else ()):
        for which, spec in (('P', 101325.), ('T', 350.)) + ((('P', 5e5), ('T', 300.)) if tier == 'thorough' else ()):
            out.append({'name': f"{'+'.join(IDs)};z={','.join(f'{v:g}' for v in z)};{which}={spec:g}", 'IDs': list(IDs), 'z': z, 'which': which, 'spec': spec})
    return out


@group('C08/gap_beta_single', configs=beta_configs, mode='B',
       functions=['thermosteam.equilibrium.bubble_point:BubblePointBeta.__init__', 'thermosteam.equilibrium.bubble_point:BubblePointBeta.solve_Ty',
                  'thermosteam.equilibrium.bubble_point:BubblePointBeta.solve_Py', 'thermosteam.equilibrium.bubble_point:BubblePointBeta.__call__'],
       notes='BubblePointBeta (the flasher-based sibling of BubblePoint) on a single positive component: the shortcut never touches the '
             'flasher, so a placeholder object is handed over (settings.flasher() cannot be built in this environment); real property data, '
             '2 (3) chemical lists x P in {101325} ({101325, 5e5}) Pa, T in {350} ({300, 350}) K; multi-component branch not covered')
def gap_beta_single(w, cfg):
    th = b_thermo(cfg['IDs'], 'ideal')
    BP = bp_mod.BubblePointBeta(th.chemicals, flasher=object())
    z = np.array(cfg['z'], dtype=float); zb = z / z.sum()
    c = th.chemicals.tuple[int(np.argmax(z > 0))]
    which, spec = cfg['which'], cfg['spec']
    zin = z.copy()
    res, y = BP.solve_Ty(zin, spec) if which == 'P' else BP.solve_Py(zin, spec)
    want = c.Tsat(spec, check_validity=False) if which == 'P' else c.Psat(spec)
    w.ensure('single component: the chemical\'s saturation temperature / pressure', res == want, computed=res, saturation=want)
    w.ensure('single component: y = zbar', _close_arr(y, zb, 0.) and abs(y.sum() - 1.) <= 1e-12)
    w.ensure('frame: z unchanged', bool(np.all(zin == z)))
    vals = BP(tuple(cfg['z']), **{which: spec})
    w.ensure('result object: same point, specification handed back',
             (vals.T if which == 'P' else vals.P) == want and (vals.P if which == 'P' else vals.T) == spec and _close_arr(vals.y, zb, 0.))
