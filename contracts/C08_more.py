# -*- coding: utf-8 -*-
"""
C08 - additional bounded group (added after the seeded change C08_8 was missed): histories of calls on the SAME solver
object with the SAME composition array object whose contents the caller overwrites in place between the calls (a
preallocated buffer reused across a T-x-y sweep), and results of earlier calls that must not change afterwards.  A
bubble or dew point depends on the composition it is asked for now, not on what the solver or the caller remember.
"""
import numpy as np
import thermosteam as tmo
from thermosteam import equilibrium as eq
from engine.api import group

PACKAGES = {
    'ideal': lambda chems: tmo.Thermo(chems, Gamma=eq.IdealActivityCoefficients),
    'dortmund': lambda chems: tmo.Thermo(chems),
}
MIXES = [('Water', 'Ethanol', 'Methanol'), ('Hexane', 'Octane'), ('Water', 'Ethanol')]
SOLVES = ('solve_Ty', 'solve_Py', 'solve_Tx', 'solve_Px', 'bubble __call__(P)', 'dew __call__(T)')


def configs(tier):
    out = []
    for pk in PACKAGES:
        for IDs in (MIXES if tier == 'thorough' else MIXES[:2]):
            for solve in SOLVES:
                out.append({'name': f'{pk};{"+".join(IDs)};{solve}', 'pkg': pk, 'IDs': list(IDs), 'solve': solve})
    return out


def _compositions(n):
    base = [np.array([0.7, 0.2, 0.1][:n]), np.array([0.1, 0.3, 0.6][:n]), np.array([0.45, 0.45, 0.1][:n]), np.array([0.2, 0.7, 0.1][:n])]
    return [z / z.sum() for z in base]


@group('C08/B_reused_buffer', configs=configs, mode='B',
       functions=['thermosteam.equilibrium.bubble_point:BubblePoint.solve_Ty', 'thermosteam.equilibrium.bubble_point:BubblePoint.solve_Py',
                  'thermosteam.equilibrium.dew_point:DewPoint.solve_Tx', 'thermosteam.equilibrium.dew_point:DewPoint.solve_Px',
                  'thermosteam.equilibrium.bubble_point:BubblePoint.__call__', 'thermosteam.equilibrium.dew_point:DewPoint.__call__',
                  'thermosteam.equilibrium.bubble_point:BubblePoint.__new__', 'thermosteam.equilibrium.dew_point:DewPoint.__new__'],
       notes='2 packages (ideal activities, Dortmund) x 2 (quick) / 3 (thorough) mixtures x 6 entry points; 4 compositions written one after the other into ONE array object that is '
             'handed to the same (globally cached) solver object at the same T or P, each result compared with the result for a fresh copy of the composition on a solver of '
             'freshly copied chemicals (1e-9 relative), earlier results re-read after later calls, the buffer unchanged by the calls')
def reused_buffer(w, cfg):
    chems = tmo.Chemicals(cfg['IDs'], cache=True)
    thermo = PACKAGES[cfg['pkg']](chems)
    tmo.settings.set_thermo(thermo)
    n = len(cfg['IDs'])
    # the reference solver works on copies of the chemicals: it cannot share an instance cache entry with the solver under check
    ref_chems = tmo.Chemicals([c.copy(c.ID + '_ref') for c in thermo.chemicals])
    ref_thermo = PACKAGES[cfg['pkg']](ref_chems)
    which = 'bubble' if cfg['solve'] in ('solve_Ty', 'solve_Py', 'bubble __call__(P)') else 'dew'
    Solver = eq.BubblePoint if which == 'bubble' else eq.DewPoint
    bp = Solver(thermo.chemicals, thermo)
    ref = Solver(ref_thermo.chemicals, ref_thermo)
    T, P = 350., 101325.

    def call(obj, z):
        s = cfg['solve']
        if s == 'solve_Ty': return obj.solve_Ty(z, P)
        if s == 'solve_Py': return obj.solve_Py(z, T)
        if s == 'solve_Tx': return obj.solve_Tx(z, P)
        if s == 'solve_Px': return obj.solve_Px(z, T)
        if s == 'bubble __call__(P)':
            r = obj(z, P=P); return r.T, r.y
        r = obj(z, T=T); return r.P, r.x
    buffer = np.zeros(n)
    seen = []
    for k, z in enumerate(_compositions(n)):
        buffer[:] = z                                   # the caller overwrites the SAME array in place
        try:
            x1, comp1 = call(bp, buffer)
            x0, comp0 = call(ref, z.copy())
        except Exception as e:                            # a solve that fails on the real models decides nothing here
            w.note(skipped=f'{type(e).__name__}: {e}'[:80]); continue
        comp1 = np.array(comp1, float); comp0 = np.array(comp0, float)
        w.ensure(f'call #{k}: the point is the one of the composition handed over now (same as a fresh solver on a fresh copy)',
                 abs(x1 - x0) <= 1e-9 * abs(x0), got=x1, expected=x0)
        w.ensure(f'call #{k}: the other phase\'s composition is the one of the composition handed over now',
                 bool(np.all(np.abs(comp1 - comp0) <= 1e-9)), got=str(comp1), expected=str(comp0))
        w.ensure(f'call #{k}: the composition array of the caller is unchanged', bool(np.array_equal(buffer, z)))
        seen.append((x1, comp1.copy(), comp1))
        for j, (xj, cj_copy, cj) in enumerate(seen[:-1]):
            w.ensure('the composition returned by an earlier call is not changed by a later call', bool(np.array_equal(cj_copy, cj)), earlier=j, later=k)
    w.ensure('vacuity guard: at least two calls of the history were solved', len(seen) >= 2, solved=len(seen))


# ----------------------------------------------------------------------------------------------------------------------
# Added after the seeded change C08_10 (reported by the C16 check, missed by C08): mixtures that contain a chemical WITHOUT
# functional groups for the activity-coefficient model, listed before chemicals that have groups.  The bubble and dew points
# must not depend on the order in which the chemicals are listed, and a chemical at zero level must not change them.

import itertools

GROUPLESS = [('Ammonia', 'Water', 'Ethanol'), ('CO2', 'Water', 'Methanol'), ('O2', 'Ethanol', 'Hexane')]


def groupless_configs(tier):
    out = []
    for IDs in (GROUPLESS if tier == 'thorough' else GROUPLESS[:2]):
        for what in ('bubble T', 'bubble P', 'dew T', 'dew P'):
            out.append({'name': f'{"+".join(IDs)};{what}', 'IDs': list(IDs), 'what': what})
    return out


@group('C08/B_groupless_permutation', configs=groupless_configs, mode='B',
       functions=['thermosteam.equilibrium.bubble_point:BubblePoint.solve_Ty', 'thermosteam.equilibrium.bubble_point:BubblePoint.solve_Py',
                  'thermosteam.equilibrium.dew_point:DewPoint.solve_Tx', 'thermosteam.equilibrium.dew_point:DewPoint.solve_Px',
                  'thermosteam.equilibrium.activity_coefficients:GroupActivityCoefficients.__call__'],
       notes='2 (quick) / 3 (thorough) ternary mixtures whose FIRST chemical has no groups for the Dortmund model (ammonia, CO2, O2) x bubble/dew T/P; all 6 orders of the chemical '
             'list give the same point and the same per-chemical composition of the other phase (1e-7 relative); with the group-less chemical at zero level the point is '
             'the one of the binary of the other two (computed on a package that only holds those two)')
def groupless_permutation(w, cfg):
    IDs = cfg['IDs']
    z0 = dict(zip(IDs, (0.05, 0.55, 0.40)))
    T, P = 330., 101325.

    def point(order, z):
        chems = tmo.Chemicals(list(order), cache=True)
        th = tmo.Thermo(chems)
        zz = np.array([z.get(i, 0.) for i in order])
        if cfg['what'].startswith('bubble'):
            s = eq.BubblePoint(th.chemicals, th)
            x, comp = s.solve_Ty(zz, P) if cfg['what'].endswith('T') else s.solve_Py(zz, T)
        else:
            s = eq.DewPoint(th.chemicals, th)
            x, comp = s.solve_Tx(zz, P) if cfg['what'].endswith('T') else s.solve_Px(zz, T)
        return x, dict(zip(order, np.asarray(comp, float)))
    try:
        ref, cref = point(IDs, z0)
    except Exception as e:
        w.note(skipped=f'{type(e).__name__}: {e}'[:100]); w.ensure('the configuration was run', True); return
    for order in itertools.permutations(IDs):
        try:
            x, comp = point(order, z0)
        except Exception as e:
            w.ensure(f'order {"/".join(order)}: solved like the first order', False, exception=f'{type(e).__name__}: {e}'[:120]); continue
        w.ensure(f'{cfg["what"]} does not depend on the order in which the chemicals are listed', abs(x - ref) <= 1e-7 * abs(ref), order=str(order), got=x, first=ref)
        w.ensure('the composition of the other phase, chemical by chemical, does not depend on the order', all(abs(comp[i] - cref[i]) <= 1e-7 for i in IDs), order=str(order))
    # the group-less chemical at zero level: the binary of the other two
    zb = {IDs[1]: 0.6, IDs[2]: 0.4}
    try:
        xb, _ = point(IDs[1:], zb)
        for order in ((IDs[0], IDs[1], IDs[2]), (IDs[1], IDs[0], IDs[2])):
            x3, _ = point(order, zb)
            w.ensure('a chemical at zero level does not change the point', abs(x3 - xb) <= 1e-7 * abs(xb), order=str(order), got=x3, binary=xb)
    except Exception as e:
        w.note(binary_skipped=f'{type(e).__name__}: {e}'[:100])
