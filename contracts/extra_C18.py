# -*- coding: utf-8 -*-
"""
C18, mode U: every port-list operation of thermosteam.network preserves the well-formedness
invariant WF over an ARBITRARY heap of units, port lists, streams and placeholders
(engine/vcg/heap.py).  Source is read from the imported /repo module on every run.
"""
import os
import sys
import json
import time
import traceback
import multiprocessing as mp

VERIF = os.path.dirname(os.path.dirname(os.path.abspath(__file__)))
PROP = 'C18'
TIMEOUT_MS = int(os.environ.get('VERIF_C18_TIMEOUT_MS', '60000'))


def specs():
    """(name, static class of the receiver, method, parameter kinds)."""
    out = []
    for cls in ('Inlets', 'Outlets'):
        out += [
            (f'{cls}.append', cls, 'append', ['stream']),
            (f'{cls}.insert', cls, 'insert', ['index', 'stream']),
            (f'{cls}.__setitem__', cls, '__setitem__', ['index', 'stream']),
            (f'{cls}.pop', cls, 'pop', ['index']),
            (f'{cls}.remove', cls, 'remove', ['member']),
            (f'{cls}.replace', cls, 'replace', ['member', 'stream']),
            (f'{cls}.clear', cls, 'clear', []),
            (f'{cls}.empty', cls, 'empty', []),
        ]
    out += [(f'{cls}.extend', cls, 'extend', ['streams']) for cls in ('Inlets', 'Outlets')]
    out += [(f'{cls}.__setitem__(slice)', cls, 'set_slice', ['slice', 'streams']) for cls in ('Inlets', 'Outlets')]
    out += [(nm, 'Unit', mth, prm) for nm, (mth, prm) in UNIT_OPS.items()]
    out += [('Stream.disconnect_sink', 'StreamLike', 'disconnect_sink', []),
            ('Stream.disconnect_source', 'StreamLike', 'disconnect_source', []),
            ('Stream.disconnect', 'StreamLike', 'disconnect', [])]
    return out


# ----------------------------------------------------------------------------- cache of sampled pre-states
# The finite-domain search for a well-formed pre-state inside the preconditions (engine self-validation: the symbolic heap
# semantics is cross-checked against a native run on real objects) costs z3 30-90 s per sample and does not depend on the code
# under check, only on WF + the requires + the variant.  Samples are therefore remembered under the hash of exactly those
# formulas (engine/vcg/sample_cache.json, rewritten with --write-baseline); any change of a formula is a cache miss.
_CACHE = None
_NEW = {}


def _cache():
    global _CACHE
    if _CACHE is None:
        try: _CACHE = json.load(open(os.path.join(VERIF, 'engine', 'vcg', 'sample_cache.json')))
        except (OSError, ValueError): _CACHE = {}
    return _CACHE


def _sample_cached(tag, formulas, compute):
    """compute() -> JSON-able description of the sample (or None).  Returns (description or None, from_cache)."""
    import hashlib
    key = hashlib.sha1((tag + '|' + '|'.join(f.sexpr() for f in formulas)).encode()).hexdigest()
    c = _cache()
    if key in c: return c[key], True
    d = compute()
    if d is not None:
        d = json.loads(json.dumps(d))      # the form it will have when read back
        _NEW[key] = d
    return d, False


def _objs(d):
    return {int(k): v for k, v in d.items()}


def _prove_formula(hyp, goal, out):
    """(1) E-matching only (fast on these VCs), (2) z3 default (MBQI) as second opinion; solver budgets are wall-clock, so an
    `unknown` gets one more attempt with four times the budget (a loaded machine must not turn a proof into "undecided")."""
    import z3
    verdict = 'unknown'
    for cfg, mult in (('ematching', 1), ('default', 1), ('ematching', 4)):
        s_ = z3.Solver()
        if cfg == 'ematching':
            s_.set('auto_config', False); s_.set('smt.mbqi', False); s_.set('timeout', mult * max(5000, TIMEOUT_MS // 3))
        else:
            s_.set('timeout', mult * TIMEOUT_MS)
        for x in hyp: s_.add(x)
        s_.add(z3.Not(goal))
        t1 = time.time(); r = s_.check(); out['solver_s'] += time.time() - t1
        if r == z3.unsat: return _second_opinion(list(hyp) + [z3.Not(goal)], out)
        if r == z3.sat and cfg == 'default': return 'sat'
    return verdict


SECOND_MS = int(os.environ.get('VERIF_SECOND_MS', '3000'))


def _second_opinion(assertions, out):
    """cvc5 (engine/vcg/second.py) on a VC that z3 discharged: `unsat` confirms; no answer within SECOND_MS leaves z3's answer
    standing alone (counted as such in the evidence); `sat` against z3's `unsat` leaves the obligation undecided."""
    from engine.vcg import second, kernels
    if not kernels.SECOND: return 'unsat'
    ans, dt = second.cvc5_check(assertions, SECOND_MS)
    out['second_s'] = out.get('second_s', 0.0) + dt
    sec = out.setdefault('second', {})
    key = {'unsat': 'confirmed', 'sat': 'disagreed'}.get(ans, 'z3_only:' + ans.split(':')[0])
    sec[key] = sec.get(key, 0) + 1
    return 'unknown' if ans == 'sat' else 'unsat'


def _verify(item):
    name, cls, meth, params = item
    if meth == 'extend':
        return _verify_extend(item)
    if meth == 'set_slice':
        return _verify_set_streams(item)
    if cls == 'Unit':
        return _verify_unit_op(item)
    import z3
    import thermosteam  # noqa
    nw = sys.modules['thermosteam.network']
    from engine.vcg import heap as H
    import itertools as _it
    H._cnt = _it.count()          # fresh names are numbered per operation: formulas (and the keys of the sample cache) are reproducible
    t0 = time.time()
    out = {'name': name, 'obligations': [], 'paths': 0, 'unsupported': None, 'functions': [], 'solver_s': 0.0}
    try:
        classes = {'Inlets': nw.AbstractInlets, 'Outlets': nw.AbstractOutlets, 'StreamLike': nw.AbstractStream}
        h0 = H.Heap('0')
        sel = z3.Select
        self_ = z3.Int('self')
        side = 'sink' if cls == 'Inlets' else 'source'
        other_side = 'source' if cls == 'Inlets' else 'sink'
        pre = [sel(h0.alloc, self_), self_ != 0]
        if cls in ('Inlets', 'Outlets'):
            pre.append(sel(h0.kind, self_) == (H.INLETS if cls == 'Inlets' else H.OUTLETS))
        else:
            pre.append(sel(h0.kind, self_) == H.STREAM)       # receiver of disconnect_*: a real stream
        args = []
        info = {}
        for p in params:
            if p == 'index':
                i = z3.Int('index'); pre.append(i >= 0); args.append(H.IntV(i)); info['index'] = i
            elif p in ('stream', 'member'):
                s = z3.Int(p)
                pre += [sel(h0.alloc, s), s != 0, z3.Or(sel(h0.kind, s) == H.STREAM, sel(h0.kind, s) == H.MISSING)]
                if p == 'member':
                    pre.append(h0.member(self_, s))
                else:
                    # a placeholder handed in from outside belongs to no list yet and to this side only
                    pre.append(z3.Implies(sel(h0.kind, s) == H.MISSING,
                                          z3.And(sel(getattr(h0, other_side), s) == 0, sel(getattr(h0, side), s) == 0)))
                    # precondition of the property's quantifier
                    if meth in ('append', 'insert'):
                        pre.append(sel(getattr(h0, side), s) == 0)          # not docked on that side of any unit
                    if meth in ('__setitem__', 'replace'):
                        pre.append(z3.Not(h0.member(self_, s)))            # not already in the same port list
                args.append(H.Ref(s, 'StreamLike')); info[p] = s
        if meth in ('append', 'insert'):
            pre.append(z3.Not(sel(h0.fixed, self_)))
        posIn = z3.Function('posIn', z3.IntSort(), z3.IntSort()); posOut = z3.Function('posOut', z3.IntSort(), z3.IntSort())
        wf0 = H.WF(h0, pos=(posIn, posOut))
        hyps = [c for _, c in wf0]
        extra_terms = [z3.IntVal(0), sel(h0.llen, self_)] + ([info['index']] if 'index' in info else [])

        path_terms = []

        def cands(s_, inlet_side):
            w_ = (posIn if inlet_side else posOut)(s_)
            return [w_, w_ + 1, w_ - 1] + extra_terms + path_terms
        ex = H.Exec(classes, nw.__dict__)
        ex.side_obligations = []
        t_e = time.time()
        outs = ex.run(cls, meth, H.Ref(self_, cls), args, h0, pre, hyps)
        out['t_explore'] = round(time.time() - t_e, 1)
        out['paths'] = len(outs)
        out['functions'] = sorted(ex.functions_read)

        failing = []      # (pc + negated goal) of every VC that is not discharged, in order

        def prove(hyp, goal):
            v_ = _prove(hyp, goal)
            if v_ != 'unsat':
                failing.append((list(hyp[len(hyps):]), goal))
            return v_

        def _prove(hyp, goal):
            return _prove_formula(hyp, goal, out)

        allowed = {'IndexError': lambda: z3.BoolVal(True) if 'index' in info else z3.BoolVal(False),
                   'RuntimeError': lambda: sel(h0.fixed, self_)}
        n_ret = 0
        for n_out, (kind, pc, h1, v) in enumerate(outs):
            base = hyps + pc
            if kind == 'abort':
                out['obligations'].append((f'path {n_out}: cut path ({v}) is infeasible', prove(base, z3.BoolVal(False))))
                continue
            if kind == 'raise':
                if v in allowed:
                    cond = allowed[v]()
                    if v == 'IndexError':
                        cond = z3.Or(info['index'] >= sel(h0.llen, self_), info['index'] < 0)
                    out['obligations'].append((f'path {n_out}: {v} only when the contract allows it', prove(base, cond)))
                else:
                    out['obligations'].append((f'path {n_out}: {v} is never raised', prove(base, z3.BoolVal(False))))
                continue
            n_ret += 1
            # indices introduced on the path (results of list.index) are witness candidates too
            path_terms[:] = [c for c in _int_consts(pc) if str(c).startswith('idx!')]
            for cname, c in H.WF(h1, cands=cands):
                out['obligations'].append((f'path {n_out}: WF preserved: {cname}', prove(base, c)))
            # local effects from the property statement
            S = self_
            if meth in ('append', 'insert', '__setitem__', 'replace') and 'stream' in info:
                s = info['stream']
                out['obligations'].append((f'path {n_out}: the stream is listed in the port list afterwards', prove(base, h1.member(S, s))))
                own = sel(getattr(h0, side), S)
                out['obligations'].append((f'path {n_out}: the stream\'s {side} is the owning unit', prove(base, sel(getattr(h1, side), s) == own)))
            if meth in ('pop', 'remove') or (meth == 'replace'):
                gone = v.t if (meth == 'pop' and isinstance(v, H.Ref)) else info.get('member')
                if gone is not None:
                    out['obligations'].append((f'path {n_out}: the stream that left is no longer listed', prove(base, z3.Not(h1.member(S, gone)))))
                    out['obligations'].append((f'path {n_out}: the stream that left has no {side}', prove(base, sel(getattr(h1, side), gone) == 0)))
            if meth in ('clear', 'empty'):
                x = z3.Int('x')
                out['obligations'].append((f'path {n_out}: every stream that was listed has no {side} afterwards',
                                           prove(base, z3.ForAll([x], z3.Implies(z3.And(h0.member(S, x), sel(h0.kind, x) == H.STREAM),
                                                                                 sel(getattr(h1, side), x) == 0)))))
            if meth.startswith('disconnect'):
                if meth in ('disconnect_sink', 'disconnect'):
                    out['obligations'].append((f'path {n_out}: a real stream has no sink afterwards',
                                               prove(base, z3.Implies(sel(h0.kind, S) == H.STREAM, sel(h1.sink, S) == 0))))
                if meth in ('disconnect_source', 'disconnect'):
                    out['obligations'].append((f'path {n_out}: a real stream has no source afterwards',
                                               prove(base, z3.Implies(sel(h0.kind, S) == H.STREAM, sel(h1.source, S) == 0))))
        # ---- finite-domain models: (a) cross-check of the symbolic heap semantics on a sampled pre-state,
        #      (b) replay of every obligation that is not discharged
        from engine.vcg import heap_native as HN
        plain_wf0 = [c for _, c in H.WF(h0)]
        arg_consts = [self_] + [info[k] for k in info]
        NDOM = 8

        def sample(extra):
            def compute():
                m = HN.find_model(plain_wf0 + pre + extra, arg_consts, h0, N=NDOM, timeout_ms=max(20000, TIMEOUT_MS // 2))
                if m is None:
                    if HN.find_model.last_status != 'unsat': out['sample_timeouts'] = out.get('sample_timeouts', 0) + 1
                    return None
                vals = {'self': HN._val(m, self_)}
                for k_, c_ in info.items(): vals[k_] = HN._val(m, c_)
                return {'objs': HN.extract(m, h0, NDOM), 'vals': vals}
            d, hit = _sample_cached(name, plain_wf0 + pre + extra, compute)
            if hit: out['samples_from_cache'] = out.get('samples_from_cache', 0) + 1
            return None if d is None else (_objs(d['objs']), d['vals'])
        out['t_prove'] = round(out['solver_s'], 1)
        t_s = time.time()
        all_proved = all(v == 'unsat' for _, v in out['obligations'])
        L = sel(h0.llen, self_)
        variants = [[], [L >= 2], [L >= 1, sel(h0.fixed, self_)], [L >= 1, z3.Not(sel(h0.fixed, self_))]]
        if 'index' in info: variants += [[info['index'] < L, L >= 2], [info['index'] >= L]]
        if 'stream' in info:
            variants += [[sel(getattr(h0, side), info['stream']) != 0, sel(getattr(h0, side), info['stream']) != sel(getattr(h0, side), self_)],
                         [sel(h0.kind, info['stream']) == H.MISSING]]
        if os.environ.get('VERIF_TIER', 'quick') != 'thorough':
            # quick tier: two sampled pre-states per operation (the general one and the most specific one); thorough: all
            variants = [variants[0], variants[-2] if len(variants) > 4 else variants[-1]]
        out['cross_checks'] = []
        for extra_ in variants:
            try:
                smp = sample(extra_)
                if smp is None: continue
                nat = native_run(cls, meth, params, smp[0], smp[1])
                out['cross_checks'].append({'inputs': smp[1], 'objects': len(smp[0]), **nat})
                ok_exc = nat['exception'] in (None, 'IndexError', 'RuntimeError')
                if not nat['wf_pre'] and (nat['wf_post'] or nat['effects_failed'] or not ok_exc):
                    # a well-formed pre-state inside the preconditions whose native run breaks the contract: a replayed failing input
                    if all_proved:
                        out['obligations'].append(('cross-check: native run of a sampled well-formed pre-state keeps WF', 'sat'))
                    out['replays'] = out.get('replays', []) + [{'clause': 'cross-check', 'heap': smp[0], 'inputs': smp[1], 'native': nat}]
                    break
            except Exception as e:
                out['cross_checks'].append({'error': f'{type(e).__name__}: {e}'})
        out['t_sample'] = round(time.time() - t_s, 1)
        names_failing = [nm for nm, v in out['obligations'] if v != 'unsat' and not nm.startswith('cross-check')]
        for nm, (pc_, goal_) in zip(names_failing, failing):
            try:
                smp = sample(pc_ + [z3.Not(goal_)])
                if smp is None:
                    out.setdefault('replay_errors', []).append(f'{nm}: no finite model within the domain/timeout')
                    continue
                nat = native_run(cls, meth, params, smp[0], smp[1])
                broke = bool(nat['wf_post'] or nat['effects_failed'] or nat['exception'] not in (None, 'IndexError', 'RuntimeError'))
                if not nat['wf_pre'] and broke:
                    out['replays'] = out.get('replays', []) + [{'clause': nm, 'heap': smp[0], 'inputs': smp[1], 'native': nat}]
                else:
                    out.setdefault('replay_errors', []).append(f'{nm}: finite model found but the native run did not break WF: {nat}')
            except Exception as e:
                out.setdefault('replay_errors', []).append(f'{nm}: {type(e).__name__}: {e}')
        for oname, pc, cond in ex.side_obligations:
            out['obligations'].append((f'internal: {oname}', prove(hyps + pc, cond)))
        if n_ret == 0:
            out['obligations'].append(('vacuity: a normal return is reachable', 'sat'))
        else:
            # cover: the precondition is satisfiable together with WF - witnessed by the finite-domain samples below
            out['cover'] = 'sat' if any('inputs' in c for c in out.get('cross_checks', [])) else ('no finite sample found' if not out.get('sample_timeouts') else 'undecided (finite-model search timed out)')
            if out['cover'] == 'no finite sample found':
                out['obligations'].append(('vacuity: WF and the preconditions have a (finite) model', 'sat'))
    except H.Unsupported as e:
        out['unsupported'] = str(e)
    except Exception as e:
        out['error'] = f'{type(e).__name__}: {e}\n{traceback.format_exc()[-1200:]}'
    out['wall_s'] = time.time() - t0
    out['new_samples'] = dict(_NEW)
    return out


# ----------------------------------------------------------------------------- extend: a loop with an inductive invariant

def _verify_extend(item):
    """`StreamSequence.extend(streams)`: the loop over the caller's sequence is verified with an inductive invariant
    (engine.vcg.heap.Exec.for_loop_invariant): entry, preservation by one arbitrary iteration on an arbitrary heap, exit.
    Nothing is unrolled; the heap, the port list and the sequence have any size."""
    name, cls, meth, params = item
    import z3
    import thermosteam  # noqa
    nw = sys.modules['thermosteam.network']
    from engine.vcg import heap as H
    import itertools as _it
    H._cnt = _it.count()          # fresh names are numbered per operation: formulas (and the keys of the sample cache) are reproducible
    from engine.vcg import heap_native as HN
    t0 = time.time()
    out = {'name': name, 'obligations': [], 'paths': 0, 'unsupported': None, 'functions': [], 'solver_s': 0.0}
    try:
        classes = {'Inlets': nw.AbstractInlets, 'Outlets': nw.AbstractOutlets, 'StreamLike': nw.AbstractStream}
        sel = z3.Select
        h0 = H.Heap('0')
        S = z3.Int('self')
        n = z3.Int('n_streams'); arr = z3.Const('streams', z3.ArraySort(z3.IntSort(), z3.IntSort()))
        m, m2 = z3.Ints('m m2')
        side = 'sink' if cls == 'Inlets' else 'source'
        other_side = 'source' if cls == 'Inlets' else 'sink'
        KIND = H.INLETS if cls == 'Inlets' else H.OUTLETS
        owner = sel(getattr(h0, side), S)
        L0 = sel(h0.llen, S)
        a = lambda i: sel(arr, i)

        def fresh_elem(h, i):      # what the property's quantifier demands of a stream that is about to enter the list
            e = a(i)
            return z3.And(sel(h.alloc, e), e != 0, z3.Or(sel(h.kind, e) == H.STREAM, sel(h.kind, e) == H.MISSING),
                          sel(getattr(h, side), e) == 0,
                          z3.Implies(sel(h.kind, e) == H.MISSING, sel(getattr(h, other_side), e) == 0))

        pre = [sel(h0.alloc, S), S != 0, sel(h0.kind, S) == KIND, n >= 0,
               z3.ForAll([m], z3.Implies(z3.And(m >= 0, m < n), fresh_elem(h0, m))),
               z3.ForAll([m, m2], z3.Implies(z3.And(m >= 0, m < n, m2 >= 0, m2 < n, m != m2), a(m) != a(m2)))]
        posIn = z3.Function('posIn', z3.IntSort(), z3.IntSort()); posOut = z3.Function('posOut', z3.IntSort(), z3.IntSort())
        hyps = [c for _, c in H.WF(h0, pos=(posIn, posOut))]

        def mk_cands(pI, pO, h):
            ext = [z3.IntVal(0), sel(h.llen, S)]
            def cands(s_, inlet_side):
                w_ = (pI if inlet_side else pO)(s_)
                return [w_, w_ + 1, w_ - 1] + ext
            return cands

        def inv_parts(j, h):
            """Conjuncts of the loop invariant besides WF(h) (shared by the hypothesis and the goal form)."""
            return [
                ('the port list is the same allocated, variable-size list of the same unit',
                 z3.And(sel(h.alloc, S), sel(h.kind, S) == KIND, sel(getattr(h, side), S) == owner, z3.Not(sel(h.fixed, S)))),
                ('the list has grown by the streams handled so far', sel(h.llen, S) == L0 + j),
                ('streams handled so far are listed at the end, in order, docked at the owning unit',
                 z3.ForAll([m], z3.Implies(z3.And(m >= 0, m < j), z3.And(h.el(S, L0 + m) == a(m), sel(getattr(h, side), a(m)) == owner)))),
                ('streams listed before the call keep their positions',
                 z3.ForAll([m], z3.Implies(z3.And(m >= 0, m < L0), h.el(S, m) == h0.el(S, m)))),
                ('streams still to come are untouched (allocated, undocked on this side)',
                 z3.ForAll([m], z3.Implies(z3.And(m >= j, m < n), fresh_elem(h, m)))),
            ]

        class LC:
            @staticmethod
            def hyp(j, h):
                k_ = next(H._cnt)
                pI = z3.Function(f'posIn!{k_}', z3.IntSort(), z3.IntSort()); pO = z3.Function(f'posOut!{k_}', z3.IntSort(), z3.IntSort())
                forms = [c for _, c in H.WF(h, pos=(pI, pO))] + [c for _, c in inv_parts(j, h)]
                LC.heaps.append((h, j))
                return forms, mk_cands(pI, pO, h)
            @staticmethod
            def goal(j, h, cands):
                return [(f'WF: {nm}', c) for nm, c in H.WF(h, cands=cands)] + inv_parts(j, h)
            heaps = []

        ex = H.Exec(classes, nw.__dict__)
        ex.side_obligations = []
        ex.loop_contract = LC
        ex.cands_now = mk_cands(posIn, posOut, h0)
        t_e = time.time()
        outs = ex.run(cls, meth, H.Ref(S, cls), [H.ExtSeq(n, arr)], h0, pre, hyps)
        out['t_explore'] = round(time.time() - t_e, 1)
        out['paths'] = len(outs)
        out['functions'] = sorted(ex.functions_read)
        failing = []

        def _prove(hyp, goal):
            return _prove_formula(hyp, goal, out)

        def prove(nm, pc, goal):
            t1 = time.time()
            v_ = _prove(hyps + pc, goal)
            out.setdefault('slowest', []).append((round(time.time() - t1, 2), nm))
            if v_ != 'unsat': failing.append((nm, list(pc), goal))
            out['obligations'].append((nm, v_))

        n_ret = n_iter = 0
        for n_out, (kind, pc, h1, v) in enumerate(outs):
            if kind == 'abort':
                prove(f'path {n_out}: cut path ({v}) is infeasible', pc, z3.BoolVal(False)); continue
            if kind == 'raise':
                if v == 'RuntimeError':
                    prove(f'path {n_out}: RuntimeError only when the contract allows it', pc, sel(h0.fixed, S))
                else:
                    prove(f'path {n_out}: {v} is never raised', pc, z3.BoolVal(False))
                continue
            if kind == 'iteration':
                n_iter += 1; continue          # its VCs are the side obligations 'loop invariant preserved ...'
            n_ret += 1
            cands = ex.out_cands[n_out]
            hx = h1
            for cname, c in H.WF(hx, cands=cands):
                prove(f'path {n_out}: WF preserved: {cname}', pc, c)
            # membership with the witness position spelled out (old length + m): implies the existential of `member`
            prove(f'path {n_out}: every stream of the sequence is listed in the port list afterwards', pc,
                  z3.ForAll([m], z3.Implies(z3.And(m >= 0, m < n),
                                            z3.And(L0 + m >= 0, L0 + m < sel(hx.llen, S), hx.el(S, L0 + m) == a(m)))))
            prove(f"path {n_out}: every stream of the sequence has the owning unit as its {side}", pc,
                  z3.ForAll([m], z3.Implies(z3.And(m >= 0, m < n), sel(getattr(hx, side), a(m)) == owner)))
            prove(f'path {n_out}: streams listed before are still listed at their positions', pc,
                  z3.ForAll([m], z3.Implies(z3.And(m >= 0, m < L0), hx.el(S, m) == h0.el(S, m))))
        for oname, pc, cond in ex.side_obligations:
            prove(f'loop: {oname}', pc, cond)
        if n_ret == 0: out['obligations'].append(('vacuity: a normal return is reachable', 'sat'))
        if n_iter == 0: out['obligations'].append(('vacuity: the loop body is reachable', 'sat'))
        # canary: a wrong invariant conjunct must be refuted (the preservation VCs are not vacuous)
        it_out = next(((pc, h1) for kind, pc, h1, v in outs if kind == 'iteration'), None)
        if it_out is not None:
            pc, h1 = it_out
            s_ = z3.Solver(); s_.set('auto_config', False); s_.set('smt.mbqi', False); s_.set('timeout', 5000)
            for x_ in hyps + pc: s_.add(x_)
            s_.add(sel(h1.llen, S) != L0)
            if s_.check() == z3.unsat:       # the wrong claim would be PROVABLE: the hypotheses are contradictory
                out['obligations'].append(('vacuity: the wrong invariant "the list never grows" is refuted', 'sat'))
        out['t_prove'] = round(out['solver_s'], 1)

        # ---- finite-domain models -> real objects: cross-check on sampled pre-states, replay of failing obligations
        NDOM = 8
        t_s = time.time()
        plain_wf0 = [c for _, c in H.WF(h0)]
        small = [n <= 3] + [z3.And(a(i) >= 0, a(i) < NDOM) for i in range(3)]

        def native(objs, self_id, stream_ids):
            real = HN.build(objs)
            uni0 = HN.reachable(list(real.values()))
            res = {'wf_pre': HN.wf_native(uni0), 'exception': None}
            try:
                real[self_id].extend([real[i] for i in stream_ids])
            except Exception as e:
                res['exception'] = type(e).__name__
            res['wf_post'] = HN.wf_native(HN.reachable(list(real.values())))
            eff = []
            if res['exception'] is None:
                own = getattr(real[self_id], '_' + side)
                for i in stream_ids:
                    if not any(real[i] is t for t in real[self_id]._streams): eff.append('every stream of the sequence is listed in the port list afterwards')
                    if getattr(real[i], '_' + side) is not own: eff.append(f'every stream of the sequence has the owning unit as its {side}')
            res['effects_failed'] = sorted(set(eff))
            return res

        out['cross_checks'] = []
        all_proved = all(v == 'unsat' for _, v in out['obligations'])
        variants = [[n == 2, z3.Not(sel(h0.fixed, S))], [n == 1, L0 >= 1, z3.Not(sel(h0.fixed, S))], [n >= 1, sel(h0.fixed, S)], [n == 0]]
        if os.environ.get('VERIF_TIER', 'quick') != 'thorough': variants = variants[:2]
        for extra_ in variants:
            try:
                def compute():
                    mdl = HN.find_model(plain_wf0 + pre + small + extra_, [S], h0, N=NDOM, timeout_ms=max(20000, TIMEOUT_MS // 2))
                    if mdl is None:
                        if HN.find_model.last_status != 'unsat': out['sample_timeouts'] = out.get('sample_timeouts', 0) + 1
                        return None
                    return {'objs': HN.extract(mdl, h0, NDOM), 'self': HN._val(mdl, S), 'ids': [HN._val(mdl, a(i)) for i in range(HN._val(mdl, n))]}
                d_, hit = _sample_cached(name, plain_wf0 + pre + small + extra_, compute)
                if d_ is None: continue
                if hit: out['samples_from_cache'] = out.get('samples_from_cache', 0) + 1
                objs, ids, self_id = _objs(d_['objs']), d_['ids'], d_['self']
                nat = native(objs, self_id, ids)
                out['cross_checks'].append({'inputs': {'self': self_id, 'streams': ids}, 'objects': len(objs), **nat})
                ok_exc = nat['exception'] in (None, 'RuntimeError')
                if not nat['wf_pre'] and (nat['wf_post'] or nat['effects_failed'] or not ok_exc):
                    if all_proved:
                        out['obligations'].append(('cross-check: native run of a sampled well-formed pre-state keeps WF', 'sat'))
                    out['replays'] = out.get('replays', []) + [{'clause': 'cross-check', 'heap': objs, 'inputs': {'self': self_id, 'streams': ids}, 'native': nat}]
                    break
            except Exception as e:
                out['cross_checks'].append({'error': f'{type(e).__name__}: {e}'})
        # a failing loop obligation is replayed from the heap its hypothesis speaks about: (h, j) satisfies Inv(j), so the real
        # extend called with the rest of the sequence streams[j:] starts inside the precondition
        for nm, pc, goal in failing:
            try:
                hj = [(h, j) for h, j in LC.heaps if any(_mentions(f, h.kind) for f in pc)]
                h, j = hj[-1] if hj else (h0, z3.IntVal(0))
                mdl = HN.find_model(hyps + pc + small + [z3.Not(goal)], [S], h, N=NDOM, timeout_ms=max(20000, TIMEOUT_MS // 2))
                if mdl is None:
                    out.setdefault('replay_errors', []).append(f'{nm}: no finite model within the domain/timeout'); continue
                objs = HN.extract(mdl, h, NDOM)
                jv = HN._val(mdl, j) if not z3.is_int_value(j) else j.as_long()
                ids = [HN._val(mdl, a(i)) for i in range(jv, HN._val(mdl, n))]
                nat = native(objs, HN._val(mdl, S), ids)
                broke = bool(nat['wf_post'] or nat['effects_failed'] or nat['exception'] not in (None, 'RuntimeError'))
                if not nat['wf_pre'] and broke:
                    out['replays'] = out.get('replays', []) + [{'clause': nm, 'heap': objs, 'inputs': {'self': HN._val(mdl, S), 'streams': ids}, 'native': nat}]
                else:
                    out.setdefault('replay_errors', []).append(f'{nm}: finite model found but the native run did not break WF: {nat}')
            except Exception as e:
                out.setdefault('replay_errors', []).append(f'{nm}: {type(e).__name__}: {e}')
        out['t_sample'] = round(time.time() - t_s, 1)
        if n_ret and not any('inputs' in c for c in out['cross_checks']) and not out.get('sample_timeouts'):
            out['obligations'].append(('vacuity: WF and the preconditions have a (finite) model', 'sat'))
    except H.Unsupported as e:
        out['unsupported'] = str(e)
    except Exception as e:
        out['error'] = f'{type(e).__name__}: {e}\n{traceback.format_exc()[-1200:]}'
    out['wall_s'] = time.time() - t0
    out['new_samples'] = dict(_NEW)
    return out


# ----------------------------------------------------------------------------- the contract of  seq[a:b] = streams

def slice_contract(cls, hA, hB, S, slc, n, arr, idx_new):
    """Requires / ensures of a slice assignment to a port list, as formulas over the heap before (hA) and after (hB).
    The SAME builder is used (a) by _verify_set_streams, which assumes `pre` and proves every `post` clause (and WF) from the
    real source, and (b) at call sites inside unit-level operations (_verify_unit_op), where `pre` is an obligation and
    `post` (and WF) is all that is known about the heap afterwards: callers are checked against the contract, not the body.
    idx_new: ghost inverse of the duplicate-free sequence (position of a reference in `streams`)."""
    import z3
    from engine.vcg import heap as H
    sel = z3.Select
    m, m2, i_, x = z3.Ints('m m2 i x')
    side = 'sink' if cls == 'Inlets' else 'source'
    other_side = 'source' if cls == 'Inlets' else 'sink'
    KIND = H.INLETS if cls == 'Inlets' else H.OUTLETS
    OTHER_KIND = H.OUTLETS if cls == 'Inlets' else H.INLETS
    owner = sel(getattr(hA, side), S)
    L0 = sel(hA.llen, S)
    lo0, hi0 = slc.bounds(L0)
    a = lambda k_: sel(arr, k_)
    kept = lambda k_: z3.Or(z3.And(k_ >= 0, k_ < lo0), z3.And(k_ >= hi0, k_ < L0))
    isnew = lambda y: z3.And(idx_new(y) >= 0, idx_new(y) < n, a(idx_new(y)) == y)
    shift = n - (hi0 - lo0)

    def elem_ok(k_):
        e = a(k_)
        return z3.And(sel(hA.alloc, e), e != 0, z3.Or(sel(hA.kind, e) == H.STREAM, sel(hA.kind, e) == H.MISSING),
                      z3.Implies(sel(hA.kind, e) == H.MISSING, sel(getattr(hA, other_side), e) == 0))
    pre = [
        ('the receiver is an allocated port list of this side', z3.And(sel(hA.alloc, S), S != 0, sel(hA.kind, S) == KIND)),
        ('the sequence has a non-negative length and the slice non-negative bounds', z3.And(n >= 0, slc.a >= 0, slc.b >= 0)),
        ('every element is an allocated stream or a placeholder of this side (no None element)', z3.ForAll([m], z3.Implies(z3.And(m >= 0, m < n), elem_ok(m)))),
        ('no stream occurs twice in the sequence', z3.ForAll([m, m2], z3.Implies(z3.And(m >= 0, m < n, m2 >= 0, m2 < n, m != m2), a(m) != a(m2)))),
        ('a stream assigned to a port is not already in the kept part of the same list', z3.ForAll([i_], z3.Implies(kept(i_), z3.Not(isnew(hA.el(S, i_)))))),
        ('the slice does not supply more streams than a fixed-size list holds', z3.Implies(sel(hA.fixed, S), L0 - (hi0 - lo0) + n <= sel(hA.fsize, S))),
    ]
    ghost = z3.ForAll([m], z3.Implies(z3.And(m >= 0, m < n), idx_new(a(m)) == m))       # definable given "no stream occurs twice"
    listed = z3.ForAll([m], z3.Implies(z3.And(m >= 0, m < n), z3.And(lo0 + m >= 0, lo0 + m < sel(hB.llen, S), hB.el(S, lo0 + m) == a(m))))
    post = [
        ('every stream of the sequence is listed in the port list afterwards', listed),
        (f'every stream of the sequence has the owning unit as its {side}', z3.ForAll([m], z3.Implies(z3.And(m >= 0, m < n), sel(getattr(hB, side), a(m)) == owner))),
        ('streams outside the slice keep their order around the new ones',
         z3.ForAll([i_], z3.And(z3.Implies(z3.And(i_ >= 0, i_ < lo0), hB.el(S, i_) == hA.el(S, i_)),
                                z3.Implies(z3.And(i_ >= hi0, i_ < L0), hB.el(S, i_ + shift) == hA.el(S, i_))))),
        (f'a stream that left the list has no {side} afterwards',
         z3.ForAll([i_], z3.Implies(z3.And(i_ >= lo0, i_ < hi0, z3.Not(isnew(hA.el(S, i_)))), sel(getattr(hB, side), hA.el(S, i_)) == 0))),
        ('a list of fixed size has its size afterwards', z3.Implies(sel(hA.fixed, S), sel(hB.llen, S) == sel(hA.fsize, S))),
        ('the list has the length of the kept part plus the sequence, or its fixed size', z3.Or(sel(hB.llen, S) == L0 + shift, z3.And(sel(hA.fixed, S), sel(hB.llen, S) == sel(hA.fsize, S)))),
    ] + frame_clauses(cls, hA, hB)
    return dict(pre=pre, ghost=ghost, post=post, listed=listed, owner=owner, lo=lo0, hi=hi0, L0=L0, shift=shift, isnew=isnew, a=a)


def frame_clauses(cls, hA, hB):
    """What a port-list operation of one side never touches (frame of the contract)."""
    import z3
    from engine.vcg import heap as H
    sel = z3.Select
    x = z3.Int('x')
    other_side = 'source' if cls == 'Inlets' else 'sink'
    OTHER_KIND = H.OUTLETS if cls == 'Inlets' else H.INLETS
    islist = lambda h, y: z3.Or(sel(h.kind, y) == H.INLETS, sel(h.kind, y) == H.OUTLETS)
    return [
        ('frame: objects that existed before still exist, with their class',
         z3.ForAll([x], z3.Implies(sel(hA.alloc, x), z3.And(sel(hB.alloc, x), sel(hB.kind, x) == sel(hA.kind, x))))),
        ('frame: the port lists of every unit, their owners and size policies are unchanged',
         z3.ForAll([x], z3.Implies(sel(hA.alloc, x), z3.And(sel(hB.ins, x) == sel(hA.ins, x), sel(hB.outs, x) == sel(hA.outs, x),
                                                           sel(hB.fixed, x) == sel(hA.fixed, x), sel(hB.fsize, x) == sel(hA.fsize, x),
                                                           z3.Implies(islist(hA, x), z3.And(sel(hB.sink, x) == sel(hA.sink, x), sel(hB.source, x) == sel(hA.source, x))))))),
        (f'frame: the {other_side} of every existing object and the port lists of the other side are unchanged',
         z3.ForAll([x], z3.Implies(sel(hA.alloc, x), z3.And(sel(getattr(hB, other_side), x) == sel(getattr(hA, other_side), x),
                                                           z3.Implies(sel(hA.kind, x) == OTHER_KIND,
                                                                      z3.And(sel(hB.llen, x) == sel(hA.llen, x), sel(hB.elem, x) == sel(hA.elem, x))))))),
    ]


# ----------------------------------------------------------------------------- slice assignment: seq[a:b] = streams

def _verify_set_streams(item):
    """`seq[a:b] = streams` (StreamSequence.__setitem__ with a slice -> _set_streams): the loop that undocks the streams leaving
    is summarised pointwise, the loop that re-docks every stream of the new list (it removes a stream from the port list of
    the unit it was docked at before) is verified with an inductive invariant: WF relaxed at this list's positions >= j.
    Heap, lists and the sequence have any size; nothing is unrolled."""
    name, cls, meth, params = item
    import z3
    import thermosteam  # noqa
    nw = sys.modules['thermosteam.network']
    from engine.vcg import heap as H
    import itertools as _it
    H._cnt = _it.count()          # fresh names are numbered per operation: formulas (and the keys of the sample cache) are reproducible
    from engine.vcg import heap_native as HN
    t0 = time.time()
    out = {'name': name, 'obligations': [], 'paths': 0, 'unsupported': None, 'functions': [], 'solver_s': 0.0}
    try:
        classes = {'Inlets': nw.AbstractInlets, 'Outlets': nw.AbstractOutlets, 'StreamLike': nw.AbstractStream}
        sel = z3.Select
        h0 = H.Heap('0')
        S = z3.Int('self')
        n = z3.Int('n_streams'); arr = z3.Const('streams', z3.ArraySort(z3.IntSort(), z3.IntSort()))
        sa, sb = z3.Ints('slice_start slice_stop'); sb_none = z3.Bool('slice_stop_is_None')
        m, m2, i_ = z3.Ints('m m2 i')
        side = 'sink' if cls == 'Inlets' else 'source'
        other_side = 'source' if cls == 'Inlets' else 'sink'
        KIND = H.INLETS if cls == 'Inlets' else H.OUTLETS
        owner = sel(getattr(h0, side), S)
        L0 = sel(h0.llen, S)
        slc = H.SliceV(sa, sb, sb_none)
        lo0, hi0 = slc.bounds(L0)
        a = lambda k_: sel(arr, k_)
        kept = lambda k_: z3.Or(z3.And(k_ >= 0, k_ < lo0), z3.And(k_ >= hi0, k_ < L0))
        # ghost: the position of a reference in `streams` (exists because the sequence has no repeated element; it turns
        # "x is (not) one of the new streams" into a quantifier-free test)
        idx_new = z3.Function('idx_new', z3.IntSort(), z3.IntSort())
        isnew = lambda x: z3.And(idx_new(x) >= 0, idx_new(x) < n, a(idx_new(x)) == x)

        def elem_ok(h, k_):
            e = a(k_)
            return z3.And(sel(h.alloc, e), e != 0, z3.Or(sel(h.kind, e) == H.STREAM, sel(h.kind, e) == H.MISSING),
                          z3.Implies(sel(h.kind, e) == H.MISSING, sel(getattr(h, other_side), e) == 0))

        # requires: exactly the `pre` of the shared contract builder (the same formulas are obligations at the call sites inside
        # the unit-level operations); the ghost inverse is definable because the sequence has no repeated element
        K0 = slice_contract(cls, h0, h0, S, slc, n, arr, idx_new)
        pre = [c for _, c in K0['pre']] + [K0['ghost']]
        posIn = z3.Function('posIn', z3.IntSort(), z3.IntSort()); posOut = z3.Function('posOut', z3.IntSort(), z3.IntSort())
        hyps = [c for _, c in H.WF(h0, pos=(posIn, posOut))]
        shift = n - (hi0 - lo0)

        def mk_cands(pI, pO, h, extra=()):
            ext = [z3.IntVal(0), sel(h.llen, S)] + list(extra)
            def cands(s_, inlet_side):
                w_ = (pI if inlet_side else pO)(s_)
                return [w_, w_ + 1, w_ - 1, w_ + shift] + ext
            return cands

        class LC:
            entry = None; seq = None; heaps = []
            @staticmethod
            def enter(hE, it):
                LC.entry, LC.seq = hE, it
            @staticmethod
            def parts(j, h):
                hE, c, N = LC.entry, LC.seq.arr, LC.seq.n
                x = z3.Int('x')
                return [
                    ('the port list object is unchanged (same unit, same size policy)',
                     z3.And(sel(h.alloc, S), sel(h.kind, S) == KIND, sel(getattr(h, side), S) == owner,
                            sel(h.fixed, S) == sel(h0.fixed, S), sel(h.fsize, S) == sel(h0.fsize, S))),
                    ('the body does not change the list that is being traversed',
                     z3.And(sel(h.llen, S) == N, z3.ForAll([m], z3.Implies(z3.And(m >= 0, m < N), h.el(S, m) == sel(c, m))))),
                    ('objects that existed before the call still exist, with their class',
                     z3.ForAll([x], z3.Implies(sel(h0.alloc, x), z3.And(sel(h.alloc, x), sel(h.kind, x) == sel(h0.kind, x))))),
                    ('streams that left the list stay undocked',
                     z3.ForAll([i_], z3.Implies(z3.And(i_ >= lo0, i_ < hi0, z3.Not(isnew(h0.el(S, i_)))),
                                                sel(getattr(h, side), h0.el(S, i_)) == 0))),
                ] + [(nm, c) for nm, c in frame_clauses(cls, h0, h)[1:]]
            @staticmethod
            def hyp(j, h):
                k_ = next(H._cnt)
                pI = z3.Function(f'posIn!{k_}', z3.IntSort(), z3.IntSort()); pO = z3.Function(f'posOut!{k_}', z3.IntSort(), z3.IntSort())
                forms = [c for _, c in H.WF(h, pos=(pI, pO), relax=(S, j))] + [c for _, c in LC.parts(j, h)]
                LC.heaps.append((h, j))
                return forms, mk_cands(pI, pO, h, extra=[j])
            @staticmethod
            def goal(j, h, cands):
                return [(f'WF (relaxed at the positions of this list not yet re-docked): {nm}', c) for nm, c in H.WF(h, cands=cands, relax=(S, j))] + LC.parts(j, h)

        ex = H.Exec(classes, nw.__dict__)
        ex.side_obligations = []
        ex.loop_contract = LC
        ex.cands_now = mk_cands(posIn, posOut, h0)
        t_e = time.time()
        outs = ex.run(cls, '__setitem__', H.Ref(S, cls), [slc, H.ExtSeq(n, arr)], h0, pre, hyps)
        out['t_explore'] = round(time.time() - t_e, 1)
        out['paths'] = len(outs)
        out['functions'] = sorted(ex.functions_read)
        failing = []

        def _prove(hyp, goal):
            return _prove_formula(hyp, goal, out)

        def prove(nm, pc, goal):
            t1 = time.time()
            v_ = _prove(hyps + pc, goal)
            out.setdefault('slowest', []).append((round(time.time() - t1, 2), nm))
            if v_ != 'unsat': failing.append((nm, list(pc), goal))
            out['obligations'].append((nm, v_))

        n_ret = n_iter = 0
        for n_out, (kind, pc, h1, v) in enumerate(outs):
            if kind == 'abort':
                prove(f'path {n_out}: cut path ({v}) is infeasible', pc, z3.BoolVal(False)); continue
            if kind == 'raise':
                prove(f'path {n_out}: {v} is never raised', pc, z3.BoolVal(False)); continue
            if kind == 'iteration':
                n_iter += 1; continue
            n_ret += 1
            cands = ex.out_cands[n_out]
            for cname, c in H.WF(h1, cands=cands):
                prove(f'path {n_out}: WF preserved: {cname}', pc, c)
            K1 = slice_contract(cls, h0, h1, S, slc, n, arr, idx_new)
            lemmas = []
            for cname, c in K1['post']:
                # cut: the first clause (an obligation of its own) is used as a lemma for the later ones, it names the positions
                # the solver must look at
                prove(f'path {n_out}: {cname}', pc + lemmas, c)
                if not lemmas: lemmas = [c]
        for oname, pc, cond in ex.side_obligations:
            prove(f'loop: {oname}' if oname.startswith('loop invariant') else f'internal: {oname}', pc, cond)
        if n_ret == 0: out['obligations'].append(('vacuity: a normal return is reachable', 'sat'))
        if n_iter == 0: out['obligations'].append(('vacuity: the loop body is reachable', 'sat'))
        # vacuity guard: the hypotheses of every iteration path and of the exit paths (havoc'ed heap + invariant + path condition)
        # must not be contradictory - `False` must not be provable from them
        def consistent(pc):
            s_ = z3.Solver(); s_.set('auto_config', False); s_.set('smt.mbqi', False); s_.set('timeout', 5000)
            for x in hyps + pc: s_.add(x)
            return s_.check() != z3.unsat
        for n_out, (kind, pc, h1, v) in enumerate(outs):
            if kind in ('iteration', 'return') and not consistent(pc):
                out['obligations'].append((f'vacuity: the hypotheses of path {n_out} ({kind}) are consistent', 'sat'))
        out['t_prove'] = round(out['solver_s'], 1)
        if os.environ.get('VERIF_C18_DEBUG'):
            out['_debug'] = {'failing': failing, 'hyps': hyps, 'heaps': LC.heaps, 'h0': h0, 'S': S}
            return out

        # ---- finite-domain models -> real objects
        NDOM = 8
        t_s = time.time()
        plain_wf0 = [c for _, c in H.WF(h0)]
        small = [n <= 3, sa <= 4, sb <= 4] + [z3.And(a(k_) >= 0, a(k_) < NDOM) for k_ in range(3)]

        def native(objs, self_id, stream_ids, a_v, b_v, b_none_v, loose=False):
            real = HN.build(objs)
            uni0 = HN.reachable(list(real.values()))
            res = {'wf_pre': HN.wf_native(uni0), 'exception': None}
            seq = real[self_id]
            before = list(seq._streams)
            new = [real[k_] for k_ in stream_ids]
            try:
                seq[a_v:(None if b_none_v else b_v)] = new
            except Exception as e:
                res['exception'] = type(e).__name__
            res['wf_post'] = HN.wf_native(HN.reachable(list(real.values()) + before))
            eff = []
            if res['exception'] is None:
                own = getattr(seq, '_' + side)
                for s_ in new:
                    if not any(s_ is t for t in seq._streams): eff.append('every stream of the sequence is listed in the port list afterwards')
                    if getattr(s_, '_' + side) is not own: eff.append(f'every stream of the sequence has the owning unit as its {side}')
                for s_ in before:
                    if not any(s_ is t for t in seq._streams) and getattr(s_, '_' + side) is not None:
                        eff.append(f'a stream that left the list has no {side} afterwards')
                if seq._fixed_size and len(seq._streams) != seq._size: eff.append('a list of fixed size has its size afterwards')
            res['effects_failed'] = sorted(set(eff))
            return res

        def describe(mdl, h):
            nv = HN._val(mdl, n)
            ids = [HN._val(mdl, a(k_)) for k_ in range(nv)]
            return {'objs': HN.extract(mdl, h, NDOM),
                    'inputs': {'self': HN._val(mdl, S), 'streams': ids, 'slice': [HN._val(mdl, sa), None if HN._val(mdl, sb_none) else HN._val(mdl, sb)]}}

        def run_desc(d_):
            objs, inputs = _objs(d_['objs']), d_['inputs']
            nat = native(objs, inputs['self'], inputs['streams'], inputs['slice'][0], inputs['slice'][1], inputs['slice'][1] is None)
            return objs, inputs, nat

        def run_model(mdl, h, j_from=0):
            return run_desc(json.loads(json.dumps(describe(mdl, h))))

        out['cross_checks'] = []
        all_proved = all(v == 'unsat' for _, v in out['obligations'])
        x_ = z3.Int('x!v')
        variants = [[n == 1, z3.Not(sel(h0.fixed, S)), sel(getattr(h0, side), a(0)) != 0, sel(getattr(h0, side), a(0)) != owner],
                    [n == 0, L0 >= 2, sel(h0.fixed, S), hi0 - lo0 >= 2],
                    [n == 1, L0 >= 2, hi0 - lo0 == 1, sel(h0.fixed, S)],
                    [n == 1, sel(h0.kind, a(0)) == H.MISSING, sel(getattr(h0, side), a(0)) != 0, sel(getattr(h0, side), a(0)) != owner]]
        if os.environ.get('VERIF_TIER', 'quick') != 'thorough': variants = variants[:2]
        for extra_ in variants:
            try:
                def compute():
                    mdl = HN.find_model(plain_wf0 + pre + small + extra_, [S], h0, N=NDOM, timeout_ms=max(20000, TIMEOUT_MS // 2))
                    if mdl is None:
                        if HN.find_model.last_status != 'unsat': out['sample_timeouts'] = out.get('sample_timeouts', 0) + 1
                        return None
                    return describe(mdl, h0)
                d_, hit = _sample_cached(name, plain_wf0 + pre + small + extra_, compute)
                if d_ is None: continue
                if hit: out['samples_from_cache'] = out.get('samples_from_cache', 0) + 1
                objs, inputs, nat = run_desc(d_)
                out['cross_checks'].append({'inputs': inputs, 'objects': len(objs), **nat})
                if not nat['wf_pre'] and (nat['wf_post'] or nat['effects_failed'] or nat['exception'] is not None):
                    if all_proved:
                        out['obligations'].append(('cross-check: native run of a sampled well-formed pre-state keeps WF', 'sat'))
                    out['replays'] = out.get('replays', []) + [{'clause': 'cross-check', 'heap': objs, 'inputs': inputs, 'native': nat}]
                    break
            except Exception as e:
                out['cross_checks'].append({'error': f'{type(e).__name__}: {e}'})
        # failing obligations: a finite model of the PRE-state (h0) that satisfies the path up to the loop cannot be read off an
        # iteration VC (its heap is havoc'ed and only relaxed-WF), so failing input = a well-formed pre-state within the
        # preconditions on which the REAL slice assignment breaks the contract, searched over the finite domain with the sampled variants
        if failing and not out.get('replays'):
            more = [[n == 1, sel(getattr(h0, side), a(0)) != 0, sel(getattr(h0, side), a(0)) != owner],
                    [n == 1, hi0 - lo0 >= 1], [n == 2], [n == 0, hi0 - lo0 >= 1], [n == 1, sel(h0.fixed, S)], [n == 0, sel(h0.fixed, S), hi0 - lo0 >= 1],
                    [n == 1, sel(h0.kind, a(0)) == H.MISSING], [n == 2, sel(getattr(h0, side), a(1)) != 0, sel(getattr(h0, side), a(1)) != owner, L0 >= 1]]
            for extra_ in more:
                try:
                    mdl = HN.find_model(plain_wf0 + pre + small + extra_, [S], h0, N=NDOM, timeout_ms=max(20000, TIMEOUT_MS // 2))
                    if mdl is None: continue
                    objs, inputs, nat = run_model(mdl, h0)
                    if not nat['wf_pre'] and (nat['wf_post'] or nat['effects_failed'] or nat['exception'] is not None):
                        out['replays'] = [{'clause': failing[0][0], 'heap': objs, 'inputs': inputs, 'native': nat}]
                        break
                except Exception as e:
                    out.setdefault('replay_errors', []).append(f'{type(e).__name__}: {e}')
            if not out.get('replays'):
                out.setdefault('replay_errors', []).append('no sampled well-formed pre-state breaks the contract natively')
        out['t_sample'] = round(time.time() - t_s, 1)
        if n_ret and not any('inputs' in c for c in out['cross_checks']) and not out.get('sample_timeouts'):
            out['obligations'].append(('vacuity: WF and the preconditions have a (finite) model', 'sat'))
    except H.Unsupported as e:
        out['unsupported'] = str(e)
    except Exception as e:
        out['error'] = f'{type(e).__name__}: {e}\n{traceback.format_exc()[-1200:]}'
    out['wall_s'] = time.time() - t0
    out['new_samples'] = dict(_NEW)
    return out


# ----------------------------------------------------------------------------- unit-level operations on the contract level

UNIT_OPS = {
    # name: (method, parameter kinds)
    'Unit.take_place_of': ('take_place_of', ['unit']),
    'Unit.replace_with(other)': ('replace_with', ['unit']),
    'Unit.disconnect()': ('disconnect', []),
}


def _verify_unit_op(item):
    """AbstractUnit.take_place_of / replace_with(other) / disconnect(): straight-line compositions of slice assignments to the
    port lists.  They are verified MODULARLY: every `x[:] = y` is replaced by the contract proved in _verify_set_streams
    (slice_contract): its requires are obligations at the call site, the heap afterwards is arbitrary up to its ensures + WF."""
    name, cls, meth, params = item
    import z3
    import thermosteam  # noqa
    nw = sys.modules['thermosteam.network']
    from engine.vcg import heap as H
    import itertools as _it
    H._cnt = _it.count()          # fresh names are numbered per operation: formulas (and the keys of the sample cache) are reproducible
    t0 = time.time()
    out = {'name': name, 'obligations': [], 'paths': 0, 'unsupported': None, 'functions': [], 'solver_s': 0.0}
    try:
        classes = {'Inlets': nw.AbstractInlets, 'Outlets': nw.AbstractOutlets, 'StreamLike': nw.AbstractStream, 'Unit': nw.AbstractUnit}
        sel = z3.Select
        h0 = H.Heap('0')
        U, V = z3.Ints('self other')
        m = z3.Int('m')
        isunit = lambda x: z3.And(sel(h0.alloc, x), x != 0, sel(h0.kind, x) == H.UNIT)
        pre = [isunit(U)]
        args = []
        if params == ['unit']:
            pre += [isunit(V), U != V]
            args = [H.Ref(V, 'Unit')]
            # receiver of the streams / giver of the streams
            recv, giver = (U, V) if meth == 'take_place_of' else (V, U)
            for fld in ('ins', 'outs'):
                R, G = sel(getattr(h0, fld), recv), sel(getattr(h0, fld), giver)
                # the quantifier of the property: a slice does not supply more streams than a fixed-size list holds
                pre.append(z3.Implies(sel(h0.fixed, R), sel(h0.llen, G) <= sel(h0.fsize, R)))
        posIn = z3.Function('posIn', z3.IntSort(), z3.IntSort()); posOut = z3.Function('posOut', z3.IntSort(), z3.IntSort())
        hyps = [c for _, c in H.WF(h0, pos=(posIn, posOut))]

        def mk_cands(pI, pO, h):
            def cands(s_, inlet_side):
                w_ = (pI if inlet_side else pO)(s_)
                return [w_, w_ + 1, w_ - 1, z3.IntVal(0)]
            return cands
        calls = []

        def apply_slice_contract(ex, o, k, v, heap, lineno):
            S = o.t
            if isinstance(v, H.ExtSeq): n_, arr_ = v.n, v.arr
            elif isinstance(v, H.Ref) and v.cls in ('Inlets', 'Outlets'): n_, arr_ = sel(heap.llen, v.t), sel(heap.elem, v.t)
            elif isinstance(v, H.ListV): n_, arr_ = sel(heap.llen, v.seq.t), sel(heap.elem, v.seq.t)
            else: raise H.Unsupported('slice assignment of a value that is not a sequence of streams')
            kk = next(H._cnt)
            idx_new = z3.Function(f'idx_new!{kk}', z3.IntSort(), z3.IntSort())
            hA = heap.copy(); hB = H.Heap(f'!c{kk}')
            K = slice_contract(o.cls, hA, hB, S, k, n_, arr_, idx_new)
            for nm, c in K['pre']:
                ex.side_obligations.append((f'requires of the slice assignment #{len(calls) + 1}: {nm}', list(ex.pc), c))
            pI = z3.Function(f'posIn!{kk}', z3.IntSort(), z3.IntSort()); pO = z3.Function(f'posOut!{kk}', z3.IntSort(), z3.IntSort())
            ex.pc += [K['ghost']] + [c for _, c in H.WF(hB, pos=(pI, pO))] + [c for _, c in K['post']]
            ex.cands_now = mk_cands(pI, pO, hB)
            for f in H.FIELDS: setattr(heap, f, getattr(hB, f))
            calls.append((o.cls, S, n_, arr_, hA, hB))

        ex = H.Exec(classes, nw.__dict__)
        ex.side_obligations = []
        ex.contracts = {'slice_assign': apply_slice_contract}
        ex.cands_now = mk_cands(posIn, posOut, h0)
        outs = ex.run('Unit', meth, H.Ref(U, 'Unit'), args, h0, pre, hyps)
        out['paths'] = len(outs)
        out['functions'] = sorted(ex.functions_read)
        out['contract_calls'] = len(calls)

        def _prove(hyp, goal):
            return _prove_formula(hyp, goal, out)

        def prove(nm, pc, goal):
            out['obligations'].append((nm, _prove(hyps + pc, goal)))

        n_ret = 0
        for n_out, (kind, pc, h1, v) in enumerate(outs):
            if kind == 'abort':
                prove(f'path {n_out}: cut path ({v}) is infeasible', pc, z3.BoolVal(False)); continue
            if kind == 'raise':
                prove(f'path {n_out}: {v} is never raised', pc, z3.BoolVal(False)); continue
            n_ret += 1
            for cname, c in H.WF(h1, cands=ex.out_cands[n_out]):
                prove(f'path {n_out}: WF preserved: {cname}', pc, c)
            if params == ['unit']:
                for fld, side in (('ins', 'sink'), ('outs', 'source')):
                    R, G = sel(getattr(h0, fld), recv), sel(getattr(h0, fld), giver)
                    moved = z3.ForAll([m], z3.Implies(z3.And(m >= 0, m < sel(h0.llen, G)),
                                                      z3.And(m < sel(h1.llen, R), h1.el(R, m) == h0.el(G, m), sel(getattr(h1, side), h0.el(G, m)) == recv)))
                    prove(f'path {n_out}: every stream listed in the {fld} of the giving unit is listed, in order, in the {fld} of the receiving unit, which is its {side}', pc, moved)
            else:
                for fld, side in (('ins', 'sink'), ('outs', 'source')):
                    R = sel(getattr(h0, fld), U)
                    gone = z3.ForAll([m], z3.Implies(z3.And(m >= 0, m < sel(h0.llen, R), sel(h0.kind, h0.el(R, m)) == H.STREAM), sel(getattr(h1, side), h0.el(R, m)) == 0))
                    prove(f'path {n_out}: every stream that was listed in the {fld} has no {side} afterwards', pc, gone)
        for oname, pc, cond in ex.side_obligations:
            prove(oname if oname.startswith('requires') else f'internal: {oname}', pc, cond)
        if n_ret == 0: out['obligations'].append(('vacuity: a normal return is reachable', 'sat'))
        if not calls: out['obligations'].append(('vacuity: the operation applies the slice-assignment contract', 'sat'))
        # vacuity: the hypotheses after the contract applications are consistent
        for n_out, (kind, pc, h1, v) in enumerate(outs):
            if kind == 'return':
                s_ = z3.Solver(); s_.set('auto_config', False); s_.set('smt.mbqi', False); s_.set('timeout', 5000)
                for x in hyps + pc: s_.add(x)
                if s_.check() == z3.unsat:
                    out['obligations'].append((f'vacuity: the hypotheses of path {n_out} are consistent', 'sat'))
        out['t_prove'] = round(out['solver_s'], 1)
        out['cross_checks'] = []
    except H.Unsupported as e:
        out['unsupported'] = str(e)
    except Exception as e:
        out['error'] = f'{type(e).__name__}: {e}\n{traceback.format_exc()[-1200:]}'
    out['wall_s'] = time.time() - t0
    out['new_samples'] = dict(_NEW)
    return out


def _mentions(f, const):
    import z3
    seen = set()
    def walk(t):
        if t.get_id() in seen: return False
        seen.add(t.get_id())
        if t.eq(const): return True
        if z3.is_quantifier(t): return walk(t.body())
        return any(walk(c) for c in t.children()) if z3.is_app(t) else False
    return walk(f)


def native_run(cls, meth, params, objs, vals):
    """Run the real method on real objects built from a heap description.  Returns dict with WF before/after and effects."""
    import thermosteam  # noqa
    from engine.vcg import heap_native as HN
    nw = sys.modules['thermosteam.network']
    real = HN.build(objs)
    recv = real[vals['self']]
    args = []
    for p in params:
        args.append(vals[p] if p == 'index' else real[vals[p]])
    uni0 = HN.reachable(list(real.values()))
    out = {'wf_pre': HN.wf_native(uni0), 'exception': None}
    side = '_sink' if cls == 'Inlets' else '_source'
    try:
        if meth == '__setitem__': recv[args[0]] = args[1]; ret = None
        else: ret = getattr(recv, meth)(*args)
    except Exception as e:
        out['exception'] = type(e).__name__
        ret = None
    uni1 = HN.reachable(list(real.values()) + ([ret] if ret is not None and not isinstance(ret, int) else []))
    out['wf_post'] = HN.wf_native(uni1)
    eff = []
    if out['exception'] is None and cls in ('Inlets', 'Outlets'):
        owner = getattr(recv, side)
        if meth in ('append', 'insert', '__setitem__', 'replace') and 'stream' in vals:
            st = real[vals['stream']]
            if not any(st is t for t in recv._streams): eff.append('the stream is listed in the port list afterwards')
            if getattr(st, side) is not owner: eff.append(f"the stream's {side[1:]} is the owning unit")
        gone = ret if meth == 'pop' else (real[vals['member']] if 'member' in vals else None)
        if gone is not None and meth in ('pop', 'remove', 'replace'):
            if any(gone is t for t in recv._streams): eff.append('the stream that left is no longer listed')
            if getattr(gone, side) is not None: eff.append(f'the stream that left has no {side[1:]}')
    out['effects_failed'] = eff
    return out


def replay_native_file(d):
    """./check C18 --replay <file>: rebuild the real objects of the failing input and run the real operation again.
    Returns the list of broken WF conjuncts / effects (empty = not reproduced)."""
    import thermosteam  # noqa
    from engine.vcg import heap_native as HN
    rep = d.get('failing_input')
    if not rep:
        return None
    objs = {int(k): v for k, v in rep['heap'].items()}
    inputs = rep['inputs']
    name = d['function']
    cls, _, meth = name.partition('.')
    real = HN.build(objs)
    before = list(real.values())
    wf_pre = HN.wf_native(HN.reachable(before))
    exc = None
    recv = real[inputs['self']]
    extra = []
    try:
        if meth == 'extend':
            recv.extend([real[i] for i in inputs['streams']])
        elif meth.startswith('__setitem__(slice)'):
            extra = list(recv._streams)
            a_, b_ = inputs['slice']
            recv[a_:b_] = [real[i] for i in inputs['streams']]
        else:
            params = next(prm for nm, c_, m_, prm in specs() if nm == name)
            nat = native_run(cls, meth, params, objs, inputs)
            return {'wf_pre': nat['wf_pre'], 'broken': (nat['wf_post'] or []) + (nat['effects_failed'] or []) + ([nat['exception']] if nat['exception'] not in (None, 'IndexError', 'RuntimeError') else [])}
    except Exception as e:
        exc = type(e).__name__
    wf_post = HN.wf_native(HN.reachable(before + extra))
    return {'wf_pre': wf_pre, 'broken': list(wf_post) + ([exc] if exc not in (None, 'RuntimeError') else [])}


def _int_consts(terms):
    import z3
    seen = {}
    def walk(t):
        if z3.is_const(t) and t.decl().kind() == z3.Z3_OP_UNINTERPRETED and z3.is_int(t):
            seen[t.get_id()] = t
        elif z3.is_app(t):
            for c in t.children(): walk(c)
        elif z3.is_quantifier(t):
            walk(t.body())
    for t in terms: walk(t)
    return list(seen.values())


def run(prop, tier, jobs, seed):
    from engine import runner
    t0 = time.time()
    items = specs()
    only = os.environ.get('VERIF_C18_ONLY')
    if only:
        items = [i for i in items if only in i[0]]
    ctxm = mp.get_context('fork')
    with ctxm.Pool(min(jobs, len(items))) as pool:
        res = pool.map(_verify, items, chunksize=1)
    known = runner.load_known()
    baseline = runner.load_baseline()
    status = 0
    n_ob = n_dis = viol = 0
    functions, unsupported, samples, newbase = [], [], [], {}
    read = set()
    for r in res:
        if r.get('error'):
            print(f"ENGINE-ERROR C18/U/{r['name']}: {r['error']}"); status = max(status, 3); continue
        if r['unsupported']:
            unsupported.append(f"{r['name']}: {r['unsupported']}")
            if any(k.startswith(f"C18/U/{r['name']}/") for k in baseline):
                # proved on the baseline tree, outside the executor's subset on this tree: never a silent pass (the bounded groups
                # of C18 run the same operations natively; if they find nothing the check ends as an engine error)
                print(f"ENGINE-ERROR C18/U/{r['name']}: proved on the baseline tree but no longer within the heap executor's subset ({r['unsupported']})")
                status = max(status, 3) if status != 1 else 1
            continue
        read |= set(r['functions'])
        functions.append({'name': 'thermosteam.network:' + r['name'], 'mode': 'U', 'paths': r['paths'], 'inlined': r['functions']})
        for n, v in r['obligations']:
            clause = n.split(': ', 1)[-1]
            ob = f"C18/U/{r['name']}/{n}"
            k = runner.match_known(known, PROP, 'C18/U', r['name'], clause)
            if v == 'unsat':
                n_ob += 1; n_dis += 1; newbase[ob] = 'unsat'; continue
            if k is not None:
                print(f"KNOWN-FINDING: property={PROP} {k['what']} [{k['id']}; {ob}]"); continue
            n_ob += 1
            rdir = os.path.join(VERIF, 'replays', PROP); os.makedirs(rdir, exist_ok=True)
            path = os.path.join(rdir, ('U__' + r['name'] + '__' + n).replace('/', '_').replace(' ', '_').replace(':', '')[:150] + '.json')
            reps = r.get('replays') or []
            rep = next((x for x in reps if x['clause'] == n), reps[0] if reps else None)
            json.dump({'property': PROP, 'obligation': ob, 'function': r['name'], 'mode': 'U', 'solver_verdict': v,
                       'failing_input': rep, 'replay_notes': r.get('replay_errors'),
                       'how_to_replay': 'heap = objects (kind 1 unit, 2 stream, 3 placeholder, 4 inlets, 5 outlets) with their fields; engine.vcg.heap_native.build(heap) '
                                        'creates the real thermosteam.network objects, then the method is called with `inputs`'},
                      open(path, 'w'), indent=1, default=str)
            if rep is not None:
                print(f'VIOLATION property={PROP} replay={path}')
                print(f"  obligation {ob}: native run on a well-formed heap of {len(rep['heap'])} objects breaks {rep['native'].get('wf_post')} {rep['native'].get('effects_failed')} {rep['native'].get('exception') or ''}")
                status = 1; viol += 1
            elif v == 'unknown':
                print(f'UNDECIDED {ob}')
                if status == 0: status = 2
            elif baseline.get(ob) == 'unsat':
                print(f'VIOLATION property={PROP} replay={path} no-failing-input-found'); status = 1; viol += 1
            else:
                print(f'UNDECIDED {ob} (refuted by the solver; not in the baseline of discharged obligations)')
                if status == 0: status = 2
        if len(samples) < 40:
            samples.append({'function': r['name'], 'paths': r['paths'], 'seconds': {k: r.get(k) for k in ('t_explore', 't_prove', 't_sample', 'wall_s')}, 'obligations': [f'{n} -> {v}' for n, v in r['obligations'][:8]]})
    sec = {}
    for r in res:
        for k_, v_ in (r.get('second') or {}).items(): sec[k_] = sec.get(k_, 0) + v_
    cov = {'obligations': n_ob, 'discharged': n_dis, 'obligations_U': n_ob, 'functions_under_contract': functions,
           'second_back_end': {'solver': f'cvc5 1.0.3 (/usr/bin/cvc5, {SECOND_MS} ms per VC) on the SMT-LIB text of the z3 terms of each discharged VC',
                               'queries': sec, 'solver_time_s': round(sum(r.get('second_s', 0) for r in res), 2),
                               'meaning': 'confirmed = unsat in z3 AND cvc5; z3_only:unknown = cvc5 gave no answer in its budget (quantified heap invariants: z3 e-matching on the stated triggers decides them, cvc5 not always); disagreed = cvc5 sat (obligation left undecided)'},
           'source_read_from_repo': sorted(read), 'unsupported_by_mode_U': unsupported, 'samples': samples,
           'solver_time_U_s': round(sum(r.get('solver_s', 0) for r in res), 2),
           'trusted_base': ['heap VCG engine (engine/vcg/heap.py): Burstall-Bornat memory model, list theory, allocation, loop summaries over port lists',
                            'dropped from the source: warn(...) calls with their guarding if, stacklevel arithmetic']}
    new_samples = {}
    for r in res: new_samples.update(r.get('new_samples') or {})
    cov['samples_from_cache'] = sum(r.get('samples_from_cache', 0) for r in res)
    cov['samples_computed'] = len(new_samples)
    if new_samples and os.environ.get('VERIF_WRITE_SAMPLE_CACHE') == '1':
        c = dict(_cache()); c.update(new_samples)
        json.dump(c, open(os.path.join(VERIF, 'engine', 'vcg', 'sample_cache.json'), 'w'), indent=0, sort_keys=True)
    return {'status': status, 'coverage': cov, 'baseline': newbase, 'violations': viol, 'wall_s': time.time() - t0}
