# -*- coding: utf-8 -*-
"""
C17 -- reaction arithmetic agrees with applying the reactions and spares its operands.

Contracts (sidecar) on the real operators of thermosteam.reaction._reaction.  Reactions are real
`Reaction` / `ParallelReaction` / `ReactionItem` objects whose stoichiometric coefficients and conversions are
symbolic leaves (reactant coefficient -1, i.e. the normal form `_rescale` establishes).  Two reactions are compared
*observationally*: both are applied (`_reaction`, the function `__call__`/`force_reaction`/`adiabatic_reaction`
delegate to) to fresh sparse feeds holding the same arbitrary symbolic flows and the dense results are compared.
Frame clauses compare stoichiometry, reactant, conversion, basis of every operand before/after and check that
results do not share storage with operands (and stay independent when the result is mutated afterwards).

Runs on the contract level of the sparse kernels (l0=True): stoichiometries of both signs are added/subtracted.
"""
import os
import numpy as np
import thermosteam as tmo
from thermosteam.base import SparseVector, SparseArray
from engine.api import group
from engine.sx import tmo_world as W

# engine option (engine/sx/sym.py, Ctx.prove): discharge each VC first on a fresh one-shot solver; the long-lived path
# solver needed its full time-out on the rational-function identities of mixed-basis sums (20 s vs 0.02 s), same verdicts
os.environ.setdefault('VERIF_PROVE_FRESH_MS', '5000')

IDS = ('Water', 'Ethanol', 'Methanol', 'Octane')
# private compiled chemicals (not the shared W.thermo packages): their molecular weights are replaced by leaves
_CH = {}
for _n in (3, 4):
    _c = tmo.Chemicals([W.chemical(i) for i in IDS[:_n]])
    _c.compile()
    _CH[_n] = _c

RXN = 'thermosteam.reaction._reaction:'


# --------------------------------------------------------------------------- helpers (harness only)

def _rows(x):
    return x.rows if hasattr(x, 'rows') else [x]


def dense(x):
    """Dense image (flat list, row-major) of a SparseVector / SparseArray; never forks."""
    return [r.dct.get(k, 0.) for r in _rows(x) for k in range(r.size)]


def plant(sv, k, v):
    d = sv.dct
    if hasattr(d, 'put'):
        d.put(k, v)            # contract level: candidate of undecided presence (no fork)
    elif v:
        d[k] = v
    else:
        d.pop(k, None)


def mk_feed(vals, nrows, n):
    arr = SparseArray.from_shape([nrows, n]) if nrows else SparseVector.from_size(n)
    for i, r in enumerate(_rows(arr)):
        for k in range(n):
            plant(r, k, vals[i * n + k])
    return arr


def feed_leaves(w, nrows, n, name='f'):
    return [w.real(f'{name}.{i}.{k}') for i in range(max(nrows, 1)) for k in range(n)]


def chems(n):
    return _CH[n]


def plant_MW(w, n):
    """Molecular weights are arbitrary positive reals (leaves): the wt <-> mol conversions are then exact in the
    real model (float constants such as 1/18.01528 are rounded and would break exact equalities)."""
    mw = [w.real(f'MW.{k}', lo=0., lo_strict=True) for k in range(n)]
    chems(n).__dict__['MW'] = np.array(mw, dtype=object if w.symbolic else float)
    return mw


def rxn_spec(w, name, n, ph, ridx=0, rrow=None, fixed=None):
    """Symbolic stoichiometry: every (phase row, chemical) entry is a free real, the reactant entry is -1."""
    nrows = len(ph)
    if rrow is None: rrow = nrows - 1 if nrows else 0
    coef = {}
    for i in range(max(nrows, 1)):
        for k in range(n):
            if (i, k) == (rrow, ridx):
                coef[i, k] = -1.
            elif fixed is not None and (i, k) in fixed:
                coef[i, k] = fixed[i, k]
            else:
                coef[i, k] = w.real(f'{name}.s{i}.{k}')
    return {'n': n, 'ph': tuple(ph), 'ridx': ridx, 'rrow': rrow, 'coef': coef}


def build(spec, X, basis='mol'):
    """A fresh real Reaction (constructor + _rescale run) carrying the spec's coefficients."""
    n, ph, ridx, rrow = spec['n'], spec['ph'], spec['ridx'], spec['rrow']
    ch = chems(n)
    IDs = ch.IDs
    r = IDs[ridx]
    p = IDs[(ridx + 1) % n]
    if ph:
        rxn = tmo.Reaction({r: (ph[rrow], -1.), p: (ph[rrow], 1.)}, reactant=r, X=X, chemicals=ch, basis=basis, phases=ph)
    else:
        rxn = tmo.Reaction({r: -1., p: 1.}, reactant=r, X=X, chemicals=ch, basis=basis)
    for i, row in enumerate(_rows(rxn._stoichiometry)):
        for k in range(n):
            plant(row, k, spec['coef'][i, k])
    return rxn


def stoich_items(r):
    st = r._stoichiometry
    return list(st) if isinstance(st, list) else [st]


def snap(r):
    """Observable definition of a reaction (set): dense stoichiometry, reactant, conversion, basis, phases."""
    ri = r._reactant_index
    if isinstance(ri, np.ndarray): ri = ri.tolist()
    X = r._X
    X = list(X) if isinstance(X, np.ndarray) else [X]
    return {'stoich': [v for s in stoich_items(r) for v in dense(s)], 'reactant': repr(ri), 'X': X,
            'basis': r._basis, 'phases': tuple(r._phases), 'chemicals': id(r._chemicals), 'cls': type(r).__name__}


def same(w, s0, s1, keys=('stoich', 'reactant', 'X', 'basis', 'phases', 'chemicals')):
    cs = []
    for k in keys:
        if k in ('stoich', 'X'):
            cs.append(w.all_eq(s0[k], s1[k]))
        else:
            cs.append(s0[k] == s1[k])
    return w.And(*cs)


def storage(r):
    objs = [r]
    for s in stoich_items(r):
        objs.append(s)
        for row in _rows(s):
            objs += [row, row.dct]
    if isinstance(r._X, np.ndarray): objs.append(r._X)
    return objs


def disjoint(r1, r2):
    """No mutable storage (object, stoichiometry container, rows, dicts, X arrays) is shared."""
    ids = {id(o) for o in storage(r1)}
    return not any(id(o) in ids for o in storage(r2))


def act(rxn, vals, nrows, n):
    """Products of applying the reaction to a fresh feed holding `vals` (dense list)."""
    f = mk_feed(vals, nrows, n)
    rxn._reaction(f)
    return dense(f)


def MWs(n, nrows):
    return list(chems(n).MW) * max(nrows, 1)


def other_basis(b):
    return 'wt' if b == 'mol' else 'mol'


def ensure_each(w, label, xs, ys):
    for i, (x, y) in enumerate(zip(xs, ys)):
        w.ensure(f'{label} [{i}]', w.eq(x, y))


def poke(res):
    """Mutate a result through its public interface (conversion and basis, the latter rewrites the stoichiometry in place)."""
    res.X = res.X + 1.
    res.basis = other_basis(res._basis)


# --------------------------------------------------------------------------- a + b

def add_configs(tier):
    out = []
    ns = [3] if tier == 'quick' else [3, 4]
    for n in ns:
        for ph in ['', 'gl'] + (['gls'] if tier != 'quick' and n == 3 else []):
            for bases in ['mol+mol', 'wt+wt', 'mol+wt', 'wt+mol']:
                for op in ['add', 'sum', 'iadd', 'self', 'triple']:
                    if ph == 'gls' and (op in ('self', 'triple', 'sum') or bases in ('wt+wt', 'wt+mol')): continue
                    if tier == 'quick' and bases != 'mol+mol' and op not in ('add', 'iadd'): continue
                    if op in ('self', 'triple') and bases in ('mol+wt', 'wt+mol'): continue
                    if op == 'triple' and ph and n == 4: continue
                    out.append({'name': f'n={n};ph={ph or "-"};basis={bases};op={op}', 'n': n, 'ph': ph, 'bases': bases, 'op': op})
    return out


ADD_FUNCS = [RXN + 'Reaction.__add__', RXN + 'Reaction.__radd__', RXN + 'Reaction.__iadd__',
             RXN + 'Reaction._math_compatible_reaction', RXN + 'Reaction.copy', RXN + 'Reaction.has_reaction',
             RXN + 'set_reaction_basis', RXN + 'Reaction._rescale', RXN + 'Reaction._reaction',
             RXN + 'ReactionSet.__init__', RXN + 'ParallelReaction._reaction']


def _parallel_expected(w, specs, Xs, bases, vals, nrows, n):
    """Products of applying the reactions in parallel to the material whose flows (in the basis of the first
    reaction) are `vals`.  Same basis: the real ParallelReaction on fresh operands.  Mixed bases: each reaction
    acts on the flows expressed in its own basis (mass = mol * MW), changes are added."""
    if len(set(bases)) == 1:
        P = tmo.ParallelReaction([build(s, X, b) for s, X, b in zip(specs, Xs, bases)])
        return act(P, vals, nrows, n)
    mw = MWs(n, nrows)
    b0 = bases[0]
    out = list(vals)
    for s, X, b in zip(specs, Xs, bases):
        r = build(s, X, b)
        if b == b0:
            res = act(r, vals, nrows, n)
            delta = [x - v for x, v in zip(res, vals)]
        elif b == 'wt':       # vals are molar flows, the reaction acts on mass flows
            mass = [v * m for v, m in zip(vals, mw)]
            res = act(r, mass, nrows, n)
            delta = [(x - v) / m for x, v, m in zip(res, mass, mw)]
        else:                 # vals are mass flows, the reaction acts on molar flows
            mol = [v / m for v, m in zip(vals, mw)]
            res = act(r, mol, nrows, n)
            delta = [(x - v) * m for x, v, m in zip(res, mol, mw)]
        out = [o + d for o, d in zip(out, delta)]
    return out


@group('C17/add', configs=add_configs, functions=ADD_FUNCS, l0=True)
def add(w, cfg):
    W.reset_caches()
    n, ph, op = cfg['n'], tuple(cfg['ph']), cfg['op']
    plant_MW(w, n)
    nrows = len(ph)
    ba, bb = cfg['bases'].split('+')
    Xa, Xb = w.real('Xa'), w.real('Xb')
    sa = rxn_spec(w, 'a', n, ph)
    sb = sa if op == 'self' else rxn_spec(w, 'b', n, ph)
    if op == 'self': Xb = Xa
    # requires: the code divides by X_a + X_b (unless b does not react, then nothing is divided)
    w.assume(w.Or(w.eq(Xb, 0.), w.ne(Xa + Xb, 0.)))
    a = build(sa, Xa, ba)
    b = a if op == 'self' else build(sb, Xb, bb)
    vals = feed_leaves(w, nrows, n)
    pa, pb = snap(a), snap(b)
    specs, Xs, bases = [sa, sb], [Xa, Xb], [ba, bb]
    if op == 'triple':
        Xc = w.real('Xc')
        sc = rxn_spec(w, 'c', n, ph)
        w.assume(w.Or(w.eq(Xc, 0.), w.ne(Xa + Xb + Xc, 0.)))
        c3 = build(sc, Xc, ba)
        pc = snap(c3)
        specs, Xs, bases = specs + [sc], Xs + [Xc], bases + [ba]
        c = a + b + c3
        w.ensure('third operand unchanged', same(w, pc, snap(c3)))
        w.ensure('result shares no storage with third operand', disjoint(c, c3))
    elif op == 'sum':
        c = sum([a, b])
    else:
        c = a + b
    expected = _parallel_expected(w, specs, Xs, bases, vals, nrows, n)
    got = act(c, vals, nrows, n)
    ensure_each(w, '(a+b)(feed) = a and b in parallel', got, expected)
    w.ensure('a unchanged', same(w, pa, snap(a)))
    w.ensure('b unchanged', same(w, pb, snap(b)))
    w.ensure('a+b is a new object sharing no storage with a, b', w.And(c is not a, c is not b, disjoint(c, a), disjoint(c, b)))
    w.ensure('a+b keeps basis and reactant of a', w.And(c._basis == ba, repr(c._reactant_index) == repr(a._reactant_index)))
    if op == 'iadd':
        a2 = build(sa, Xa, ba)
        r = a2
        r += b
        got2 = act(r, vals, nrows, n)
        ensure_each(w, '(a += b)(feed) = (a + b)(feed)', got2, got)
        w.ensure('a += b is the same reaction as a + b', same(w, snap(r), snap(c)))
        w.ensure('b unchanged by +=', same(w, pb, snap(b)))
        w.ensure('a += b shares no storage with b', disjoint(r, b))
    # independence: mutating the result must not reach the operands
    poke(c)
    w.ensure('a unchanged after mutating the result', same(w, pa, snap(a)))
    w.ensure('b unchanged after mutating the result', same(w, pb, snap(b)))
    k = (sa['ridx'] + 1) % n
    w.canary('canary: (a+b)(feed) = feed', w.eq(got[k], vals[k]))
    w.note(got=got[:3], expected=expected[:3])


# --------------------------------------------------------------------------- (a + b) - b, a - b, a -= b

def sub_configs(tier):
    out = []
    ns = [3] if tier == 'quick' else [3, 4]
    for n in ns:
        for ph in ['', 'gl'] + (['gls'] if tier != 'quick' and n == 3 else []):
            for bases in ['mol+mol', 'wt+wt', 'mol+wt', 'wt+mol']:
                for op in ['sum-sub', 'sum-isub', 'isub']:
                    if ph == 'gls' and bases in ('wt+wt', 'wt+mol'): continue
                    if tier == 'quick' and bases != 'mol+mol' and ph and op != 'sum-sub': continue
                    out.append({'name': f'n={n};ph={ph or "-"};basis={bases};op={op}', 'n': n, 'ph': ph, 'bases': bases, 'op': op})
    return out


SUB_FUNCS = [RXN + 'Reaction.__sub__', RXN + 'Reaction.__isub__', RXN + 'Reaction.__add__',
             RXN + 'Reaction._math_compatible_reaction', RXN + 'Reaction.copy', RXN + 'Reaction._reaction']


@group('C17/sub', configs=sub_configs, functions=SUB_FUNCS, l0=True)
def sub(w, cfg):
    W.reset_caches()
    n, ph, op = cfg['n'], tuple(cfg['ph']), cfg['op']
    plant_MW(w, n)
    nrows = len(ph)
    ba, bb = cfg['bases'].split('+')
    Xa, Xb = w.real('Xa'), w.real('Xb')
    sa = rxn_spec(w, 'a', n, ph)
    sb = rxn_spec(w, 'b', n, ph)
    a = build(sa, Xa, ba)
    b = build(sb, Xb, bb)
    vals = feed_leaves(w, nrows, n)
    pa, pb = snap(a), snap(b)
    k = (sa['ridx'] + 1) % n
    if op in ('sum-sub', 'sum-isub'):
        # requires: a+b divides by X_a+X_b, the difference divides by (X_a+X_b) - X_b
        w.assume(w.Or(w.eq(Xb, 0.), w.And(w.ne(Xa + Xb, 0.), w.ne(Xa, 0.))))
        c = a + b
        pc = snap(c)
        if op == 'sum-sub':
            d = c - b
            w.ensure('a+b unchanged by subtraction', same(w, pc, snap(c)))
        else:
            d = c
            d -= b
        got = act(d, vals, nrows, n)
        expected = act(build(sa, Xa, ba), vals, nrows, n)
        ensure_each(w, '((a+b)-b)(feed) = a(feed)', got, expected)
        w.ensure('a unchanged', same(w, pa, snap(a)))
        w.ensure('b unchanged', same(w, pb, snap(b)))
        w.ensure('(a+b)-b shares no storage with a, b', w.And(d is not a, d is not b, disjoint(d, a), disjoint(d, b)))
        w.canary('canary: ((a+b)-b)(feed) = feed', w.eq(got[k], vals[k]))
    else:
        # a, b arbitrary with the same reactant; a - b divides by X_a - X_b
        w.assume(w.Or(w.eq(Xb, 0.), w.ne(Xa - Xb, 0.)))
        d = a - b
        got = act(d, vals, nrows, n)
        w.ensure('a unchanged by a - b', same(w, pa, snap(a)))
        w.ensure('b unchanged by a - b', same(w, pb, snap(b)))
        w.ensure('a - b is a new object sharing no storage with a, b',
                 w.And(d is not a, d is not b, disjoint(d, a), disjoint(d, b)))
        r = build(sa, Xa, ba)
        r -= b
        got2 = act(r, vals, nrows, n)
        ensure_each(w, '(a -= b)(feed) = (a - b)(feed)', got2, got)
        w.ensure('a -= b is the same reaction as a - b', same(w, snap(r), snap(d)))
        w.ensure('b unchanged by -=', same(w, pb, snap(b)))
        w.ensure('a -= b shares no storage with b', disjoint(r, b))
        poke(d)
        w.ensure('a unchanged after mutating a - b', same(w, pa, snap(a)))
        w.ensure('b unchanged after mutating a - b', same(w, pb, snap(b)))
        w.canary('canary: (a-b)(feed) = feed', w.eq(got[k], vals[k]))


# --------------------------------------------------------------------------- k*a, a*k, a/k, a *= k, a /= k

def scale_configs(tier):
    out = []
    ns = [3] if tier == 'quick' else [3, 4]
    for n in ns:
        for ph in ['', 'gl']:
            for basis in ['mol', 'wt']:
                for op in ['mul', 'rmul', 'truediv', 'imul', 'itruediv']:
                    if tier == 'quick' and basis == 'wt' and ph: continue
                    out.append({'name': f'n={n};ph={ph or "-"};basis={basis};op={op}', 'n': n, 'ph': ph, 'basis': basis, 'op': op})
    return out


SCALE_FUNCS = [RXN + 'Reaction.__mul__', RXN + 'Reaction.__rmul__', RXN + 'Reaction.__imul__', RXN + 'Reaction.__truediv__',
               RXN + 'Reaction.__itruediv__', RXN + 'Reaction.copy', RXN + 'Reaction.X']


@group('C17/scale', configs=scale_configs, functions=SCALE_FUNCS, l0=True)
def scale(w, cfg):
    W.reset_caches()
    n, ph, op, basis = cfg['n'], tuple(cfg['ph']), cfg['op'], cfg['basis']
    plant_MW(w, n)
    nrows = len(ph)
    Xa = w.real('Xa')
    k = w.real('k', lo=0., lo_strict=True)
    sa = rxn_spec(w, 'a', n, ph)
    a = build(sa, Xa, basis)
    vals = feed_leaves(w, nrows, n)
    pa = snap(a)
    div = op in ('truediv', 'itruediv')
    binary = a / k if div else (k * a if op == 'rmul' else a * k)
    ref = build(sa, Xa / k if div else Xa * k, basis)        # "a with its conversion multiplied / divided by k"
    expected = act(ref, vals, nrows, n)
    got = act(binary, vals, nrows, n)
    what = 'a/k' if div else 'k*a'
    ensure_each(w, f'({what})(feed) = a with X{"/" if div else "*"}k (feed)', got, expected)
    w.ensure('a unchanged', same(w, pa, snap(a)))
    w.ensure(f'{what} is a new object sharing no storage with a', w.And(binary is not a, disjoint(binary, a)))
    w.ensure(f'{what} keeps stoichiometry, reactant, basis of a',
             same(w, pa, snap(binary), keys=('stoich', 'reactant', 'basis', 'phases', 'chemicals')))
    if op in ('imul', 'itruediv'):
        r = build(sa, Xa, basis)
        if div: r /= k
        else: r *= k
        got2 = act(r, vals, nrows, n)
        ensure_each(w, f'in-place {what} acts like binary {what}', got2, got)
        w.ensure(f'in-place {what} is the same reaction as binary {what}', same(w, snap(r), snap(binary)))
    poke(binary)
    w.ensure('a unchanged after mutating the result', same(w, pa, snap(a)))
    j = (sa['ridx'] + 1) % n
    w.canary('canary: k*a acts like a', w.eq(got[j], act(build(sa, Xa, basis), vals, nrows, n)[j]))


# --------------------------------------------------------------------------- copy, re-basing copy, negation, trivial sums/differences

def frame_configs(tier):
    out = []
    ns = [3] if tier == 'quick' else [3, 4]
    for n in ns:
        for ph in ['', 'gl']:
            for basis in ['mol', 'wt']:
                for op in ['copy', 'rebase', 'neg', 'add0', 'addNone', 'add-noreaction', 'sub0', 'sub-noreaction',
                           'add-other-reactant', 'iadd-other-reactant', 'sub-other-reactant', 'isub-other-reactant']:
                    if tier == 'quick' and basis == 'wt' and op not in ('rebase', 'copy'): continue
                    if tier == 'quick' and ph and op.endswith('other-reactant') and not op.startswith('i'): continue
                    out.append({'name': f'n={n};ph={ph or "-"};basis={basis};op={op}', 'n': n, 'ph': ph, 'basis': basis, 'op': op})
    return out


FRAME_FUNCS = [RXN + 'Reaction.copy', RXN + 'Reaction.__neg__', RXN + 'Reaction.__add__', RXN + 'Reaction.__sub__',
               RXN + 'set_reaction_basis', RXN + 'Reaction._rescale', RXN + 'Reaction.has_reaction']


@group('C17/frame', configs=frame_configs, functions=FRAME_FUNCS, l0=True)
def frame(w, cfg):
    W.reset_caches()
    n, ph, op, basis = cfg['n'], tuple(cfg['ph']), cfg['op'], cfg['basis']
    plant_MW(w, n)
    nrows = len(ph)
    Xa = w.real('Xa')
    sa = rxn_spec(w, 'a', n, ph)
    a = build(sa, Xa, basis)
    vals = feed_leaves(w, nrows, n)
    pa = snap(a)
    b = pb = None
    if op in ('add-noreaction', 'sub-noreaction'):
        b = build(rxn_spec(w, 'b', n, ph), 0., basis)       # a reaction that does not react (X = 0)
        pb = snap(b)
    if op.endswith('other-reactant'):
        # outside the quantifier (different reactants): the contract is `raises ValueError`, operands untouched
        b = build(rxn_spec(w, 'b', n, ph, ridx=1), w.real('Xb'), other_basis(basis) if op.startswith('i') else basis)
        pb = snap(b)
        try:
            if op == 'add-other-reactant': a + b
            elif op == 'sub-other-reactant': a - b
            elif op == 'iadd-other-reactant': a += b
            else: a -= b
            raised = None
        except ValueError as e:
            raised = str(e)
        w.ensure('ValueError unless the other reaction does not react', w.Or(w.eq(b.X, 0.), raised is not None))
        w.ensure('operand unchanged', same(w, pa, snap(a)))
        w.ensure('second operand unchanged', same(w, pb, snap(b)))
        w.canary('canary: other reaction never reacts', w.eq(b.X, 0.))
        return
    if op == 'copy': res = a.copy()
    elif op == 'rebase': res = a.copy(other_basis(basis))
    elif op == 'neg': res = -a
    elif op == 'add0': res = a + 0
    elif op == 'addNone': res = a + None
    elif op == 'add-noreaction': res = a + b
    elif op == 'sub0': res = a - 0
    elif op == 'sub-noreaction': res = a - b
    w.ensure('operand unchanged', same(w, pa, snap(a)))
    w.ensure('result is a new object', res is not a)
    w.ensure('result shares no storage with the operand', disjoint(res, a))
    if b is not None:
        w.ensure('second operand unchanged', same(w, pb, snap(b)))
        w.ensure('result shares no storage with second operand', w.And(res is not b, disjoint(res, b)))
    got = act(res, vals, nrows, n)
    ref = act(build(sa, Xa, basis), vals, nrows, n)
    j = (sa['ridx'] + 1) % n
    if op == 'rebase':
        w.ensure('re-based copy has the requested basis', res._basis == other_basis(basis))
        # auxiliary (meaning of a basis): on the same material (mass = mol * MW) both act alike
        mw = MWs(n, nrows)
        conv = [v * m for v, m in zip(vals, mw)] if basis == 'mol' else [v / m for v, m in zip(vals, mw)]
        got_conv = act(res, conv, nrows, n)
        back = [v / m for v, m in zip(got_conv, mw)] if basis == 'mol' else [v * m for v, m in zip(got_conv, mw)]
        ensure_each(w, 're-based copy acts alike on the same material', back, ref)
        w.canary('canary: re-based copy has the same coefficients', w.eq(snap(res)['stoich'][j], pa['stoich'][j]))
    elif op == 'neg':
        w.ensure('-a keeps stoichiometry, reactant, basis of a',
                 same(w, pa, snap(res), keys=('stoich', 'reactant', 'basis', 'phases', 'chemicals')))
        w.canary('canary: -a acts like a', w.eq(got[j], ref[j]))
    else:
        ensure_each(w, 'result acts like a', got, ref)
        w.ensure('result is the same reaction as a', same(w, pa, snap(res)))
        w.canary('canary: result(feed) = feed', w.eq(got[j], vals[j]))
    poke(res)
    w.ensure('operand unchanged after mutating the result', same(w, pa, snap(a)))


# --------------------------------------------------------------------------- backwards

def backwards_configs(tier):
    out = []
    ns = [3] if tier == 'quick' else [3, 4]
    for n in ns:
        for ph in ['', 'gl']:
            for how in ['auto', 'named']:
                for X in ['keep', 'new']:
                    for others in ['zero', 'neg', 'free']:
                        if tier == 'quick' and others == 'free' and (ph or X == 'new'): continue
                        if tier == 'quick' and others == 'neg' and X == 'new': continue
                        out.append({'name': f'n={n};ph={ph or "-"};reactant={how};X={X};others={others}', 'n': n, 'ph': ph,
                                    'how': how, 'X': X, 'others': others})
    return out


@group('C17/backwards', configs=backwards_configs,
       functions=[RXN + 'Reaction.backwards', RXN + 'Reaction.copy', RXN + 'Reaction._rescale'], l0=True)
def backwards(w, cfg):
    W.reset_caches()
    n, ph = cfg['n'], tuple(cfg['ph'])
    plant_MW(w, n)
    nrows = len(ph)
    Xa = w.real('Xa')
    ridx, pidx = 0, 1
    rrow = nrows - 1 if nrows else 0
    prow = 0
    # stoichiometry: reactant -1, one product with a positive coefficient p, the other entries per configuration
    p = w.real('a.p', lo=0., lo_strict=True)
    fixed = {(prow, pidx): p}
    for i in range(max(nrows, 1)):
        for k in range(n):
            if (i, k) in ((rrow, ridx), (prow, pidx)): continue
            if cfg['others'] == 'zero': fixed[i, k] = 0.
            elif cfg['others'] == 'neg': fixed[i, k] = w.real(f'a.s{i}.{k}', hi=0.)
    sa = rxn_spec(w, 'a', n, ph, ridx=ridx, rrow=rrow, fixed=fixed)
    a = build(sa, Xa, 'mol')
    pa = snap(a)
    kw = {}
    if cfg['how'] == 'named': kw['reactant'] = IDS[pidx]
    Xnew = None
    if cfg['X'] == 'new':
        Xnew = kw['X'] = w.real('Xnew')
    try:
        res = a.backwards(**kw)
    except ValueError as e:
        # allowed outcome: no reactant named and the reaction has several products
        several = [v for (i, k), v in sa['coef'].items() if (i, k) not in ((rrow, ridx), (prow, pidx))]
        w.ensure('ValueError only when the new reactant is ambiguous',
                 w.And(cfg['how'] == 'auto', 'multiple reactants' in str(e), w.Or(*[w.gt(v, 0.) for v in several])))
        w.ensure('operand unchanged (raise)', same(w, pa, snap(a)))
        w.canary('canary: ambiguity never happens', False)
        return
    w.ensure('operand unchanged', same(w, pa, snap(a)))
    w.ensure('reversed reaction is a new object sharing no storage with the operand', w.And(res is not a, disjoint(res, a)))
    # anchor ("picks the new reactant on a copy and rescales"): the product became the reactant of the new object
    exp_index = (prow, pidx) if nrows else pidx
    w.ensure('reversed reaction has the product as reactant', repr(res._reactant_index) == repr(exp_index))
    st = snap(res)['stoich']
    w.ensure('reversed reaction is normalised on its reactant', w.eq(st[prow * n + pidx], -1.))
    w.ensure('old reactant is a product of the reversed reaction', w.gt(st[rrow * n + ridx], 0.))
    rX = res.X
    w.ensure('conversion of the reversed reaction', w.eq(rX, Xa if Xnew is None else Xnew))
    poke(res)
    w.ensure('operand unchanged after mutating the result', same(w, pa, snap(a)))
    w.canary('canary: reversed reaction has conversion X + 1', w.eq(rX, Xa + 1.))


# --------------------------------------------------------------------------- reaction sets: item <-> set sharing

def item_configs(tier):
    out = []
    for cls in ['ParallelReaction', 'SeriesReaction']:
        for ph in ['', 'gl']:
            for via in ['index', 'iter', 'slice']:
                for direction in ['item->set', 'set->item', 'setX->item', 'item*=k', 'item/=k']:
                    if tier == 'quick' and cls == 'SeriesReaction' and (ph or via != 'index'): continue
                    if tier == 'quick' and direction in ('item*=k', 'item/=k') and via != 'index': continue
                    if tier == 'quick' and via == 'slice' and ph: continue
                    out.append({'name': f'{cls};ph={ph or "-"};via={via};{direction}', 'cls': cls, 'ph': ph, 'via': via,
                                'direction': direction})
    return out


ITEM_FUNCS = [RXN + 'Reaction.__imul__', RXN + 'Reaction.__itruediv__', RXN + 'ReactionSet.__init__', RXN + 'ReactionSet.__getitem__', RXN + 'ReactionSet.__iter__', RXN + 'ReactionSet.X',
              RXN + 'ReactionItem.__init__', RXN + 'ReactionItem.X', RXN + 'ParallelReaction._reaction',
              RXN + 'SeriesReaction._reaction', RXN + 'Reaction._reaction']


@group('C17/set_item', configs=item_configs, functions=ITEM_FUNCS, l0=True)
def set_item(w, cfg):
    W.reset_caches()
    n = 3
    plant_MW(w, n)
    ph = tuple(cfg['ph'])
    nrows = len(ph)
    cls = getattr(tmo, cfg['cls'])
    specs = [rxn_spec(w, 'a', n, ph, ridx=0), rxn_spec(w, 'b', n, ph, ridx=1), rxn_spec(w, 'c', n, ph, ridx=0)]
    Xs = [w.real(f'X{i}') for i in range(3)]
    rxns = [build(s, X) for s, X in zip(specs, Xs)]
    pre = [snap(r) for r in rxns]
    S = cls(rxns)
    w.ensure('building a set leaves the reactions unchanged', w.And(*[same(w, p0, snap(r)) for p0, r in zip(pre, rxns)]))
    i = 1
    if cfg['via'] == 'index': item = S[i]
    elif cfg['via'] == 'iter': item = list(S)[i]
    else: item = S[0:2][i]
    vals = feed_leaves(w, nrows, n)
    w.ensure('item shows the conversion of the set', w.eq(item.X, Xs[i]))
    ensure_each(w, 'item acts like the reaction it stands for', act(item, vals, nrows, n), act(build(specs[i], Xs[i]), vals, nrows, n))
    x = w.real('x')
    if cfg['direction'] in ('item*=k', 'item/=k'):
        # in-place scaling of an item of a set (added after seeded change C17_2): only that item's conversion changes
        k = w.real('k', lo=0, lo_strict=True)
        if cfg['direction'] == 'item*=k':
            item *= k; x = Xs[i] * k
        else:
            item /= k; x = Xs[i] / k
    elif cfg['direction'] == 'item->set':
        item.X = x
    elif cfg['direction'] == 'set->item':
        S.X[i] = x
    else:
        newX = S.X.copy()
        newX[i] = x
        S.X = newX
    newXs = list(Xs); newXs[i] = x
    w.ensure('set shows the new conversion, others unchanged', w.all_eq(list(S.X), newXs))
    w.ensure('item shows the new conversion', w.eq(item.X, x))
    ref = cls([build(s, X) for s, X in zip(specs, newXs)])
    ensure_each(w, 'set acts with the new conversion', act(S, vals, nrows, n), act(ref, vals, nrows, n))
    ensure_each(w, 'item acts with the new conversion', act(item, vals, nrows, n), act(build(specs[i], x), vals, nrows, n))
    ensure_each(w, 'a fresh item acts with the new conversion', act(S[i], vals, nrows, n), act(build(specs[i], x), vals, nrows, n))
    w.ensure('stoichiometry and reactants of the set unchanged',
             same(w, snap(S), snap(ref), keys=('stoich', 'reactant', 'basis', 'phases', 'chemicals')))
    j = (specs[i]['rrow'] * n + 2) if nrows else 2
    w.canary('canary: set ignores the new conversion', w.eq(act(S, vals, nrows, n)[j], act(cls([build(s, X) for s, X in zip(specs, Xs)]), vals, nrows, n)[j]))


# --------------------------------------------------------------------------- reaction sets: reduce, +, copy

def setop_configs(tier):
    out = []
    for ph in ['', 'gl']:
        for op in ['reduce', 'add', 'copy', 'rebase', 'item-copy']:
            for basis in ['mol', 'wt']:
                if tier == 'quick' and basis == 'wt' and (ph or op in ('add', 'reduce')): continue
                out.append({'name': f'ph={ph or "-"};basis={basis};op={op}', 'ph': ph, 'op': op, 'basis': basis})
    return out


SETOP_FUNCS = [RXN + 'ParallelReaction.reduce', RXN + 'ParallelReaction.__add__', RXN + 'ReactionSet.copy', RXN + 'ReactionItem.copy',
               RXN + 'Reaction.__iadd__', RXN + 'Reaction.__add__', RXN + 'set_reaction_basis', RXN + 'ReactionSet._rescale',
               RXN + 'ReactionSet.__iter__', RXN + 'ParallelReaction._reaction']


@group('C17/set_ops', configs=setop_configs, functions=SETOP_FUNCS, l0=True)
def set_ops(w, cfg):
    W.reset_caches()
    n = 3
    plant_MW(w, n)
    ph = tuple(cfg['ph'])
    nrows = len(ph)
    op, basis = cfg['op'], cfg['basis']
    vals = feed_leaves(w, nrows, n)
    specs = [rxn_spec(w, 'a', n, ph, ridx=0), rxn_spec(w, 'b', n, ph, ridx=1), rxn_spec(w, 'c', n, ph, ridx=0)]
    Xs = [w.real(f'X{i}') for i in range(3)]
    rxns = [build(s, X, basis) for s, X in zip(specs, Xs)]
    P = tmo.ParallelReaction(rxns)
    pP = snap(P)
    pre = [snap(r) for r in rxns]
    ref = act(tmo.ParallelReaction([build(s, X, basis) for s, X in zip(specs, Xs)]), vals, nrows, n)
    j = (specs[0]['rrow'] * n + 2) if nrows else 2
    if op == 'reduce':
        # items 0 and 2 share the reactant: the code divides by X0 + X2 (unless item 2 does not react)
        w.assume(w.Or(w.eq(Xs[2], 0.), w.ne(Xs[0] + Xs[2], 0.)))
        R = P.reduce()
        got = act(R, vals, nrows, n)
        ensure_each(w, 'reduced set acts like the set', got, ref)
        w.ensure('reduced set has one reaction per reactant', len(R._stoichiometry) == 2)
        w.ensure('reduced set is a new object sharing no storage with the set', w.And(R is not P, disjoint(R, P)))
        w.canary('canary: reduced set does nothing', w.eq(got[j], vals[j]))
        res = R
    elif op == 'add':
        specs2 = [rxn_spec(w, 'd', n, ph, ridx=0), rxn_spec(w, 'e', n, ph, ridx=1), rxn_spec(w, 'g', n, ph, ridx=0)]
        Ys = [w.real(f'Y{i}') for i in range(3)]
        for X, Y in zip(Xs, Ys):
            w.assume(w.Or(w.eq(Y, 0.), w.ne(X + Y, 0.)))
        Q = tmo.ParallelReaction([build(s, Y, basis) for s, Y in zip(specs2, Ys)])
        pQ = snap(Q)
        R = P + Q
        got = act(R, vals, nrows, n)
        both = tmo.ParallelReaction([build(s, X, basis) for s, X in zip(specs + specs2, Xs + Ys)])
        ensure_each(w, '(P+Q)(feed) = all reactions of P and Q in parallel', got, act(both, vals, nrows, n))
        w.ensure('Q unchanged', same(w, pQ, snap(Q)))
        w.ensure('P+Q is a new object sharing no storage with P, Q', w.And(R is not P, R is not Q, disjoint(R, P), disjoint(R, Q)))
        w.canary('canary: (P+Q)(feed) = P(feed)', w.eq(got[j], ref[j]))
        res = R
    elif op in ('copy', 'rebase'):
        R = P.copy(other_basis(basis)) if op == 'rebase' else P.copy()
        w.ensure('copy of a set is a new object sharing no storage with the set', w.And(R is not P, disjoint(R, P)))
        if op == 'copy':
            ensure_each(w, 'copy of a set acts like the set', act(R, vals, nrows, n), ref)
            w.ensure('copy is the same reaction set', same(w, pP, snap(R)))
        else:
            w.ensure('re-based copy has the requested basis', R._basis == other_basis(basis))
        w.canary('canary: copy has other conversions', w.eq(R.X[0], Xs[0] + 1.))
        res = R
    else:
        item = P[2]
        R = item.copy()
        ensure_each(w, 'copy of an item acts like the item', act(R, vals, nrows, n), act(build(specs[2], Xs[2], basis), vals, nrows, n))
        w.ensure('copy of an item is a new plain Reaction sharing no storage with the set',
                 w.And(type(R) is tmo.Reaction, disjoint(R, P)))
        R.X = R.X + 1.
        R.basis = other_basis(basis)
        w.canary('canary: copy of an item has another conversion', w.eq(R.X, Xs[2]))
        res = None
    w.ensure('set unchanged', same(w, pP, snap(P)))
    w.ensure('reactions the set was built from unchanged', w.And(*[same(w, p0, snap(r)) for p0, r in zip(pre, rxns)]))
    if res is not None:
        # independence: changing a conversion of the result must not reach the operand
        res.X[0] = res.X[0] + 1.
    w.ensure('set unchanged after mutating the result', same(w, pP, snap(P)))
    ensure_each(w, 'set acts as before', act(P, vals, nrows, n), ref)


# --------------------------------------------------------------------------- the same through Reaction.__call__ on a real Stream

_TH = {3: tmo.Thermo(_CH[3])}


def call_configs(tier):
    ops = ['add', 'sum-sub', 'mul', 'iadd'] if tier == 'quick' else ['add', 'sum-sub', 'mul', 'truediv', 'iadd', 'isub', 'imul']
    return [{'name': f'op={op};basis={b}', 'op': op, 'basis': b} for op in ops for b in (['mol'] if tier == 'quick' else ['mol', 'wt'])]


@group('C17/call_on_stream', configs=call_configs,
       functions=[RXN + 'Reaction.__call__', RXN + 'as_material_array', RXN + 'Reaction.__add__', RXN + 'Reaction.__sub__',
                  RXN + 'Reaction.__mul__', RXN + 'Reaction.__truediv__', RXN + 'Reaction.__iadd__', RXN + 'Reaction.__isub__',
                  RXN + 'Reaction.__imul__', RXN + 'ParallelReaction._reaction'], l0=True)
def call_on_stream(w, cfg):
    """Public entry point: reaction(stream).  Restricted to the feasible region (products only, conversions in
    [0, 1]) so that the feasibility clean-up of __call__ is the identity; the algebra is covered by the other groups."""
    W.reset_caches()
    n, op, basis = 3, cfg['op'], cfg['basis']
    plant_MW(w, n)
    Xa = w.real('Xa', lo=0., hi=1.)
    Xb = w.real('Xb', lo=0., hi=1.)
    k = w.real('k', lo=0., lo_strict=True)
    pos = lambda name: {(0, 1): w.real(f'{name}.s0.1', lo=0.), (0, 2): w.real(f'{name}.s0.2', lo=0.)}
    sa = rxn_spec(w, 'a', n, (), fixed=pos('a'))
    sb = rxn_spec(w, 'b', n, (), fixed=pos('b'))
    flows = [w.real(f'f.{i}', lo=0.) for i in range(n)]

    def react(rxn):
        s = tmo.Stream(None, thermo=_TH[n], phase='l')
        for i, v in enumerate(flows): plant(s._imol.data, i, v)
        rxn(s)
        return dense(s._imol.data)

    a, b = build(sa, Xa, basis), build(sb, Xb, basis)
    if op in ('add', 'iadd'):
        w.assume(w.And(w.gt(Xa + Xb, 0.), w.le(Xa + Xb, 1.)))
        if op == 'add': c = a + b
        else:
            c = a; c += b
        got = react(c)
        expected = react(tmo.ParallelReaction([build(sa, Xa, basis), build(sb, Xb, basis)]))
        label = '(a+b)(stream) = a and b in parallel'
    elif op in ('sum-sub', 'isub'):
        w.assume(w.And(w.gt(Xa, 0.), w.gt(Xb, 0.), w.le(Xa + Xb, 1.)))
        c = a + b
        if op == 'sum-sub': c = c - b
        else: c -= b
        got = react(c)
        expected = react(build(sa, Xa, basis))
        label = '((a+b)-b)(stream) = a(stream)'
    else:
        div = op == 'truediv'
        X2 = Xa / k if div else Xa * k
        w.assume(w.le(X2, 1.))
        if op == 'imul':
            c = a; c *= k
        else:
            c = a / k if div else k * a
        got = react(c)
        expected = react(build(sa, X2, basis))
        label = 'scaled reaction acts like a with scaled conversion'
    ensure_each(w, label, got, expected)
    w.canary('canary: stream unchanged', w.eq(got[1], flows[1]))
