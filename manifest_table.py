# one check(...) call per claimed property; NA[...] = reason for properties not claimed
check('C01', 'proof',
      "Contracts on the real Stream/MultiStream/indexer functions (mix_from, split_to, separate_out, copy_flow(remove), scale, * and unary -): "
      "per-chemical totals, frame (inlets/operands unchanged) and rep_ok are discharged by z3 on every feasible path for ALL real-valued flows, "
      "splits and factors; the structure (receiver kind, inlet kinds/phases, packages, presence pattern) is enumerated from a stated finite family.",
      "Floats as reals (A-real); structure bounded by the configuration family (<=4 chemicals, <=3 inlets quick / pairs exhaustively thorough); "
      "CPython dict/list semantics as executed; run-time rebinding of float/np in thermosteam modules (listed in evidence.trusted_base). "
      "Every path is additionally cross-checked natively with floats.",
      "deductive: sidecar contracts + VC generation by symbolic execution of the real functions, z3 discharge, native replay", "DESIGN.md 4/C01")
check('C09', 'proof',
      "Mode U: 70 sparse kernels (54 SparseVector incl. unary ones, six queries and reductions (negative_keys, negative_index, positive_index, nonzero_keys, any, all), 16 SparseLogicalVector; the + - * / kernels for scalar/sparse/array operands and their in-place forms, ==, !=, >, <, >=, <= kernels incl. "
      "exec-template expansions) are verified against their contracts (dense image = operator on dense images with length-1 broadcasting, rep_ok of the "
      "result, frame, ValueError exactly on shape mismatch) for vectors of ARBITRARY size: VCs are generated from the AST of the real source on every run "
      "(pointwise loop summaries, no unrolling) and discharged by z3; counter-models are replayed on the real kernel. Mode S: the public operator dispatch "
      "layer (exec-generated __add__.., __iadd__.., comparisons, reduce_ndim, constructors) is checked against NumPy itself on object arrays of the same "
      "symbolic values for every operand pairing up to 2x2 (quick) / 2x3 (thorough).",
      "Floats as reals; NumPy's inf/nan results of division by zero are outside the contract (requires divisor != 0 where the numerator is != 0). "
      "Mode S structure bounded (shapes <= 2x3). Not yet under contract: indexing (__getitem__/__setitem__), reductions, SparseLogicalVector kernels, "
      "copy/neg/abs (they are executed as real code by the other checks). Known findings F-C09-K1a..K4 (NumPy-incompatible broadcasting of the dispatch layer) "
      "are reported as KNOWN-FINDING.",
      "deductive: AST->SMT VC generation with pointwise loop summaries (unbounded sizes) + symbolic execution of the real dispatch code against NumPy as oracle; z3", "DESIGN.md 4/C09")
check('C13', 'proof',
      "For every enumerated pair of stream kinds (single-phase; MultiStream with one, two or three phases built by the constructor or by casting; same, subset and "
      "superset property packages; source phases present or absent in the target) and for all real-valued flows, T, P, price and characterization factors, the real "
      "copy, copy_like, copy_thermal_condition, copy_phase, link_with (all 8 flag subsets), unlink, proxy, flow_proxy, the Stream/MultiStream constructors and the "
      "__reduce__/slot recipes of streams, indexers, phases, thermal conditions, sparse data, reactions, chemicals and packages are executed symbolically and proved to "
      "give equal observable state, to share exactly the advertised containers (object identity plus write-through both ways), to be independent otherwise (frame after "
      "arbitrary symbolic writes) and to round-trip through pickle; every link/unlink/proxy/copy/copy_like/write history of length <= 2 (quick) / 3 (thorough) is "
      "checked against an abstract sharing model.",
      "Mode S: structure bounded by the configuration families (1721 quick, 13237 thorough), values unbounded. A-real, A-cpython, A-pickle (unpickling calls exactly the "
      "__reduce_ex__(2) recipe; the recipe interpreter in the contract file is trusted; real pickle.dumps/loads runs on every native replay/cross-check). Chemical and "
      "Thermo round-trips are native only (bounded). 13 defects found by this check were repaired (fix: commits, known_findings.json).",
      "deductive: sidecar contracts + VC generation by symbolic execution of the real functions, z3 discharge, native replay", "DESIGN.md 4/C13")
check('C12', 'proof',
      "For every enumerated structure (Stream of each phase and MultiStream over each subset of {s,l,g,S,L}, 2 chemicals, planted contents; single operations exhaustively, "
      "operation sequences up to length 5 sampled) and for all real non-negative flows and positive T, P, the real conversion code (phases/phase setters, as_stream, "
      "reduce_phases, vle/lle/sle accessors, phase views, get_data/set_data) satisfies a step contract: per-chemical totals, T and P (same ThermalCondition object) unchanged; "
      "each non-empty phase's material exactly in the row of its label (other-case label only when the exact label is absent); views live both ways; restore reproduces the "
      "saved flows, phases, T and P.",
      "Mode S: structure bounded (6004 configurations quick, 52347 thorough), values unbounded; floats as reals; real sparse kernels (no L0 substitution); every path "
      "cross-checked natively. Known findings F-C12-4a..c (Stream.vle/lle/sle deliberately relabel solid/gas material as liquid) are printed as KNOWN-FINDING. "
      "5 defects found by this check were repaired (fix: commits).",
      "deductive: sidecar contracts + VC generation by symbolic execution of the real functions, z3 discharge, native replay", "DESIGN.md 4/C12")
check('C17', 'proof',
      "For every enumerated structure (3-4 chemicals, phase-less and 2-3 phase-tagged, mol/wt/mixed bases, pairs and triples, Parallel/Series sets of 3) and for all real "
      "stoichiometric coefficients, conversions, k>0, positive molecular weights and feed flows, z3 proves on every path of the real operators that a+b acts like a and b in "
      "parallel, (a+b)-b like a, k*a and a/k like a with X*k and X/k, each in-place form equals its binary form, copy/negation/reversal/combination/re-basing return new "
      "storage-disjoint objects and leave operands (stoichiometry, reactant, X, basis) unchanged even after the result is mutated, and item and set conversions track each other.",
      "Mode S on the L0 contract level of the SparseVector kernels (sound given the C09 mode-U kernel proofs, which run on every C09 check); values unbounded, structure bounded. "
      "A-real, A-cpython. Molecular weights abstracted to arbitrary positive reals. Application observed through _reaction and __call__ in the feasible region (clean-up of "
      "infeasible flows is C05). 6 defects found by this check were repaired (fix: commits).",
      "deductive: sidecar contracts + VC generation by symbolic execution of the real functions on kernel contracts, z3 (QF_NRA) discharge, native replay", "DESIGN.md 4/C17")
check('C19', 'other',
      "Network.sort is proved (mode S) to return a permutation that is a linear extension of every strict partial order on up to 4 (quick) / 5 (thorough) path items, without "
      "recycle or warning. The statement itself (complete path; acyclic: each unit once, after all units that feed it, no recycle, for every order of the unit list; cyclic: "
      ">= 1 recycle and every stream against the order inside a common recycle loop) is checked as a BOUNDED run-time contract on the real Network.from_units: all connected "
      "DAGs with <= 4 units (quick) / <= 5 (thorough) in every unit order, the same with 1-3 cycle-closing streams, seeded flowsheets up to 10 units; reachability closures, "
      "sort with the real PathSource and the local path surgery exhaustively for <= 4 units.",
      "The decisive clauses are bounded (mode B, never counted as proved): from_units/fill_path/join_* are recursive graph surgery with no contract the engines can discharge. "
      "The mode-S group stubs PathSource by the assumed partial order. <= 3 ports per side, real feed streams, no auxiliary/universal units; set iteration order follows object "
      "addresses. 1 defect found by this check was repaired.",
      "bounded run-time contracts on the real from_units (exhaustive small flowsheets) + symbolic execution of Network.sort over all partial orders", "DESIGN.md 4/C19")
check('C07', 'proof',
      "For arbitrary heat-capacity functions and arbitrary real Tm, Tb, T_ref, P_ref, T, P, Hfus, Hvap(Tb), S0, the real Chemical._init_energies with the real functor "
      "dispatch (free_energy.py functors, PhaseTPHandle, Functor) is proved in mode S (loop-free, all paths) to give, for the three reference phases and for phase-locked "
      "chemicals: H = 0 and S = S0 at the reference state; the integral form of dH/dT = Cn and dS/dT = Cn/T in every phase; -R ln(P2/P1) for gas; the four phase-transition "
      "jumps. For 2-4 chemicals the ideal mixture models and Mixture.H/S/xH/xS/xCn are proved to be mole-weighted sums, extensive for H and Cn, excess terms added iff "
      "include_excess_energies, wired in chemical order. The ideal mixing-term sentence and 'mixing at equal T and P never lowers entropy' are REFUTED on the tree "
      "(known finding F-C07-1, IdealEntropyModel) and printed as KNOWN-FINDING.",
      "A-real; A-int (T_dependent_property_integral(_over_T) of `thermo` additive in their limits, ground-instantiated over the occurring temperature terms); A-models (pure "
      "H, S, Cn, excess arbitrary functions); A-log (log uninterpreted with log(a/b) = log a - log b, ground monotonicity instances, log 1 = 0). _init_energies runs on a "
      "record object with symbolic T_ref/P_ref and an ideal-gas eos; its requires Sfus = Hfus/Tm is discharged for _init_data only. Structure <= 4 chemicals. Not covered: "
      "database sweep (B), pure-component excess functors on real eos objects, EOSMixture. 2 defects repaired.",
      "deductive: sidecar contracts + VC generation by symbolic execution of the real loop-free functions with uninterpreted integrals, z3 discharge, native replay", "DESIGN.md 4/C07")
check('C10', 'proof',
      "Mode S (proof per enumerated structure, values unbounded): for private compiled chemical sets of 1-4 chemicals (quick; reads up to 8, multi-phase writes up to 6 in "
      "thorough) with user aliases and 1-3 groups, phase sets {g,l}, {L,l} (thorough adds {g,l,s}, {L,S,g,l,s}, single phase) and every key form of the statement, each read "
      "through ChemicalIndexer, MaterialIndexer and SplitIndexer equals the positional read of the raw sparse dicts; each write is read back unchanged, leaves all other "
      "entries untouched and distributes a scalar over a group by its composition, for all real values; under six lookup histories (fresh; 101, 501 and (thorough) 1201 "
      "distinct keys with every intermediate lookup checked so that both bounded caches fill and evict; cross-package mix, copy, separate; group re-definition and late "
      "naming) with the cache-coherence invariant (every cached entry equals what the miss branch computes) asserted after each.",
      "A-real, A-cpython; structure bounded by the configurations; real sparse kernels. Oracle: an independent name->position table built from the configuration and the "
      "Chemical objects' ID/CAS/database names. The planned size-generic (mode U) proof of cache coherence was not built: coherence is discharged per enumerated structure. "
      "5 defects found by this check were repaired.",
      "deductive: sidecar contracts + VC generation by symbolic execution of the real functions, z3 discharge, native replay", "DESIGN.md 4/C10")
check('C20', 'proof',
      "For every enumerated structure (<= 4 chemicals, <= 3 inlets, single/multi-phase, scalar/vector splits, forced top/bottom chemicals, strict/lenient) and all real-valued "
      "flows, splits in [0,1], K in [1e-3,1e3], moisture in (0,0.95), efficiencies in [0,1]: the real mix_and_split, adjust_moisture_content, "
      "mix_and_split_with_moisture_content, phase_split, partition, phase_fraction, handle_infeasible_flow_rates, check_partition_infeasibility, partition_coefficients, "
      "chemical_splits, material_balance('flow') and the lle/vle wrappers close the per-chemical balance from ARBITRARY prior outlet contents, give no negative flow unless "
      "they report infeasibility, and meet their targets, with inlets/feed/arguments unchanged. partition/phase_fraction are proved for any solver output phi (all three regimes).",
      "A-real, A-cpython; compute_phase_fraction havoc'ed (any real phi); np.linalg.solve by A-linsolve; stream.vle/.lle replaced by their C03 contract (arbitrary non-negative "
      "split conserving each chemical); energy side havoc'ed; partition/phase_fraction/wrappers run on the C09 kernel contracts (L0). A small grid on the real solvers is mode B "
      "(bounded, not counted). Known finding F-C20-5 printed as KNOWN-FINDING; 4 defects repaired.",
      "deductive: sidecar contracts + VC generation by symbolic execution of the real functions, z3 discharge, native replay", "DESIGN.md 4/C20")
check('C11', 'proof',
      "For every enumerated structure (1-3 phases, 2-3 chemicals, every DictionaryView method, 13 units, all operation histories of length <= 2 (quick) / <= 3 (thorough) over "
      "14 operations plus selected longer ones) and for all real flows, T, P, written values and all positive molar-volume functions, the real code is symbolically executed "
      "and z3 proves on every path that mass = MW*mol, vol = 1000*V(phase,T,P)*mol at the LIVE conditions, totals are the sums of the views, write-then-read is the identity "
      "(or the fixed factor across units), setting a total keeps composition, foreign dimensions are rejected and nothing else changes - and that this holds again after "
      "T, P, phase(s), link/unlink, copy_like and package resets.",
      "Mode S: structure bounded by the configurations, values unbounded. A-real; A-models (pure-component V positive uninterpreted functions planted on Chemical._V, real "
      "ideal mixing rule); A-pint (unit factors are the pint floats, compared with textbook constants); distinct T/P values differ by >= 1e-6 (library tolerance 1e-12); a link "
      "requires the same package. MW concrete at stream level. Known findings F-C11-4a..c (linked MultiStreams growing a phase) printed as KNOWN-FINDING; 3 defects repaired.",
      "deductive: sidecar contracts + VC generation by symbolic execution of the real functions (QF_NRA), z3 discharge, native replay", "DESIGN.md 4/C11")
check('C16', 'other',
      "Proved (mode S) for all real x on the simplex and T in 250-450 K, per enumerated structure, on the Python source of the njit kernels: the gather/scatter of gamma_UNIFAC "
      "and gamma_modified_UNIFAC with the frame on x and all other arguments (evaluating a model never modifies the caller's array), gamma = 1 for members without groups, the "
      "normalised sub-composition, no stale scratch state, functional form == object call, ideal activity/fugacity/Poynting models return one, and gamma_i = 1 at the vertices "
      "for all T and all interaction parameters (group_activity_coefficients/loggammacs executed as real code on symbolic R, Q). Checked only as BOUNDED run-time contracts "
      "(mode B) on the real compiled models: gamma_i -> 1 as x_i -> 1, Gibbs-Duhem by central differences, permutation invariance, purity of the compiled code; 2-6 chemicals, "
      "250-450 K grid.",
      "The decisive limit / Gibbs-Duhem / permutation clauses are bounded (mode B), hence level 'other'. A-real; group_activity_coefficients and loggammacs_* uninterpreted in the "
      "scatter and object-call groups; exp, log, r**0.75 uninterpreted with ground-instantiated laws; structures <= 5 chemicals, 2-3 groups in the symbolic part; NIST group "
      "assignments made in the contract. 3 defects repaired.",
      "symbolic execution of the real kernels' Python source with z3 discharge (frame/scatter/vertex clauses) + bounded run-time contracts on the compiled models", "DESIGN.md 4/C16")
check('C05', 'proof',
      "Contracts on the real Reaction / ParallelReaction / SeriesReaction / ReactionSystem functions (_reaction, _conversion, __call__, force_reaction, _rescale, "
      "set_reaction_basis and copy(basis), as_material_array, Reaction.reset_chemicals, the string and dict parsers): the stoichiometric update (reactant consumed = X*feed, "
      "others nu_k/|nu_r|; parallel extents from the feed, series and system from the running composition), conservation of mass and of every row of an abstract formula "
      "matrix under the balanced-stoichiometry PRECONDITION, equality of mol- and wt-basis results on streams, non-negativity on normal return and 'InfeasibleRegion only if a "
      "flow would be negative' are discharged by z3 on every feasible path for all real coefficients, conversions in [0,1] and feed flows >= 0; structure (3-4 chemicals, 1-4 "
      "reactions, every reactant choice, phase-less and phase-tagged, Stream/MultiStream/sparse data/ndarray, same/reordered/superset package) enumerated from a finite family.",
      "A-real; sparse kernels at contract level L0 (conditional on the C09 mode-U proofs). Balanced stoichiometry assumed with the database MW floats as one conservation row plus "
      "an abstract 2-row F >= 0. Reactant coefficient free in C05/kernel (<= 2 reactions) and for single reactions, pinned to -1 (assumed leaf) elsewhere. Round-off cleaning is "
      "part of the claim (flows in [-1e-12, 0) zeroed). correct_atomic_balance / correct_mass_balance (B bullet) not covered. 3 defects repaired.",
      "deductive: sidecar contracts + VC generation by symbolic execution of the real functions on kernel contracts, z3 (QF_NRA) discharge, native replay", "DESIGN.md 4/C05")
check('C02', 'proof',
      "For every enumerated structure (Stream l/g/s and MultiStream gl/gls, 2-3 chemicals, up to 3 inlets including the receiver itself, other chemical order, multi-phase "
      "inlets, Q as keyword or heat object, conserve_phases, 0-2 failing temperature solves) and for all real flows >= 0, T, P > 0, Q, targets and all pure-component models, "
      "every feasible path of the real code satisfies: mix_from: H' = sum of H_in (read before the call) + Q and P' = min P over the non-empty inlets; separate_out leaves "
      "H - H(other); the H/h/Hnet/S setters read back the assigned value including both fall-back branches; assigning the current value leaves T unchanged; frames (inlets, "
      "flows, P). Proof in mode S modulo A-root.",
      "A-real; A-models (pure-component H, S, Cn uninterpreted functions of (T,P); mixing rules, getters and caches are the real code); A-root / A-root-stay (solve_T_at_HP/SP "
      "and xsolve_* return T* with property(T*) = target or raise; the real numeric solvers are executed only in the bounded group C02/B_real_solvers). Not "
      "covered: multi-phase entropy with more than one chemical per phase in mode S (vle=True mixing: see the third-session addendum). 4 defects repaired.",
      "deductive: sidecar contracts + VC generation by symbolic execution of the real functions, z3 discharge, native replay", "DESIGN.md 4/C02")
check('C06', 'proof',
      "For every enumerated reaction structure (single with symbolic stoichiometry; parallel/series/system with numeric stoichiometry; plain and phase-tagged; mol and wt; stream "
      "on the reaction's or a reordered package) and ALL real X in [0,1], flows >= 0, T, P > 0, Hf/Hfus/Hvap(T)/MW, Q: Reaction.dH (incl. set members, kinetic reactions) equals "
      "the statement's 9-case latent-heat table per mol or per mass (checked against the table, not against the code's if-ladder); Stream.Hf/Hnet = sum Hf_k n_k, H + Hf; an "
      "isothermal reaction changes Hnet - H by sum (dH_i - latent part) * reactant fed; adiabatic_reaction gives Hnet' = Hnet + Q incl. the H-setter's phase-flip fall-back. "
      "12 real reactions with real models/solver as a bounded stand-in (mode B).",
      "A-real, A-models (pure-component H, Hvap(T) uninterpreted), A-root, C09 kernel contracts (L0). Chemical data are leaves patched onto private Chemical objects. Structure "
      "bounded: 3 chemicals, <= 3 reactions. Known finding F-C06-K1 (the literal sentence 'Hnet changes by dH*fed' holds only at the 298.15 K reference state because dH has no "
      "temperature argument) printed as KNOWN-FINDING. 1 defect repaired.",
      "deductive: sidecar contracts + VC generation by symbolic execution of the real functions on kernel contracts, z3 discharge, native replay", "DESIGN.md 4/C06")
check('C03', 'proof',
      "For every enumerated structure (1-3 chemicals quick / up to 4 thorough, drawn from volatile, gas-locked N2, liquid-locked NaCl/glucose, solid-locked sucrose; every "
      "initial presence pattern over the phases), for all real flows in (0, 1e6], all specification values and ALL outputs of the numerical solvers within their contracts "
      "(every solver and property model havoc'ed), the real bookkeeping of VLE (all 11 specification pairs, single-component, clipping, lever-rule and H/S correction branches; "
      "the error callbacks as invariant-preserving steps, which makes any number of solver iterations sound), LLE (solver and cached branch), SLE and Stream.vlle keeps every "
      "chemical's total over the phases, keeps all phase flows >= 0 and honours locked phases on every path that returns normally. The same clauses hold as run-time contracts "
      "on the real solvers over a seeded grid (mode B, 193 quick / 2276 thorough evaluations; not counted as proved).",
      "A-real; solver contracts (bubble/dew points return P,T>0 and a normalised composition >= 0; IQ_interpolation/aitken only evaluate their callbacks; _solve_v_fixed_point "
      "arbitrary; shgo and solve_lle_liquid_mol stay inside their boxes; phase_fraction in [0,1]; fixed_point evaluates f on x0 and its own results); property models arbitrary and "
      "read-only. vlle uses the VLE/LLE contracts proved in C03/vle_TP and C03/lle. Reactive VLE (gas/liquid_conversion) excluded (changes material by design). 1 defect repaired.",
      "deductive: sidecar contracts + VC generation by symbolic execution of the real bookkeeping with havoc'ed solvers, z3 discharge, native replay; bounded run-time contracts on real solvers", "DESIGN.md 4/C03")
check('C18', 'proof',
      "Mode U: 26 operations of thermosteam.network (append, insert, item assignment, slice assignment, extend, pop, remove, replace, clear, empty on AbstractInlets and AbstractOutlets; "
      "disconnect_sink/source/disconnect on streams; AbstractUnit.take_place_of, replace_with(other), disconnect()) are proved to preserve the well-formedness invariant WF (a stream is listed among a unit's inlets/outlets exactly when that "
      "unit is its sink/source, no stream occupies two ports, fixed-size lists keep their size, placeholders one-sided; plus the typing invariants) over an ARBITRARY heap of "
      "units, port lists, streams and placeholders, together with each operation's local effect and allowed exceptions: VCs generated from the AST of the real source on every "
      "run (calls inlined by receiver class, pointwise loop summaries, inductive loop invariants for extend and the re-docking loop of slice assignment, allocation; the unit-level operations modularly against the proved slice-assignment contract), discharged by z3 (E-matching, then MBQI). Finite-domain z3 models are turned into real "
      "thermosteam.network objects to cross-check the symbolic semantics natively and to replay failing obligations. Mode B (bounded, not counted as proved): every operation "
      "sequence within the stated preconditions to depth 3 (quick) / 4 (thorough) over 3 units and 5 streams incl. slices, pipes, unit-level insert/take_place_of/replace_with, "
      "and seeded random walks of length 50-60, with WF + local effect + frame checked after every step.",
      "Mode U trusted base: the heap encoding (engine/vcg/heap.py), dropped `warn` calls and the @ignore_docking_warnings wrapper; non-negative indices and slice bounds only, no None element in an assigned sequence; AbstractUnit.insert, pipe "
      "notation and Connection.reconnect are covered only by the bounded groups. 5 defects repaired (pop, clear, reverse, AbstractUnit.insert, AbstractUnit.disconnect).",
      "deductive: AST->SMT VC generation over a symbolic heap (quantified invariant, unbounded heap) with z3; finite-model native replay; bounded exhaustive exploration as stand-in for the rest", "DESIGN.md 4/C18")
check('C08', 'other',
      "Mode S: for 1-3 chemicals and every enumerated structure (presence pattern of z, ideal or uninterpreted gamma/phi/pcf, secant success or fall-back bracket branch, via "
      "__call__ or solve_*), for all real z, T, P and all positive model functions, every path of the real BubblePoint.solve_Ty/solve_Py and DewPoint.solve_Tx/solve_Px returns "
      "a point that satisfies modified Raoult's law with the NORMALISED composition, returns exactly those fractions summing to one, gives Tsat/Psat and y = z/sum(z) for a "
      "single positive component, leaves z and the solver object unchanged, and the solution for z also solves the problems for k*z, for the permuted chemical list and the "
      "inverse T<->P problem. Mode B (bounded, not proved): residual, ordering T_bubble <= T_dew and P_dew <= P_bubble, T-P inverse, k*z and permutation invariance with the "
      "real solvers on 260 (quick) / 996 (thorough) mixtures of 1-4 of 10 chemicals, ideal and Dortmund packages.",
      "Level 'other': convergence/uniqueness/ordering are only sampled (mode B). A-root (flx.aitken_secant / IQ_interpolation return x* > 0 with callback(x*) = 0; wegstein a "
      "fixed point); A-models (Psat, Tsat, gamma, phi, pcf uninterpreted positive, permutation-equivariant); A-real. Known findings F-C08-K1 (Dortmund dew point on mixtures with "
      "a miscibility gap) and, thorough tier, F-C08-K2a-c printed as KNOWN-FINDING. 3 defects repaired.",
      "symbolic execution of the real solver set-up/post-processing under root-finder contracts with z3 discharge + bounded run-time contracts on the real solvers", "DESIGN.md 4/C08")
check('C04', 'other',
      "Proved (mode S, all real values per enumerated structure): the closed-form and residual Rachford-Rice algebra (compute_phase_fraction_2N returns a root; the objective is "
      "the RR residual with forced-phase fractions), that the fixed-point map poses K = pcf*Psat*gamma/(phi*P) so its fixed points are iso-fugacity states, T' = T_spec and "
      "P' = P_spec on every returning path of all eleven specification pairs (solvers havoc'ed), the bubble/dew phase-boundary rule of the T,P flash, exact reproduction of H/S "
      "by set_PH/set_PS (A-root, real mixing rule) and (T,P) scaling (relational, two runs). The decisive numerical clauses (V-spec resolution, iso-fugacity at the result, "
      "H/S residuals of the real solvers, agreement with an independent Raoult/Rachford-Rice solve, scaling for V/H specifications) are BOUNDED run-time contracts on "
      "deterministic grids (530 inputs quick, 4596 thorough) and are not counted as proved.",
      "Level 'other' because the decisive clauses are bounded. A-real, A-bubble/dew, A-solve_v (contract from C03), A-models/A-root, A-linear-S for the PS correction, "
      "A-deterministic stubs for the relational scaling. Bounded tolerances: H/S 1e-6, V 2e-6, T 1e-7 K, P 1 Pa, fugacity 1e-5. Known finding F-C04-5 (PS flash on benzene "
      "mixtures: quantised dependency data) printed as KNOWN-FINDING. 4 defects repaired.",
      "symbolic execution of the real flash bookkeeping and Rachford-Rice algebra with z3 discharge + bounded run-time contracts on the real solvers", "DESIGN.md 4/C04")
check('C14', 'proof',
      "Contracts on the real Stream/MultiStream property machinery (_get_property of both classes, reset_cache, all 17 derived properties) and on 40 public mutators and 5 "
      "data-sharing constructors (proxy, link_with, flow_proxy, phase views, from_streams): every property read in every enumerated history (prime / move / read, one mutator, "
      "shared handles, all interleavings to depth 3 (quick) / 4 (thorough) and restricted alphabets to depth 4 / 6) is proved by z3 equal to the value read from a freshly "
      "created stream with the same flows, phases, T, P and package, for ALL real values of flows, T, P, mutator arguments and ALL pure-component models (uninterpreted; a "
      "second package with different models refutes a memo surviving a package change). The frame of each read and of source-only arguments is proved as well.",
      "A-real with log uninterpreted (entropy is never primed before a flow change); A-models, A-root. Structure bounded: 2 chemicals, <= 3 phases, history depth as stated; the "
      "induction over histories (representation invariant Inv preserved by each step) is replaced by the observational form (move to an arbitrary symbolic state, the read is "
      "fresh) and is argued, not mechanised. Native cross-checks are skipped when a model leaves the float range. (The mass/volumetric setters, equilibrium mutators and energy-balanced "
      "mixing that the first version left out are covered by C14_gap.py, see below; still not covered: sle.) 1 defect repaired (Stream.proxy).",
      "deductive: sidecar contracts + VC generation by symbolic execution of the real functions with uninterpreted property models, z3 discharge, native replay", "DESIGN.md 4/C14")
check('C15', 'other',
      "Mode S (bounded structure, all real values): the bookkeeping of LLE.__call__ is proved modulo the optimiser contract A-opt (solve_lle_liquid_mol returns 0 <= mol_L <= mol "
      "as a function of chemicals, normalised z and T): the use_cache decision is two-sided against the previous call (a cached answer is never for another temperature or "
      "composition); the handed-out split is the solver's, labelled by the top-chemical mass-fraction rule; proportionality under scaling (relational); the remembered state; "
      "reuse equals forbid from that state. The SLE rules (only the solute moves, solubility and presence bounds, pure-solute melting rule) and one-solver-per-stream are proved. "
      "The equilibrium sentence itself (equal activities x*gamma in both liquids) and history independence with the real solvers are BOUNDED run-time contracts (mode B) on four "
      "partially miscible families, all three solver methods, T 285-355 K, histories of 1-4 earlier calls.",
      "Level 'other': the decisive equal-activity clause is bounded. A-real; A-opt (mode B shows it is false for 'pseudo equilibrium': F-C15-3); A-models/A-iter for SLE. "
      "Structure <= 3 chemicals, <= 2 earlier calls in S; reuse groups require two liquids with |K - 1| > 1e-3. Known findings F-C15-2a-c (label swap on reuse), F-C15-3a-b "
      "(pseudo-equilibrium K never updated), F-C15-4 (shgo non-convergence) printed as KNOWN-FINDING. 1 defect repaired.",
      "symbolic execution of the real LLE/SLE bookkeeping under an optimiser contract with z3 discharge + bounded run-time contracts on the real solvers", "DESIGN.md 4/C15")


# --- addenda after the second round of seeded changes (appended to level_note)
ADDENDA = {
 'C01': "Added: C01/history (two operations in sequence without a cache reset, foreign packages listing the same chemicals in different orders).",
 'C06': "Added: Hf revised after compiling + refresh_constants; one two-reaction set per reaction class under adiabatic_reaction (mode S) and reaction sets on real models (mode B). "
        "Trusted: the property memo of the streams is switched off in these groups (a key that never records a state; memo correctness is C14).",
 'C07': "Added: copy histories (Chemical.copy / copy_models_from / at_state(copy=True) followed by model edits; mode S and real chemicals in mode B). F-C07-4 repaired; F-C07-5 "
        "(entropy quantisation inside the thermo dependency, thorough tier) printed as KNOWN-FINDING.",
 'C08': "Added: the assumed contract of the bracketing solver now has a REQUIRES side (residuals handed over = callback values at the bracket ends) discharged at all six call sites; "
        "bounded inputs on which the real secant leaves the feasible region (C08/fallback_real_solvers). F-C08-K2d..i (unconverged inner Wegstein) printed as KNOWN-FINDING.",
 'C09': "Now also under contract (mode S): indexing get/set, reductions, reflected and unary operators, writes to read-only targets (C09/read_only); 64 kernels in mode U incl. "
        "SparseLogicalVector kernels; logical operators are bounded (mode B). F-C09-3 (read-only SparseArray accepted in-place arithmetic and clear) repaired.",
 'C11': "Added: streams joined by MultiStream.from_streams with views built before, indexers switched to another package and back, reactions defined on another package (mode B).",
 'C12': "Added: views through interchangeable labels across phase-set changes and across growth in place (copy_like/mix_from). F-C12-7 repaired.",
 'C13': "Added: flows read by name with reordered packages; identity clauses on what the equilibrium objects are bound to (assumption A-eq-writes: an equilibrium call writes only to "
        "the imol and thermal_condition of its object); real VLE after link/unlink/proxy/copy/pickle histories (mode B). F-C13-14 repaired.",
 'C15': "Added: which chemicals the remembered LLE coefficients belong to (mode S clauses), refill histories with other chemical lists (mode B), histories of sle calls with different "
        "solutes on one stream (mode S). F-C15-6 repaired.",
 'C18': "Mode U models unit IDs as an uninterpreted function of the object identity (equality, truthiness) so that ID comparisons are decided and replayed on real objects.",
}
GENERAL = (" When the symbolic engine cannot execute a configuration of the tree under check (unsupported operation, path or wall-clock budget) the same contract body is run natively on "
           "24 deterministic samples; only a clause that is in the baseline of discharged obligations and fails there is reported (with that input as replay).")
for _p, _c in CHECKS.items():
    _c['level_note'] = _c['level_note'] + (' ' + ADDENDA[_p] if _p in ADDENDA else '') + (GENERAL if _p != 'C18' else '')

# --- addenda of the third session (gap analysis per property: contracts/Cxx_gap.py; appended to level_note)
ADDENDA3 = {
 'C01': "Third session (C01_gap.py): mix_from with energy balance incl. the H-setter and phases fall-backs, conserve_phases, Stream.sum / + / += / builtin sum, phase views and proxies as inlets, "
        "receivers whose phases match up to case; split_to into multi-phase outlets with old contents and second splits; separate_out of a, of both, of itself, -=; copy_flow with exclude, lists, "
        "ellipsis, foreign IDs; k*s histories; totals also read through mol[i], imol[ID], imol[phase, ID] and phase views; vle=True mixing bounded (mode B). 6 more defects repaired.",
 'C02': "Third session (C02_gap.py): Stream.sum / + / builtin sum / += / -=, the single-inlet shortcut over all receiver/inlet phase pairings, second operations on the same objects "
        "(read-assign-read, assign twice, mix twice, mix then separate), excess energies, phase views / proxies / links / the receiver's own phase view as target or inlet, conserve_phases "
        "with a collapsing receiver, mix_from(vle=True) with the flash replaced by its C03/C04 contract (A-flash); real xsolve_T_at_HP/SP, h and Hnet setters and real flash mixing (mode B). "
        "1 more defect repaired (set_PH with equation-of-state mixtures).",
 'C03': "Third session (C03_gap.py): second and later VLE calls on one stream (remembered chemical sets and index lists), the .vle/.lle/.sle accessors of single-phase streams and of "
        "MultiStreams lacking a phase, different kinds of calculation in succession, Stream.vlle and the class VLLE (pooling + VLE/LLE steps), mix_from(vle=True)/Stream.sum(vle=True) with "
        "reduce_phases; three former ASSUMPTIONS are now proved on thermosteam's own code: the LLE solver stays in its box (solve_lle_liquid_mol, pseudo_equilibrium and its loops, shgo/DE bounds), "
        "phase_fraction/as_valid_fraction/Rachford-Rice return a value in [0,1], solve_vle_vapor_mol_shgo with only scipy's shgo assumed; real histories (mode B).",
 'C04': "Third session (C04_gap.py): histories on one VLE object (remembered index lists, bubble/dew objects, single-chemical shortcut, T/P/F_mol), Stream.vle on l/g/s streams, "
        "MultiStream.vle when a phase is missing or the phases changed after a flash, VLE built by hand, copies of flashed streams, reads by name/position/phase proxies, locked chemicals "
        "first in the package in the boundary rule and the PH/PS correction, T,H / T,S on a single chemical proved exactly (mode S); ideal package for (T,V), (P,H), (P,S), (T,H), (T,S), "
        "scaling for the other specification pairs, method='shgo' (mode B). 1 more defect repaired (shgo returned a corner).",
 'C05': "Third session (C05_gap.py): KineticReaction, Reaction.conversion, reset_chemicals of sets/items, items and slices applied through __call__, nested ReactionSystem, reactant_flux, "
        "CHECK_FEASIBILITY=False, 2-d mass views, correct_atomic_balance; histories on real balanced reactions (mode B: every operation sequence of length <= 2-3 over 14 programs). 3 more defects repaired.",
 'C06': "Third session (C06_gap.py): dH of objects produced by copy/backwards/reset_chemicals/X and product_yield setters/string parsers, members of copied and sliced sets, Hf revised later; "
        "force_reaction, items and slices, phase views, proxies, linked streams, bare arrays as reaction targets; Hnet setter and adiabatic histories; Hf/Hnet through every channel; real memo on "
        "(mode B). 1 more defect repaired (dH with phases 'L'/'S').",
 'C07': "Third session (C07_gap.py, C07_more.py): Tb/Tm/Hfus/S0/phase_ref setters and copy(ID, **data) incl. locked chemicals, copy_models_from between locked and unlocked chemicals, 'L'/'S' "
        "and by-attribute reads, mixtures with phase-locked chemicals, dense mol inputs, Stream/MultiStream H/S/C channels with cached second reads, pickle / Chemical(ID, phase=) / method "
        "switch / reset histories and EOSMixture extensivity (mode B), constructor keywords method= / phase_ref= (mode B). 1 more defect repaired (Sfus after Hfus/Tm setters).",
 'C08': "Third session (C08_gap.py): Stream/MultiStream entry points (bubble/dew_point_at_T/P, get_bubble/dew_point) incl. default specifications, reordered IDs, zero-flow chemicals, second "
        "calls; tuple/list/int compositions; reactive variants; the REAL Chemical.Tsat with its bracketing call site and vle_domain in mode S; 5-chemical permutations and BubblePointBeta "
        "(mode B). 1 more defect repaired.",
 'C09': "Third session (C09_gap.py): operand = target or one of its rows, slices with empty/negative/zero bounds, view/copy semantics and read-only propagation, every value form of "
        "__setitem__, constructors/converters, query methods, real x boolean operand pairs, two-step histories incl. exact cancellation, reflected operators with array-like left operands (mode "
        "S); SparseLogicalVector and boolean SparseArray get/set and operators exhaustively over all contents of sizes <= 3 / 2x3 (mode B). Mode U: bound-method aliases translated; a kernel "
        "that leaves the VCG subset is run natively on 400 sampled inputs instead of being dropped. 6 more defects repaired.",
 'C10': "Third session (C10_gap.py): get_flow/set_flow/get_data/set_data with units, multi-phase mass view writes, flows given by name at construction/reset and through iarray/ikwarray/"
        "isplit/..., copies, phase proxies, to_chemical/material_indexer, casts, reset_chemicals round trips, the hit branch and all ten call sites of index_overlap, refused lookups as "
        "history, available_indices/__contains__/set_synonym/late aliases, PhaseIndexer over all 31 phase sets. 3 more defects repaired.",
 'C11': "Third session (C11_gap.py): flows/totals given in a unit to the constructors and reset_flow, in-place arithmetic and every index form on the view arrays, normalised/fraction/"
        "composition channels, views interleaved with proxy/copy/scale/mix_from/separate_out/split_to/copy_flow/set_data/temporary/as_stream/reduce_phases/equilibrium accessors/Stream.sum, "
        "unit factors between non-base units with a shared factor cache. 1 more defect repaired; F-C11-4d printed as KNOWN-FINDING.",
 'C12': "Third session (C12_gap.py): the public channels (phases, len, imol[p, ID], iteration, Stream.__getitem__, phase fractions) read before and after every operation, exact zeros and empty() "
        "through views and parents, growth in place through copy_like (single-phase and other-package sources) and mix_from with the contents stated, temporary()/from_data/save-restore on "
        "views, histories of 30 operations over 61 operation kinds.",
 'C13': "Third session (C13_gap.py, C13_more.py): mass-view channel after every step, re-linking to a third stream, successive copy_like/set_data chains on linked targets, StreamData reuse, "
        "streams whose class changed in their history, phase views as originals/partners/pickled objects, pickles of Series/System/Item reactions and packages with groups/aliases/"
        "IdealThermo (mode B), pickles of customised chemicals while the stock chemical of the same ID is in the chemical cache (mode B). 3 more defects repaired; F-C13-K1a-f printed as KNOWN-FINDING.",
 'C14': "Third session (C14_gap.py): phase views read after structural mutators of the parent (phases=, _reset_thermo, link_with, unlink, in-place expansion, collapse and re-expansion, "
        "proxy) against a fresh stream built from the PARENT's row, T, P and package; streams produced from a stream with a filled memo (copy, copy(thermo=), sum, +, -x, *, /, from_data, "
        "pickle); about 85 more mutators and variants (mass/volumetric setters, h/Hnet/S setters incl. fall-backs, += -= /=, mix_from with energy balance and >= 2 inlets, separate_out, "
        "split_to, copy_flow variants, thermal_condition channels, reset_flow, temporary()); vle/lle/vlle/mix_from(vle=True)/receive_vent/ivol writes on real models incl. the solver state "
        "kept inside a Peng-Robinson mixture (mode B, oracle on an independent twin package).",
 'C15': "Third session (C15_gap.py): SLE histories with an unchanged chemical set (another solute, a given-solubility call between computed ones) with the arguments of the eutectic "
        "formula recorded (Tm, Hfus, Cn, gamma of the solute NAMED IN THIS CALL) and the requires of the activity-coefficient model checked; enthalpy-specified sle calls (all pure-solute "
        "sub-branches, the mixture iteration, entry through Stream / MultiStream); lle(T, update=False), the reuse decision after describe-only / single-chemical / empty calls, LLE entry "
        "points (accessors of every stream kind, P given, proxy, copy, phase views, representation changes between calls); real SLE histories and enthalpy calls, (K, phi) of the describe "
        "form for all three methods (mode B). 2 more defects repaired.",
 'C16': "Third session (C16_gap.py): the arrays derived by the REAL GroupActivityCoefficients.__new__ (incl. get_interaction fall-backs, Q = 0 sub-groups, identical group sets) now in mode S for "
        "the limit and permutation sentences; cache/pickle/copy/subset/regroup histories; ideal models after the caller overwrote a returned array; read-only and strided inputs. 1 more defect repaired.",
 'C17': "Third session (C17_gap.py): ReactionItem as operand, reactant at other positions, second and later operations, operands re-based/moved/placed in sets before, reads through the public "
        "interface, backwards with the product in the second phase row / wt basis, slices (stepped, negative, nested) and ReactionSystem conversions, public entry points on every feed kind.",
 'C18': "Third session: mode U now also proves StreamSequence.extend and slice assignment (__setitem__ with a slice -> _set_streams) with INDUCTIVE LOOP INVARIANTS (nothing unrolled), and "
        "AbstractUnit.take_place_of / replace_with(other) / disconnect() MODULARLY against the proved slice-assignment contract (requires as obligations at the call site, ensures + frame as "
        "the only knowledge afterwards). Still bounded: AbstractUnit.insert, pipe notation, Connection.reconnect, slices with a None element or negative bounds.",
 'C19': "Third session (C19_gap.py): real feed sizes and priorities symbolic (mode S: the statement for all real feed sizes per structure), every feed order, bypasses into loops, interlocked and "
        "hanging loops (the rare joining branches), repeated calls, sort with nested sub-networks, every joining step monitored, loop helpers, unconnected inlets (mode B). The recycle clause "
        "is read strictly (a reported recycle lies on a cycle between given units). 1 more defect repaired.",
 'C20': "Third session (C20_gap.py): split as list/tuple, ins as tuple/generator, bottom/permeate among the inlets, second calls and recycles, multi-phase top in the quick tier, moisture "
        "histories, phase_split histories, vle/lle wrappers on multi-phase feeds with a row-faithful equilibrium contract, partition variants and repeat calls, achieved K read through the "
        "library helpers, real Rachford-Rice solver for 1-6 chemicals and real lstsq (mode B). 3 more defects repaired (one of them a regression of a repair made in this session, caught before registration).",
}
for _p, _c in CHECKS.items():
    if _p in ADDENDA3: _c['level_note'] = _c['level_note'] + ' ' + ADDENDA3[_p] + ' Targeted groups added after rounds 3-5 of seeded changes are listed per change in DESIGN.md 8.4.'
