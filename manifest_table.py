# one check(...) call per claimed property; NA[...] = reason for properties not claimed
check('C01', 'proof',
      "Contracts on the real Stream/MultiStream/indexer functions (mix_from, split_to, separate_out, copy_flow(remove), scale, * and unary -): "
      "per-chemical totals, frame (inlets/operands unchanged) and rep_ok are discharged by z3 on every feasible path for ALL real-valued flows, "
      "splits and factors; the structure (receiver kind, inlet kinds/phases, packages, presence pattern) is enumerated from a stated finite family.",
      "Floats as reals (A-real); structure bounded by the configuration family (<=4 chemicals, <=3 inlets quick / pairs exhaustively thorough); "
      "CPython dict/list semantics as executed; run-time rebinding of float/np in thermosteam modules (listed in evidence.trusted_base). "
      "Every path is additionally cross-checked natively with floats.",
      "deductive: sidecar contracts + VC generation by symbolic execution of the real functions, z3 discharge, native replay", "DESIGN.md 4/C01")
check('C09', 'proof',
      "Mode U: 42 SparseVector kernels (the + - * / kernels for scalar/sparse/array operands and their in-place forms, ==, !=, >, <, >=, <= kernels incl. "
      "exec-template expansions) are verified against their contracts (dense image = operator on dense images with length-1 broadcasting, rep_ok of the "
      "result, frame, ValueError exactly on shape mismatch) for vectors of ARBITRARY size: VCs are generated from the AST of the real source on every run "
      "(pointwise loop summaries, no unrolling) and discharged by z3; counter-models are replayed on the real kernel. Mode S: the public operator dispatch "
      "layer (exec-generated __add__.., __iadd__.., comparisons, reduce_ndim, constructors) is checked against NumPy itself on object arrays of the same "
      "symbolic values for every operand pairing up to 2x2 (quick) / 2x3 (thorough).",
      "Floats as reals; NumPy's inf/nan results of division by zero are outside the contract (requires divisor != 0 where the numerator is != 0). "
      "Mode S structure bounded (shapes <= 2x3). Not yet under contract: indexing (__getitem__/__setitem__), reductions, SparseLogicalVector kernels, "
      "copy/neg/abs (they are executed as real code by the other checks). Known findings F-C09-K1a..K4 (NumPy-incompatible broadcasting of the dispatch layer) "
      "are reported as KNOWN-FINDING.",
      "deductive: AST->SMT VC generation with pointwise loop summaries (unbounded sizes) + symbolic execution of the real dispatch code against NumPy as oracle; z3", "DESIGN.md 4/C09")
