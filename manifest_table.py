# one check(...) call per claimed property; NA[...] = reason for properties not claimed
check('C01', 'proof',
      "Contracts on the real Stream/MultiStream/indexer functions (mix_from, split_to, separate_out, copy_flow(remove), scale, * and unary -): "
      "per-chemical totals, frame (inlets/operands unchanged) and rep_ok are discharged by z3 on every feasible path for ALL real-valued flows, "
      "splits and factors; the structure (receiver kind, inlet kinds/phases, packages, presence pattern) is enumerated from a stated finite family.",
      "Floats as reals (A-real); structure bounded by the configuration family (<=4 chemicals, <=3 inlets quick / pairs exhaustively thorough); "
      "CPython dict/list semantics as executed; run-time rebinding of float/np in thermosteam modules (listed in evidence.trusted_base). "
      "Every path is additionally cross-checked natively with floats.",
      "deductive: sidecar contracts + VC generation by symbolic execution of the real functions, z3 discharge, native replay", "DESIGN.md 4/C01")
