# one check(...) call per claimed property; NA[...] = reason for properties not claimed
check('C01', 'proof',
      "Contracts on the real Stream/MultiStream/indexer functions (mix_from, split_to, separate_out, copy_flow(remove), scale, * and unary -): "
      "per-chemical totals, frame (inlets/operands unchanged) and rep_ok are discharged by z3 on every feasible path for ALL real-valued flows, "
      "splits and factors; the structure (receiver kind, inlet kinds/phases, packages, presence pattern) is enumerated from a stated finite family.",
      "Floats as reals (A-real); structure bounded by the configuration family (<=4 chemicals, <=3 inlets quick / pairs exhaustively thorough); "
      "CPython dict/list semantics as executed; run-time rebinding of float/np in thermosteam modules (listed in evidence.trusted_base). "
      "Every path is additionally cross-checked natively with floats.",
      "deductive: sidecar contracts + VC generation by symbolic execution of the real functions, z3 discharge, native replay", "DESIGN.md 4/C01")
check('C09', 'proof',
      "Mode U: 42 SparseVector kernels (the + - * / kernels for scalar/sparse/array operands and their in-place forms, ==, !=, >, <, >=, <= kernels incl. "
      "exec-template expansions) are verified against their contracts (dense image = operator on dense images with length-1 broadcasting, rep_ok of the "
      "result, frame, ValueError exactly on shape mismatch) for vectors of ARBITRARY size: VCs are generated from the AST of the real source on every run "
      "(pointwise loop summaries, no unrolling) and discharged by z3; counter-models are replayed on the real kernel. Mode S: the public operator dispatch "
      "layer (exec-generated __add__.., __iadd__.., comparisons, reduce_ndim, constructors) is checked against NumPy itself on object arrays of the same "
      "symbolic values for every operand pairing up to 2x2 (quick) / 2x3 (thorough).",
      "Floats as reals; NumPy's inf/nan results of division by zero are outside the contract (requires divisor != 0 where the numerator is != 0). "
      "Mode S structure bounded (shapes <= 2x3). Not yet under contract: indexing (__getitem__/__setitem__), reductions, SparseLogicalVector kernels, "
      "copy/neg/abs (they are executed as real code by the other checks). Known findings F-C09-K1a..K4 (NumPy-incompatible broadcasting of the dispatch layer) "
      "are reported as KNOWN-FINDING.",
      "deductive: AST->SMT VC generation with pointwise loop summaries (unbounded sizes) + symbolic execution of the real dispatch code against NumPy as oracle; z3", "DESIGN.md 4/C09")
check('C13', 'proof',
      "For every enumerated pair of stream kinds (single-phase; MultiStream with one, two or three phases built by the constructor or by casting; same, subset and "
      "superset property packages; source phases present or absent in the target) and for all real-valued flows, T, P, price and characterization factors, the real "
      "copy, copy_like, copy_thermal_condition, copy_phase, link_with (all 8 flag subsets), unlink, proxy, flow_proxy, the Stream/MultiStream constructors and the "
      "__reduce__/slot recipes of streams, indexers, phases, thermal conditions, sparse data, reactions, chemicals and packages are executed symbolically and proved to "
      "give equal observable state, to share exactly the advertised containers (object identity plus write-through both ways), to be independent otherwise (frame after "
      "arbitrary symbolic writes) and to round-trip through pickle; every link/unlink/proxy/copy/copy_like/write history of length <= 2 (quick) / 3 (thorough) is "
      "checked against an abstract sharing model.",
      "Mode S: structure bounded by the configuration families (1721 quick, 13237 thorough), values unbounded. A-real, A-cpython, A-pickle (unpickling calls exactly the "
      "__reduce_ex__(2) recipe; the recipe interpreter in the contract file is trusted; real pickle.dumps/loads runs on every native replay/cross-check). Chemical and "
      "Thermo round-trips are native only (bounded). 13 defects found by this check were repaired (fix: commits, known_findings.json).",
      "deductive: sidecar contracts + VC generation by symbolic execution of the real functions, z3 discharge, native replay", "DESIGN.md 4/C13")
