#!/usr/bin/env python3
"""Runs every seeded change under /verif/seeded against the check of its property (scratch worktree, never /repo itself),
records demo + check verdicts in seeded/<id>/meta.json and seeded/RESULTS.json.  Usage: tools_seeded_all.py [ids...]"""
import json, os, subprocess, sys, re
HERE = os.path.dirname(os.path.abspath(__file__))
ids = sys.argv[1:] or sorted(d for d in os.listdir(os.path.join(HERE, 'seeded')) if os.path.isdir(os.path.join(HERE, 'seeded', d)))
claimed = {c['property_id'] for c in json.load(open(os.path.join(HERE, 'MANIFEST.json')))['checks']}
results = {}
rp = os.path.join(HERE, 'seeded', 'RESULTS.json')
if os.path.exists(rp): results = json.load(open(rp))
for i in ids:
    d = os.path.join(HERE, 'seeded', i)
    meta = json.load(open(os.path.join(d, 'meta.json')))
    if str(meta.get('status', '')).startswith('obsolete'):
        results[i] = {'property': meta.get('property'), 'status': meta['status']}; continue
    props = meta.get('checked_with') or [meta.get('property') or i.split('_')[0]]
    entry = {'property': meta.get('property'), 'summary': meta.get('summary'), 'needs': meta.get('needs'), 'checks': {}}
    for p in props:
        if p not in claimed:
            entry['checks'][p] = 'property not claimed (no check)'; continue
        out = subprocess.run([os.path.join(HERE, 'tools_seeded.sh'), d, p, '--jobs', '12'], capture_output=True, text=True).stdout
        m = re.search(r'demo: changed-tree exit=(\d+) unchanged-tree exit=(\d+)', out)
        v = re.search(r'violations: (\d+)', out)
        rc = re.search(r'check exit=(\d+)', out)
        first = next((l for l in out.splitlines() if l.startswith('VIOLATION')), None)
        entry['demo_changed_exit'] = int(m.group(1)) if m else None
        entry['demo_unchanged_exit'] = int(m.group(2)) if m else None
        entry['checks'][p] = {'exit': int(rc.group(1)) if rc else None, 'violation_lines': int(v.group(1)) if v else None,
                              'caught': bool(rc and rc.group(1) == '1'), 'first_violation': first,
                              'ran': f'VERIF_REPO=<scratch worktree with patch.diff applied> ./check {p} --jobs 12'}
        print(i, p, entry['checks'][p]['caught'], entry['checks'][p]['violation_lines'], flush=True)
    results[i] = entry
    meta['verif_result'] = entry['checks']
    json.dump(meta, open(os.path.join(d, 'meta.json'), 'w'), indent=1)
    json.dump(results, open(rp, 'w'), indent=1)
