#!/bin/bash
# Builds /verif/.venv offline: python 3.12 venv with z3-solver, cvc5, jsonschema from the
# wheelhouse, plus a .pth that exposes /venv's site-packages (numpy, scipy, thermo, flexsolve, ...)
# so that thermosteam from /repo (via PYTHONPATH) imports under it.
set -e
cd "$(dirname "$0")"
V=.venv
check_lemmas() {
  # the finite-set lemma schema used by the mode-U query kernels is proved in Lean 4 + Mathlib; re-checked at every fresh set-up
  if command -v lean >/dev/null 2>&1 && timeout 900 lean lemmas/FinsetCard.lean > $V/lemmas_checked.log 2>&1 && ! grep -q "error\|sorry" $V/lemmas_checked.log; then
    echo "checked by lean $(lean --version 2>/dev/null | head -1)" > $V/lemmas_checked
  else
    echo "NOT checked (lean unavailable or the check failed): the lemma schema is an assumption" > $V/lemmas_checked
  fi
  echo "setup: lemmas/FinsetCard.lean: $(cat $V/lemmas_checked)"
}
if [ -x $V/bin/python ] && $V/bin/python -c "import z3, jsonschema, numpy" 2>/dev/null; then
  [ -f $V/lemmas_checked ] || check_lemmas
  echo "setup: $V already usable"; exit 0
fi
rm -rf $V
/venv/bin/python -m venv $V
PIP_NO_INDEX=1 $V/bin/python -m pip install -q --no-index --find-links /opt/veriftools/wheels z3-solver cvc5 jsonschema
SP=$($V/bin/python -c "import sysconfig; print(sysconfig.get_paths()['purelib'])")
echo "import site; site.addsitedir('/venv/lib/python3.12/site-packages')" > $SP/_repo_deps.pth
PYTHONPATH=/repo $V/bin/python -c "import z3, jsonschema, numpy, thermosteam; print('setup ok: z3', z3.get_version_string())"
check_lemmas
