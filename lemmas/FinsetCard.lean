/-
Finite-set lemmas used as a lemma schema by the mode-U VC generator (engine/vcg/kernels_more.py, `spec_query.lemmas`):
the key set `dom` of a Python dict is a finite set of integers; the representation invariant of SparseVector (a REQUIRES of
every kernel, for every key) puts it inside `range(size)`.  `card` is `len(dct)`.

  F0  card dom ≤ size
  F1  card dom = size → every t < size is a key
  F2  card dom < size → some h < size is not a key

SMT solvers cannot prove these (pigeonhole); they are proved here once, independent of any solver, and checked by
`lean` on every `./setup.sh` (result recorded in .venv/lemmas_checked).
-/
import Mathlib.Data.Finset.Card
import Mathlib.Data.Finset.Range

open Finset

theorem F0 (dom : Finset ℕ) (size : ℕ) (rep_ok : dom ⊆ range size) : dom.card ≤ size := by
  simpa using card_le_card rep_ok

theorem F1 (dom : Finset ℕ) (size : ℕ) (rep_ok : dom ⊆ range size) (h : dom.card = size) :
    ∀ t, t < size → t ∈ dom := by
  have heq : dom = range size := eq_of_subset_of_card_le rep_ok (by simp [h])
  intro t ht
  rw [heq]; exact mem_range.mpr ht

theorem F2 (dom : Finset ℕ) (size : ℕ) (_rep_ok : dom ⊆ range size) (h : dom.card < size) :
    ∃ t, t < size ∧ t ∉ dom := by
  by_contra hcon
  push Not at hcon
  have hsub : range size ⊆ dom := fun t ht => hcon t (mem_range.mp ht)
  have : size ≤ dom.card := by simpa using card_le_card hsub
  omega
