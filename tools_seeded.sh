#!/bin/bash
# tools_seeded.sh <dir with patch.diff [demo.py meta.json]> <property> [more ./check args]
# Applies a seeded change to a scratch worktree of /repo (never to /repo itself while other work is running),
# confirms the demonstration (fails with the change / passes without), runs the property's quick check against it,
# prints the verdict and removes the worktree again.
set -u
D=$(realpath "$1"); P=$2; shift 2
WT=$(mktemp -d /tmp/seedwt.XXXXXX); rmdir "$WT"
git -C /repo worktree add -q --detach "$WT" HEAD || exit 3
trap 'git -C /repo worktree remove --force "$WT" >/dev/null 2>&1' EXIT
if ! git -C "$WT" apply "$D/patch.diff"; then echo "SEEDED $P $(basename $D): patch does not apply"; exit 3; fi
export NUMBA_CACHE_DIR="$WT.numba"    # concurrent demos writing numba's on-disk cache next to the sources fail spuriously
if [ -f "$D/demo.py" ]; then
  (cd "$WT" && PYTHONPATH="$WT" timeout 600 /venv/bin/python -W ignore "$D/demo.py" >/dev/null 2>&1); dc=$?
  (cd /tmp && PYTHONPATH=/repo timeout 600 /venv/bin/python -W ignore "$D/demo.py" >/dev/null 2>&1); du=$?
  echo "demo: changed-tree exit=$dc unchanged-tree exit=$du"
fi
cd /verif && VERIF_EVIDENCE_DIR="$WT.ev" VERIF_REPO="$WT" ./check "$P" "$@" > "$WT.log" 2>&1; rc=$?
grep -c '^VIOLATION' "$WT.log" | sed 's/^/violations: /'
grep '^VIOLATION' "$WT.log" | head -3
tail -1 "$WT.log"
echo "SEEDED $P $(basename $D): check exit=$rc"
rm -rf "$WT.log" "$WT.ev" "$WT.numba"
